/-
Evaluates the hypothesis of `C12_history` (`legalSeq`) on the histories a check run generated: one JSON array of forest
steps per input line, one line "true" / "false" out.  Run: lake env lean --run scripts/LegalEval.lean < histories.jsonl
-/
import EmdProps.C12
import EmdDriver.Protocol

open Lean EmdModel EmdProps EmdDriver.Protocol

def topOfJson (j : Json) : P (Option TOp) := do
  let what ← strField j "do"
  match what with
  | "root" => pure (some (.mkRoot (← strField j "name")))
  | "node" => pure (some (.mkNode (← strField j "name")))
  | "md" => pure (some (.addMd (← natField j "node") (← strField j "name") (← strField j "content")))
  | "add" => pure (some (.add (← natField j "parent") (← natField j "child")))
  | "force" => pure (some (.force (← natField j "parent") (← natField j "child")))
  | "graft" => pure (some (.graft (← natField j "recv") (← natField j "scion") (mdOptOfJson ((optField j "opt").getD Json.null))))
  | "cut" => pure (some (.cut (← natField j "node") (mdOptOfJson ((optField j "opt").getD Json.null))))
  | "get" => pure none
  | _ => throw ("bad forest step " ++ what)

partial def loop (h : IO.FS.Stream) : IO Unit := do
  let line ← h.getLine
  if line.isEmpty then return ()
  let out : String := match Json.parse line with
    | .error e => "bad-json " ++ e
    | .ok j => match j.getArr? with
      | .error e => "bad-json " ++ e
      | .ok steps => match steps.toList.mapM topOfJson with
        | .error e => "bad-step " ++ e
        | .ok ops => toString (legalSeq {} (ops.filterMap id))
  IO.println out
  loop h

def main : IO Unit := do loop (← IO.getStdin)
