import EmdGen.Version
import EmdGen.Tables
