/-
emd_driver: the executable model behind a one-line-in / one-line-out JSON protocol.
Glue only (parsing / printing); everything that decides anything lives in EmdModel / EmdGen.
-/
import Lean.Data.Json
import EmdGen
import EmdModel
import EmdDriver.Protocol

open Lean

namespace Driver

def getInt (j : Json) (k : String) : Except String Int := do
  let v ← j.getObjVal? k
  v.getInt?

def handle (j : Json) : Except String Json := do
  let op ← (← j.getObjVal? "op").getStr?
  match op with
  | "version_geq" =>
    let c ← (← j.getObjVal? "c").getArr?
    let m ← (← j.getObjVal? "m").getArr?
    if c.size != 3 || m.size != 3 then throw "bad-arity"
    let ci ← c.toList.mapM (·.getInt?)
    let mi ← m.toList.mapM (·.getInt?)
    match ci, mi with
    | [c0, c1, c2], [m0, m1, m2] => pure (Json.mkObj [("r", Json.bool (EmdGen.versionIsGeq c0 c1 c2 m0 m1 m2))])
    | _, _ => throw "bad-arity"
  | _ => EmdDriver.Protocol.handle op j

partial def loop (h : IO.FS.Stream) (out : IO.FS.Stream) : IO Unit := do
  let line ← h.getLine
  if line.isEmpty then return ()
  let res : Json :=
    match Json.parse line with
    | .error e => Json.mkObj [("bad", Json.str ("parse: " ++ e))]
    | .ok j =>
      match handle j with
      | .ok r => r
      | .error e => Json.mkObj [("bad", Json.str e)]
  out.putStrLn res.compress
  out.flush
  loop h out

end Driver

def main : IO Unit := do
  Driver.loop (← IO.getStdin) (← IO.getStdout)
