import EmdDriver.Protocol
