import EmdProps.C20
import EmdProps.C01
