import EmdProps.C20
