import EmdProps.C20
import EmdProps.C01
import EmdProps.C07
import EmdProps.C08
import EmdProps.C09
import EmdProps.C10
import EmdProps.C11
import EmdProps.C05
