import EmdModel.Basic
