import EmdModel.Basic
import EmdModel.H5
import EmdModel.Tree
import EmdModel.Write
import EmdModel.Save
import EmdModel.SaveList
import EmdModel.Read
import EmdModel.Valid
