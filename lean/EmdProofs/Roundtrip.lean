/-
EmdProofs.Roundtrip — on well-formed trees the writer computes `encode`, and the reader inverts `encode`.
-/
import EmdProofs.TreeWF

set_option linter.unusedSimpArgs false

namespace EmdModel

variable {ct : ClassTable} {dt : List String}

theorem createIn_fresh (a : Attrs) (k : List (String × Obj)) (n : String) (o : Obj)
    (hv : validName n = true) (hn : alookup n k = none) :
    createIn (.group a k) n o = .ok (.group a (k ++ [(n, o)])) := by
  simp [createIn, Obj.isGroup, hv, hn, Obj.kids, Obj.setKids, pure, Except.pure]

mutual
theorem writeNodeFull_ok : ∀ (t : Tree), t.wf ct dt = true → writeNodeFull t = .ok (encode t)
  | .mk i kids, h => by
    simp only [Tree.wf, Bool.and_eq_true] at h
    simp only [writeNodeFull, nodeGroup, encode]
    exact writeKids_ok kids (nodeAttrs i) i.body (akeys i.body)
      (fun n hn => alookup_isSome_mem_akeys n i.body hn) h.2
theorem writeKids_ok : ∀ (kids : List Tree) (a : Attrs) (gk : List (String × Obj)) (taken : List String),
    (∀ n, (alookup n gk).isSome = true → n ∈ taken) → kidsWF ct dt taken kids = true →
    writeKids (.group a gk) kids = .ok (.group a (gk ++ encodeKids kids))
  | [], a, gk, taken, _, _ => by simp [writeKids, encodeKids, pure, Except.pure]
  | t :: ts, a, gk, taken, hk, h => by
    simp only [kidsWF, Bool.and_eq_true, Bool.not_eq_true', List.contains_eq_mem, decide_eq_false_iff_not] at h
    obtain ⟨⟨⟨hfresh, _⟩, hwf⟩, hrest⟩ := h
    have hv : validName t.name = true := infoWF_validName (Tree.wf_info hwf)
    have hno : alookup t.name gk = none := by
      cases hl : alookup t.name gk with
      | none => rfl
      | some v => exact absurd (hk t.name (by simp [hl])) hfresh
    have ih := writeKids_ok ts a (gk ++ [(t.name, encode t)]) (t.name :: taken) (by
      intro n hn
      rw [alookup_append] at hn
      cases hl : alookup n gk with
      | some v => exact List.mem_cons_of_mem _ (hk n (by simp [hl]))
      | none =>
        simp only [hl, alookup_single] at hn
        split at hn
        · next heq => simp [← heq]
        · simp at hn) hrest
    simp only [writeKids, Obj.isGroup, Obj.kids, Obj.setKids, hv, hno, writeNodeFull_ok t hwf,
      Bool.not_true, Bool.false_eq_true, if_false, Option.isSome_none, bind, Except.bind]
    rw [ih]
    simp [encodeKids, List.append_assoc]
end

theorem isDataKid_encode (t : Tree) (h : dt.contains t.info.gtype = true) : isDataKid dt (encode t) = true := by
  cases t with
  | mk i kids =>
    simp only [Tree.info] at h
    simp only [List.contains_eq_mem, decide_eq_true_eq] at h
    simp [encode, isDataKid, hasDataTag, Obj.isGroup, Obj.gtype, Obj.attrs, nodeAttrs, alookup, h]

@[simp] theorem pyClass_nodeAttrs (i : NodeInfo) (k : List (String × Obj)) :
    (Obj.group (nodeAttrs i) k).pyClass = some i.cls := by
  simp [Obj.pyClass, Obj.attrs, nodeAttrs, alookup]

@[simp] theorem gtype_nodeAttrs (i : NodeInfo) (k : List (String × Obj)) :
    (Obj.group (nodeAttrs i) k).gtype = some i.gtype := by
  simp [Obj.gtype, Obj.attrs, nodeAttrs, alookup]

theorem bodyOf_encode (a : Attrs) (body : List (String × Obj)) (kids : List Tree) (taken : List String)
    (hb' : body.all (fun kv => !hasDataTag dt kv.2) = true) (hk : kidsWF ct dt taken kids = true) :
    bodyOf dt (.group a (body ++ encodeKids kids)) = body := by
  have hb := body_not_dataKid hb'
  simp only [bodyOf, Obj.kids, List.filter_append]
  have h1 : body.filter (fun kv => !isDataKid dt kv.2) = body := by
    rw [List.filter_eq_self]
    intro x hx
    exact (List.all_eq_true.mp hb) x hx
  have h2 : ∀ (ks : List Tree) (tk : List String), kidsWF ct dt tk ks = true →
      (encodeKids ks).filter (fun kv => !isDataKid dt kv.2) = [] := by
    intro ks
    induction ks with
    | nil => intro _ _; simp [encodeKids]
    | cons t ts ih =>
      intro tk h
      simp only [kidsWF, Bool.and_eq_true] at h
      obtain ⟨⟨⟨_, hd⟩, _⟩, hr⟩ := h
      simp only [encodeKids, List.filter_cons, isDataKid_encode t hd, Bool.not_true, Bool.false_eq_true, if_false]
      exact ih _ hr
  rw [h1, h2 kids taken hk]; simp

theorem populateKids_body (body rest : List (String × Obj))
    (hb' : body.all (fun kv => !hasDataTag dt kv.2) = true) :
    populateKids ct dt (body ++ rest) = populateKids ct dt rest := by
  have hb := body_not_dataKid hb'
  clear hb'
  induction body with
  | nil => rfl
  | cons kv b ih =>
    obtain ⟨k, o⟩ := kv
    simp only [List.all_cons, Bool.and_eq_true, Bool.not_eq_true'] at hb
    simp only [List.cons_append, populateKids, hb.1, Bool.false_eq_true, if_false]
    exact ih hb.2

mutual
theorem readNodeFull_encode : ∀ (t : Tree), t.wf ct dt = true →
    readNodeFull ct dt t.name (encode t) = .ok t
  | .mk i kids, h => by
    have hw := h
    simp only [Tree.wf, Bool.and_eq_true] at h
    obtain ⟨hi, hk⟩ := h
    have hi' := hi
    simp only [infoWF, Bool.and_eq_true, beq_iff_eq] at hi
    obtain ⟨⟨⟨_, hct⟩, hgt⟩, hb⟩ := hi
    have hbody := bodyOf_encode (ct := ct) (nodeAttrs i) i.body kids (akeys i.body) hb hk
    have hpop : populateKids ct dt (i.body ++ encodeKids kids) = .ok kids := by
      rw [populateKids_body _ _ hb]
      exact populateKids_encode kids (akeys i.body) hk
    simp only [encode, readNodeFull, readSingleNode, pyClass_nodeAttrs, gtype_nodeAttrs,
      Tree.name, Tree.info, hct, hgt, hbody, hpop, bind, Except.bind, pure, Except.pure, Obj.kids]
    simp
theorem populateKids_encode : ∀ (kids : List Tree) (taken : List String), kidsWF ct dt taken kids = true →
    populateKids ct dt (encodeKids kids) = .ok kids
  | [], _, _ => by simp [encodeKids, populateKids, pure, Except.pure]
  | t :: ts, taken, h => by
    simp only [kidsWF, Bool.and_eq_true] at h
    obtain ⟨⟨⟨_, hd⟩, hw⟩, hr⟩ := h
    simp only [encodeKids, populateKids, isDataKid_encode t hd, if_true, readNodeFull_encode t hw,
      populateKids_encode ts _ hr, bind, Except.bind, pure, Except.pure]
end

end EmdModel
