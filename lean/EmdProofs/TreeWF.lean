/-
EmdProofs.TreeWF — the explicit, decidable well-formedness predicate of the tree-level theorems.
-/
import EmdProofs.Basic

namespace EmdModel

/-- a node the theorems speak about: a valid link name, a class the reader can find and whose group type
    the class table agrees on, a group type of the EMD vocabulary, and a body none of whose entries carries a
    data group type tag (so none could be mistaken for a tree child) -/
def infoWF (ct : ClassTable) (dt : List String) (i : NodeInfo) : Bool :=
  validName i.name && (alookup i.cls ct == some i.gtype) && EmdGen.groupTypes.contains i.gtype
    && i.body.all (fun kv => !hasDataTag dt kv.2)

mutual
/-- well-formed tree: every node is `infoWF`; below every node the child names are pairwise distinct
    (a Python dict guarantees it) and differ from the names of the objects in the node's own body;
    every child carries a data group type -/
def Tree.wf (ct : ClassTable) (dt : List String) : Tree → Bool
  | .mk i kids => infoWF ct dt i && kidsWF ct dt (akeys i.body) kids
def kidsWF (ct : ClassTable) (dt : List String) (taken : List String) : List Tree → Bool
  | [] => true
  | t :: ts => !taken.contains t.name && dt.contains t.info.gtype && t.wf ct dt && kidsWF ct dt (t.name :: taken) ts
end

/-- a well-formed rooted tree additionally starts with a Root -/
def Tree.rootedWF (ct : ClassTable) (dt : List String) (t : Tree) : Bool :=
  t.wf ct dt && t.info.cls == "Root" && t.info.gtype == "root"

theorem Tree.wf_info {ct dt} {t : Tree} (h : t.wf ct dt = true) : infoWF ct dt t.info = true := by
  cases t with
  | mk i kids => simp only [Tree.wf, Bool.and_eq_true] at h; exact h.1

theorem Tree.wf_kids {ct dt} {t : Tree} (h : t.wf ct dt = true) : kidsWF ct dt (akeys t.info.body) t.kids = true := by
  cases t with
  | mk i kids => simp only [Tree.wf, Bool.and_eq_true] at h; exact h.2

theorem infoWF_validName {ct dt} {i : NodeInfo} (h : infoWF ct dt i = true) : validName i.name = true := by
  simp only [infoWF, Bool.and_eq_true] at h; exact h.1.1.1

theorem kidsWF_mono {ct dt} : ∀ (kids : List Tree) (t1 t2 : List String), (∀ n, n ∈ t2 → n ∈ t1) →
    kidsWF ct dt t1 kids = true → kidsWF ct dt t2 kids = true
  | [], _, _, _, _ => by simp [kidsWF]
  | t :: ts, t1, t2, hsub, h => by
    simp only [kidsWF, Bool.and_eq_true, Bool.not_eq_true', List.contains_eq_mem, decide_eq_false_iff_not] at h ⊢
    obtain ⟨⟨⟨hf, hd⟩, hw⟩, hr⟩ := h
    refine ⟨⟨⟨fun hm => hf (hsub _ hm), hd⟩, hw⟩, ?_⟩
    exact kidsWF_mono ts (t.name :: t1) (t.name :: t2) (fun n hn => by
      simp only [List.mem_cons] at hn ⊢
      cases hn with
      | inl h => exact Or.inl h
      | inr h => exact Or.inr (hsub _ h)) hr

theorem body_not_dataKid {dt : List String} {body : List (String × Obj)}
    (h : body.all (fun kv => !hasDataTag dt kv.2) = true) : body.all (fun kv => !isDataKid dt kv.2) = true := by
  rw [List.all_eq_true] at h ⊢
  intro x hx
  have := h x hx
  simp only [Bool.not_eq_true', isDataKid, Bool.and_eq_false_iff] at this ⊢
  exact Or.inr this

end EmdModel
