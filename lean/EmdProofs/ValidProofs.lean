/-
EmdProofs.ValidProofs — the encoding of a well-formed tree whose node bodies are valid is a valid EMD group.
-/
import EmdProofs.AppendSpec

set_option linter.unusedSimpArgs false

namespace EmdModel

variable {ct : ClassTable} {dt : List String}

mutual
/-- every node of the tree satisfies `P` -/
def Tree.allInfo (P : NodeInfo → Bool) : Tree → Bool
  | .mk i kids => P i && allInfoKids P kids
def allInfoKids (P : NodeInfo → Bool) : List Tree → Bool
  | [] => true
  | t :: ts => t.allInfo P && allInfoKids P ts
end

theorem validKids_body (body rest : List (String × Obj))
    (hb : body.all (fun kv => !hasDataTag dt kv.2) = true) :
    validKids dt (body ++ rest) = validKids dt rest := by
  have hb' := body_not_dataKid hb
  clear hb
  induction body with
  | nil => rfl
  | cons kv b ih =>
    obtain ⟨k, o⟩ := kv
    simp only [List.all_cons, Bool.and_eq_true, Bool.not_eq_true'] at hb'
    simp only [List.cons_append, validKids, hb'.1, Bool.false_eq_true, if_false, Bool.true_and]
    exact ih hb'.2

mutual
theorem validGroup_encode : ∀ (t : Tree), t.wf ct dt = true → t.allInfo infoOK = true →
    validGroup dt (encode t) = true
  | .mk i kids, hw, hp => by
    simp only [Tree.wf, Bool.and_eq_true] at hw
    obtain ⟨hi, hk⟩ := hw
    simp only [Tree.allInfo, Bool.and_eq_true] at hp
    have hi' := hi
    simp only [infoWF, Bool.and_eq_true] at hi
    have hbody := bodyOf_encode (ct := ct) (dt := dt) (nodeAttrs i) i.body kids (akeys i.body) hi.2 hk
    simp only [bodyOf, Obj.kids] at hbody
    have hkids : validKids dt (i.body ++ encodeKids kids) = true := by
      rw [validKids_body _ _ hi.2]
      exact validKids_encode kids (akeys i.body) hk hp.2
    have hok : bodyOK i.gtype i.body = true := hp.1
    have hg : i.gtype ∈ EmdGen.groupTypes := by simpa using hi.1.2
    simp only [encode, validGroup, nodeAttrs, alookup, hbody, hi.1.2, hok, hkids]
    simp [hg, hok]
theorem validKids_encode : ∀ (kids : List Tree) (taken : List String), kidsWF ct dt taken kids = true →
    allInfoKids infoOK kids = true → validKids dt (encodeKids kids) = true
  | [], _, _, _ => by simp [encodeKids, validKids]
  | t :: ts, taken, hw, hp => by
    simp only [kidsWF, Bool.and_eq_true] at hw
    simp only [allInfoKids, Bool.and_eq_true] at hp
    simp only [encodeKids, validKids, isDataKid_encode t hw.1.1.2, if_true, validGroup_encode t hw.1.2 hp.1,
      validKids_encode ts _ hw.2 hp.2, Bool.and_self]
end

end EmdModel
