/-
EmdProofs.Basic — lemmas about association lists.
-/
import EmdModel

namespace EmdModel

theorem alookup_append {β : Type} (n : String) (l r : List (String × β)) :
    alookup n (l ++ r) = match alookup n l with
      | some v => some v
      | none => alookup n r := by
  induction l with
  | nil => simp [alookup]
  | cons kv l ih =>
    obtain ⟨k, v⟩ := kv
    simp only [List.cons_append, alookup]
    split <;> simp_all

theorem alookup_single {β : Type} (n k : String) (v : β) :
    alookup n [(k, v)] = if k = n then some v else none := by
  simp [alookup]

theorem alookup_isSome_mem_akeys {β : Type} (n : String) (l : List (String × β)) :
    (alookup n l).isSome = true → n ∈ akeys l := by
  induction l with
  | nil => simp [alookup]
  | cons kv l ih =>
    obtain ⟨k, v⟩ := kv
    simp only [alookup, akeys, List.map_cons, List.mem_cons]
    split
    · intro _; left; simp_all
    · intro h; right; exact ih h

theorem alookup_none_of_not_mem {β : Type} (n : String) (l : List (String × β)) :
    n ∉ akeys l → alookup n l = none := by
  intro h
  cases hl : alookup n l with
  | none => rfl
  | some v => exact absurd (alookup_isSome_mem_akeys n l (by simp [hl])) h

theorem alookup_areplace_same {β : Type} (n : String) (v : β) (l : List (String × β))
    (h : (alookup n l).isSome = true) : alookup n (areplace n v l) = some v := by
  induction l with
  | nil => simp [alookup] at h
  | cons kv l ih =>
    obtain ⟨k, w⟩ := kv
    simp only [areplace]
    by_cases hk : k = n
    · simp [hk, alookup]
    · simp only [hk, if_false, alookup]
      simp only [alookup, hk, if_false] at h
      exact ih h

theorem alookup_areplace_other {β : Type} (n m : String) (v : β) (l : List (String × β)) (h : m ≠ n) :
    alookup m (areplace n v l) = alookup m l := by
  induction l with
  | nil => simp [areplace, alookup]
  | cons kv l ih =>
    obtain ⟨k, w⟩ := kv
    simp only [areplace]
    by_cases hk : k = n
    · subst hk; simp [alookup, Ne.symm h]
    · simp only [hk, if_false, alookup, ih]

theorem akeys_areplace {β : Type} (n : String) (v : β) (l : List (String × β)) :
    akeys (areplace n v l) = akeys l := by
  induction l with
  | nil => rfl
  | cons kv l ih =>
    obtain ⟨k, w⟩ := kv
    simp only [areplace]
    split
    · simp [akeys]
    · simp only [akeys, List.map_cons] at ih ⊢; rw [ih]

theorem akeys_append {β : Type} (l r : List (String × β)) : akeys (l ++ r) = akeys l ++ akeys r := by
  simp [akeys]

theorem alookup_aeraseAll_same {β : Type} (n : String) (l : List (String × β)) :
    alookup n (aeraseAll n l) = none := by
  induction l with
  | nil => rfl
  | cons kv l ih =>
    obtain ⟨k, v⟩ := kv
    simp only [aeraseAll, List.filter_cons]
    by_cases hk : k = n
    · simp only [hk, ne_eq, not_true_eq_false, decide_false, Bool.false_eq_true, if_false]; exact ih
    · simp only [ne_eq, hk, not_false_eq_true, decide_true, if_true, alookup, if_false]; exact ih

theorem alookup_aeraseAll_other {β : Type} (n m : String) (l : List (String × β)) (h : m ≠ n) :
    alookup m (aeraseAll n l) = alookup m l := by
  induction l with
  | nil => rfl
  | cons kv l ih =>
    obtain ⟨k, v⟩ := kv
    unfold aeraseAll at ih ⊢
    simp only [List.filter_cons]
    by_cases hk : k = n
    · subst hk
      have : k ≠ m := fun e => h e.symm
      simp only [ne_eq, not_true_eq_false, decide_false, Bool.false_eq_true, if_false, alookup, this]
      exact ih
    · simp only [ne_eq, hk, not_false_eq_true, decide_true, if_true, alookup]
      split
      · rfl
      · exact ih

theorem alookup_isSome_of_mem_akeys {β : Type} (n : String) (l : List (String × β)) :
    n ∈ akeys l → (alookup n l).isSome = true := by
  induction l with
  | nil => simp [akeys]
  | cons kv l ih =>
    obtain ⟨k, v⟩ := kv
    simp only [akeys, List.map_cons, List.mem_cons, alookup]
    intro h
    split
    · rfl
    · next hne =>
      cases h with
      | inl e => exact absurd e.symm hne
      | inr e => exact ih e

theorem alookup_mem {β : Type} (n : String) (w : β) (l : List (String × β)) (h : alookup n l = some w) :
    (n, w) ∈ l := by
  induction l with
  | nil => simp [alookup] at h
  | cons kv l ih =>
    obtain ⟨k, x⟩ := kv
    simp only [alookup] at h
    split at h
    · next hk => cases h; simp [hk]
    · exact List.mem_cons_of_mem _ (ih h)

@[simp] theorem Tree.info_mk (i : NodeInfo) (k : List Tree) : (Tree.mk i k).info = i := rfl
@[simp] theorem Tree.kids_mk (i : NodeInfo) (k : List Tree) : (Tree.mk i k).kids = k := rfl
@[simp] theorem Tree.name_mk (i : NodeInfo) (k : List Tree) : (Tree.mk i k).name = i.name := rfl

end EmdModel
