import EmdModel
