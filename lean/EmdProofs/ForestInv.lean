/-
EmdProofs.ForestInv — the whole-forest invariant of the heap model and its preservation by the two surgeries every tree
operation is made of: DETACH a branch (it becomes a floating top-level object) and ATTACH a top-level object under a node.
-/
import EmdProofs.ForestLemmas
import EmdProofs.ForestCons

set_option linter.unusedSimpArgs false
set_option linter.unusedVariables false

namespace EmdProps
open EmdModel

mutual
/-- no Root inside: the node and all its descendants are ordinary nodes -/
def plain : RNode → Bool
  | .mk _ _ isR _ _ _ ks => !isR && plainL ks
def plainL : List RNode → Bool
  | [] => true
  | k :: ks => plain k && plainL ks
end

/-- the invariant on the list of top-level objects, with one object `float` (by id) exempt from the "lone" clause -/
structure ForestOKx (float : Option Nat) (cs : List RNode) : Prop where
  ids : (idsL cs).Nodup
  names : (namesL cs).Nodup
  plainKids : ∀ c ∈ cs, plainL c.kids = true
  roots : ∀ c ∈ cs, c.isRoot = true → consistent (some c.id) "" c = true
  lone : ∀ c ∈ cs, c.isRoot = false → some c.id ≠ float → c.root = none ∧ c.kids = []

/-- well-formed forest: unique ids and names; Roots are top-level and every node below a Root records that Root and
    its real path; every other top-level object is a single unrooted node -/
abbrev ForestOK (cs : List RNode) : Prop := ForestOKx none cs

/-! ### plain -/

theorem plain_mk (i : Nat) (n : String) (r : Bool) (ro : Option Nat) (t : Option String) (m : List (String × Nat))
    (ks : List RNode) : plain (.mk i n r ro t m ks) = (!r && plainL ks) := by simp [plain]

theorem plain_kids (t : RNode) (h : plain t = true) : plainL t.kids = true := by
  cases t; simp only [plain, Bool.and_eq_true] at h; exact h.2

theorem plain_isRoot (t : RNode) (h : plain t = true) : t.isRoot = false := by
  cases t; simp only [plain, Bool.and_eq_true, Bool.not_eq_true'] at h; exact h.1

theorem plainL_mem {ks : List RNode} (h : plainL ks = true) {k : RNode} (hk : k ∈ ks) : plain k = true := by
  induction ks with
  | nil => cases hk
  | cons x xs ih =>
    simp only [plainL, Bool.and_eq_true] at h
    cases hk with
    | head => exact h.1
    | tail _ h' => exact ih h.2 h'

theorem plainL_append (a b : List RNode) : plainL (a ++ b) = (plainL a && plainL b) := by
  induction a with
  | nil => simp [plainL]
  | cons x xs ih => simp [plainL, ih, Bool.and_assoc]

theorem plainL_filter (p : RNode → Bool) : ∀ (ks : List RNode), plainL ks = true → plainL (ks.filter p) = true
  | [], _ => by simp [plainL]
  | k :: ks, h => by
    simp only [plainL, Bool.and_eq_true] at h
    simp only [List.filter_cons]
    split
    · simp only [plainL, Bool.and_eq_true]; exact ⟨h.1, plainL_filter p ks h.2⟩
    · exact plainL_filter p ks h.2

mutual
theorem plain_relabel (r : Option Nat) : ∀ (t : RNode) (p : String), plain (relabel r p t) = plain t
  | .mk i n isR ro tp m ks, p => by simp only [relabel, plain]; rw [plainL_relabelKids r ks p]
theorem plainL_relabelKids (r : Option Nat) : ∀ (ks : List RNode) (p : String), plainL (relabelKids r p ks) = plainL ks
  | [], _ => by simp [relabelKids]
  | k :: ks, p => by simp only [relabelKids, plainL]; rw [plain_relabel r k _, plainL_relabelKids r ks p]
end

theorem plain_unroot (t : RNode) : plain (unroot t) = plain t := by cases t; simp [unroot, plain]

theorem plainL_setKidR (c : RNode) (hc : plain c = true) : ∀ (ks : List RNode), plainL ks = true → plainL (setKidR c ks) = true
  | [], _ => by simp [setKidR, plainL, hc]
  | k :: ks, h => by
    simp only [plainL, Bool.and_eq_true] at h
    simp only [setKidR]
    split
    · simp only [plainL, Bool.and_eq_true]; exact ⟨hc, h.2⟩
    · simp only [plainL, Bool.and_eq_true]; exact ⟨h.1, plainL_setKidR c hc ks h.2⟩

theorem plainL_hangF_kids (c p : RNode) (hc : plain c = true) (hp : plainL p.kids = true) : plainL (hangF c p).kids = true := by
  cases p with
  | mk i n r ro tp m ks =>
    simp only [hangF, RNode.setKids, RNode.kids, RNode.root, RNode.treepath] at hp ⊢
    exact plainL_setKidR _ (by rw [plain_relabel]; exact hc) ks hp

theorem hangF_id (c p : RNode) : (hangF c p).id = p.id := by cases p; rfl
theorem hangF_isRoot (c p : RNode) : (hangF c p).isRoot = p.isRoot := by cases p; rfl
theorem hangF_name (c p : RNode) : (hangF c p).name = p.name := by cases p; rfl

mutual
/-- hanging a plain branch somewhere inside a plain branch leaves it plain -/
theorem plain_updateIn_hang (id : Nat) (c : RNode) (hc : plain c = true) : ∀ (t : RNode), plain t = true →
    plain (updateIn id (hangF c) t) = true
  | .mk i n r ro tp m ks, h => by
    simp only [updateIn]
    split
    · have hk := plainL_hangF_kids c (.mk i n r ro tp m ks) hc (plain_kids _ h)
      have hr := plain_isRoot _ h
      simp only [hangF, RNode.setKids, RNode.kids, RNode.root, RNode.treepath, RNode.isRoot] at hk hr ⊢
      simp only [plain, Bool.and_eq_true, Bool.not_eq_true']
      exact ⟨hr, hk⟩
    · simp only [plain, Bool.and_eq_true] at h ⊢
      exact ⟨h.1, plainL_updateInList_hang id c hc ks h.2⟩
theorem plainL_updateInList_hang (id : Nat) (c : RNode) (hc : plain c = true) : ∀ (ks : List RNode), plainL ks = true →
    plainL (updateInList id (hangF c) ks) = true
  | [], _ => by simp [updateInList, plainL]
  | k :: ks, h => by
    simp only [plainL, Bool.and_eq_true] at h
    simp only [updateInList, plainL, Bool.and_eq_true]
    exact ⟨plain_updateIn_hang id c hc k h.1, plainL_updateInList_hang id c hc ks h.2⟩
end

/-- the same for a top-level object (which may itself be a Root): its children stay plain -/
theorem plainL_kids_updateIn_hang (id : Nat) (c : RNode) (hc : plain c = true) (t : RNode) (h : plainL t.kids = true) :
    plainL (updateIn id (hangF c) t).kids = true := by
  cases t with
  | mk i n r ro tp m ks =>
    simp only [updateIn]
    split
    · exact plainL_hangF_kids c _ hc h
    · simp only [RNode.kids] at h ⊢
      exact plainL_updateInList_hang id c hc ks h

mutual
theorem plain_removeIn (id : Nat) : ∀ (t : RNode), plain t = true → plain (removeIn id t) = true
  | .mk i n r ro tp m ks, h => by
    simp only [plain, Bool.and_eq_true] at h
    simp only [removeIn, plain, Bool.and_eq_true]
    exact ⟨h.1, plainL_removeInList id ks h.2⟩
theorem plainL_removeInList (id : Nat) : ∀ (ks : List RNode), plainL ks = true → plainL (removeInList id ks) = true
  | [], _ => by simp [removeInList, plainL]
  | k :: ks, h => by
    simp only [plainL, Bool.and_eq_true] at h
    simp only [removeInList]
    split
    · exact h.2
    · simp only [plainL, Bool.and_eq_true]
      exact ⟨plain_removeIn id k h.1, plainL_removeInList id ks h.2⟩
end

theorem removeIn_kids (id : Nat) (t : RNode) : (removeIn id t).kids = removeInList id t.kids := by cases t; simp [removeIn, RNode.kids]
theorem removeIn_id (id : Nat) (t : RNode) : (removeIn id t).id = t.id := by cases t; rfl
theorem removeIn_isRoot (id : Nat) (t : RNode) : (removeIn id t).isRoot = t.isRoot := by cases t; rfl
theorem removeIn_root (id : Nat) (t : RNode) : (removeIn id t).root = t.root := by cases t; rfl
theorem removeIn_lone (id : Nat) (t : RNode) (h : t.kids = []) : removeIn id t = t := by
  cases t with
  | mk i n r ro tp m ks => simp only [RNode.kids] at h; subst h; simp [removeIn, removeInList]

mutual
/-- a node found strictly inside plain children is plain -/
theorem plain_of_findIn (id : Nat) : ∀ (t x : RNode), plain t = true → findIn id t = some x → plain x = true
  | .mk i n r ro tp m ks, x, h, hf => by
    simp only [findIn] at hf
    split at hf
    · cases hf; exact h
    · exact plain_of_findInList id ks x (plain_kids _ h) hf
theorem plain_of_findInList (id : Nat) : ∀ (ks : List RNode) (x : RNode), plainL ks = true → findInList id ks = some x →
    plain x = true
  | [], _, _, hf => by simp [findInList] at hf
  | k :: ks, x, h, hf => by
    simp only [plainL, Bool.and_eq_true] at h
    simp only [findInList] at hf
    split at hf
    · rename_i y hy; cases hf; exact plain_of_findIn id k x h.1 hy
    · exact plain_of_findInList id ks x h.2 hf
end

/-! ### where a found node sits -/

theorem updateIn_id (id : Nat) (f : RNode → RNode) (hf : ∀ p, (f p).id = p.id) (t : RNode) : (updateIn id f t).id = t.id := by
  cases t with
  | mk i n r ro tp m ks =>
    simp only [updateIn]
    split
    · rw [hf]
    · rfl

theorem updateIn_isRoot (id : Nat) (f : RNode → RNode) (hf : ∀ p, (f p).isRoot = p.isRoot) (t : RNode) :
    (updateIn id f t).isRoot = t.isRoot := by
  cases t with
  | mk i n r ro tp m ks =>
    simp only [updateIn]
    split
    · rw [hf]
    · rfl

/-- a node found in a forest is found in one of its top-level objects -/
theorem find_in_some_top (id : Nat) : ∀ (cs : List RNode) (x : RNode), findInList id cs = some x → ∃ c ∈ cs, findIn id c = some x
  | [], _, hf => by simp [findInList] at hf
  | k :: ks, x, hf => by
    simp only [findInList] at hf
    split at hf
    · rename_i y hy; cases hf; exact ⟨k, List.mem_cons_self, hy⟩
    · obtain ⟨c, hc, h⟩ := find_in_some_top id ks x hf
      exact ⟨c, List.mem_cons_of_mem _ hc, h⟩

mutual
/-- every node found in a consistent branch records the branch's root -/
theorem root_of_findIn (r : Option Nat) (id : Nat) : ∀ (t x : RNode) (path : String), consistent r path t = true →
    findIn id t = some x → x.root = r
  | .mk i n isR ro tp m ks, x, path, h, hf => by
    simp only [consistent, Bool.and_eq_true, beq_iff_eq] at h
    simp only [findIn] at hf
    split at hf
    · cases hf; exact h.1.1
    · exact root_of_findInList r id ks x path h.2 hf
theorem root_of_findInList (r : Option Nat) (id : Nat) : ∀ (ks : List RNode) (x : RNode) (path : String),
    consistentKids r path ks = true → findInList id ks = some x → x.root = r
  | [], _, _, _, hf => by simp [findInList] at hf
  | k :: ks, x, path, h, hf => by
    simp only [consistentKids, Bool.and_eq_true] at h
    simp only [findInList] at hf
    split at hf
    · rename_i y hy; cases hf; exact root_of_findIn r id k x _ h.1 hy
    · exact root_of_findInList r id ks x path h.2 hf
end

theorem findIn_lone (id : Nat) (t x : RNode) (hk : t.kids = []) (hf : findIn id t = some x) : x = t := by
  cases t with
  | mk i n r ro tp m ks =>
    simp only [RNode.kids] at hk; subst hk
    simp only [findIn, findInList] at hf
    split at hf
    · cases hf; rfl
    · cases hf

/-- in a well-formed forest a found node is either inside a Root's tree (and records that Root) or is a lone
    unrooted top-level node (or the floating object) -/
theorem found_cases {fl : Option Nat} {cs : List RNode} (ok : ForestOKx fl cs) (id : Nat) (x : RNode)
    (hf : findInList id cs = some x) :
    (∃ c ∈ cs, c.isRoot = true ∧ findIn id c = some x ∧ x.root = some c.id) ∨
    (∃ c ∈ cs, c.isRoot = false ∧ findIn id c = some x ∧ (some c.id ≠ fl → x = c ∧ c.root = none ∧ c.kids = [])) := by
  obtain ⟨c, hc, h⟩ := find_in_some_top id cs x hf
  cases hr : c.isRoot with
  | true =>
    left
    exact ⟨c, hc, hr, h, root_of_findIn _ id c x "" (ok.roots c hc hr) h⟩
  | false =>
    right
    refine ⟨c, hc, hr, h, fun hfl => ?_⟩
    obtain ⟨h1, h2⟩ := ok.lone c hc hr hfl
    exact ⟨findIn_lone id c x h2 h, h1, h2⟩

theorem findIn_ne_top' (id : Nat) (t : RNode) (h : t.id ≠ id) : findIn id t = findInList id t.kids := by
  cases t with
  | mk i n r ro tp m ks => simp only [RNode.id] at h; simp [findIn, h, RNode.kids]

theorem findIn_top_id' (id : Nat) (c x : RNode) (hc : c.id = id) (hf : findIn id c = some x) : x = c := by
  rw [← hc, findIn_self] at hf
  cases hf; rfl

/-! ### ATTACH -/

theorem idsK_lone (t : RNode) (h : t.kids = []) : idsK t = [t.id] := by
  cases t with
  | mk i n r ro tp m ks => simp only [RNode.kids] at h; subst h; simp [idsK, keys, RNode.id]

theorem nodup_of_perm_ids {a b : List (Nat × String × Bool)} (h : a.Perm b) (hb : (b.map (·.1)).Nodup) : (a.map (·.1)).Nodup :=
  ((h.map (·.1)).nodup_iff).mpr hb
theorem nodup_of_perm_names {a b : List (Nat × String × Bool)} (h : a.Perm b) (hb : (namesOf b).Nodup) : (namesOf a).Nodup := by
  unfold namesOf at hb ⊢
  exact (((h.filter (fun k => !k.2.2)).map (·.2.1)).nodup_iff).mpr hb

theorem kid_key_mem (p k : RNode) (hk : k ∈ p.kids) : (k.id, k.name, k.isRoot) ∈ keys p := by
  rw [keys_eq]
  exact List.mem_cons_of_mem _ (mem_keysL_of_mem hk (self_mem_keys k))

/-- ATTACH: the floating / unrooted top-level object `c` is hung under the node with id `pid`, which sits in some
    Root's tree.  The forest is well formed afterwards (nothing floats any more) and holds exactly the same nodes. -/
theorem attach_ok {cs : List RNode} {c : RNode} (ok : ForestOKx (some c.id) cs) (hc : c ∈ cs) (hcp : plain c = true)
    (pid : Nat) (hmem : pid ∈ idsL cs) (hnot : pid ∉ idsK c)
    (hnr : ∀ t ∈ cs, t.isRoot = false → t.id ≠ c.id → t.id ≠ pid) :
    ForestOK (updateInList pid (hangF c) (cs.filter (fun x => x.id != c.id))) ∧
    (keysL (updateInList pid (hangF c) (cs.filter (fun x => x.id != c.id)))).Perm (keysL cs) := by
  have hperm1 := keysL_filter_top c cs ok.ids hc
  generalize hfilt : cs.filter (fun x => x.id != c.id) = filt at hperm1 ⊢
  have hfm : ∀ t ∈ filt, t ∈ cs ∧ t.id ≠ c.id := by
    intro t ht; rw [← hfilt] at ht; exact mem_filter_top ht
  -- ids / names of filt ++ c are duplicate-free
  have hid1 : ((keysL filt ++ keys c).map (·.1)).Nodup := nodup_of_perm_ids hperm1 ok.ids
  have hnm1 : (namesOf (keysL filt ++ keys c)).Nodup := nodup_of_perm_names hperm1 ok.names
  simp only [List.map_append] at hid1
  rw [namesOf_append] at hnm1
  have hidf : (idsL filt).Nodup := (List.nodup_append.mp hid1).1
  -- the receiver is in filt
  have hpm : pid ∈ idsL filt := by
    have : pid ∈ (keysL filt ++ keys c).map (·.1) := (hperm1.map (·.1)).mem_iff.mpr hmem
    simp only [List.map_append, List.mem_append] at this
    cases this with
    | inl h => exact h
    | inr h => exact absurd h hnot
  obtain ⟨p, hp⟩ : ∃ p, findInList pid filt = some p := by
    cases h : findInList pid filt with
    | some p => exact ⟨p, rfl⟩
    | none => exact absurd h (findInList_ne_none_of_mem pid filt hpm)
  obtain ⟨_, hpk⟩ := findInList_some pid filt p hp
  have hpkids : plainL p.kids = true := by
    obtain ⟨t, ht, hft⟩ := find_in_some_top pid filt p hp
    by_cases hid : t.id = pid
    · rw [findIn_top_id' pid t p hid hft]; exact ok.plainKids t (hfm t ht).1
    · rw [findIn_ne_top' pid t hid] at hft
      exact plain_kids p (plain_of_findInList pid t.kids p (ok.plainKids t (hfm t ht).1) hft)
  have hfresh : ∀ k ∈ p.kids, k.name ≠ c.name := by
    intro k hk e
    have hkr : k.isRoot = false := plain_isRoot k (plainL_mem hpkids hk)
    have hcr : c.isRoot = false := plain_isRoot c hcp
    have h1 : k.name ∈ namesOf (keysL filt) := by
      simp only [namesOf, List.mem_map, List.mem_filter]
      exact ⟨(k.id, k.name, k.isRoot), ⟨hpk _ (kid_key_mem p k hk), by simp [hkr]⟩, rfl⟩
    have h2 : c.name ∈ namesOf (keys c) := by
      simp only [namesOf, List.mem_map, List.mem_filter]
      exact ⟨(c.id, c.name, c.isRoot), ⟨self_mem_keys c, by simp [hcr]⟩, rfl⟩
    exact (List.nodup_append.mp hnm1).2.2 _ h1 _ h2 e
  have hperm2 := keysL_updateInList pid (hangF c) (keys c) filt p hidf hp (keys_hangF c p hfresh)
  have hperm := hperm2.trans hperm1
  refine ⟨?_, hperm⟩
  have hmap : ∀ t' ∈ updateInList pid (hangF c) filt, ∃ t ∈ filt, t' = updateIn pid (hangF c) t := by
    intro t' ht'
    rw [updateInList_eq_map] at ht'
    obtain ⟨t, ht, e⟩ := List.mem_map.mp ht'
    exact ⟨t, ht, e.symm⟩
  constructor
  · exact nodup_of_perm_ids hperm ok.ids
  · exact nodup_of_perm_names hperm ok.names
  · intro t' ht'
    obtain ⟨t, ht, rfl⟩ := hmap t' ht'
    exact plainL_kids_updateIn_hang pid c hcp t (ok.plainKids t (hfm t ht).1)
  · intro t' ht' hr
    obtain ⟨t, ht, rfl⟩ := hmap t' ht'
    rw [updateIn_isRoot pid _ (hangF_isRoot c)] at hr
    rw [updateIn_id pid _ (hangF_id c)]
    exact consistent_hang _ t "" pid c (ok.roots t (hfm t ht).1 hr)
  · intro t' ht' hr _
    obtain ⟨t, ht, rfl⟩ := hmap t' ht'
    rw [updateIn_isRoot pid _ (hangF_isRoot c)] at hr
    obtain ⟨htc, hne⟩ := hfm t ht
    obtain ⟨h1, h2⟩ := ok.lone t htc hr (fun e => hne (Option.some.inj e))
    have : pid ∉ idsK t := by
      rw [idsK_lone t h2]
      simp only [List.mem_singleton]
      exact fun e => hnr t htc hr hne e.symm
    rw [updateIn_not_mem pid _ t this]
    exact ⟨h1, h2⟩

/-! ### DETACH -/

theorem findIn_ne_top (id : Nat) (t : RNode) (h : t.id ≠ id) : findIn id t = findInList id t.kids := by
  cases t with
  | mk i n r ro tp m ks => simp only [RNode.id] at h; simp [findIn, h, RNode.kids]

/-- a node found in a well-formed forest that is not a top-level object is plain (no Root inside) -/
theorem plain_of_nontop {fl : Option Nat} {cs : List RNode} (ok : ForestOKx fl cs) (sid : Nat) (s : RNode)
    (hf : findInList sid cs = some s) (hnt : ∀ c ∈ cs, c.id ≠ sid) : plain s = true := by
  obtain ⟨c, hc, h⟩ := find_in_some_top sid cs s hf
  rw [findIn_ne_top sid c (hnt c hc)] at h
  exact plain_of_findInList sid c.kids s (ok.plainKids c hc) h

/-- DETACH: the branch at the non-top node `s` is taken out of its tree and floats as a top-level object.  Everything
    else stays well formed, and the forest holds exactly the same nodes. -/
theorem detach_ok {cs : List RNode} (ok : ForestOK cs) (sid : Nat) (s : RNode)
    (hf : findInList sid cs = some s) (hnt : ∀ c ∈ cs, c.id ≠ sid) :
    ForestOKx (some sid) (cs.map (removeIn sid) ++ [unroot s]) ∧
    (keysL (cs.map (removeIn sid) ++ [unroot s])).Perm (keysL cs) := by
  have hsid : s.id = sid := (findInList_some sid cs s hf).1
  have hplain := plain_of_nontop ok sid s hf hnt
  have hperm : (keysL (cs.map (removeIn sid) ++ [unroot s])).Perm (keysL cs) := by
    rw [keysL_append]
    simp only [keysL_cons, keysL_nil, List.append_nil, keys_unroot]
    exact keysL_map_removeIn sid cs s ok.ids hnt hf
  refine ⟨?_, hperm⟩
  have hcases : ∀ t' ∈ cs.map (removeIn sid) ++ [unroot s], (∃ t ∈ cs, t' = removeIn sid t) ∨ t' = unroot s := by
    intro t' ht'
    simp only [List.mem_append, List.mem_map, List.mem_singleton] at ht'
    cases ht' with
    | inl h => obtain ⟨t, ht, e⟩ := h; exact Or.inl ⟨t, ht, e.symm⟩
    | inr h => exact Or.inr h
  constructor
  · exact nodup_of_perm_ids hperm ok.ids
  · exact nodup_of_perm_names hperm ok.names
  · intro t' ht'
    cases hcases t' ht' with
    | inl h =>
      obtain ⟨t, ht, rfl⟩ := h
      rw [removeIn_kids]
      exact plainL_removeInList sid t.kids (ok.plainKids t ht)
    | inr h => subst h; rw [unroot_kids]; exact plain_kids s hplain
  · intro t' ht' hr
    cases hcases t' ht' with
    | inl h =>
      obtain ⟨t, ht, rfl⟩ := h
      rw [removeIn_isRoot] at hr
      rw [removeIn_id]
      exact consistent_remove _ sid t "" (ok.roots t ht hr)
    | inr h =>
      subst h
      rw [unroot_isRoot, plain_isRoot s hplain] at hr
      cases hr
  · intro t' ht' hr hfl
    cases hcases t' ht' with
    | inl h =>
      obtain ⟨t, ht, rfl⟩ := h
      rw [removeIn_isRoot] at hr
      obtain ⟨h1, h2⟩ := ok.lone t ht hr (by simp)
      rw [removeIn_lone sid t h2]
      exact ⟨h1, h2⟩
    | inr h =>
      subst h
      rw [unroot_id, hsid] at hfl
      exact absurd rfl hfl

mutual
theorem idsK_removeIn_subset (id : Nat) : ∀ (t : RNode) (i : Nat), i ∈ idsK (removeIn id t) → i ∈ idsK t
  | .mk j n r ro tp m ks, i, h => by
    simp only [removeIn, idsK_mk, List.mem_cons] at h ⊢
    cases h with
    | inl e => exact Or.inl e
    | inr h' => exact Or.inr (idsL_removeInList_subset id ks i h')
theorem idsL_removeInList_subset (id : Nat) : ∀ (ks : List RNode) (i : Nat), i ∈ idsL (removeInList id ks) → i ∈ idsL ks
  | [], i, h => by simp [removeInList, idsL] at h
  | k :: ks, i, h => by
    simp only [removeInList] at h
    simp only [idsL_cons, List.mem_append]
    split at h
    · exact Or.inr h
    · simp only [idsL_cons, List.mem_append] at h
      cases h with
      | inl h' => exact Or.inl (idsK_removeIn_subset id k i h')
      | inr h' => exact Or.inr (idsL_removeInList_subset id ks i h')
end

/-! ### RELOCATE = detach + attach (`moveBranch`) -/

/-- no unrooted top-level node has this id: the node with this id (if any) sits in a Root's tree -/
def Rooted (cs : List RNode) (id : Nat) : Prop := ∀ t ∈ cs, t.isRoot = false → t.id ≠ id

theorem attach_tops {cs : List RNode} {c : RNode} (pid : Nat) :
    ∀ t' ∈ updateInList pid (hangF c) (cs.filter (fun x => x.id != c.id)),
      ∃ t ∈ cs, t.id ≠ c.id ∧ t' = updateIn pid (hangF c) t := by
  intro t' ht'
  rw [updateInList_eq_map] at ht'
  obtain ⟨t, ht, e⟩ := List.mem_map.mp ht'
  obtain ⟨h1, h2⟩ := mem_filter_top ht
  exact ⟨t, h1, h2, e.symm⟩

theorem idsK_unroot (t : RNode) : idsK (unroot t) = idsK t := by simp [idsK, keys_unroot]

theorem moveBranch_comps (h : Heap) (s : RNode) (recvId : Nat)
    (hfound : (findInList recvId (h.comps.map (removeIn s.id) ++ [unroot s])).isSome = true) :
    (moveBranch h s recvId).comps =
      updateInList recvId (hangF (unroot s)) ((h.comps.map (removeIn s.id) ++ [unroot s]).filter (fun x => x.id != (unroot s).id)) := by
  simp only [moveBranch, Heap.find, hfound, if_true, attachUnder]

theorem moveBranch_fields (h : Heap) (s : RNode) (recvId : Nat) :
    (moveBranch h s recvId).mds = h.mds ∧ (moveBranch h s recvId).nextNode = h.nextNode ∧
    (moveBranch h s recvId).nextMd = h.nextMd := by
  simp only [moveBranch, attachUnder]
  split <;> exact ⟨rfl, rfl, rfl⟩

/-- RELOCATE: the branch at the non-top node `s` moves under the node `recvId`, which is in a Root's tree and not inside
    the branch.  Well-formedness is kept, and the forest holds exactly the same nodes. -/
theorem relocate_ok (h : Heap) (s : RNode) (recvId : Nat) (ok : ForestOK h.comps)
    (hf : findInList s.id h.comps = some s) (hnt : ∀ c ∈ h.comps, c.id ≠ s.id)
    (hmem : recvId ∈ idsL h.comps) (hnot : recvId ∉ idsK s) (hro : Rooted h.comps recvId) :
    ForestOK (moveBranch h s recvId).comps ∧ (keysL (moveBranch h s recvId).comps).Perm (keysL h.comps) ∧
    Rooted (moveBranch h s recvId).comps recvId ∧
    (∀ t ∈ h.comps, recvId ∉ idsK t → removeIn s.id t ∈ (moveBranch h s recvId).comps) ∧
    (∀ t' ∈ (moveBranch h s recvId).comps, ∃ t ∈ h.comps, t'.id = t.id ∧ t'.isRoot = t.isRoot) := by
  obtain ⟨ok1, hperm1⟩ := detach_ok ok s.id s hf hnt
  have hplain := plain_of_nontop ok s.id s hf hnt
  generalize hcs1 : h.comps.map (removeIn s.id) ++ [unroot s] = cs1 at ok1 hperm1
  have hmem1 : recvId ∈ idsL cs1 := (hperm1.map (·.1)).mem_iff.mpr hmem
  have hfound : (findInList recvId cs1).isSome = true := by
    cases hx : findInList recvId cs1 with
    | some p => rfl
    | none => exact absurd hx (findInList_ne_none_of_mem recvId cs1 hmem1)
  have hcomps := moveBranch_comps h s recvId (by rw [hcs1]; exact hfound)
  rw [hcs1] at hcomps
  have hcin : unroot s ∈ cs1 := by rw [← hcs1]; simp
  have horigin : ∀ t ∈ cs1, t.id ≠ (unroot s).id → ∃ t0 ∈ h.comps, t = removeIn s.id t0 := by
    intro t ht hne
    rw [← hcs1] at ht
    simp only [List.mem_append, List.mem_map, List.mem_singleton] at ht
    cases ht with
    | inl hh => obtain ⟨t0, h0, e⟩ := hh; exact ⟨t0, h0, e.symm⟩
    | inr hh => exact absurd (by rw [hh]) hne
  have hnr1 : ∀ t ∈ cs1, t.isRoot = false → t.id ≠ (unroot s).id → t.id ≠ recvId := by
    intro t ht hr hne
    obtain ⟨t0, h0, rfl⟩ := horigin t ht hne
    rw [removeIn_isRoot] at hr
    rw [removeIn_id]
    exact hro t0 h0 hr
  have ok1' : ForestOKx (some (unroot s).id) cs1 := by rw [unroot_id]; exact ok1
  obtain ⟨ok2, hperm2⟩ := attach_ok ok1' hcin (by rw [plain_unroot]; exact hplain) recvId hmem1
    (by rw [idsK_unroot]; exact hnot) hnr1
  rw [← hcomps] at ok2 hperm2
  refine ⟨ok2, hperm2.trans hperm1, ?_, ?_, ?_⟩
  · intro t' ht' hr
    rw [hcomps] at ht'
    obtain ⟨t, ht, hne, rfl⟩ := attach_tops recvId t' ht'
    rw [updateIn_isRoot recvId _ (hangF_isRoot _)] at hr
    rw [updateIn_id recvId _ (hangF_id _)]
    exact hnr1 t ht hr hne
  · intro t ht hrt
    rw [hcomps, updateInList_eq_map]
    refine List.mem_map.mpr ⟨removeIn s.id t, ?_, ?_⟩
    · simp only [List.mem_filter, bne_iff_ne, ne_eq]
      refine ⟨by rw [← hcs1]; simp only [List.mem_append, List.mem_map]; exact Or.inl ⟨t, ht, rfl⟩, ?_⟩
      rw [removeIn_id, unroot_id]
      exact hnt t ht
    · apply updateIn_not_mem
      intro hm
      -- the ids of `removeIn s.id t` are among the ids of `t`
      exact hrt (idsK_removeIn_subset s.id t _ hm)
  · intro t' ht'
    rw [hcomps] at ht'
    obtain ⟨t, ht, hne, rfl⟩ := attach_tops recvId t' ht'
    obtain ⟨t0, h0, rfl⟩ := horigin t ht hne
    refine ⟨t0, h0, ?_, ?_⟩
    · rw [updateIn_id recvId _ (hangF_id _), removeIn_id]
    · rw [updateIn_isRoot recvId _ (hangF_isRoot _), removeIn_isRoot]

/-! ### grafting from a Root: its children are relocated one by one (`moveKid`) -/

theorem nodup_idsK_of_mem {cs : List RNode} (hn : (idsL cs).Nodup) {c : RNode} (hc : c ∈ cs) : (idsK c).Nodup := by
  induction cs with
  | nil => cases hc
  | cons k ks ih =>
    simp only [idsL_cons] at hn
    have hnd := List.nodup_append.mp hn
    cases hc with
    | head => exact hnd.1
    | tail _ h' => exact ih hnd.2.1 h'

theorem tops_disjoint {cs : List RNode} (hn : (idsL cs).Nodup) {t s : RNode} (ht : t ∈ cs) (hs : s ∈ cs) (hne : t ≠ s) :
    ∀ i ∈ idsK t, i ∉ idsK s := by
  induction cs with
  | nil => cases ht
  | cons k ks ih =>
    simp only [idsL_cons] at hn
    have hnd := List.nodup_append.mp hn
    intro i hi his
    cases ht with
    | head =>
      cases hs with
      | head => exact hne rfl
      | tail _ hs' => exact hnd.2.2 _ hi _ (mem_idsL_of_mem hs' his) rfl
    | tail _ ht' =>
      cases hs with
      | head => exact hnd.2.2 _ his _ (mem_idsL_of_mem ht' hi) rfl
      | tail _ hs' => exact ih hnd.2.1 ht' hs' i hi his

theorem kid_id_mem (s k : RNode) (hk : k ∈ s.kids) : k.id ∈ idsL s.kids := mem_idsL_of_mem hk (id_mem_idsK k)

theorem idsK_eq (t : RNode) : idsK t = t.id :: idsL t.kids := by cases t; simp [idsK_mk, RNode.id, RNode.kids]

theorem kid_not_top {cs : List RNode} (hn : (idsL cs).Nodup) {s k : RNode} (hs : s ∈ cs) (hk : k ∈ s.kids) :
    ∀ c ∈ cs, c.id ≠ k.id := by
  intro c hc e
  by_cases hcs : c = s
  · subst hcs
    have := nodup_idsK_of_mem hn hs
    rw [idsK_eq] at this
    exact (List.nodup_cons.mp this).1 (e ▸ kid_id_mem c k hk)
  · refine tops_disjoint hn hc hs hcs c.id (id_mem_idsK c) ?_
    rw [idsK_eq, e]
    exact List.mem_cons_of_mem _ (kid_id_mem s k hk)

theorem findInList_kid {cs : List RNode} (hn : (idsL cs).Nodup) {s k : RNode} (hs : s ∈ cs) (hk : k ∈ s.kids) :
    findInList k.id cs = some k := by
  have hsk : s.id ≠ k.id := kid_not_top hn hs hk s hs
  have hsn := nodup_idsK_of_mem hn hs
  rw [idsK_eq] at hsn
  have hins : findIn k.id s = some k := by
    rw [findIn_ne_top k.id s hsk]
    exact findInList_top s.kids k (List.nodup_cons.mp hsn).2 hk
  induction cs with
  | nil => cases hs
  | cons c rest ih =>
    simp only [idsL_cons] at hn
    have hnd := List.nodup_append.mp hn
    simp only [findInList]
    cases hs with
    | head => rw [hins]
    | tail _ hs' =>
      have hmem : k.id ∈ idsL rest := mem_idsL_of_mem hs' (by rw [idsK_eq]; exact List.mem_cons_of_mem _ (kid_id_mem s k hk))
      have : k.id ∉ idsK c := fun hc => hnd.2.2 _ hc _ hmem rfl
      rw [findIn_none_of_not_mem _ _ this]
      exact ih hnd.2.1 hs'

theorem removeInList_eq_filter (k : RNode) : ∀ (ks : List RNode), (idsL ks).Nodup → k ∈ ks →
    removeInList k.id ks = ks.filter (fun y => y.id != k.id)
  | [], _, hk => by cases hk
  | x :: xs, hn, hk => by
    simp only [idsL_cons] at hn
    have hnd := List.nodup_append.mp hn
    simp only [removeInList, List.filter_cons]
    by_cases hx : x.id = k.id
    · have hb : (x.id != k.id) = false := by simp [hx]
      simp only [if_pos hx, hb, Bool.false_eq_true, if_false]
      symm
      rw [List.filter_eq_self]
      intro y hy
      simp only [bne_iff_ne, ne_eq]
      intro e
      exact hnd.2.2 _ (hx ▸ id_mem_idsK x) _ (mem_idsL_of_mem hy (e ▸ id_mem_idsK y)) rfl
    · have hb : (x.id != k.id) = true := by simp [bne_iff_ne, hx]
      have hk' : k ∈ xs := by
        cases hk with
        | head => exact absurd rfl hx
        | tail _ h' => exact h'
      have hnot : k.id ∉ idsK x := fun hc => hnd.2.2 _ hc _ (mem_idsL_of_mem hk' (id_mem_idsK k)) rfl
      simp only [if_neg hx, hb, if_true, removeIn_not_mem k.id x hnot]
      rw [removeInList_eq_filter k xs hnd.2.1 hk']

/-- deleting a child from its top-level parent's `_branch` is the removal of the node with that id from the forest -/
theorem dropKid_eq_removeIn {cs : List RNode} (hn : (idsL cs).Nodup) {s k : RNode} (hs : s ∈ cs) (hk : k ∈ s.kids) :
    updateInList s.id (dropKid k.id) cs = cs.map (removeIn k.id) := by
  rw [updateInList_eq_map]
  apply List.map_congr_left
  intro t ht
  by_cases hts : t = s
  · subst hts
    have hsn := nodup_idsK_of_mem hn ht
    rw [idsK_eq] at hsn
    have := removeInList_eq_filter k t.kids (List.nodup_cons.mp hsn).2 hk
    cases t with
    | mk i n r ro tp m ks =>
      simp only [RNode.kids] at this
      have e1 : updateIn i (dropKid k.id) (.mk i n r ro tp m ks) = .mk i n r ro tp m (ks.filter (fun y => y.id != k.id)) := by
        simp [updateIn, dropKid, RNode.setKids, RNode.kids]
      have e2 : removeIn k.id (.mk i n r ro tp m ks) = .mk i n r ro tp m (removeInList k.id ks) := by simp [removeIn]
      show updateIn i (dropKid k.id) (.mk i n r ro tp m ks) = removeIn k.id (.mk i n r ro tp m ks)
      rw [e1, e2, this]
  · have h1 : s.id ∉ idsK t := fun h => tops_disjoint hn ht hs hts s.id h (id_mem_idsK s)
    have h2 : k.id ∉ idsK t := fun h => tops_disjoint hn ht hs hts k.id h
      (by rw [idsK_eq]; exact List.mem_cons_of_mem _ (kid_id_mem s k hk))
    rw [updateIn_not_mem _ _ t h1, removeIn_not_mem _ t h2]

theorem moveKid_eq_moveBranch (h : Heap) (ok : (idsL h.comps).Nodup) {s k : RNode} (hs : s ∈ h.comps) (hk : k ∈ s.kids)
    (recvId : Nat) : moveKid s.id recvId h k = moveBranch h k recvId := by
  simp only [moveKid, moveBranch, dropKid_eq_removeIn ok hs hk]

theorem idsK_kid_subset (s k : RNode) (hk : k ∈ s.kids) : ∀ i ∈ idsK k, i ∈ idsK s := by
  intro i hi
  rw [idsK_eq s]
  exact List.mem_cons_of_mem _ (mem_idsL_of_mem hk hi)

/-- the loop that empties a Root being grafted -/
theorem graftRoot_ok (sid recvId : Nat) : ∀ (rest : List RNode) (h : Heap) (s : RNode), ForestOK h.comps →
    s ∈ h.comps → s.id = sid → s.kids = rest → recvId ∈ idsL h.comps → recvId ∉ idsK s → Rooted h.comps recvId →
    ForestOK (rest.foldl (moveKid sid recvId) h).comps ∧
    (keysL (rest.foldl (moveKid sid recvId) h).comps).Perm (keysL h.comps) ∧
    Rooted (rest.foldl (moveKid sid recvId) h).comps recvId ∧
    (rest.foldl (moveKid sid recvId) h).mds = h.mds ∧ (rest.foldl (moveKid sid recvId) h).nextNode = h.nextNode ∧
    (rest.foldl (moveKid sid recvId) h).nextMd = h.nextMd ∧
    (∀ t' ∈ (rest.foldl (moveKid sid recvId) h).comps, ∃ t ∈ h.comps, t'.id = t.id ∧ t'.isRoot = t.isRoot)
  | [], h, s, ok, _, _, _, _, _, hro => by
    exact ⟨ok, List.Perm.refl _, hro, rfl, rfl, rfl, fun t' ht' => ⟨t', ht', rfl, rfl⟩⟩
  | k :: rest, h, s, ok, hs, hsid, hkids, hmem, hnot, hro => by
    have hk : k ∈ s.kids := by rw [hkids]; exact List.mem_cons_self
    simp only [List.foldl_cons]
    rw [← hsid, moveKid_eq_moveBranch h ok.ids hs hk recvId]
    have hfk := findInList_kid ok.ids hs hk
    have hnt := kid_not_top ok.ids hs hk
    have hnotk : recvId ∉ idsK k := fun hi => hnot (idsK_kid_subset s k hk recvId hi)
    obtain ⟨ok1, hperm1, hro1, hkeep, htops1⟩ := relocate_ok h k recvId ok hfk hnt hmem hnotk hro
    obtain ⟨hf1, hf2, hf3⟩ := moveBranch_fields h k recvId
    have hs1 : removeIn k.id s ∈ (moveBranch h k recvId).comps := hkeep s hs hnot
    have hkids1 : (removeIn k.id s).kids = rest := by
      rw [removeIn_kids, hkids]; simp [removeInList]
    have hmem1 : recvId ∈ idsL (moveBranch h k recvId).comps := (hperm1.map (·.1)).mem_iff.mpr hmem
    have hnot1 : recvId ∉ idsK (removeIn k.id s) := fun hi => hnot (idsK_removeIn_subset k.id s recvId hi)
    obtain ⟨ok2, hperm2, hro2, g1, g2, g3, htops2⟩ :=
      graftRoot_ok s.id recvId rest (moveBranch h k recvId) (removeIn k.id s) ok1 hs1 (removeIn_id k.id s) hkids1 hmem1 hnot1 hro1
    refine ⟨ok2, hperm2.trans hperm1, hro2, g1.trans hf1, g2.trans hf2, g3.trans hf3, ?_⟩
    intro t' ht'
    obtain ⟨t1, ht1, e1, e2⟩ := htops2 t' ht'
    obtain ⟨t0, ht0, e3, e4⟩ := htops1 t1 ht1
    exact ⟨t0, ht0, e1.trans e3, e2.trans e4⟩

/-! ### metadata updates touch nothing structural -/

theorem setMd_keys (t : RNode) (m : List (String × Nat)) : keys (t.setMd m) = keys t := by cases t; simp [RNode.setMd, keys]
theorem setMd_plain (t : RNode) (m : List (String × Nat)) : plain (t.setMd m) = plain t := by cases t; simp [RNode.setMd, plain]
theorem setMd_consistent (r : Option Nat) (q : String) (t : RNode) (m : List (String × Nat)) :
    consistent r q (t.setMd m) = consistent r q t := by cases t; simp [RNode.setMd, consistent]

mutual
theorem keys_updateIn_setMd (id : Nat) (g : RNode → List (String × Nat)) : ∀ (t : RNode),
    keys (updateIn id (fun r => r.setMd (g r)) t) = keys t
  | .mk i n r ro tp m ks => by
    simp only [updateIn]
    split
    · exact setMd_keys _ _
    · simp only [keys]; rw [keysL_updateInList_setMd id g ks]
theorem keysL_updateInList_setMd (id : Nat) (g : RNode → List (String × Nat)) : ∀ (ks : List RNode),
    keysL (updateInList id (fun r => r.setMd (g r)) ks) = keysL ks
  | [] => by simp [updateInList]
  | k :: ks => by simp only [updateInList, keysL_cons]; rw [keys_updateIn_setMd id g k, keysL_updateInList_setMd id g ks]
end

mutual
theorem plain_updateIn_setMd (id : Nat) (g : RNode → List (String × Nat)) : ∀ (t : RNode),
    plain (updateIn id (fun r => r.setMd (g r)) t) = plain t
  | .mk i n r ro tp m ks => by
    simp only [updateIn]
    split
    · exact setMd_plain _ _
    · simp only [plain]; rw [plainL_updateInList_setMd id g ks]
theorem plainL_updateInList_setMd (id : Nat) (g : RNode → List (String × Nat)) : ∀ (ks : List RNode),
    plainL (updateInList id (fun r => r.setMd (g r)) ks) = plainL ks
  | [] => by simp [updateInList]
  | k :: ks => by simp only [updateInList, plainL]; rw [plain_updateIn_setMd id g k, plainL_updateInList_setMd id g ks]
end

theorem updateIn_setMd_top (id : Nat) (g : RNode → List (String × Nat)) (t : RNode) :
    (updateIn id (fun r => r.setMd (g r)) t).id = t.id ∧ (updateIn id (fun r => r.setMd (g r)) t).isRoot = t.isRoot ∧
    (updateIn id (fun r => r.setMd (g r)) t).root = t.root ∧
    (updateIn id (fun r => r.setMd (g r)) t).kids = updateInList id (fun r => r.setMd (g r)) t.kids ∨
    (updateIn id (fun r => r.setMd (g r)) t).id = t.id ∧ (updateIn id (fun r => r.setMd (g r)) t).isRoot = t.isRoot ∧
    (updateIn id (fun r => r.setMd (g r)) t).root = t.root ∧
    (updateIn id (fun r => r.setMd (g r)) t).kids = t.kids := by
  cases t with
  | mk i n r ro tp m ks =>
    simp only [updateIn]
    split
    · right; exact ⟨rfl, rfl, rfl, rfl⟩
    · left; exact ⟨rfl, rfl, rfl, rfl⟩

/-- a metadata assignment anywhere leaves the forest well formed, with the same nodes -/
theorem setMd_ok {fl : Option Nat} {cs : List RNode} (ok : ForestOKx fl cs) (id : Nat) (g : RNode → List (String × Nat)) :
    ForestOKx fl (updateInList id (fun r => r.setMd (g r)) cs) ∧
    keysL (updateInList id (fun r => r.setMd (g r)) cs) = keysL cs ∧
    (∀ t' ∈ updateInList id (fun r => r.setMd (g r)) cs, ∃ t ∈ cs, t'.id = t.id ∧ t'.isRoot = t.isRoot) := by
  have hk := keysL_updateInList_setMd id g cs
  have hmap : ∀ t' ∈ updateInList id (fun r => r.setMd (g r)) cs, ∃ t ∈ cs, t' = updateIn id (fun r => r.setMd (g r)) t := by
    intro t' ht'
    rw [updateInList_eq_map] at ht'
    obtain ⟨t, ht, e⟩ := List.mem_map.mp ht'
    exact ⟨t, ht, e.symm⟩
  have hkids : ∀ t : RNode, plainL (updateIn id (fun r => r.setMd (g r)) t).kids = plainL t.kids := by
    intro t
    cases updateIn_setMd_top id g t with
    | inl h => rw [h.2.2.2, plainL_updateInList_setMd]
    | inr h => rw [h.2.2.2]
  have htop : ∀ t : RNode, (updateIn id (fun r => r.setMd (g r)) t).id = t.id ∧
      (updateIn id (fun r => r.setMd (g r)) t).isRoot = t.isRoot ∧ (updateIn id (fun r => r.setMd (g r)) t).root = t.root := by
    intro t
    cases updateIn_setMd_top id g t with
    | inl h => exact ⟨h.1, h.2.1, h.2.2.1⟩
    | inr h => exact ⟨h.1, h.2.1, h.2.2.1⟩
  refine ⟨?_, hk, ?_⟩
  · constructor
    · simp only [idsL, hk]; exact ok.ids
    · simp only [namesL, hk]; exact ok.names
    · intro t' ht'
      obtain ⟨t, ht, rfl⟩ := hmap t' ht'
      rw [hkids]; exact ok.plainKids t ht
    · intro t' ht' hr
      obtain ⟨t, ht, rfl⟩ := hmap t' ht'
      rw [(htop t).2.1] at hr
      rw [(htop t).1]
      exact consistent_update _ id _ (fun q p hp => by rw [setMd_consistent]; exact hp) (fun p => by cases p; rfl) t "" (ok.roots t ht hr)
    · intro t' ht' hr hfl
      obtain ⟨t, ht, rfl⟩ := hmap t' ht'
      rw [(htop t).2.1] at hr
      rw [(htop t).1] at hfl
      obtain ⟨h1, h2⟩ := ok.lone t ht hr hfl
      refine ⟨by rw [(htop t).2.2]; exact h1, ?_⟩
      cases updateIn_setMd_top id g t with
      | inl h => rw [h.2.2.2, h2]; simp [updateInList]
      | inr h => rw [h.2.2.2, h2]
  · intro t' ht'
    obtain ⟨t, ht, rfl⟩ := hmap t' ht'
    exact ⟨t, ht, (htop t).1, (htop t).2.1⟩

/-! ### new top-level objects -/

theorem newTop_ok {cs : List RNode} (ok : ForestOK cs) (x : RNode) (hk : x.kids = [])
    (hid : x.id ∉ idsL cs) (hname : x.isRoot = false → x.name ∉ namesL cs)
    (hx : (x.isRoot = true ∧ x.root = some x.id ∧ x.treepath = some "") ∨ (x.isRoot = false ∧ x.root = none)) :
    ForestOK (cs ++ [x]) ∧ keysL (cs ++ [x]) = keysL cs ++ [(x.id, x.name, x.isRoot)] := by
  have hkeys : keysL (cs ++ [x]) = keysL cs ++ [(x.id, x.name, x.isRoot)] := by
    rw [keysL_append]; simp only [keysL_cons, keysL_nil, List.append_nil]; rw [keys_eq, hk]; simp
  refine ⟨?_, hkeys⟩
  constructor
  · simp only [idsL, hkeys, List.map_append, List.map_cons, List.map_nil]
    refine List.nodup_append.mpr ⟨ok.ids, by simp, ?_⟩
    intro a ha b hb e
    simp only [List.mem_singleton] at hb
    exact hid (by rw [← hb, ← e]; exact ha)
  · simp only [namesL, hkeys, namesOf_append]
    refine List.nodup_append.mpr ⟨ok.names, ?_, ?_⟩
    · cases hr : x.isRoot <;> simp [namesOf, hr]
    · intro a ha b hb e
      cases hr : x.isRoot with
      | true => simp [namesOf, hr] at hb
      | false =>
        simp only [namesOf, hr, List.filter_cons, Bool.not_false, if_true, List.filter_nil, List.map_cons, List.map_nil,
          List.mem_singleton] at hb
        exact hname hr (by rw [← hb, ← e]; exact ha)
  · intro c hc
    simp only [List.mem_append, List.mem_singleton] at hc
    cases hc with
    | inl h => exact ok.plainKids c h
    | inr h => subst h; rw [hk]; rfl
  · intro c hc hr
    simp only [List.mem_append, List.mem_singleton] at hc
    cases hc with
    | inl h => exact ok.roots c h hr
    | inr h =>
      subst h
      cases hx with
      | inl hx =>
        cases c with
        | mk i n r ro tp m ks =>
          simp only [RNode.kids, RNode.root, RNode.id, RNode.treepath] at hk hx
          obtain ⟨_, h1, h2⟩ := hx
          subst hk; subst h1; subst h2
          simp [consistent, consistentKids, RNode.id]
      | inr hx => rw [hx.1] at hr; cases hr
  · intro c hc hr _
    simp only [List.mem_append, List.mem_singleton] at hc
    cases hc with
    | inl h => exact ok.lone c h hr (by simp)
    | inr h =>
      subst h
      cases hx with
      | inl hx => rw [hx.1] at hr; cases hr
      | inr hx => exact ⟨hx.2, hk⟩

end EmdProps
