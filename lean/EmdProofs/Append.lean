/-
EmdProofs.Append — `_append_branch` refines the path-wise union of the file tree and the runtime tree.
-/
import EmdProofs.Roundtrip

set_option linter.unusedSimpArgs false

namespace EmdModel

variable {ct : ClassTable} {dt : List String}

def names (ks : List Tree) : List String := ks.map Tree.name

/-- replace the first child called `n` -/
def replaceKid (n : String) (t' : Tree) : List Tree → List Tree
  | [] => []
  | t :: ts => if t.name = n then t' :: ts else t :: replaceKid n t' ts

/-- info of the node at path `n :: p` below a list of siblings -/
def cK (kids : List Tree) (n : String) (p : List String) : Option NodeInfo :=
  ((findKid n kids).bind (fun c => c.at p)).map Tree.info

/-- name-based union of what the file holds and what the runtime tree holds at one path -/
def combine (over : Bool) : Option NodeInfo → Option NodeInfo → Option NodeInfo
  | some f, some r => some (if over then r else f)
  | some f, none => some f
  | none, r => r

theorem combine_none_right (over : Bool) (x : Option NodeInfo) : combine over x none = x := by
  cases x <;> rfl

-- ------------------------------------------------------------------ lookups in kid lists

theorem findKid_name' (n : String) : ∀ (kids : List Tree) (c : Tree), findKid n kids = some c → c.name = n
  | [], c, h => by simp [findKid] at h
  | t :: ts, c, h => by
    simp only [findKid] at h
    split at h
    · next heq => cases h; exact heq
    · exact findKid_name' n ts c h

theorem findKid_none_iff (n : String) (kids : List Tree) : findKid n kids = none ↔ n ∉ names kids := by
  induction kids with
  | nil => simp [findKid, names]
  | cons t ts ih =>
    simp only [findKid, names, List.map_cons, List.mem_cons, not_or]
    split
    · next h => simp [h]
    · next h => simp only [names] at ih; rw [ih]; constructor
                · intro h2; exact ⟨fun e => h e.symm, h2⟩
                · intro h2; exact h2.2

theorem findKid_append (m : String) (fk : List Tree) (t : Tree) :
    findKid m (fk ++ [t]) = match findKid m fk with
      | some c => some c
      | none => if t.name = m then some t else none := by
  induction fk with
  | nil => simp [findKid]
  | cons x xs ih =>
    simp only [List.cons_append, findKid]
    split <;> simp_all

theorem findKid_replace_same (n : String) (t' : Tree) (fk : List Tree) (ht : t'.name = n)
    (h : (findKid n fk).isSome = true) : findKid n (replaceKid n t' fk) = some t' := by
  induction fk with
  | nil => simp [findKid] at h
  | cons x xs ih =>
    simp only [replaceKid]
    by_cases hx : x.name = n
    · simp [hx, findKid, ht]
    · simp only [hx, if_false, findKid]
      simp only [findKid, hx, if_false] at h
      exact ih h

theorem findKid_replace_other (n m : String) (t' : Tree) (fk : List Tree) (ht : t'.name = n) (hm : m ≠ n) :
    findKid m (replaceKid n t' fk) = findKid m fk := by
  induction fk with
  | nil => simp [replaceKid, findKid]
  | cons x xs ih =>
    simp only [replaceKid]
    by_cases hx : x.name = n
    · simp only [hx, if_true, findKid, ht]
      simp [Ne.symm hm]
    · simp only [hx, if_false, findKid, ih]

theorem names_replace (n : String) (t' : Tree) (fk : List Tree) (ht : t'.name = n) :
    names (replaceKid n t' fk) = names fk := by
  induction fk with
  | nil => rfl
  | cons x xs ih =>
    simp only [replaceKid]
    split
    · next hx => simp [names, ht, hx]
    · simp only [names, List.map_cons] at ih ⊢; rw [ih]

-- ------------------------------------------------------------------ encoded kid lists

theorem encodeKids_append (fk : List Tree) (t : Tree) :
    encodeKids (fk ++ [t]) = encodeKids fk ++ [(t.name, encode t)] := by
  induction fk with
  | nil => simp [encodeKids]
  | cons x xs ih => simp [encodeKids, ih]

theorem akeys_encodeKids (fk : List Tree) : akeys (encodeKids fk) = names fk := by
  induction fk with
  | nil => rfl
  | cons x xs ih => simp only [encodeKids, akeys, List.map_cons, names] at ih ⊢; rw [ih]

theorem alookup_encodeKids' (n : String) (fk : List Tree) :
    alookup n (encodeKids fk) = (findKid n fk).map encode := by
  induction fk with
  | nil => simp [encodeKids, alookup, findKid]
  | cons x xs ih =>
    simp only [encodeKids, alookup, findKid]
    split <;> simp_all

theorem alookup_body_kids (n : String) (body : List (String × Obj)) (fk : List Tree) (hn : n ∉ akeys body) :
    alookup n (body ++ encodeKids fk) = (findKid n fk).map encode := by
  rw [alookup_append, alookup_none_of_not_mem n body hn, alookup_encodeKids']

theorem areplace_encodeKids (n : String) (t' : Tree) (fk : List Tree) (ht : t'.name = n) :
    areplace n (encode t') (encodeKids fk) = encodeKids (replaceKid n t' fk) := by
  induction fk with
  | nil => simp [encodeKids, areplace, replaceKid]
  | cons x xs ih =>
    simp only [encodeKids, areplace, replaceKid]
    split
    · next hx => simp [encodeKids, hx, ht]
    · simp [encodeKids, ih]

theorem areplace_append_right {β : Type} (n : String) (v : β) (l r : List (String × β)) (hn : n ∉ akeys l) :
    areplace n v (l ++ r) = l ++ areplace n v r := by
  induction l with
  | nil => rfl
  | cons kv l ih =>
    obtain ⟨k, w⟩ := kv
    simp only [akeys, List.map_cons, List.mem_cons, not_or] at hn
    simp only [List.cons_append, areplace]
    have : k ≠ n := fun e => hn.1 e.symm
    simp only [this, if_false]
    rw [ih (by simpa [akeys] using hn.2)]

theorem areplace_body_kids (n : String) (t' : Tree) (body : List (String × Obj)) (fk : List Tree)
    (hn : n ∉ akeys body) (ht : t'.name = n) :
    areplace n (encode t') (body ++ encodeKids fk) = body ++ encodeKids (replaceKid n t' fk) := by
  rw [areplace_append_right n _ body _ hn, areplace_encodeKids n t' fk ht]

-- ------------------------------------------------------------------ well-formedness of updated kid lists

theorem kidsWF_replace (n : String) (t' : Tree) : ∀ (fk : List Tree) (taken : List String),
    kidsWF ct dt taken fk = true → t'.name = n → t'.wf ct dt = true → dt.contains t'.info.gtype = true →
    kidsWF ct dt taken (replaceKid n t' fk) = true
  | [], _, _, _, _, _ => by simp [replaceKid, kidsWF]
  | x :: xs, taken, h, ht, hw, hd => by
    simp only [kidsWF, Bool.and_eq_true] at h
    obtain ⟨⟨⟨hf, hxd⟩, hxw⟩, hr⟩ := h
    simp only [replaceKid]
    split
    · next hx =>
      simp only [kidsWF, Bool.and_eq_true]
      refine ⟨⟨⟨?_, hd⟩, hw⟩, ?_⟩
      · rw [ht, ← hx]; exact hf
      · rw [ht, ← hx]; exact hr
    · simp only [kidsWF, Bool.and_eq_true]
      exact ⟨⟨⟨hf, hxd⟩, hxw⟩, kidsWF_replace n t' xs _ hr ht hw hd⟩

theorem kidsWF_append (t' : Tree) : ∀ (fk : List Tree) (taken : List String),
    kidsWF ct dt taken fk = true → t'.name ∉ taken → t'.name ∉ names fk → t'.wf ct dt = true →
    dt.contains t'.info.gtype = true → kidsWF ct dt taken (fk ++ [t']) = true
  | [], taken, _, hn, _, hw, hd => by
    simp [kidsWF, hn, hw, hd]
    simpa using hd
  | x :: xs, taken, h, hn, hnn, hw, hd => by
    simp only [kidsWF, Bool.and_eq_true] at h
    obtain ⟨⟨⟨hf, hxd⟩, hxw⟩, hr⟩ := h
    simp only [names, List.map_cons, List.mem_cons, not_or] at hnn
    simp only [List.cons_append, kidsWF, Bool.and_eq_true]
    refine ⟨⟨⟨hf, hxd⟩, hxw⟩, kidsWF_append t' xs _ hr ?_ hnn.2 hw hd⟩
    simp only [List.mem_cons, not_or]
    exact ⟨hnn.1, hn⟩

theorem kidsWF_names_not_taken : ∀ (fk : List Tree) (taken : List String), kidsWF ct dt taken fk = true →
    ∀ n, n ∈ names fk → n ∉ taken
  | [], _, _, n, hn => by simp [names] at hn
  | x :: xs, taken, h, n, hn => by
    simp only [kidsWF, Bool.and_eq_true, Bool.not_eq_true', List.contains_eq_mem, decide_eq_false_iff_not] at h
    simp only [names, List.map_cons, List.mem_cons] at hn
    cases hn with
    | inl e => rw [e]; exact h.1.1.1
    | inr e =>
      have := kidsWF_names_not_taken xs (x.name :: taken) h.2 n e
      exact fun hm => this (List.mem_cons_of_mem _ hm)

theorem kidsWF_retake' : ∀ (kids : List Tree) (t1 t2 : List String), kidsWF ct dt t1 kids = true →
    (∀ k ∈ kids, k.name ∉ t2) → kidsWF ct dt t2 kids = true
  | [], _, _, _, _ => by simp [kidsWF]
  | k :: ks, t1, t2, h, hn => by
    simp only [kidsWF, Bool.and_eq_true, Bool.not_eq_true', List.contains_eq_mem, decide_eq_false_iff_not] at h ⊢
    obtain ⟨⟨⟨hf, hd⟩, hw⟩, hr⟩ := h
    refine ⟨⟨⟨hn k (by simp), hd⟩, hw⟩, ?_⟩
    have hr' : kidsWF ct dt [k.name] ks = true :=
      kidsWF_mono ks (k.name :: t1) [k.name] (fun n hn => by simp at hn; simp [hn]) hr
    have key : ∀ (l : List Tree) (a b : List String), kidsWF ct dt a l = true → (∀ x ∈ l, x.name ∉ b) →
        kidsWF ct dt (a ++ b) l = true := by
      intro l
      induction l with
      | nil => intros; simp [kidsWF]
      | cons x xs ih =>
        intro a b hx hb
        simp only [kidsWF, Bool.and_eq_true, Bool.not_eq_true', List.contains_eq_mem, decide_eq_false_iff_not] at hx ⊢
        obtain ⟨⟨⟨hxa, hxd⟩, hxw⟩, hxr⟩ := hx
        refine ⟨⟨⟨?_, hxd⟩, hxw⟩, ?_⟩
        · intro hm
          rcases List.mem_append.mp hm with h1 | h2
          · exact hxa h1
          · exact hb x (by simp) h2
        · have := ih (x.name :: a) b hxr (fun y hy => hb y (List.mem_cons_of_mem _ hy))
          simpa using this
    have := key ks [k.name] t2 hr' (fun x hx => hn x (List.mem_cons_of_mem _ hx))
    simpa using this

theorem kidsWF_find {n : String} : ∀ (kids : List Tree) (taken : List String) (c : Tree),
    kidsWF ct dt taken kids = true → findKid n kids = some c →
    c.wf ct dt = true ∧ n ∉ taken ∧ dt.contains c.info.gtype = true
  | [], _, c, _, h => by simp [findKid] at h
  | t :: ts, taken, c, hw, h => by
    simp only [kidsWF, Bool.and_eq_true, Bool.not_eq_true', List.contains_eq_mem, decide_eq_false_iff_not] at hw
    obtain ⟨⟨⟨hf, hd⟩, hwf⟩, hr⟩ := hw
    simp only [findKid] at h
    split at h
    · next heq => cases h; exact ⟨hwf, heq ▸ hf, by simpa using hd⟩
    · have := kidsWF_find ts (t.name :: taken) c hr h
      exact ⟨this.1, fun hm => this.2.1 (List.mem_cons_of_mem _ hm), this.2.2⟩

-- ------------------------------------------------------------------ tagged keys of an encoded group

theorem hasTag_encode (t : Tree) : (encode t).hasTag = true := by
  cases t with
  | mk i k => simp [encode, Obj.hasTag, Obj.attrs, nodeAttrs, alookup]

theorem taggedKeys_contains (a : Attrs) (body : List (String × Obj)) (fk : List Tree) (n : String)
    (hn : n ∉ akeys body) :
    (taggedKeys (.group a (body ++ encodeKids fk))).contains n = (findKid n fk).isSome := by
  have h1 : ∀ (l : List (String × Obj)), n ∉ akeys l → n ∉ (l.filter (fun kv => kv.2.hasTag)).map (·.1) := by
    intro l hl hm
    apply hl
    simp only [List.mem_map, List.mem_filter] at hm
    obtain ⟨x, ⟨hx, _⟩, rfl⟩ := hm
    exact List.mem_map_of_mem hx
  have h2 : (encodeKids fk).filter (fun kv => kv.2.hasTag) = encodeKids fk := by
    rw [List.filter_eq_self]
    intro x hx
    induction fk with
    | nil => simp [encodeKids] at hx
    | cons y ys ih =>
      simp only [encodeKids, List.mem_cons] at hx
      cases hx with
      | inl e => rw [e]; exact hasTag_encode y
      | inr e => exact ih e
  simp only [taggedKeys, Obj.kids, List.filter_append, List.map_append, h2]
  have h3 : (encodeKids fk).map (·.1) = names fk := akeys_encodeKids fk
  rw [h3]
  cases hf : findKid n fk with
  | none =>
    have := (findKid_none_iff n fk).mp hf
    simp only [Option.isSome_none, List.contains_eq_mem, List.mem_append, decide_eq_false_iff_not, not_or]
    exact ⟨h1 body hn, this⟩
  | some c =>
    have : n ∈ names fk := by
      apply Classical.byContradiction
      intro hc
      have := (findKid_none_iff n fk).mpr hc
      simp [hf] at this
    simp [this]

end EmdModel
