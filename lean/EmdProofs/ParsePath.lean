/-
EmdProofs.ParsePath — the emdpath parser of write.py on a plain root name.
-/
import EmdModel

namespace EmdModel

theorem splitAux_no_slash : ∀ (cs acc : List Char), '/' ∉ cs → splitAux '/' cs acc = [acc.reverse ++ cs]
  | [], acc, _ => by simp [splitAux]
  | c :: cs, acc, h => by
    simp only [List.mem_cons, not_or] at h
    have hc : ¬ c = '/' := fun e => h.1 e.symm
    simp only [splitAux, hc, if_false]
    rw [splitAux_no_slash cs (c :: acc) h.2]
    simp

theorem splitSlash_no_slash (s : String) (h : hasSlash s = false) : splitSlash s = [s] := by
  have hn : '/' ∉ s.toList := by
    simpa [hasSlash] using h
  simp only [splitSlash, splitAux_no_slash s.toList [] hn, List.reverse_nil, List.nil_append, List.map_cons, List.map_nil,
    String.ofList_toList]

/-- `emdpath = '<rootname>'` names the root itself -/
theorem parse_rootname (n : String) (h : validName n = true) : parseEmdpathWrite n = some (n, []) := by
  simp only [validName, Bool.and_eq_true, decide_eq_true_eq, Bool.not_eq_true'] at h
  obtain ⟨⟨h1, h2⟩, _⟩ := h
  have hne : n.isEmpty = false := by
    cases he : n.isEmpty with
    | false => rfl
    | true => exact absurd (String.isEmpty_iff.mp he) h1
  have hhead : ¬ n.toList.head? = some '/' := by
    intro e
    have : '/' ∈ n.toList := by
      cases hl : n.toList with
      | nil => simp [hl] at e
      | cons c cs => simp [hl] at e; simp [e]
    simp [hasSlash] at h2
    exact h2 this
  simp only [parseEmdpathWrite, hne, Bool.false_eq_true, if_false, hhead, splitSlash_no_slash n h2]
  rfl

end EmdModel
