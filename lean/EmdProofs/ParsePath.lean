/-
EmdProofs.ParsePath — the emdpath parser of write.py on a plain root name.
-/
import EmdModel

namespace EmdModel

theorem splitAux_no_slash : ∀ (cs acc : List Char), '/' ∉ cs → splitAux '/' cs acc = [acc.reverse ++ cs]
  | [], acc, _ => by simp [splitAux]
  | c :: cs, acc, h => by
    simp only [List.mem_cons, not_or] at h
    have hc : ¬ c = '/' := fun e => h.1 e.symm
    simp only [splitAux, hc, if_false]
    rw [splitAux_no_slash cs (c :: acc) h.2]
    simp

theorem splitSlash_no_slash (s : String) (h : hasSlash s = false) : splitSlash s = [s] := by
  have hn : '/' ∉ s.toList := by
    simpa [hasSlash] using h
  simp only [splitSlash, splitAux_no_slash s.toList [] hn, List.reverse_nil, List.nil_append, List.map_cons, List.map_nil,
    String.ofList_toList]

/-- `emdpath = '<rootname>'` names the root itself -/
theorem parse_rootname (n : String) (h : validName n = true) : parseEmdpathWrite n = some (n, []) := by
  simp only [validName, Bool.and_eq_true, decide_eq_true_eq, Bool.not_eq_true'] at h
  obtain ⟨⟨h1, h2⟩, _⟩ := h
  have hne : n.isEmpty = false := by
    cases he : n.isEmpty with
    | false => rfl
    | true => exact absurd (String.isEmpty_iff.mp he) h1
  have hhead : ¬ n.toList.head? = some '/' := by
    intro e
    have : '/' ∈ n.toList := by
      cases hl : n.toList with
      | nil => simp [hl] at e
      | cons c cs => simp [hl] at e; simp [e]
    simp [hasSlash] at h2
    exact h2 this
  simp only [parseEmdpathWrite, hne, Bool.false_eq_true, if_false, hhead, splitSlash_no_slash n h2]
  rfl

/-- `'/'.join(names)` on character lists -/
def joinChars : List String → List Char
  | [] => []
  | [n] => n.toList
  | n :: m :: r => n.toList ++ '/' :: joinChars (m :: r)

def joinPath (names : List String) : String := String.ofList (joinChars names)

theorem splitAux_prefix : ∀ (pre cs acc : List Char), '/' ∉ pre →
    splitAux '/' (pre ++ '/' :: cs) acc = (acc.reverse ++ pre) :: splitAux '/' cs []
  | [], cs, acc, _ => by simp [splitAux]
  | c :: pre, cs, acc, h => by
    simp only [List.mem_cons, not_or] at h
    have hc : ¬ c = '/' := fun e => h.1 e.symm
    simp only [List.cons_append, splitAux, hc, if_false]
    rw [splitAux_prefix pre cs (c :: acc) h.2]
    simp

/-- splitting a joined path gives the names back, when no name contains a '/' -/
theorem split_join : ∀ (names : List String), names ≠ [] → (∀ n ∈ names, hasSlash n = false) →
    (splitAux '/' (joinChars names) []).map String.ofList = names
  | [], h, _ => absurd rfl h
  | [n], _, hs => by
    have hn : '/' ∉ n.toList := by simpa [hasSlash] using hs n (by simp)
    simp [joinChars, splitAux_no_slash n.toList [] hn, String.ofList_toList]
  | n :: m :: r, _, hs => by
    have hn : '/' ∉ n.toList := by simpa [hasSlash] using hs n (by simp)
    simp only [joinChars]
    rw [splitAux_prefix n.toList _ [] hn]
    simp only [List.reverse_nil, List.nil_append, List.map_cons, String.ofList_toList]
    rw [split_join (m :: r) (by simp) (fun x hx => hs x (List.mem_cons_of_mem _ hx))]

theorem eraseP_none_empty : ∀ (l : List String), (∀ n ∈ l, n ≠ "") → l.eraseP (· == "") = l
  | [], _ => rfl
  | x :: xs, h => by
    have hx : (x == "") = false := by simpa using h x (by simp)
    simp only [List.eraseP_cons, hx, cond_false]
    rw [eraseP_none_empty xs (fun n hn => h n (List.mem_cons_of_mem _ hn))]

theorem joinChars_head (n : String) (rest : List String) (hn : n ≠ "") (hs : hasSlash n = false) :
    (joinChars (n :: rest)).head? ≠ some '/' := by
  have hne : n.toList ≠ [] := by
    intro e
    apply hn
    have := congrArg String.ofList e
    simpa [String.ofList_toList] using this
  have hnot : '/' ∉ n.toList := by simpa [hasSlash] using hs
  cases hl : n.toList with
  | nil => exact absurd hl hne
  | cons c cs =>
    have hc : c ≠ '/' := by
      intro e; apply hnot; rw [hl, e]; simp
    cases rest with
    | nil => simp [joinChars, hl, hc]
    | cons m r => simp [joinChars, hl, hc]

/-- `emdpath = 'root/a/b'` names the node a/b of the tree `root` -/
theorem parse_path (root : String) (names : List String) (h : ∀ n ∈ root :: names, validName n = true) :
    parseEmdpathWrite (joinPath (root :: names)) = some (root, names) := by
  have hv : ∀ n ∈ root :: names, n ≠ "" ∧ hasSlash n = false := by
    intro n hn
    have := h n hn
    simp only [validName, Bool.and_eq_true, decide_eq_true_eq, Bool.not_eq_true'] at this
    exact ⟨this.1.1, this.1.2⟩
  have hroot := hv root (by simp)
  have hchars : (joinPath (root :: names)).toList = joinChars (root :: names) := by simp [joinPath]
  have hne : (joinPath (root :: names)).isEmpty = false := by
    cases he : (joinPath (root :: names)).isEmpty with
    | false => rfl
    | true =>
      have := String.isEmpty_iff.mp he
      have h2 := congrArg String.toList this
      rw [hchars] at h2
      have := joinChars_head root names hroot.1 hroot.2
      rw [h2] at this
      -- the joined path of a non-empty root name is not empty
      cases hl : root.toList with
      | nil =>
        exfalso; apply hroot.1
        have := congrArg String.ofList hl
        simpa [String.ofList_toList] using this
      | cons c cs =>
        cases names with
        | nil => simp [joinChars, hl] at h2
        | cons m r => simp [joinChars, hl] at h2
  have hhead := joinChars_head root names hroot.1 hroot.2
  have hsplit := split_join (root :: names) (by simp) (fun n hn => (hv n hn).2)
  simp only [parseEmdpathWrite, hne, Bool.false_eq_true, if_false, hchars, hhead, splitSlash, hsplit]
  rw [eraseP_none_empty names (fun n hn => (hv n (List.mem_cons_of_mem _ hn)).1)]

end EmdModel
