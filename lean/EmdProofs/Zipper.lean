/-
EmdProofs.Zipper — writing at a path inside an encoded tree (`updateAt` / `atPath`) is the replacement of the subtree at
that path; `_validate_treepath` on an encoded tree; frame lemmas (everything off the path is untouched).
-/
import EmdProofs.AppendSpec

set_option linter.unusedSimpArgs false
set_option linter.unusedVariables false

namespace EmdModel

variable {ct : ClassTable} {dt : List String}

/-- the tree with the subtree at path `p` replaced by `s'` -/
def Tree.replaceAt : Tree → List String → Tree → Tree
  | _, [], s' => s'
  | .mk i kids, n :: p, s' =>
    match findKid n kids with
    | some c => .mk i (replaceKid n (c.replaceAt p s') kids)
    | none => .mk i kids

/-- a node with one more child at the end -/
def Tree.addKid (t d : Tree) : Tree := .mk t.info (t.kids ++ [d])

theorem Tree.replaceAt_name (t : Tree) (n : String) (p : List String) (s' : Tree) : (t.replaceAt (n :: p) s').name = t.name := by
  cases t with
  | mk i kids =>
    simp only [Tree.replaceAt]
    cases findKid n kids <;> rfl

theorem Tree.replaceAt_info (t : Tree) (n : String) (p : List String) (s' : Tree) : (t.replaceAt (n :: p) s').info = t.info := by
  cases t with
  | mk i kids =>
    simp only [Tree.replaceAt]
    cases findKid n kids <;> rfl

/-- the name of the tree at the end of a non-empty path is the last name of the path -/
theorem at_name : ∀ (p : List String) (t s : Tree) (n : String), t.at (n :: p) = some s → s.name = (n :: p).getLast (by simp)
  | [], t, s, n, h => by
    simp only [Tree.at] at h
    cases hk : findKid n t.kids with
    | none => simp [hk] at h
    | some c =>
      simp only [hk, Option.some.injEq] at h
      subst h
      simpa using findKid_name' n t.kids c hk
  | m :: p, t, s, n, h => by
    simp only [Tree.at] at h
    cases hk : findKid n t.kids with
    | none => simp [hk] at h
    | some c =>
      simp only [hk] at h
      have := at_name p c s m h
      simpa using this

/-- replacing the subtree at `p` by one of the same name, in a well-formed tree, keeps it well formed -/
theorem replaceAt_wf : ∀ (p : List String) (F S S' : Tree), F.wf ct dt = true → F.at p = some S → S'.wf ct dt = true →
    S'.name = S.name → (p ≠ [] → dt.contains S'.info.gtype = true) → (F.replaceAt p S').wf ct dt = true
  | [], F, S, S', _, _, hS', _, _ => by simpa [Tree.replaceAt] using hS'
  | n :: p, .mk i kids, S, S', hF, hat, hS', hname, hd => by
    simp only [Tree.at, Tree.kids] at hat
    cases hk : findKid n kids with
    | none => simp [hk] at hat
    | some c =>
      simp only [hk] at hat
      simp only [Tree.replaceAt, hk]
      simp only [Tree.wf, Bool.and_eq_true] at hF ⊢
      obtain ⟨hc, hnt, hcd⟩ := kidsWF_find kids _ c hF.2 hk
      have hcn : c.name = n := findKid_name' n kids c hk
      refine ⟨hF.1, kidsWF_replace n _ kids _ hF.2 ?_ ?_ ?_⟩
      · cases p with
        | nil =>
          simp only [Tree.at, Option.some.injEq] at hat
          subst hat
          simp only [Tree.replaceAt]; rw [hname]; exact hcn
        | cons m q => rw [Tree.replaceAt_name]; exact hcn
      · exact replaceAt_wf p c S S' hc hat hS' hname (fun hp => hd (by simp))
      · cases p with
        | nil => simp only [Tree.replaceAt]; exact hd (by simp)
        | cons m q => rw [Tree.replaceAt_info]; exact hcd

/-- THE ZIPPER: a write `f` at the group of the node at path `p` that turns the encoding of the subtree `S` into the
    encoding of `S'` turns the encoding of the whole tree into the encoding of the tree with `S` replaced by `S'` -/
theorem updateAt_encode (f : Obj → R Obj) : ∀ (p : List String) (F S S' : Tree), F.wf ct dt = true → F.at p = some S →
    f (encode S) = .ok (encode S') → S'.name = S.name →
    updateAt f (encode F) p = .ok (encode (F.replaceAt p S'))
  | [], F, S, S', _, hat, hf, _ => by
    simp only [Tree.at, Option.some.injEq] at hat
    subst hat
    simpa [updateAt, Tree.replaceAt] using hf
  | n :: p, .mk i kids, S, S', hF, hat, hf, hname => by
    simp only [Tree.at, Tree.kids] at hat
    cases hk : findKid n kids with
    | none => simp [hk] at hat
    | some c =>
      simp only [hk] at hat
      simp only [Tree.wf, Bool.and_eq_true] at hF
      obtain ⟨hc, hnt, _⟩ := kidsWF_find kids _ c hF.2 hk
      have hcn : c.name = n := findKid_name' n kids c hk
      have hlook : alookup n (encode (.mk i kids)).kids = some (encode c) := by
        simp only [encode, Obj.kids]
        rw [alookup_body_kids n i.body kids hnt, hk]; rfl
      have ih := updateAt_encode f p c S S' hc hat hf hname
      have hname' : (c.replaceAt p S').name = n := by
        cases p with
        | nil =>
          simp only [Tree.at, Option.some.injEq] at hat
          subst hat
          simp only [Tree.replaceAt]; rw [hname]; exact hcn
        | cons m q => rw [Tree.replaceAt_name]; exact hcn
      simp only [updateAt, hlook, ih, bind, Except.bind, pure, Except.pure, Tree.replaceAt, hk]
      simp only [encode, Obj.setKids, Obj.kids]
      rw [areplace_body_kids n _ i.body kids hnt hname']

theorem atPath_encode (f : Obj → R Obj) (p : List String) (F S S' : Tree) (hF : F.wf ct dt = true) (hat : F.at p = some S)
    (hf : f (encode S) = .ok (encode S')) (hname : S'.name = S.name) :
    atPath (encode F) p f = .ok (encode (F.replaceAt p S')) := updateAt_encode f p F S S' hF hat hf hname

/-! ### reading the replaced tree -/

theorem findKid_replaceKid_same (n : String) (t' : Tree) (kids : List Tree) (ht : t'.name = n) (c : Tree)
    (hc : findKid n kids = some c) : findKid n (replaceKid n t' kids) = some t' :=
  findKid_replace_same n t' kids ht (by rw [hc]; rfl)

/-- at the path itself (and below it) the replaced tree holds the new subtree -/
theorem at_replaceAt_below : ∀ (p r : List String) (F S S' : Tree), F.at p = some S → S'.name = S.name →
    (F.replaceAt p S').at (p ++ r) = S'.at r
  | [], r, F, S, S', _, _ => by simp [Tree.replaceAt]
  | n :: p, r, .mk i kids, S, S', hat, hname => by
    simp only [Tree.at, Tree.kids] at hat
    cases hk : findKid n kids with
    | none => simp [hk] at hat
    | some c =>
      simp only [hk] at hat
      have hcn : c.name = n := findKid_name' n kids c hk
      have hname' : (c.replaceAt p S').name = n := by
        cases p with
        | nil =>
          simp only [Tree.at, Option.some.injEq] at hat
          subst hat
          simp only [Tree.replaceAt]; rw [hname]; exact hcn
        | cons m q => rw [Tree.replaceAt_name]; exact hcn
      simp only [Tree.replaceAt, hk, List.cons_append, Tree.at, Tree.kids]
      rw [findKid_replaceKid_same n _ kids hname' c hk]
      exact at_replaceAt_below p r c S S' hat hname

/-- the info of every node whose path does not pass through `p` is untouched (a strict prefix of `p` keeps its info:
    only its children change) -/
theorem info_replaceAt_frame : ∀ (p q : List String) (F S S' : Tree), F.at p = some S → S'.name = S.name →
    ¬ p <+: q → ((F.replaceAt p S').at q).map Tree.info = (F.at q).map Tree.info
  | [], q, F, S, S', _, _, hnp => absurd (List.nil_prefix) hnp
  | n :: p, [], .mk i kids, S, S', hat, hname, _ => by
    simp only [Tree.at, Option.map_some]
    rw [Tree.replaceAt_info]
  | n :: p, m :: q, .mk i kids, S, S', hat, hname, hnp => by
    simp only [Tree.at, Tree.kids] at hat
    cases hk : findKid n kids with
    | none => simp [hk] at hat
    | some c =>
      simp only [hk] at hat
      have hcn : c.name = n := findKid_name' n kids c hk
      have hname' : (c.replaceAt p S').name = n := by
        cases p with
        | nil =>
          simp only [Tree.at, Option.some.injEq] at hat
          subst hat
          simp only [Tree.replaceAt]; rw [hname]; exact hcn
        | cons m q => rw [Tree.replaceAt_name]; exact hcn
      simp only [Tree.replaceAt, hk, Tree.at, Tree.kids]
      by_cases hmn : m = n
      · subst hmn
        rw [findKid_replaceKid_same m _ kids hname' c hk, hk]
        apply info_replaceAt_frame p q c S S' hat hname
        intro hpre
        exact hnp (by simpa using hpre)
      · rw [findKid_replace_other n m _ kids hname' hmn]

/-! ### `_validate_treepath` on an encoded tree -/

theorem validate_go_inside : ∀ (p acc : List String) (F S : Tree), F.wf ct dt = true → F.at p = some S →
    validateTreepath.go (encode F) acc p = some (acc ++ p, true)
  | [], acc, F, S, _, _ => by simp [validateTreepath.go]
  | n :: p, acc, .mk i kids, S, hF, hat => by
    simp only [Tree.at, Tree.kids] at hat
    cases hk : findKid n kids with
    | none => simp [hk] at hat
    | some c =>
      simp only [hk] at hat
      simp only [Tree.wf, Bool.and_eq_true] at hF
      obtain ⟨hc, hnt, _⟩ := kidsWF_find kids _ c hF.2 hk
      have hlook : alookup n (encode (.mk i kids)).kids = some (encode c) := by
        simp only [encode, Obj.kids]
        rw [alookup_body_kids n i.body kids hnt, hk]; rfl
      have hg : (encode c).isGroup = true := by cases c; rfl
      simp only [validateTreepath.go, hlook, hg, if_true]
      rw [validate_go_inside p (acc ++ [n]) c S hc hat]
      simp

/-- a runtime path whose last name is not yet in the file: the file path of the parent, "one beyond" -/
theorem validate_go_beyond : ∀ (p acc : List String) (F P : Tree) (m : String), F.wf ct dt = true → F.at p = some P →
    alookup m (encode P).kids = none → validateTreepath.go (encode F) acc (p ++ [m]) = some (acc ++ p, false)
  | [], acc, F, P, m, _, hat, hm => by
    simp only [Tree.at, Option.some.injEq] at hat
    subst hat
    simp [validateTreepath.go, hm]
  | n :: p, acc, .mk i kids, P, m, hF, hat, hm => by
    simp only [Tree.at, Tree.kids] at hat
    cases hk : findKid n kids with
    | none => simp [hk] at hat
    | some c =>
      simp only [hk] at hat
      simp only [Tree.wf, Bool.and_eq_true] at hF
      obtain ⟨hc, hnt, _⟩ := kidsWF_find kids _ c hF.2 hk
      have hlook : alookup n (encode (.mk i kids)).kids = some (encode c) := by
        simp only [encode, Obj.kids]
        rw [alookup_body_kids n i.body kids hnt, hk]; rfl
      have hg : (encode c).isGroup = true := by cases c; rfl
      simp only [List.cons_append, validateTreepath.go, hlook, hg, if_true]
      rw [validate_go_beyond p (acc ++ [n]) c P m hc hat hm]
      simp

theorem validate_inside (p : List String) (F S : Tree) (hF : F.wf ct dt = true) (hat : F.at p = some S) :
    validateTreepath (encode F) p = some (p, true) := by
  simpa [validateTreepath] using validate_go_inside p [] F S hF hat

theorem validate_beyond (p : List String) (F P : Tree) (m : String) (hF : F.wf ct dt = true) (hat : F.at p = some P)
    (hm : alookup m (encode P).kids = none) : validateTreepath (encode F) (p ++ [m]) = some (p, false) := by
  simpa [validateTreepath] using validate_go_beyond p [] F P m hF hat hm

/-! ### composing writes at paths -/

theorem updateAt_append (f : Obj → R Obj) : ∀ (p q : List String) (o : Obj),
    updateAt f o (p ++ q) = updateAt (fun x => updateAt f x q) o p
  | [], q, o => by simp [updateAt]
  | n :: p, q, o => by
    simp only [List.cons_append, updateAt]
    cases alookup n o.kids with
    | none => rfl
    | some c => simp only [updateAt_append f p q c]

theorem areplace_twice {β : Type} (k : String) (v w : β) : ∀ (l : List (String × β)),
    areplace k v (areplace k w l) = areplace k v l
  | [] => rfl
  | (k', x) :: r => by
    simp only [areplace]
    by_cases hk : k' = k
    · simp [hk, areplace]
    · simp [hk, areplace, areplace_twice k v w r]

theorem setKids_setKids (o : Obj) (a b : List (String × Obj)) : (o.setKids a).setKids b = o.setKids b := by
  cases o <;> rfl

theorem kids_setKids_of_lookup (o : Obj) (n : String) (c : Obj) (ks : List (String × Obj))
    (h : alookup n o.kids = some c) : (o.setKids ks).kids = ks := by
  cases o with
  | group a k => rfl
  | dataset a v => simp [Obj.kids, alookup] at h

/-- two writes at the same path, one after the other, are one write of the composed function -/
theorem updateAt_bind (f g : Obj → R Obj) : ∀ (p : List String) (o : Obj),
    (updateAt f o p).bind (fun o1 => updateAt g o1 p) = updateAt (fun x => (f x).bind g) o p
  | [], o => by simp [updateAt]
  | n :: p, o => by
    simp only [updateAt]
    cases hl : alookup n o.kids with
    | none => rfl
    | some c =>
      have ih := updateAt_bind f g p c
      simp only [bind, Except.bind] at ih ⊢
      cases h1 : updateAt f c p with
      | error e =>
        rw [h1] at ih
        simp only [← ih]
      | ok c' =>
        rw [h1] at ih
        simp only [pure, Except.pure, updateAt]
        have hk : (o.setKids (areplace n c' o.kids)).kids = areplace n c' o.kids := kids_setKids_of_lookup o n c _ hl
        rw [hk, alookup_areplace_same n c' o.kids (by simp [hl])]
        simp only [← ih]
        cases updateAt g c' p with
        | error e => rfl
        | ok c'' => simp only [hk, setKids_setKids, areplace_twice]

end EmdModel
