/-
EmdProofs.AppendSpec — the main refinement: `_append_branch` on the encoding of a well-formed file tree
yields the encoding of a well-formed tree that is the path-wise union (append) / union-with-replacement
(append-over) of the file tree and the runtime tree.
-/
import EmdProofs.Append

set_option linter.unusedSimpArgs false

namespace EmdModel

variable {ct : ClassTable} {dt : List String}

mutual
/-- runtime child `d` (with its branch) can be merged below a file node with info `i` and children `fk`:
    no runtime child is named like an object of the body it lands in, and for append-over the old node's children
    are not named like objects of the new body.  (`avoid`, the names taken in the group, is no longer consulted: since
    the repair of `_overwrite_single_node` the scratch name is chosen free, so a sibling `_tmp_<name>` is no obstacle.) -/
def compatOne (over : Bool) (i : NodeInfo) (fk : List Tree) (avoid : List String) : Tree → Bool
  | .mk di dk =>
    !(akeys i.body).contains di.name &&
    (match findKid di.name fk with
     | none => true
     | some f =>
       (!over || f.kids.all (fun k => !(akeys di.body).contains k.name)) &&
       compatKids over (if over then di else f.info) f.kids
         (akeys (if over then di else f.info).body ++ names f.kids ++ names dk) dk)
def compatKids (over : Bool) (i : NodeInfo) (fk : List Tree) (avoid : List String) : List Tree → Bool
  | [] => true
  | d :: ds => compatOne over i fk avoid d && compatKids over i fk avoid ds
end

theorem compatOne_congr (over : Bool) (i : NodeInfo) (fk fk' : List Tree) (avoid : List String) (d : Tree)
    (h : findKid d.name fk' = findKid d.name fk) :
    compatOne over i fk' avoid d = compatOne over i fk avoid d := by
  cases d with
  | mk di dk =>
    simp only [Tree.name_mk] at h
    simp only [compatOne, h]

theorem compatKids_congr (over : Bool) (i : NodeInfo) (fk fk' : List Tree) (avoid : List String) :
    ∀ (ds : List Tree), (∀ d ∈ ds, findKid d.name fk' = findKid d.name fk) →
    compatKids over i fk' avoid ds = compatKids over i fk avoid ds
  | [], _ => by simp [compatKids]
  | d :: ds, h => by
    simp only [compatKids]
    rw [compatOne_congr over i fk fk' avoid d (h d (by simp)),
        compatKids_congr over i fk fk' avoid ds (fun x hx => h x (List.mem_cons_of_mem _ hx))]

theorem compatKids_not_body (over : Bool) (i : NodeInfo) (fk : List Tree) (avoid : List String) :
    ∀ (ds : List Tree), compatKids over i fk avoid ds = true → ∀ d ∈ ds, d.name ∉ akeys i.body
  | [], _, d, hd => by simp at hd
  | x :: xs, h, d, hd => by
    simp only [compatKids, Bool.and_eq_true] at h
    simp only [List.mem_cons] at hd
    cases hd with
    | inl e =>
      subst e
      cases d with
      | mk di dk =>
        have := h.1
        simp only [compatOne, Bool.and_eq_true, Bool.not_eq_true', List.contains_eq_mem, decide_eq_false_iff_not] at this
        exact this.1
    | inr e => exact compatKids_not_body over i fk avoid xs h.2 d e

theorem links_encode (f : Tree) (h : f.wf ct dt = true) :
    (encode f).kids.filter (fun kv => hasDataTag dt kv.2) = encodeKids f.kids := by
  cases f with
  | mk i kids =>
    simp only [Tree.wf, Bool.and_eq_true] at h
    obtain ⟨hi, hk⟩ := h
    simp only [infoWF, Bool.and_eq_true] at hi
    have hb := hi.2
    simp only [encode, Obj.kids, List.filter_append, Tree.kids_mk]
    have h1 : i.body.filter (fun kv => hasDataTag dt kv.2) = [] := by
      rw [List.filter_eq_nil_iff]
      intro x hx
      have := (List.all_eq_true.mp hb) x hx
      simpa using this
    have h2 : ∀ (ks : List Tree) (tk : List String), kidsWF ct dt tk ks = true →
        (encodeKids ks).filter (fun kv => hasDataTag dt kv.2) = encodeKids ks := by
      intro ks
      induction ks with
      | nil => intro _ _; simp [encodeKids]
      | cons t ts ih =>
        intro tk h
        simp only [kidsWF, Bool.and_eq_true] at h
        obtain ⟨⟨⟨_, hd⟩, _⟩, hr⟩ := h
        have ht : hasDataTag dt (encode t) = true := by
          have := isDataKid_encode (dt := dt) t hd
          simp only [isDataKid, Bool.and_eq_true] at this
          exact this.2
        simp only [encodeKids, List.filter_cons, ht, if_true, ih _ hr]
    rw [h1, h2 kids _ hk]; simp

theorem cK_cons (kids : List Tree) (c : Tree) (n m : String) (q : List String)
    (h : findKid n kids = some c) : cK kids n (m :: q) = cK c.kids m q := by
  cases c with
  | mk ci ck => cases hm : findKid m ck <;> simp [cK, h, Tree.at, hm]

theorem cK_nil (kids : List Tree) (c : Tree) (n : String) (h : findKid n kids = some c) :
    cK kids n [] = some c.info := by
  simp [cK, h, Tree.at]

theorem cK_none (kids : List Tree) (n : String) (p : List String) (h : findKid n kids = none) :
    cK kids n p = none := by
  simp [cK, h]

theorem appendOne_matched (dt : List String) (over : Bool) (keys0 : List String) (g g' sub sub' : Obj)
    (di : NodeInfo) (dk : List Tree)
    (hkeys : keys0.contains di.name = true)
    (h1 : (if over = true then overwriteSingleNode dt g di else (pure g : R Obj)) = .ok g')
    (h2 : alookup di.name g'.kids = some sub)
    (h3 : appendKids dt over (taggedKeys sub) sub dk = .ok sub') :
    appendOne dt over keys0 g (.mk di dk) = .ok (g'.setKids (areplace di.name sub' g'.kids)) := by
  rw [appendOne]
  simp only [hkeys, Bool.not_true, Bool.false_eq_true, if_false]
  cases over
  · simp only [Bool.false_eq_true, if_false] at h1 ⊢
    cases h1
    simp only [bind, Except.bind, pure, Except.pure, h2, h3]
  · simp only [if_true] at h1 ⊢
    simp only [h1, bind, Except.bind, pure, Except.pure, h2, h3]

mutual
theorem appendOne_spec (over : Bool) : ∀ (d : Tree) (i : NodeInfo) (fk : List Tree) (keys0 avoid : List String),
    (Tree.mk i fk).wf ct dt = true → d.wf ct dt = true → dt.contains d.info.gtype = true →
    compatOne over i fk avoid d = true →
    (∀ m, m ∈ akeys i.body ∨ m ∈ names fk → m ∈ avoid) →
    keys0.contains d.name = (findKid d.name fk).isSome →
    ∃ fk1, (Tree.mk i fk1).wf ct dt = true ∧
      appendOne dt over keys0 (encode (.mk i fk)) d = .ok (encode (.mk i fk1)) ∧
      (∀ m, m ≠ d.name → findKid m fk1 = findKid m fk) ∧
      (∀ m, m ∈ names fk1 → m ∈ names fk ∨ m = d.name) ∧
      (∀ p, cK fk1 d.name p = combine over (cK fk d.name p) ((d.at p).map Tree.info))
  | .mk di dk, i, fk, keys0, avoid, hF, hd, hdt, hc, havoid, hkeys => by
    have hF' := hF
    simp only [Tree.wf, Bool.and_eq_true] at hF
    obtain ⟨hi, hk⟩ := hF
    simp only [compatOne, Bool.and_eq_true, Bool.not_eq_true', List.contains_eq_mem, decide_eq_false_iff_not] at hc
    obtain ⟨hnb, hc⟩ := hc
    simp only [Tree.name_mk, Tree.info_mk] at hkeys hdt
    have hdv : validName di.name = true := infoWF_validName (Tree.wf_info hd)
    cases hf : findKid di.name fk with
    | none =>
      -- a new node: written with its whole branch beneath it
      simp only [hf, Option.isSome_none] at hkeys
      have hlook : alookup di.name (i.body ++ encodeKids fk) = none := by
        rw [alookup_body_kids _ _ _ hnb, hf]; rfl
      have hnn : di.name ∉ names fk := (findKid_none_iff _ _).mp hf
      refine ⟨fk ++ [.mk di dk], ?_, ?_, ?_, ?_, ?_⟩
      · simp only [Tree.wf, Bool.and_eq_true]
        exact ⟨hi, kidsWF_append _ fk _ hk (by simpa using hnb) (by simpa using hnn) hd (by simpa using hdt)⟩
      · simp only [appendOne, hkeys, encode, Obj.isGroup, Obj.kids, hdv, hlook, Obj.setKids, Bool.not_false,
          Bool.not_true, Bool.false_eq_true, if_true, if_false, Option.isSome_none,
          writeNodeFull_ok (ct := ct) (dt := dt) _ hd, bind, Except.bind, pure, Except.pure]
        simp [encodeKids_append, encode, List.append_assoc]
      · intro m hm
        rw [findKid_append]
        have hne : di.name ≠ m := fun e => hm (by simp [e])
        cases findKid m fk with
        | some c => rfl
        | none => simp [hne]
      · intro m hm
        simp only [names, List.map_append, List.mem_append, List.map_cons, List.map_nil, List.mem_singleton,
          Tree.name_mk] at hm
        exact hm
      · intro p
        have h1 : findKid di.name (fk ++ [.mk di dk]) = some (.mk di dk) := by
          rw [findKid_append, hf]; simp
        simp only [Tree.name_mk, cK, h1, hf, Option.bind_some, Option.bind_none, Option.map_none, combine]
    | some f =>
      simp only [hf, Option.isSome_some] at hkeys
      simp only [hf, Bool.or_eq_true, Bool.not_eq_true', Bool.and_eq_true, List.contains_eq_mem,
        decide_eq_false_iff_not] at hc
      obtain ⟨hover, hck⟩ := hc
      have hfn : f.name = di.name := findKid_name' _ _ _ hf
      obtain ⟨hfw, _, hfdt⟩ := kidsWF_find (ct := ct) (dt := dt) fk _ f hk hf
      -- the node after the optional overwrite
      let i' : NodeInfo := if over then di else f.info
      have hi'name : i'.name = di.name := by
        simp only [i']; split
        · rfl
        · have := hfn; simpa [Tree.name] using this
      have hi'name' : ∀ ks, (Tree.mk i' ks).name = di.name := fun ks => by simpa using hi'name
      have hi'gt : dt.contains i'.gtype = true := by
        simp only [i']; split
        · exact hdt
        · exact hfdt
      -- well-formedness of the (possibly replaced) node with the old children
      have hf'wf : (Tree.mk i' f.kids).wf ct dt = true := by
        simp only [i']
        split
        · next ho =>
          have hall := hover.resolve_left (by simp [ho])
          simp only [Tree.wf, Bool.and_eq_true]
          refine ⟨Tree.wf_info hd, kidsWF_retake' f.kids _ _ (Tree.wf_kids hfw) ?_⟩
          intro k hk
          have := (List.all_eq_true.mp hall) k hk
          simpa using this
        · cases f with
          | mk fi fkk => simpa using hfw
      -- the group after the optional overwrite
      let fkA : List Tree := if over then replaceKid di.name (.mk di f.kids) fk else fk
      have hgA : (if over = true then overwriteSingleNode dt (encode (.mk i fk)) di
                  else (pure (encode (.mk i fk)) : R Obj)) = .ok (encode (.mk i fkA)) := by
        simp only [fkA]
        split
        · next ho =>
          have hov := hover.resolve_left (by simp [ho])
          have hlinks := links_encode (ct := ct) (dt := dt) f hfw
          have hany : (encodeKids f.kids).any (fun kv => (alookup kv.1 di.body).isSome) = false := by
            rw [Bool.eq_false_iff]
            intro hcon
            rw [List.any_eq_true] at hcon
            obtain ⟨x, hx, hxs⟩ := hcon
            have hxk : x.1 ∈ names f.kids := by
              rw [← akeys_encodeKids]; exact List.mem_map_of_mem hx
            simp only [names, List.mem_map] at hxk
            obtain ⟨k, hkm, hkn⟩ := hxk
            have := (List.all_eq_true.mp hov) k hkm
            simp only [Bool.not_eq_true', List.contains_eq_mem, decide_eq_false_iff_not] at this
            exact this (hkn ▸ alookup_isSome_mem_akeys _ _ hxs)
          simp only [overwriteSingleNode, encode, Obj.kids, alookup_body_kids _ _ _ hnb, hf, Option.map_some,
            Option.isSome_none, Bool.false_eq_true, if_false]
          have hl2 : (encode f).kids.filter (fun kv => hasDataTag dt kv.2) = encodeKids f.kids := hlinks
          cases f with
          | mk fi fkk =>
            simp only [encode, Obj.kids, Tree.kids_mk] at hl2 hany ⊢
            simp only [hl2, hany, Bool.false_eq_true, if_false, Obj.setKids, pure, Except.pure]
            have := areplace_body_kids di.name (.mk di fkk) i.body fk hnb rfl
            simp only [encode] at this
            rw [this]
        · rfl
      let f' : Tree := .mk i' f.kids
      have hfindA : findKid di.name fkA = some f' := by
        simp only [fkA, f', i']
        split
        · exact findKid_replace_same _ _ _ rfl (by simp [hf])
        · cases f with
          | mk fi fkk => simpa using hf
      have hkA : kidsWF ct dt (akeys i.body) fkA = true := by
        simp only [fkA]
        split
        · next ho =>
          have : (Tree.mk di f.kids).wf ct dt = true := by simpa [i', ho] using hf'wf
          exact kidsWF_replace _ _ fk _ hk rfl this (by simpa using hdt)
        · exact hk
      -- the recursive append into the node
      have hckk : compatKids over i' f.kids (akeys i'.body ++ names f.kids ++ names dk) dk = true := hck
      have hdk : kidsWF ct dt (akeys di.body) dk = true := Tree.wf_kids hd
      obtain ⟨fk2, hfk2wf, hfk2eq, hfk2frame, hfk2names, hfk2spec⟩ :=
        appendKids_spec over dk i' f.kids (taggedKeys (encode (.mk i' f.kids)))
          (akeys i'.body ++ names f.kids ++ names dk) (akeys di.body) hf'wf hdk hckk
          (fun m hm => by
            simp only [List.mem_append]
            cases hm with
            | inl h => exact Or.inl (Or.inl h)
            | inr h => exact Or.inl (Or.inr h))
          (fun m hm => by simp only [List.mem_append]; exact Or.inr hm)
          (fun d' hd' => by
            simp only [encode]
            exact taggedKeys_contains _ _ _ _ (compatKids_not_body over i' f.kids _ dk hckk d' hd'))
      refine ⟨replaceKid di.name (.mk i' fk2) fkA, ?_, ?_, ?_, ?_, ?_⟩
      · simp only [Tree.wf, Bool.and_eq_true]
        exact ⟨hi, kidsWF_replace _ _ fkA _ hkA (hi'name' fk2) hfk2wf hi'gt⟩
      · have hsub : alookup di.name (encode (Tree.mk i fkA)).kids = some (encode f') := by
          simp only [encode, Obj.kids]
          rw [alookup_body_kids _ _ _ hnb, hfindA]; rfl
        have hrep := areplace_body_kids di.name (.mk i' fk2) i.body fkA hnb (hi'name' fk2)
        rw [appendOne_matched dt over keys0 _ _ _ _ di dk hkeys hgA hsub hfk2eq]
        simp only [encode, Obj.setKids, Obj.kids] at hrep ⊢
        rw [hrep]
      · intro m hm
        rw [findKid_replace_other _ _ _ _ (hi'name' fk2) hm]
        simp only [fkA]
        split
        · exact findKid_replace_other _ _ _ _ rfl hm
        · rfl
      · intro m hm
        rw [names_replace _ _ _ (hi'name' fk2)] at hm
        left
        simp only [fkA] at hm
        split at hm
        · rwa [names_replace di.name (Tree.mk di f.kids) fk rfl] at hm
        · exact hm
      · intro p
        have hfind1 : findKid di.name (replaceKid di.name (.mk i' fk2) fkA) = some (.mk i' fk2) :=
          findKid_replace_same _ _ _ (hi'name' fk2) (by simp [hfindA])
        cases p with
        | nil =>
          rw [Tree.name_mk, cK_nil _ _ _ hfind1, cK_nil _ _ _ hf]
          simp only [Tree.at, Option.map_some, Tree.info_mk, combine, i']
        | cons n q =>
          rw [Tree.name_mk, cK_cons _ _ _ _ _ hfind1, cK_cons _ _ _ _ _ hf, Tree.kids_mk, hfk2spec n q]
          congr 1
          simp only [cK, Tree.at, Tree.kids_mk]
          cases findKid n dk <;> rfl
theorem appendKids_spec (over : Bool) : ∀ (ds : List Tree) (i : NodeInfo) (fk : List Tree)
    (keys0 avoid takenR : List String),
    (Tree.mk i fk).wf ct dt = true → kidsWF ct dt takenR ds = true → compatKids over i fk avoid ds = true →
    (∀ m, m ∈ akeys i.body ∨ m ∈ names fk → m ∈ avoid) → (∀ m, m ∈ names ds → m ∈ avoid) →
    (∀ d ∈ ds, keys0.contains d.name = (findKid d.name fk).isSome) →
    ∃ fk', (Tree.mk i fk').wf ct dt = true ∧
      appendKids dt over keys0 (encode (.mk i fk)) ds = .ok (encode (.mk i fk')) ∧
      (∀ m, m ∉ names ds → findKid m fk' = findKid m fk) ∧
      (∀ m, m ∈ names fk' → m ∈ names fk ∨ m ∈ names ds) ∧
      (∀ n p, cK fk' n p = combine over (cK fk n p) (cK ds n p))
  | [], i, fk, keys0, avoid, takenR, hF, _, _, _, _, _ => by
    refine ⟨fk, hF, by simp [appendKids, pure, Except.pure], fun _ _ => rfl, fun m hm => Or.inl hm, ?_⟩
    intro n p
    simp [cK, findKid, combine_none_right]
  | d :: ds, i, fk, keys0, avoid, takenR, hF, hR, hc, havoid, hnav, hkeys => by
    simp only [kidsWF, Bool.and_eq_true, Bool.not_eq_true', List.contains_eq_mem, decide_eq_false_iff_not] at hR
    obtain ⟨⟨⟨hdfresh, hddt⟩, hdwf⟩, hRr⟩ := hR
    simp only [compatKids, Bool.and_eq_true] at hc
    obtain ⟨hc1, hcr⟩ := hc
    obtain ⟨fk1, h1wf, h1eq, h1frame, h1names, h1spec⟩ :=
      appendOne_spec over d i fk keys0 avoid hF hdwf (by simpa using hddt) hc1 havoid (hkeys d (by simp))
    -- the remaining siblings have other names
    have hne : ∀ x ∈ ds, x.name ≠ d.name := by
      intro x hx e
      have := kidsWF_names_not_taken ds (d.name :: takenR) hRr x.name (List.mem_map_of_mem hx)
      exact this (by simp [e])
    have hcr1 : compatKids over i fk1 avoid ds = true := by
      rw [compatKids_congr over i fk fk1 avoid ds (fun x hx => h1frame _ (hne x hx))]; exact hcr
    have havoid1 : ∀ m, m ∈ akeys i.body ∨ m ∈ names fk1 → m ∈ avoid := by
      intro m hm
      cases hm with
      | inl h => exact havoid m (Or.inl h)
      | inr h =>
        cases h1names m h with
        | inl h2 => exact havoid m (Or.inr h2)
        | inr h2 => exact hnav m (by simp [names, h2])
    obtain ⟨fk2, h2wf, h2eq, h2frame, h2names, h2spec⟩ :=
      appendKids_spec over ds i fk1 keys0 avoid (d.name :: takenR) h1wf hRr hcr1 havoid1
        (fun m hm => hnav m (by simp only [names, List.map_cons, List.mem_cons]; exact Or.inr hm))
        (fun x hx => by rw [hkeys x (List.mem_cons_of_mem _ hx), h1frame _ (hne x hx)])
    refine ⟨fk2, h2wf, ?_, ?_, ?_, ?_⟩
    · simp only [appendKids, h1eq, h2eq, bind, Except.bind]
    · intro m hm
      simp only [names, List.map_cons, List.mem_cons, not_or] at hm
      rw [h2frame m hm.2, h1frame m hm.1]
    · intro m hm
      cases h2names m hm with
      | inl h =>
        cases h1names m h with
        | inl h3 => exact Or.inl h3
        | inr h3 => right; simp [names, h3]
      | inr h => right; simp only [names, List.map_cons, List.mem_cons]; exact Or.inr h
    · intro n p
      rw [h2spec n p]
      by_cases hn : n = d.name
      · subst hn
        have hnone : findKid d.name ds = none := by
          rw [findKid_none_iff]
          intro hm
          simp only [names, List.mem_map] at hm
          obtain ⟨x, hx, hxe⟩ := hm
          exact hne x hx hxe
        rw [h1spec p, cK_none ds _ p hnone, combine_none_right]
        simp [cK, findKid]
      · have h3 : cK fk1 n p = cK fk n p := by simp only [cK, h1frame n hn]
        have h4 : cK (d :: ds) n p = cK ds n p := by
          simp only [cK, findKid]
          have : d.name ≠ n := fun e => hn e.symm
          simp [this]
        rw [h3, h4]
end

end EmdModel
