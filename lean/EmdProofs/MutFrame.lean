/-
EmdProofs.MutFrame — additive mutations keep everything the file held: `Kept f0 f` (every object of `f0` is still at its
path in `f`, with the same attributes and, for datasets, the same value) is preserved by every additive mutation, hence
holds after EVERY prefix of a sequence of additive mutations.
-/
import EmdModel.Mutations
import EmdProofs.Basic

set_option linter.unusedSimpArgs false
set_option linter.unusedVariables false

namespace EmdModel

/-- same attributes; datasets: same value; groups: both groups (their links are compared path by path) -/
def shallowEq : Obj → Obj → Prop
  | .dataset a v, .dataset b w => a = b ∧ v = w
  | .group a _, .group b _ => a = b
  | _, _ => False

theorem shallowEq_refl (o : Obj) : shallowEq o o := by cases o <;> simp [shallowEq]

theorem shallowEq_trans {a b c : Obj} (h1 : shallowEq a b) (h2 : shallowEq b c) : shallowEq a c := by
  cases a <;> cases b <;> cases c <;> simp_all [shallowEq]

/-- everything `f0` held is still in `f`, at the same path, unchanged -/
def Kept (f0 f : Obj) : Prop := ∀ p o0, f0.at p = some o0 → ∃ o, f.at p = some o ∧ shallowEq o0 o

theorem Kept_refl (f : Obj) : Kept f f := fun p o h => ⟨o, h, shallowEq_refl o⟩

theorem at_append (f : Obj) : ∀ (p q : List String), f.at (p ++ q) = (f.at p).bind (fun o => o.at q)
  | [], q => by simp [Obj.at]
  | n :: p, q => by
    simp only [List.cons_append, Obj.at]
    cases alookup n f.kids with
    | none => rfl
    | some c => exact at_append c p q

theorem at_none_of_prefix (f : Obj) (q p : List String) (h : f.at q = none) (hp : q <+: p) : f.at p = none := by
  obtain ⟨r, rfl⟩ := hp
  rw [at_append, h]; rfl

theorem alookup_aset_ne {β : Type} (n m : String) (v : β) (l : List (String × β)) (h : m ≠ n) :
    alookup m (aset n v l) = alookup m l := by
  unfold aset
  cases hl : alookup n l with
  | none => simp only []; rw [alookup_append]; cases alookup m l <;> simp [alookup, Ne.symm h]
  | some w => simp only []; exact alookup_areplace_other n m v l h

theorem alookup_aeraseAll_ne {β : Type} (n m : String) (l : List (String × β)) (h : m ≠ n) :
    alookup m (aeraseAll n l) = alookup m l := by
  induction l with
  | nil => rfl
  | cons kv r ih =>
    obtain ⟨k, v⟩ := kv
    simp only [aeraseAll, List.filter_cons]
    by_cases hk : k = n
    · subst hk
      have : k ≠ m := fun e => h e.symm
      simp only [ne_eq, not_true_eq_false, decide_false, Bool.false_eq_true, if_false, alookup, this]
      exact ih
    · simp only [ne_eq, hk, not_false_eq_true, decide_true, if_true, alookup]
      split
      · rfl
      · exact ih

theorem setKids_attrs (o : Obj) (k : List (String × Obj)) : (o.setKids k).attrs = o.attrs := by cases o <;> rfl
theorem setKids_kids_group (o : Obj) (k : List (String × Obj)) (h : o.isGroup = true) : (o.setKids k).kids = k := by
  cases o <;> simp_all [Obj.setKids, Obj.kids, Obj.isGroup]

theorem shallowEq_setKids (o : Obj) (k : List (String × Obj)) (h : o.isGroup = true) : shallowEq o (o.setKids k) := by
  cases o <;> simp_all [Obj.setKids, shallowEq, Obj.isGroup]

/-- changing the link at `q` leaves every object whose path does not pass through `q` where it was -/
theorem setLink_frame : ∀ (q : List String) (f f' : Obj) (x : Option Obj), setLink f q x = some f' →
    ∀ p o, f.at p = some o → ¬ q <+: p → ∃ o', f'.at p = some o' ∧ shallowEq o o'
  | [], _, _, _, h, _, _, _, _ => by simp [setLink] at h
  | [n], f, f', x, h, p, o, hp, hq => by
    simp only [setLink] at h
    split at h
    · cases h
    · rename_i hg
      have hg' : f.isGroup = true := by simpa using hg
      cases h
      cases p with
      | nil =>
        simp only [Obj.at, Option.some.injEq] at hp
        subst hp
        exact ⟨_, rfl, shallowEq_setKids _ _ hg'⟩
      | cons m r =>
        have hmn : m ≠ n := by
          intro e; subst e
          exact hq ⟨r, rfl⟩
        simp only [Obj.at] at hp ⊢
        rw [setKids_kids_group _ _ hg']
        cases x with
        | some v =>
          simp only []
          rw [alookup_aset_ne n m v f.kids hmn]
          exact ⟨o, hp, shallowEq_refl o⟩
        | none =>
          simp only []
          rw [alookup_aeraseAll_ne n m f.kids hmn]
          exact ⟨o, hp, shallowEq_refl o⟩
  | n :: m :: r, f, f', x, h, p, o, hp, hq => by
    simp only [setLink] at h
    split at h
    · cases h
    · rename_i hg
      have hg' : f.isGroup = true := by simpa using hg
      split at h
      · rename_i c hc
        cases hs : setLink c (m :: r) x with
        | none => simp [hs] at h
        | some c' =>
          simp only [hs, Option.map_some, Option.some.injEq] at h
          subst h
          cases p with
          | nil =>
            simp only [Obj.at, Option.some.injEq] at hp
            subst hp
            exact ⟨_, rfl, shallowEq_setKids _ _ hg'⟩
          | cons k ps =>
            simp only [Obj.at] at hp ⊢
            rw [setKids_kids_group _ _ hg']
            by_cases hk : k = n
            · subst hk
              rw [hc] at hp
              rw [alookup_areplace_same k c' f.kids (by simp [hc])]
              exact setLink_frame (m :: r) c c' x hs ps o hp (fun hpre => hq (by
                obtain ⟨t, ht⟩ := hpre
                exact ⟨t, by simp [ht]⟩))
            · rw [alookup_areplace_other n k c' f.kids hk]
              exact ⟨o, hp, shallowEq_refl o⟩
      · cases h

/-- THE FRAME STEP: a change of the link at a path that was not in `f0` keeps everything `f0` held -/
theorem Kept_setLink (f0 f f' : Obj) (q : List String) (x : Option Obj) (hk : Kept f0 f) (hq : f0.at q = none)
    (h : setLink f q x = some f') : Kept f0 f' := by
  intro p o0 hp
  obtain ⟨o, ho, he⟩ := hk p o0 hp
  have hnp : ¬ q <+: p := fun hpre => by rw [at_none_of_prefix f0 q p hq hpre] at hp; cases hp
  obtain ⟨o', ho', he'⟩ := setLink_frame q f f' x h p o ho hnp
  exact ⟨o', ho', shallowEq_trans he he'⟩

/-- a path that is free in `f` was free in `f0` -/
theorem free_in_f0 (f0 f : Obj) (hk : Kept f0 f) (q : List String) (h : (f.at q).isNone = true) : f0.at q = none := by
  cases h0 : f0.at q with
  | none => rfl
  | some o0 =>
    obtain ⟨o, ho, _⟩ := hk q o0 h0
    simp [ho] at h

theorem Kept_putAt (f0 f f' : Obj) (p : List String) (o : Obj) (hk : Kept f0 f) (hp : f0.at p = none)
    (h : putAt f p o = some f') : Kept f0 f' := by
  cases p with
  | nil => simp [Obj.at] at hp
  | cons n r => exact Kept_setLink f0 f f' (n :: r) (some o) hk hp h

/-- C18 at the granularity of single HDF5 mutations: an additive mutation keeps everything the file held -/
theorem Kept_applyMut (f0 f f' : Obj) (m : Mut) (hk : Kept f0 f) (ha : additive f0 m = true)
    (h : applyMut f m = some f') : Kept f0 f' := by
  cases m with
  | mkGroup p n =>
    simp only [applyMut] at h
    split at h
    · rename_i hc
      simp only [Bool.and_eq_true] at hc
      exact Kept_setLink f0 f f' _ _ hk (free_in_f0 f0 f hk _ hc.2) h
    · cases h
  | mkDataset p n v =>
    simp only [applyMut] at h
    split at h
    · rename_i hc
      simp only [Bool.and_eq_true] at hc
      exact Kept_setLink f0 f f' _ _ hk (free_in_f0 f0 f hk _ hc.2) h
    · cases h
  | setAttr p k v =>
    simp only [additive, Option.isNone_iff_eq_none] at ha
    simp only [applyMut] at h
    split at h
    · exact Kept_putAt f0 f f' p _ hk ha h
    · cases h
  | delAttr p k =>
    simp only [additive, Option.isNone_iff_eq_none] at ha
    simp only [applyMut] at h
    split at h
    · split at h
      · exact Kept_putAt f0 f f' p _ hk ha h
      · cases h
    · cases h
  | delete p n =>
    simp only [additive, Option.isNone_iff_eq_none] at ha
    simp only [applyMut] at h
    split at h
    · exact Kept_setLink f0 f f' _ _ hk ha h
    · cases h
  | move p s d =>
    simp only [additive, Option.isNone_iff_eq_none] at ha
    simp only [applyMut] at h
    split at h
    · rename_i o ho
      split at h
      · rename_i hc
        simp only [Bool.and_eq_true] at hc
        cases h1 : setLink f (p ++ [s]) none with
        | none => simp [h1] at h
        | some f1 =>
          simp only [h1, Option.bind_some] at h
          have hk1 := Kept_setLink f0 f f1 _ _ hk ha h1
          exact Kept_setLink f0 f1 f' _ _ hk1 (free_in_f0 f0 f hk _ hc.2) h
      · cases h
    · cases h
  | link p n t =>
    simp only [applyMut] at h
    split at h
    · split at h
      · rename_i hc
        simp only [Bool.and_eq_true] at hc
        exact Kept_setLink f0 f f' _ _ hk (free_in_f0 f0 f hk _ hc.2) h
      · cases h
    · cases h
  | setData p v =>
    simp only [additive, Option.isNone_iff_eq_none] at ha
    simp only [applyMut] at h
    split at h
    · exact Kept_setLink f0 f f' _ _ hk ha h
    · cases h

/-- every prefix of a sequence of additive mutations — i.e. EVERY point at which the save can be interrupted — leaves the
    file holding everything it held before -/
theorem Kept_replay (f0 : Obj) : ∀ (ms : List Mut) (f : Obj), Kept f0 f → (∀ m ∈ ms, additive f0 m = true) →
    Kept f0 (replay f0 f ms).1
  | [], f, hk, _ => hk
  | m :: ms, f, hk, ha => by
    simp only [replay]
    cases h : applyMut f m with
    | some f' =>
      simp only []
      exact Kept_replay f0 ms f' (Kept_applyMut f0 f f' m hk (ha m List.mem_cons_self) h)
        (fun x hx => ha x (List.mem_cons_of_mem _ hx))
    | none =>
      simp only []
      exact Kept_replay f0 ms f hk (fun x hx => ha x (List.mem_cons_of_mem _ hx))

end EmdModel
