/-
EmdProofs.ForestLemmas — structural lemmas about the heap model (EmdModel/Forest.lean): the multiset of (id, name)
keys of a forest under the single-site surgeries the tree operations are made of (`updateInList` at one id,
`removeIn`, top-level `filter`, `setKidR`), and how `findInList` relates to them.  Everything here is independent of
the cached `_root` / `_treepath` fields; those are handled in EmdProps/C12.lean.
-/
import EmdModel

set_option linter.unusedSimpArgs false
set_option linter.unusedVariables false

namespace EmdModel

mutual
/-- the (id, name, is-a-Root) keys of all nodes of a branch, preorder -/
def keys : RNode → List (Nat × String × Bool)
  | .mk i n r _ _ _ ks => (i, n, r) :: keysL ks
def keysL : List RNode → List (Nat × String × Bool)
  | [] => []
  | k :: ks => keys k ++ keysL ks
end

def idsK (t : RNode) : List Nat := (keys t).map (·.1)
def idsL (cs : List RNode) : List Nat := (keysL cs).map (·.1)
/-- the names of the ordinary (non-Root) nodes: Roots are never children, so their names never meet in a `_branch` -/
def namesOf (l : List (Nat × String × Bool)) : List String := (l.filter (fun k => !k.2.2)).map (·.2.1)
def namesK (t : RNode) : List String := namesOf (keys t)
def namesL (cs : List RNode) : List String := namesOf (keysL cs)

theorem namesOf_append (a b : List (Nat × String × Bool)) : namesOf (a ++ b) = namesOf a ++ namesOf b := by
  simp [namesOf, List.filter_append]

@[simp] theorem keysL_nil : keysL [] = [] := by simp [keysL]
@[simp] theorem keysL_cons (k : RNode) (ks : List RNode) : keysL (k :: ks) = keys k ++ keysL ks := by simp [keysL]

theorem keysL_append (a b : List RNode) : keysL (a ++ b) = keysL a ++ keysL b := by
  induction a with
  | nil => simp
  | cons k ks ih => simp [ih, List.append_assoc]

theorem keys_mk (i : Nat) (n : String) (r : Bool) (ro : Option Nat) (t : Option String) (m : List (String × Nat))
    (ks : List RNode) : keys (.mk i n r ro t m ks) = (i, n, r) :: keysL ks := by simp [keys]

theorem keys_eq (t : RNode) : keys t = (t.id, t.name, t.isRoot) :: keysL t.kids := by
  cases t; simp [keys, RNode.id, RNode.name, RNode.kids, RNode.isRoot]

theorem self_mem_keys (t : RNode) : (t.id, t.name, t.isRoot) ∈ keys t := by rw [keys_eq]; simp

theorem id_mem_idsK (t : RNode) : t.id ∈ idsK t := by
  simp only [idsK, List.mem_map]; exact ⟨_, self_mem_keys t, rfl⟩

theorem mem_keysL_of_mem {cs : List RNode} {c : RNode} (h : c ∈ cs) {x : Nat × String × Bool} (hx : x ∈ keys c) : x ∈ keysL cs := by
  induction cs with
  | nil => cases h
  | cons k ks ih =>
    simp only [keysL_cons, List.mem_append]
    cases h with
    | head => exact Or.inl hx
    | tail _ h' => exact Or.inr (ih h')

theorem mem_idsL_of_mem {cs : List RNode} {c : RNode} (h : c ∈ cs) {i : Nat} (hi : i ∈ idsK c) : i ∈ idsL cs := by
  simp only [idsK, idsL, List.mem_map] at hi ⊢
  obtain ⟨x, hx, rfl⟩ := hi
  exact ⟨x, mem_keysL_of_mem h hx, rfl⟩

theorem idsL_cons (k : RNode) (ks : List RNode) : idsL (k :: ks) = idsK k ++ idsL ks := by simp [idsL, idsK]
theorem namesL_cons (k : RNode) (ks : List RNode) : namesL (k :: ks) = namesK k ++ namesL ks := by
  simp [namesL, namesK, namesOf_append]
theorem idsK_mk (i : Nat) (n : String) (r : Bool) (ro : Option Nat) (t : Option String) (m : List (String × Nat))
    (ks : List RNode) : idsK (.mk i n r ro t m ks) = i :: idsL ks := by simp [idsK, idsL, keys]

/-! ### relabel / unroot / setMd do not change keys -/

mutual
theorem keys_relabel (r : Option Nat) : ∀ (t : RNode) (p : String), keys (relabel r p t) = keys t
  | .mk i n isR ro tp m ks, p => by simp only [relabel, keys]; rw [keysL_relabelKids r ks p]
theorem keysL_relabelKids (r : Option Nat) : ∀ (ks : List RNode) (p : String), keysL (relabelKids r p ks) = keysL ks
  | [], _ => by simp [relabelKids]
  | k :: ks, p => by simp only [relabelKids, keysL_cons]; rw [keys_relabel r k _, keysL_relabelKids r ks p]
end

theorem keys_unroot (t : RNode) : keys (unroot t) = keys t := by cases t; simp [unroot, keys]
theorem unroot_id (t : RNode) : (unroot t).id = t.id := by cases t; rfl
theorem unroot_name (t : RNode) : (unroot t).name = t.name := by cases t; rfl
theorem unroot_kids (t : RNode) : (unroot t).kids = t.kids := by cases t; rfl
theorem unroot_isRoot (t : RNode) : (unroot t).isRoot = t.isRoot := by cases t; rfl
theorem relabel_id' (r : Option Nat) (p : String) (t : RNode) : (relabel r p t).id = t.id := by cases t; rfl
theorem relabel_name' (r : Option Nat) (p : String) (t : RNode) : (relabel r p t).name = t.name := by cases t; rfl

/-! ### find -/

mutual
theorem findIn_none_of_not_mem (id : Nat) : ∀ (t : RNode), id ∉ idsK t → findIn id t = none
  | .mk i n r ro tp m ks, h => by
    simp only [idsK_mk, List.mem_cons, not_or] at h
    simp only [findIn, if_neg (Ne.symm h.1)]
    exact findInList_none_of_not_mem id ks h.2
theorem findInList_none_of_not_mem (id : Nat) : ∀ (ks : List RNode), id ∉ idsL ks → findInList id ks = none
  | [], _ => by simp [findInList]
  | k :: ks, h => by
    simp only [idsL_cons, List.mem_append, not_or] at h
    simp only [findInList, findIn_none_of_not_mem id k h.1, findInList_none_of_not_mem id ks h.2]
end

mutual
/-- what `find` returns has the id asked for and its keys are among the keys of the tree -/
theorem findIn_some (id : Nat) : ∀ (t x : RNode), findIn id t = some x → x.id = id ∧ ∀ y ∈ keys x, y ∈ keys t
  | .mk i n r ro tp m ks, x, h => by
    simp only [findIn] at h
    split at h
    · cases h
      rename_i hi
      exact ⟨hi, fun y hy => hy⟩
    · obtain ⟨h1, h2⟩ := findInList_some id ks x h
      exact ⟨h1, fun y hy => by simp only [keys, List.mem_cons]; exact Or.inr (h2 y hy)⟩
theorem findInList_some (id : Nat) : ∀ (ks : List RNode) (x : RNode), findInList id ks = some x →
    x.id = id ∧ ∀ y ∈ keys x, y ∈ keysL ks
  | [], _, h => by simp [findInList] at h
  | k :: ks, x, h => by
    simp only [findInList] at h
    split at h
    · rename_i y hy
      cases h
      obtain ⟨h1, h2⟩ := findIn_some id k x hy
      exact ⟨h1, fun z hz => by simp only [keysL_cons, List.mem_append]; exact Or.inl (h2 z hz)⟩
    · obtain ⟨h1, h2⟩ := findInList_some id ks x h
      exact ⟨h1, fun z hz => by simp only [keysL_cons, List.mem_append]; exact Or.inr (h2 z hz)⟩
end

theorem findInList_some_mem_ids (id : Nat) (ks : List RNode) (x : RNode) (h : findInList id ks = some x) : id ∈ idsL ks := by
  obtain ⟨h1, h2⟩ := findInList_some id ks x h
  simp only [idsL, List.mem_map]
  exact ⟨(x.id, x.name, x.isRoot), h2 _ (self_mem_keys x), h1⟩

mutual
theorem findIn_ne_none_of_mem (id : Nat) : ∀ (t : RNode), id ∈ idsK t → findIn id t ≠ none
  | .mk i n r ro tp m ks, h => by
    simp only [idsK_mk, List.mem_cons] at h
    simp only [findIn]
    split
    · simp
    · rename_i hi
      cases h with
      | inl e => exact absurd e.symm hi
      | inr h' => exact findInList_ne_none_of_mem id ks h'
theorem findInList_ne_none_of_mem (id : Nat) : ∀ (ks : List RNode), id ∈ idsL ks → findInList id ks ≠ none
  | [], h => by simp [idsL] at h
  | k :: ks, h => by
    simp only [idsL_cons, List.mem_append] at h
    simp only [findInList]
    split
    · simp
    · rename_i hk
      cases h with
      | inl h' => exact absurd hk (findIn_ne_none_of_mem id k h')
      | inr h' => exact findInList_ne_none_of_mem id ks h'
end

theorem findIn_self (t : RNode) : findIn t.id t = some t := by cases t; simp [findIn, RNode.id]

/-- with unique ids, a top-level object is what `find` returns for its id -/
theorem findInList_top (cs : List RNode) (c : RNode) (hn : (idsL cs).Nodup) (hc : c ∈ cs) : findInList c.id cs = some c := by
  induction cs with
  | nil => cases hc
  | cons k ks ih =>
    simp only [idsL_cons] at hn
    have hnd := List.nodup_append.mp hn
    simp only [findInList]
    cases hc with
    | head => rw [findIn_self]
    | tail _ h' =>
      have : c.id ∉ idsK k := fun hk => hnd.2.2 _ hk _ (mem_idsL_of_mem h' (id_mem_idsK c)) rfl
      rw [findIn_none_of_not_mem _ _ this]
      exact ih hnd.2.1 h'

/-! ### updateIn at an id that does not occur -/

mutual
theorem updateIn_not_mem (id : Nat) (f : RNode → RNode) : ∀ (t : RNode), id ∉ idsK t → updateIn id f t = t
  | .mk i n r ro tp m ks, h => by
    simp only [idsK_mk, List.mem_cons, not_or] at h
    simp only [updateIn, if_neg (Ne.symm h.1)]
    rw [updateInList_not_mem id f ks h.2]
theorem updateInList_not_mem (id : Nat) (f : RNode → RNode) : ∀ (ks : List RNode), id ∉ idsL ks → updateInList id f ks = ks
  | [], _ => by simp [updateInList]
  | k :: ks, h => by
    simp only [idsL_cons, List.mem_append, not_or] at h
    simp only [updateInList, updateIn_not_mem id f k h.1, updateInList_not_mem id f ks h.2]
end

theorem updateInList_eq_map (id : Nat) (f : RNode → RNode) (ks : List RNode) : updateInList id f ks = ks.map (updateIn id f) := by
  induction ks with
  | nil => simp [updateInList]
  | cons k ks ih => simp [updateInList, ih]

mutual
theorem removeIn_not_mem (id : Nat) : ∀ (t : RNode), id ∉ idsK t → removeIn id t = t
  | .mk i n r ro tp m ks, h => by
    simp only [idsK_mk, List.mem_cons, not_or] at h
    simp only [removeIn]
    rw [removeInList_not_mem id ks h.2]
theorem removeInList_not_mem (id : Nat) : ∀ (ks : List RNode), id ∉ idsL ks → removeInList id ks = ks
  | [], _ => by simp [removeInList]
  | k :: ks, h => by
    simp only [idsL_cons, List.mem_append, not_or] at h
    have hk : k.id ≠ id := fun e => h.1 (e ▸ id_mem_idsK k)
    simp only [removeInList, if_neg hk, removeIn_not_mem id k h.1, removeInList_not_mem id ks h.2]
end

theorem map_removeIn_not_mem (id : Nat) (cs : List RNode) (h : id ∉ idsL cs) : cs.map (removeIn id) = cs := by
  induction cs with
  | nil => rfl
  | cons k ks ih =>
    simp only [idsL_cons, List.mem_append, not_or] at h
    simp [removeIn_not_mem id k h.1, ih h.2]

/-! ### single-site surgeries and the multiset of keys -/

theorem setKidR_fresh (c : RNode) : ∀ (ks : List RNode), (∀ k ∈ ks, k.name ≠ c.name) → setKidR c ks = ks ++ [c]
  | [], _ => by simp [setKidR]
  | k :: ks, h => by
    simp only [setKidR, if_neg (h k (List.mem_cons_self)), List.cons_append]
    rw [setKidR_fresh c ks (fun x hx => h x (List.mem_cons_of_mem _ hx))]

mutual
/-- the update at the (unique) node with this id changes the keys of the forest as it changes the keys of that node -/
theorem keys_updateIn (id : Nat) (f : RNode → RNode) (extra : List (Nat × String × Bool)) :
    ∀ (t p : RNode), (idsK t).Nodup → findIn id t = some p → (keys (f p)).Perm (keys p ++ extra) →
      (keys (updateIn id f t)).Perm (keys t ++ extra)
  | .mk i n r ro tp m ks, p, hn, hf, hp => by
    simp only [findIn] at hf
    simp only [updateIn]
    split at hf
    · cases hf
      rename_i hi
      subst hi
      simp only [if_true]
      exact hp
    · rename_i hi
      simp only [if_neg hi, keys, List.cons_append]
      simp only [idsK_mk, List.nodup_cons] at hn
      exact List.Perm.cons _ (keysL_updateInList id f extra ks p hn.2 hf hp)
theorem keysL_updateInList (id : Nat) (f : RNode → RNode) (extra : List (Nat × String × Bool)) :
    ∀ (ks : List RNode) (p : RNode), (idsL ks).Nodup → findInList id ks = some p → (keys (f p)).Perm (keys p ++ extra) →
      (keysL (updateInList id f ks)).Perm (keysL ks ++ extra)
  | [], _, _, hf, _ => by simp [findInList] at hf
  | k :: ks, p, hn, hf, hp => by
    simp only [idsL_cons] at hn
    have hnd := List.nodup_append.mp hn
    simp only [findInList] at hf
    simp only [updateInList, keysL_cons]
    split at hf
    · rename_i y hy
      cases hf
      have hmem : id ∈ idsK k := by
        obtain ⟨h1, h2⟩ := findIn_some id k p hy
        simp only [idsK, List.mem_map]
        exact ⟨(p.id, p.name, p.isRoot), h2 _ (self_mem_keys p), h1⟩
      have hrest : id ∉ idsL ks := fun h => hnd.2.2 _ hmem _ h rfl
      rw [updateInList_not_mem id f ks hrest]
      have := keys_updateIn id f extra k p hnd.1 hy hp
      -- keys k' ++ rest ~ (keys k ++ extra) ++ rest ~ (keys k ++ rest) ++ extra
      refine (List.Perm.append_right _ this).trans ?_
      rw [List.append_assoc, List.append_assoc]
      exact List.Perm.append_left _ List.perm_append_comm
    · rename_i hy
      have hk : id ∉ idsK k := by
        intro hmem
        exact findIn_ne_none_of_mem id k hmem hy
      rw [updateIn_not_mem id f k hk, List.append_assoc]
      exact List.Perm.append_left _ (keysL_updateInList id f extra ks p hnd.2.1 hf hp)
end

mutual
/-- removing the (unique, non-top) node with this id takes exactly its branch out of the keys -/
theorem keys_removeIn (id : Nat) : ∀ (t x : RNode), (idsK t).Nodup → t.id ≠ id → findIn id t = some x →
    (keys (removeIn id t) ++ keys x).Perm (keys t)
  | .mk i n r ro tp m ks, x, hn, hne, hf => by
    simp only [RNode.id] at hne
    simp only [findIn, if_neg hne] at hf
    simp only [idsK_mk, List.nodup_cons] at hn
    simp only [removeIn, keys, List.cons_append]
    exact List.Perm.cons _ (keysL_removeInList id ks x hn.2 hf)
theorem keysL_removeInList (id : Nat) : ∀ (ks : List RNode) (x : RNode), (idsL ks).Nodup → findInList id ks = some x →
    (keysL (removeInList id ks) ++ keys x).Perm (keysL ks)
  | [], _, _, hf => by simp [findInList] at hf
  | k :: ks, x, hn, hf => by
    simp only [idsL_cons] at hn
    have hnd := List.nodup_append.mp hn
    simp only [findInList] at hf
    simp only [removeInList]
    by_cases hk : k.id = id
    · simp only [if_pos hk, keysL_cons]
      have : findIn id k = some k := hk ▸ findIn_self k
      rw [this] at hf
      cases hf
      exact List.perm_append_comm
    · simp only [if_neg hk, keysL_cons]
      split at hf
      · rename_i y hy
        cases hf
        have hmem : id ∈ idsK k := by
          obtain ⟨h1, h2⟩ := findIn_some id k x hy
          simp only [idsK, List.mem_map]
          exact ⟨(x.id, x.name, x.isRoot), h2 _ (self_mem_keys x), h1⟩
        have hrest : id ∉ idsL ks := fun h => hnd.2.2 _ hmem _ h rfl
        rw [removeInList_not_mem id ks hrest]
        have := keys_removeIn id k x hnd.1 hk hy
        -- (keys k' ++ rest) ++ keys x ~ (keys k' ++ keys x) ++ rest
        rw [List.append_assoc]
        refine (List.Perm.append_left _ List.perm_append_comm).trans ?_
        rw [← List.append_assoc]
        exact List.Perm.append_right _ this
      · rename_i hy
        have hk' : id ∉ idsK k := fun hmem => findIn_ne_none_of_mem id k hmem hy
        rw [removeIn_not_mem id k hk', List.append_assoc]
        exact List.Perm.append_left _ (keysL_removeInList id ks x hnd.2.1 hf)
end

/-- the top-level version: `comps.map (removeIn id)` when no top-level object has this id -/
theorem keysL_map_removeIn (id : Nat) : ∀ (cs : List RNode) (x : RNode), (idsL cs).Nodup → (∀ c ∈ cs, c.id ≠ id) →
    findInList id cs = some x → (keysL (cs.map (removeIn id)) ++ keys x).Perm (keysL cs)
  | [], _, _, _, hf => by simp [findInList] at hf
  | k :: ks, x, hn, htop, hf => by
    simp only [idsL_cons] at hn
    have hnd := List.nodup_append.mp hn
    simp only [findInList] at hf
    simp only [List.map_cons, keysL_cons]
    split at hf
    · rename_i y hy
      cases hf
      have hmem : id ∈ idsK k := by
        obtain ⟨h1, h2⟩ := findIn_some id k x hy
        simp only [idsK, List.mem_map]
        exact ⟨(x.id, x.name, x.isRoot), h2 _ (self_mem_keys x), h1⟩
      have hrest : id ∉ idsL ks := fun h => hnd.2.2 _ hmem _ h rfl
      rw [map_removeIn_not_mem id ks hrest]
      have := keys_removeIn id k x hnd.1 (htop k List.mem_cons_self) hy
      rw [List.append_assoc]
      refine (List.Perm.append_left _ List.perm_append_comm).trans ?_
      rw [← List.append_assoc]
      exact List.Perm.append_right _ this
    · rename_i hy
      have hk' : id ∉ idsK k := fun hmem => findIn_ne_none_of_mem id k hmem hy
      rw [removeIn_not_mem id k hk', List.append_assoc]
      exact List.Perm.append_left _
        (keysL_map_removeIn id ks x hnd.2.1 (fun c hc => htop c (List.mem_cons_of_mem _ hc)) hf)

/-- taking a top-level object out of the list of top-level objects -/
theorem keysL_filter_top (c : RNode) : ∀ (cs : List RNode), (idsL cs).Nodup → c ∈ cs →
    (keysL (cs.filter (fun x => x.id != c.id)) ++ keys c).Perm (keysL cs)
  | [], _, hc => by cases hc
  | k :: ks, hn, hc => by
    simp only [idsL_cons] at hn
    have hnd := List.nodup_append.mp hn
    by_cases hk : k.id = c.id
    · -- then k = c (unique ids) and nothing else is filtered out
      have hkc : k = c := by
        cases hc with
        | head => rfl
        | tail _ h' => exact absurd rfl (hnd.2.2 _ (hk ▸ id_mem_idsK k) _ (mem_idsL_of_mem h' (id_mem_idsK c)))
      subst hkc
      have hrest : ks.filter (fun x => x.id != k.id) = ks := by
        rw [List.filter_eq_self]
        intro x hx
        simp only [bne_iff_ne, ne_eq]
        intro e
        exact hnd.2.2 _ (id_mem_idsK k) _ (mem_idsL_of_mem hx (e ▸ id_mem_idsK x)) rfl
      simp only [List.filter_cons, bne_self_eq_false, Bool.false_eq_true, if_false, hrest, keysL_cons]
      exact List.perm_append_comm
    · have hc' : c ∈ ks := by
        cases hc with
        | head => exact absurd rfl hk
        | tail _ h' => exact h'
      have hb : (k.id != c.id) = true := by simp [bne_iff_ne, hk]
      simp only [List.filter_cons, hb, if_true, keysL_cons, List.append_assoc]
      exact List.Perm.append_left _ (keysL_filter_top c ks hnd.2.1 hc')

theorem mem_filter_top {c t : RNode} {cs : List RNode} (h : t ∈ cs.filter (fun x => x.id != c.id)) : t ∈ cs ∧ t.id ≠ c.id := by
  simp only [List.mem_filter, bne_iff_ne, ne_eq] at h
  exact h

/-- `hangF c p`: the keys of `p` plus those of `c`, when no child of `p` has `c`'s name -/
theorem keys_hangF (c p : RNode) (hfresh : ∀ k ∈ p.kids, k.name ≠ c.name) : (keys (hangF c p)).Perm (keys p ++ keys c) := by
  cases p with
  | mk i n r ro tp m ks =>
    simp only [RNode.kids] at hfresh
    have hn : ∀ k ∈ ks, k.name ≠ (relabel ro (tp.getD "" ++ "/" ++ c.name) c).name := by
      intro k hk; rw [relabel_name']; exact hfresh k hk
    simp only [hangF, RNode.setKids, RNode.kids, RNode.root, RNode.treepath, keys, List.cons_append]
    rw [setKidR_fresh _ ks hn, keysL_append]
    simp only [keysL_cons, keysL_nil, List.append_nil, keys_relabel]
    exact List.Perm.refl _

end EmdModel
