/-
EmdProofs.ForestCons — the cached `_root` / `_treepath` fields of the heap model: `consistent r path n` says every node of
the branch `n` records root `r` and the treepath it really has; lemmas for the surgeries of EmdModel/Forest.lean.
-/
import EmdModel

set_option linter.unusedSimpArgs false

namespace EmdProps
open EmdModel

mutual
/-- every node of the branch records root `r` and its actual treepath -/
def consistent (r : Option Nat) (path : String) : RNode → Bool
  | .mk _ _ _ ro tp _ ks => ro == r && tp == some path && consistentKids r path ks
def consistentKids (r : Option Nat) (path : String) : List RNode → Bool
  | [] => true
  | k :: ks => consistent r (path ++ "/" ++ k.name) k && consistentKids r path ks
end

mutual
/-- the shape of a branch: everything except the two cached fields -/
def shape : RNode → RNode
  | .mk i n isR _ _ m ks => .mk i n isR none none m (shapeKids ks)
def shapeKids : List RNode → List RNode
  | [] => []
  | k :: ks => shape k :: shapeKids ks
end

mutual
/-- C12 (core): after the recursive refresh the whole branch is consistent with its new position -/
theorem consistent_relabel (r : Option Nat) : ∀ (n : RNode) (path : String), consistent r path (relabel r path n) = true
  | .mk i nm isR ro tp m ks, path => by
    simp only [relabel, consistent, beq_self_eq_true, Bool.true_and]
    exact consistentKids_relabel r ks path
theorem consistentKids_relabel (r : Option Nat) : ∀ (ks : List RNode) (path : String),
    consistentKids r path (relabelKids r path ks) = true
  | [], _ => rfl
  | k :: ks, path => by
    simp only [relabelKids, consistentKids, Bool.and_eq_true]
    refine ⟨?_, consistentKids_relabel r ks path⟩
    have hn : (relabel r (path ++ "/" ++ k.name) k).name = k.name := by cases k; rfl
    rw [hn]
    exact consistent_relabel r k _
end

mutual
/-- a moved branch arrives with its internal shape intact -/
theorem shape_relabel (r : Option Nat) : ∀ (n : RNode) (path : String), shape (relabel r path n) = shape n
  | .mk i nm isR ro tp m ks, path => by
    simp only [relabel, shape]
    rw [shapeKids_relabel r ks path]
theorem shapeKids_relabel (r : Option Nat) : ∀ (ks : List RNode) (path : String),
    shapeKids (relabelKids r path ks) = shapeKids ks
  | [], _ => rfl
  | k :: ks, path => by
    simp only [relabelKids, shapeKids]
    rw [shape_relabel r k _, shapeKids_relabel r ks path]
end

theorem relabel_id (r : Option Nat) (path : String) (n : RNode) : (relabel r path n).id = n.id := by cases n; rfl
theorem relabel_name (r : Option Nat) (path : String) (n : RNode) : (relabel r path n).name = n.name := by cases n; rfl

/-- adding one consistent child (replacing a same-named one) keeps the children consistent -/
theorem consistentKids_setKid (r : Option Nat) (path : String) (c : RNode) : ∀ (ks : List RNode),
    consistentKids r path ks = true → consistent r (path ++ "/" ++ c.name) c = true →
    consistentKids r path (setKidR c ks) = true
  | [], _, hc => by simp [setKidR, consistentKids, hc]
  | k :: ks, h, hc => by
    simp only [consistentKids, Bool.and_eq_true] at h
    simp only [setKidR]
    split
    · simp only [consistentKids, Bool.and_eq_true]; exact ⟨hc, h.2⟩
    · simp only [consistentKids, Bool.and_eq_true]; exact ⟨h.1, consistentKids_setKid r path c ks h.2 hc⟩

mutual
/-- updating the node with a given id by a function that keeps consistency (at whatever position the node is)
    keeps the tree consistent -/
theorem consistent_update (r : Option Nat) (id : Nat) (f : RNode → RNode)
    (hf : ∀ q p, consistent r q p = true → consistent r q (f p) = true) (hname : ∀ p, (f p).name = p.name) :
    ∀ (t : RNode) (path : String), consistent r path t = true → consistent r path (updateIn id f t) = true
  | .mk i n isR ro tp m ks, path, h => by
    simp only [updateIn]
    split
    · exact hf path _ h
    · simp only [consistent, Bool.and_eq_true] at h ⊢
      exact ⟨h.1, consistentKids_update r id f hf hname ks path h.2⟩
theorem consistentKids_update (r : Option Nat) (id : Nat) (f : RNode → RNode)
    (hf : ∀ q p, consistent r q p = true → consistent r q (f p) = true) (hname : ∀ p, (f p).name = p.name) :
    ∀ (ks : List RNode) (path : String), consistentKids r path ks = true →
    consistentKids r path (updateInList id f ks) = true
  | [], _, _ => rfl
  | k :: ks, path, h => by
    simp only [consistentKids, Bool.and_eq_true] at h
    simp only [updateInList, consistentKids, Bool.and_eq_true]
    have hn : (updateIn id f k).name = k.name := by
      cases k with
      | mk i n isR ro tp m kk =>
        simp only [updateIn]
        split
        · rw [hname]
        · rfl
    rw [hn]
    exact ⟨consistent_update r id f hf hname k _ h.1, consistentKids_update r id f hf hname ks path h.2⟩
end

/-- C12, add: in a consistent tree, hanging a whole (relabelled) branch under the node `p` found at its recorded
    position keeps the tree consistent -/
theorem consistent_hang (r : Option Nat) (t : RNode) (path : String) (pid : Nat) (c : RNode)
    (h : consistent r path t = true) :
    consistent r path (updateIn pid (hangF c) t) = true := by
  apply consistent_update r pid _ _ _ t path h
  · intro q p hp
    cases p with
    | mk i n isR ro tp m ks =>
      simp only [consistent, Bool.and_eq_true, beq_iff_eq] at hp
      obtain ⟨⟨hro, htp⟩, hk⟩ := hp
      simp only [hangF, RNode.setKids, RNode.root, RNode.treepath, RNode.kids, consistent, Bool.and_eq_true, beq_iff_eq]
      refine ⟨⟨hro, htp⟩, ?_⟩
      subst hro; subst htp
      simp only [Option.getD_some]
      apply consistentKids_setKid _ _ _ ks hk
      rw [relabel_name]
      exact consistent_relabel _ c _
  · intro p; cases p; rfl

mutual
/-- C12, cut side: removing a branch from a consistent tree leaves a consistent tree -/
theorem consistent_remove (r : Option Nat) (id : Nat) : ∀ (t : RNode) (path : String), consistent r path t = true →
    consistent r path (removeIn id t) = true
  | .mk i n isR ro tp m ks, path, h => by
    simp only [consistent, Bool.and_eq_true] at h
    simp only [removeIn, consistent, Bool.and_eq_true]
    exact ⟨h.1, consistentKids_remove r id ks path h.2⟩
theorem consistentKids_remove (r : Option Nat) (id : Nat) : ∀ (ks : List RNode) (path : String),
    consistentKids r path ks = true → consistentKids r path (removeInList id ks) = true
  | [], _, _ => rfl
  | k :: ks, path, h => by
    simp only [consistentKids, Bool.and_eq_true] at h
    simp only [removeInList]
    split
    · exact h.2
    · simp only [consistentKids, Bool.and_eq_true]
      have hn : (removeIn id k).name = k.name := by cases k; rfl
      rw [hn]
      exact ⟨consistent_remove r id k _ h.1, consistentKids_remove r id ks path h.2⟩
end


end EmdProps
