/-
EmdProofs.ForestOps — every tree operation of the heap model keeps the whole-forest invariant `Inv` and neither loses nor
duplicates a node.  Built on EmdProofs/ForestInv.lean (detach / attach / relocate).
-/
import EmdProofs.ForestInv

set_option linter.unusedSimpArgs false
set_option linter.unusedVariables false

namespace EmdProps
open EmdModel

/-- the invariant of the heap: the forest is well formed and object ids are below the allocation counter -/
structure Inv (h : Heap) : Prop where
  ok : ForestOK h.comps
  fresh : ∀ i ∈ idsL h.comps, i < h.nextNode

theorem Inv_empty : Inv ({} : Heap) := by
  refine ⟨⟨?_, ?_, ?_, ?_, ?_⟩, ?_⟩ <;> simp [idsL, namesL, namesOf]

theorem weaken {cs : List RNode} (ok : ForestOK cs) (fl : Option Nat) : ForestOKx fl cs :=
  ⟨ok.ids, ok.names, ok.plainKids, ok.roots, fun c hc hr _ => ok.lone c hc hr (by simp)⟩

/-! ### what the fields of a found node say about where it is -/

theorem rooted_of_found {cs : List RNode} (ok : ForestOK cs) (id : Nat) (x : RNode) (ro : Nat)
    (hf : findInList id cs = some x) (hr : x.root = some ro) : Rooted cs id := by
  intro t ht hnr e
  have := findInList_top cs t ok.ids ht
  rw [e, hf] at this
  cases this
  obtain ⟨h1, _⟩ := ok.lone x ht hnr (by simp)
  rw [h1] at hr; cases hr

theorem top_of_unrooted {cs : List RNode} (ok : ForestOK cs) (id : Nat) (x : RNode)
    (hf : findInList id cs = some x) (hr : x.root = none) : x ∈ cs ∧ x.isRoot = false ∧ x.kids = [] := by
  cases found_cases ok id x hf with
  | inl h =>
    obtain ⟨c, _, _, _, h4⟩ := h
    rw [hr] at h4; cases h4
  | inr h =>
    obtain ⟨c, hc, hcr, _, h4⟩ := h
    obtain ⟨e, _, h6⟩ := h4 (by simp)
    subst e
    exact ⟨hc, hcr, h6⟩

theorem findIn_top_id (id : Nat) (c x : RNode) (hc : c.id = id) (hf : findIn id c = some x) : x = c := by
  rw [← hc, findIn_self] at hf
  cases hf; rfl

theorem top_of_isRoot {cs : List RNode} (ok : ForestOK cs) (id : Nat) (x : RNode)
    (hf : findInList id cs = some x) (hr : x.isRoot = true) : x ∈ cs := by
  obtain ⟨c, hc, h⟩ := find_in_some_top id cs x hf
  by_cases hid : c.id = id
  · rw [findIn_top_id id c x hid h]; exact hc
  · rw [findIn_ne_top id c hid] at h
    have := plain_isRoot x (plain_of_findInList id c.kids x (ok.plainKids c hc) h)
    rw [this] at hr; cases hr

theorem nontop_of_rooted_plain {cs : List RNode} (ok : ForestOK cs) (id : Nat) (x : RNode) (ro : Nat)
    (hf : findInList id cs = some x) (hnr : x.isRoot = false) (hr : x.root = some ro) : ∀ c ∈ cs, c.id ≠ x.id := by
  intro c hc e
  have hx : x.id = id := (findInList_some id cs x hf).1
  have := findInList_top cs c ok.ids hc
  rw [e, hx, hf] at this
  cases this
  obtain ⟨h1, _⟩ := ok.lone x hc hnr (by simp)
  rw [h1] at hr; cases hr

theorem fresh_of_perm {h h' : Heap} (hp : (keysL h'.comps).Perm (keysL h.comps)) (hn : h'.nextNode = h.nextNode)
    (hf : ∀ i ∈ idsL h.comps, i < h.nextNode) : ∀ i ∈ idsL h'.comps, i < h'.nextNode := by
  intro i hi
  rw [hn]
  exact hf i ((hp.map (·.1)).mem_iff.mp hi)

/-! ### add_to_tree -/

theorem addToTree_refused (h : Heap) (pid cid : Nat) (hr : (addToTree h pid cid).2 ≠ .ok) : (addToTree h pid cid).1 = h := by
  simp only [addToTree] at hr ⊢
  split
  · split
    · rfl
    · split
      · rfl
      · split
        · rfl
        · rename_i p c hp hc h1 h2 h3
          simp [hp, hc, h1, h2, h3] at hr
  · rfl

theorem plain_lone (c : RNode) (hr : c.isRoot = false) (hk : c.kids = []) : plain c = true := by
  cases c with
  | mk i n r ro tp m ks =>
    simp only [RNode.isRoot, RNode.kids] at hr hk
    subst hr; subst hk
    simp [plain, plainL]

theorem addToTree_inv (h : Heap) (pid cid : Nat) (inv : Inv h) :
    Inv (addToTree h pid cid).1 ∧ (keysL (addToTree h pid cid).1.comps).Perm (keysL h.comps) := by
  simp only [addToTree]
  split
  · rename_i p c hp hc
    split
    · exact ⟨inv, List.Perm.refl _⟩
    · rename_i hpr
      split
      · exact ⟨inv, List.Perm.refl _⟩
      · rename_i hcr
        split
        · exact ⟨inv, List.Perm.refl _⟩
        · rename_i hne
          simp only [Heap.find] at hp hc
          have hcroot : c.root = none := by
            cases hx : c.root with
            | none => rfl
            | some y => simp [hx] at hcr
          obtain ⟨ro, hpro⟩ : ∃ ro, p.root = some ro := by
            cases hx : p.root with
            | none => simp [hx] at hpr
            | some y => exact ⟨y, rfl⟩
          obtain ⟨hctop, hcnr, hck⟩ := top_of_unrooted inv.ok cid c hc hcroot
          have hcid : c.id = cid := (findInList_some cid _ c hc).1
          have hnot : pid ∉ idsK c := by
            rw [idsK_lone c hck, hcid]; simp only [List.mem_singleton]; exact hne
          have hro := rooted_of_found inv.ok pid p ro hp hpro
          obtain ⟨ok2, hperm⟩ := attach_ok (weaken inv.ok (some c.id)) hctop (plain_lone c hcnr hck) pid
            (findInList_some_mem_ids pid _ p hp) hnot (fun t ht hr _ => hro t ht hr)
          refine ⟨⟨ok2, ?_⟩, hperm⟩
          exact fresh_of_perm (h := h) (h' := attachUnder h pid c) hperm rfl inv.fresh
  · exact ⟨inv, List.Perm.refl _⟩

/-! ### the root-metadata merge at the end of a graft -/

theorem mergeMd_inv (h : Heap) (opt : MdOpt) (a b : Nat) (inv : Inv h) :
    Inv (mergeMd h opt a b) ∧ keysL (mergeMd h opt a b).comps = keysL h.comps := by
  simp only [mergeMd]
  split
  · rename_i oldR newR _ _
    obtain ⟨ok2, hk, _⟩ := setMd_ok inv.ok b (fun _ => (mergeDict opt newR.md oldR.md h.mds h.nextMd).1)
    refine ⟨⟨ok2, ?_⟩, hk⟩
    intro i hi
    simp only [idsL] at hi
    rw [hk] at hi
    exact inv.fresh i hi
  · exact ⟨inv, rfl⟩

theorem mergeMd_nextNode (h : Heap) (opt : MdOpt) (a b : Nat) : (mergeMd h opt a b).nextNode = h.nextNode := by
  simp only [mergeMd]; split <;> rfl

/-! ### graft -/

/-- the receiving node is not inside the branch being grafted (the quantifier of the property excludes grafting a node
    onto its own descendant, or a Root onto a node of its own tree) -/
def noCycle (h : Heap) (scionId recvId : Nat) : Prop := ∀ s, h.find scionId = some s → recvId ∉ idsK s

/-- the tree surgery of `_graft` -/
theorem surgery_inv (h : Heap) (s r : RNode) (sid rid oldRoot newRoot : Nat) (inv : Inv h)
    (hs : findInList sid h.comps = some s) (hr : findInList rid h.comps = some r)
    (hsr : s.root = some oldRoot) (hrr : r.root = some newRoot) (hnc : rid ∉ idsK s) :
    Inv (if s.isRoot then s.kids.foldl (moveKid s.id rid) h else moveBranch h s rid) ∧
    (keysL (if s.isRoot then s.kids.foldl (moveKid s.id rid) h else moveBranch h s rid).comps).Perm (keysL h.comps) := by
  have hmem := findInList_some_mem_ids rid _ r hr
  have hro := rooted_of_found inv.ok rid r newRoot hr hrr
  have hsid : s.id = sid := (findInList_some sid _ s hs).1
  cases hroot : s.isRoot with
  | true =>
    simp only [if_true]
    have hstop := top_of_isRoot inv.ok sid s hs hroot
    obtain ⟨ok2, hperm, _, _, hnn, _, _⟩ := graftRoot_ok s.id rid s.kids h s inv.ok hstop rfl rfl hmem hnc hro
    exact ⟨⟨ok2, fresh_of_perm hperm hnn inv.fresh⟩, hperm⟩
  | false =>
    simp only [Bool.false_eq_true, if_false]
    have hnt := nontop_of_rooted_plain inv.ok sid s oldRoot hs hroot hsr
    obtain ⟨ok2, hperm, _, _, _⟩ := relocate_ok h s rid inv.ok (by rw [hsid]; exact hs) hnt hmem hnc hro
    exact ⟨⟨ok2, fresh_of_perm hperm (moveBranch_fields h s rid).2.1 inv.fresh⟩, hperm⟩

theorem graftInto_inv (h : Heap) (sid rid : Nat) (opt : MdOpt) (inv : Inv h) (hnc : noCycle h sid rid) :
    Inv (graftInto h sid rid opt).1 ∧ (keysL (graftInto h sid rid opt).1.comps).Perm (keysL h.comps) := by
  simp only [graftInto]
  split
  · rename_i s r hs hr
    split
    · rename_i oldRoot newRoot hsr hrr
      obtain ⟨inv1, hperm1⟩ := surgery_inv h s r sid rid oldRoot newRoot inv hs hr hsr hrr (hnc s hs)
      cases opt with
      | invalid => exact ⟨inv1, hperm1⟩
      | yes => obtain ⟨i2, hk⟩ := mergeMd_inv _ .yes oldRoot newRoot inv1; exact ⟨i2, by rw [hk]; exact hperm1⟩
      | no => obtain ⟨i2, hk⟩ := mergeMd_inv _ .no oldRoot newRoot inv1; exact ⟨i2, by rw [hk]; exact hperm1⟩
      | copy => obtain ⟨i2, hk⟩ := mergeMd_inv _ .copy oldRoot newRoot inv1; exact ⟨i2, by rw [hk]; exact hperm1⟩
      | overwrite => obtain ⟨i2, hk⟩ := mergeMd_inv _ .overwrite oldRoot newRoot inv1; exact ⟨i2, by rw [hk]; exact hperm1⟩
      | copyover => obtain ⟨i2, hk⟩ := mergeMd_inv _ .copyover oldRoot newRoot inv1; exact ⟨i2, by rw [hk]; exact hperm1⟩
    · exact ⟨inv, List.Perm.refl _⟩
    · exact ⟨inv, List.Perm.refl _⟩
  · exact ⟨inv, List.Perm.refl _⟩

/-! ### force_add_to_tree -/

theorem forceAdd_inv (h : Heap) (pid cid : Nat) (inv : Inv h) (hnc : noCycle h cid pid) :
    Inv (forceAdd h pid cid).1 ∧ (keysL (forceAdd h pid cid).1.comps).Perm (keysL h.comps) := by
  simp only [forceAdd]
  split
  · rename_i h' heq
    have hh : h' = h := by
      have := addToTree_refused h pid cid (by rw [heq]; simp)
      rw [heq] at this; exact this
    subst hh
    obtain ⟨i2, hp⟩ := graftInto_inv h' cid pid .no inv hnc
    split <;> rename_i hg <;> (rw [hg] at i2 hp; exact ⟨i2, hp⟩)
  · exact addToTree_inv h pid cid inv

theorem findInList_append (id : Nat) (a b : List RNode) :
    findInList id (a ++ b) = match findInList id a with
      | some x => some x
      | none => findInList id b := by
  induction a with
  | nil => simp [findInList]
  | cons k ks ih =>
    simp only [List.cons_append, findInList]
    cases findIn id k with
    | some x => rfl
    | none => simp only [ih]

/-! ### new objects, metadata assignment -/

theorem mkRoot_inv (h : Heap) (name : String) (inv : Inv h) :
    Inv (mkRoot h name) ∧ keysL (mkRoot h name).comps = keysL h.comps ++ [(h.nextNode, name, true)] := by
  have hfreshid : h.nextNode ∉ idsL h.comps := fun hi => Nat.lt_irrefl _ (inv.fresh _ hi)
  obtain ⟨ok1, hk1⟩ := newTop_ok inv.ok (RNode.mk h.nextNode name true (some h.nextNode) (some "") [] []) rfl hfreshid
    (fun hr => by cases hr) (Or.inl ⟨rfl, rfl, rfl⟩)
  refine ⟨⟨ok1, ?_⟩, hk1⟩
  intro i hi
  simp only [mkRoot, idsL, hk1, List.map_append, List.mem_append, List.map_cons, List.map_nil, List.mem_singleton, RNode.id] at hi ⊢
  cases hi with
  | inl h' => exact Nat.lt_succ_of_lt (inv.fresh i h')
  | inr h' => rw [h']; exact Nat.lt_succ_self _

theorem mkNode_inv (h : Heap) (name : String) (inv : Inv h) (hname : name ∉ namesL h.comps) :
    Inv (mkNode h name) ∧ keysL (mkNode h name).comps = keysL h.comps ++ [(h.nextNode, name, false)] := by
  have hfreshid : h.nextNode ∉ idsL h.comps := fun hi => Nat.lt_irrefl _ (inv.fresh _ hi)
  obtain ⟨ok1, hk1⟩ := newTop_ok inv.ok (RNode.mk h.nextNode name false none none [] []) rfl hfreshid (fun _ => hname)
    (Or.inr ⟨rfl, rfl⟩)
  refine ⟨⟨ok1, ?_⟩, hk1⟩
  intro i hi
  simp only [mkNode, idsL, hk1, List.map_append, List.mem_append, List.map_cons, List.map_nil, List.mem_singleton, RNode.id] at hi ⊢
  cases hi with
  | inl h' => exact Nat.lt_succ_of_lt (inv.fresh i h')
  | inr h' => rw [h']; exact Nat.lt_succ_self _

/-! ### cut -/

theorem cut_eq (h : Heap) (nid : Nat) (opt : MdOpt) (n r : RNode) (hn : h.find nid = some n) (hr : n.root.bind h.find = some r) :
    cut h nid opt = graftInto (mkRoot h (r.name ++ "_cut_" ++ n.name)) nid h.nextNode opt := by
  simp only [cut, hn, hr, mkRoot, RNode.id]

theorem cut_inv (h : Heap) (nid : Nat) (opt : MdOpt) (inv : Inv h) :
    Inv (cut h nid opt).1 ∧
    ((keysL (cut h nid opt).1.comps).Perm (keysL h.comps) ∨
     ∃ nm, (keysL (cut h nid opt).1.comps).Perm (keysL h.comps ++ [(h.nextNode, nm, true)])) := by
  cases hn : h.find nid with
  | none => simp only [cut, hn]; exact ⟨inv, Or.inl (List.Perm.refl _)⟩
  | some n =>
    cases hr : n.root.bind h.find with
    | none => simp only [cut, hn, hr]; exact ⟨inv, Or.inl (List.Perm.refl _)⟩
    | some r =>
      rw [cut_eq h nid opt n r hn hr]
      have hfreshid : h.nextNode ∉ idsL h.comps := fun hi => Nat.lt_irrefl _ (inv.fresh _ hi)
      obtain ⟨inv1, hk1⟩ := mkRoot_inv h (r.name ++ "_cut_" ++ n.name) inv
      have hnc : noCycle (mkRoot h (r.name ++ "_cut_" ++ n.name)) nid h.nextNode := by
        intro s hs
        simp only [Heap.find, mkRoot, findInList_append] at hs hn
        rw [hn] at hs
        cases hs
        intro hi
        have : h.nextNode ∈ idsL h.comps := by
          obtain ⟨_, h2⟩ := findInList_some nid _ n hn
          simp only [idsK, idsL, List.mem_map] at hi ⊢
          obtain ⟨y, hy, e⟩ := hi
          exact ⟨y, h2 y hy, e⟩
        exact hfreshid this
      obtain ⟨i2, hp⟩ := graftInto_inv _ nid h.nextNode opt inv1 hnc
      refine ⟨i2, Or.inr ⟨r.name ++ "_cut_" ++ n.name, ?_⟩⟩
      rw [hk1] at hp
      exact hp

theorem addMd_inv (h : Heap) (nid : Nat) (name content : String) (inv : Inv h) :
    Inv (addMd h nid name content) ∧ keysL (addMd h nid name content).comps = keysL h.comps := by
  obtain ⟨ok2, hk, _⟩ := setMd_ok inv.ok nid (fun r => aset name h.nextMd r.md)
  refine ⟨⟨ok2, ?_⟩, hk⟩
  intro i hi
  simp only [addMd, idsL] at hi ⊢
  rw [hk] at hi
  exact inv.fresh i hi

end EmdProps
