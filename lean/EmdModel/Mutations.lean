/-
EmdModel.Mutations — the primitive HDF5 mutations h5py's high-level API offers, as functions on the idealised store.
A save is, at this granularity, a SEQUENCE of such mutations; the check records the sequence the real code performs
(harness/faults.py) and replays it here, so the semantics below is compared with h5py on every run.
`additive f0 m`: the mutation creates something, or changes / removes only objects that were NOT in the file `f0` the
save started from.
-/
import EmdModel.Write

namespace EmdModel

inductive Mut where
  | mkGroup (parent : List String) (name : String)                       -- Group.create_group
  | mkDataset (parent : List String) (name : String) (val : DVal)         -- Group.create_dataset / g[name] = data
  | setAttr (path : List String) (key : String) (val : AVal)              -- obj.attrs[key] = val / create / modify
  | delAttr (path : List String) (key : String)                           -- del obj.attrs[key]
  | delete (parent : List String) (name : String)                         -- del g[name]
  | move (parent : List String) (src dst : String)                        -- g.move(src, dst)
  | link (parent : List String) (name : String) (target : List String)    -- g[name] = <existing object>
  | setData (path : List String) (val : DVal)                             -- dset[...] = values
  deriving Repr, Inhabited

/-- set (`some x`) or remove (`none`) the link at the non-empty path `q`; every proper prefix of `q` must be a group -/
def setLink : Obj → List String → Option Obj → Option Obj
  | _, [], _ => none
  | o, [n], x =>
    if !o.isGroup then none
    else some (o.setKids (match x with
      | some v => aset n v o.kids
      | none => aeraseAll n o.kids))
  | o, n :: m :: r, x =>
    if !o.isGroup then none
    else match alookup n o.kids with
      | some c => (setLink c (m :: r) x).map (fun c' => o.setKids (areplace n c' o.kids))
      | none => none

/-- replace the object at `p` (the file itself for `p = []`) -/
def putAt (f : Obj) (p : List String) (o : Obj) : Option Obj :=
  match p with
  | [] => some o
  | _ => setLink f p (some o)

def isGroupAt (f : Obj) (p : List String) : Bool :=
  match f.at p with
  | some o => o.isGroup
  | none => false

/-- the effect of one mutation; `none` = h5py raises (nothing is changed) -/
def applyMut (f : Obj) : Mut → Option Obj
  | .mkGroup p n =>
    if isGroupAt f p && validName n && (f.at (p ++ [n])).isNone then setLink f (p ++ [n]) (some (.group [] [])) else none
  | .mkDataset p n v =>
    if isGroupAt f p && validName n && (f.at (p ++ [n])).isNone then setLink f (p ++ [n]) (some (.dataset [] v)) else none
  | .setAttr p k v =>
    match f.at p with
    | some o => putAt f p (o.setAttrs (aset k v o.attrs))
    | none => none
  | .delAttr p k =>
    match f.at p with
    | some o => if (alookup k o.attrs).isSome then putAt f p (o.setAttrs (aeraseAll k o.attrs)) else none
    | none => none
  | .delete p n =>
    if (f.at (p ++ [n])).isSome then setLink f (p ++ [n]) none else none
  | .move p s d =>
    match f.at (p ++ [s]) with
    | some o =>
      if validName d && (f.at (p ++ [d])).isNone then
        (setLink f (p ++ [s]) none).bind (fun f1 => setLink f1 (p ++ [d]) (some o))
      else none
    | none => none
  | .link p n t =>
    -- a hard link, modelled as a copy of the target (the writer deletes the original right after linking)
    match f.at t with
    | some o => if isGroupAt f p && validName n && (f.at (p ++ [n])).isNone then setLink f (p ++ [n]) (some o) else none
    | none => none
  | .setData p v =>
    match p, f.at p with
    | _ :: _, some (.dataset a _) => setLink f p (some (.dataset a v))
    | _, _ => none

/-- the mutation creates something new, or touches only what was not in `f0` -/
def additive (f0 : Obj) : Mut → Bool
  | .mkGroup _ _ => true
  | .mkDataset _ _ _ => true
  | .link _ _ _ => true
  | .setAttr p _ _ => (f0.at p).isNone
  | .delAttr p _ => (f0.at p).isNone
  | .delete p n => (f0.at (p ++ [n])).isNone
  | .move p s _ => (f0.at (p ++ [s])).isNone
  | .setData p _ => (f0.at p).isNone

/-- replay of a sequence: the file after the longest executable prefix, and per mutation (additive?, executed?) -/
def replay (f0 : Obj) : Obj → List Mut → Obj × List (Bool × Bool)
  | f, [] => (f, [])
  | f, m :: ms =>
    match applyMut f m with
    | some f' => let (ff, fl) := replay f0 f' ms; (ff, (additive f0 m, true) :: fl)
    | none => let (ff, fl) := replay f0 f ms; (ff, (additive f0 m, false) :: fl)

end EmdModel
