/-
EmdModel.Forest — the runtime objects: Node instances with identity, their `_root` / `_treepath` caches, their
`_branch` dictionaries (the nesting) and their `_metadata` dictionaries of shared Metadata objects.
Model of `classes/node.py`: add_to_tree, force_add_to_tree, _graft / graft, cut, get_from_tree, and of the
`metadata` setter.  `_root` and `_treepath` are STORED fields, updated exactly where the code updates them, so they
can be stale in the model whenever they can be stale in the code.
-/
import EmdModel.Basic

namespace EmdModel

/-- a runtime node: id (object identity), name, is it a Root, cached root id, cached treepath,
    metadata dict (key ↦ id of the Metadata object), children (the `_branch` dict, keyed by the child's name) -/
inductive RNode where
  | mk (id : Nat) (name : String) (isRoot : Bool) (root : Option Nat) (treepath : Option String)
       (md : List (String × Nat)) (kids : List RNode)
  deriving Repr, Inhabited

namespace RNode
def id : RNode → Nat | mk i _ _ _ _ _ _ => i
def name : RNode → String | mk _ n _ _ _ _ _ => n
def isRoot : RNode → Bool | mk _ _ r _ _ _ _ => r
def root : RNode → Option Nat | mk _ _ _ r _ _ _ => r
def treepath : RNode → Option String | mk _ _ _ _ t _ _ => t
def md : RNode → List (String × Nat) | mk _ _ _ _ _ m _ => m
def kids : RNode → List RNode | mk _ _ _ _ _ _ k => k
def setKids : RNode → List RNode → RNode | mk i n r ro t m _, k => mk i n r ro t m k
def setMd : RNode → List (String × Nat) → RNode | mk i n r ro t _ k, m => mk i n r ro t m k
end RNode

/-- a Metadata object: its `.name` and a token of its content -/
structure MdObj where
  name : String
  content : String
  deriving Repr, Inhabited, DecidableEq

/-- lookup by object id -/
def nlookup {β : Type} (k : Nat) : List (Nat × β) → Option β
  | [] => none
  | (k', v) :: r => if k' = k then some v else nlookup k r

structure Heap where
  comps : List RNode := []              -- the nodes that are nobody's child (roots and unrooted nodes)
  mds : List (Nat × MdObj) := []        -- Metadata objects by id
  nextNode : Nat := 0
  nextMd : Nat := 0
  deriving Repr, Inhabited

mutual
/-- `_update_branch` after setting the node's own fields: root and treepath of a whole branch -/
def relabel (r : Option Nat) (path : String) : RNode → RNode
  | .mk i n isR _ _ m ks => .mk i n isR r (some path) m (relabelKids r path ks)
def relabelKids (r : Option Nat) (path : String) : List RNode → List RNode
  | [] => []
  | k :: ks => relabel r (path ++ "/" ++ k.name) k :: relabelKids r path ks
end

mutual
/-- the node with this id, searched in a tree -/
def findIn (id : Nat) : RNode → Option RNode
  | .mk i n r ro t m ks => if i = id then some (.mk i n r ro t m ks) else findInList id ks
def findInList (id : Nat) : List RNode → Option RNode
  | [] => none
  | k :: ks => match findIn id k with
    | some x => some x
    | none => findInList id ks
end

mutual
/-- replace the node with this id by `f` of it (first occurrence; ids are unique) -/
def updateIn (id : Nat) (f : RNode → RNode) : RNode → RNode
  | .mk i n r ro t m ks => if i = id then f (.mk i n r ro t m ks) else .mk i n r ro t m (updateInList id f ks)
def updateInList (id : Nat) (f : RNode → RNode) : List RNode → List RNode
  | [] => []
  | k :: ks => updateIn id f k :: updateInList id f ks
end

mutual
/-- remove the (non-top) node with this id from a tree -/
def removeIn (id : Nat) : RNode → RNode
  | .mk i n r ro t m ks => .mk i n r ro t m (removeInList id ks)
def removeInList (id : Nat) : List RNode → List RNode
  | [] => []
  | k :: ks => if k.id = id then ks else removeIn id k :: removeInList id ks
end

mutual
def idsOf : RNode → List Nat
  | .mk i _ _ _ _ _ ks => i :: idsOfList ks
def idsOfList : List RNode → List Nat
  | [] => []
  | k :: ks => idsOf k ++ idsOfList ks
end

/-- `self._branch[node.name] = node`: a child of the same name is replaced -/
def setKidR (c : RNode) : List RNode → List RNode
  | [] => [c]
  | k :: ks => if k.name = c.name then c :: ks else k :: setKidR c ks

def Heap.find (h : Heap) (id : Nat) : Option RNode := findInList id h.comps
def Heap.isTop (h : Heap) (id : Nat) : Bool := h.comps.any (fun c => c.id = id)

inductive TOut where
  | ok
  | refused     -- AssertionError
  | error
  | node (id : Nat)   -- a node returned (get / graft / cut return a node)
  deriving Repr, DecidableEq

/-- metadata handling options of graft / cut -/
inductive MdOpt where
  | yes        -- True: add, skip conflicts
  | no         -- False: nothing
  | copy       -- copy, skip conflicts
  | overwrite  -- add, replace conflicts
  | copyover   -- copy, replace conflicts
  | invalid    -- anything else (assertion in `_graft`)
  deriving Repr, DecidableEq

/-- the body of `p.add_to_tree(c)`: the child takes `p`'s root and `p`'s treepath + '/' + its name, recursively
    (`_update_branch`), and is stored in `p._branch` under its name -/
def hangF (c : RNode) (p : RNode) : RNode :=
  p.setKids (setKidR (relabel p.root ((p.treepath.getD "") ++ "/" ++ c.name) c) p.kids)

/-- `add_to_tree(parent, child)` once the assertions hold: `child` stops being a top-level object and hangs under the
    node with id `pid` -/
def attachUnder (h : Heap) (pid : Nat) (child : RNode) : Heap :=
  { h with comps := updateInList pid (hangF child) (h.comps.filter (fun c => c.id != child.id)) }

/-- `parent.add_to_tree(child)` -/
def addToTree (h : Heap) (pid cid : Nat) : Heap × TOut :=
  match h.find pid, h.find cid with
  | some p, some c =>
    if p.root.isNone then (h, .refused)            -- can't add to an unrooted node
    else if c.root.isSome then (h, .refused)       -- can't add a rooted node
    else if pid = cid then (h, .error)
    else (attachUnder h pid c, .ok)
  | _, _ => (h, .error)

/-- the state of the merge loop: the receiving root's metadata dict, the Metadata objects, the next object id -/
abbrev MergeSt := List (String × Nat) × List (Nat × MdObj) × Nat

/-- one iteration of the loop over `old_root.metadata.keys()` at the end of `_graft` -/
def mergeStep (opt : MdOpt) (st : MergeSt) (kv : String × Nat) : MergeSt :=
  let (recv, mds, next) := st
  let present := (alookup kv.1 recv).isSome
  -- `node.root.metadata = x` keys the entry by the object's own name
  let ownName := match nlookup kv.2 mds with | some o => o.name | none => kv.1
  let content := match nlookup kv.2 mds with | some o => o.content | none => ""
  match opt with
  | .no => st
  | .invalid => st
  | .yes => if present then st else (aset ownName kv.2 recv, mds, next)
  | .overwrite => (aset ownName kv.2 recv, mds, next)
  | .copy => if present then st else
      (aset kv.1 next recv, mds ++ [(next, { name := kv.1, content := content })], next + 1)
  | .copyover => (aset kv.1 next recv, mds ++ [(next, { name := kv.1, content := content })], next + 1)

/-- the whole loop: donor entries in dict order -/
def mergeDict (opt : MdOpt) (recv donor : List (String × Nat)) (mds : List (Nat × MdObj)) (next : Nat) : MergeSt :=
  donor.foldl (mergeStep opt) (recv, mds, next)

/-- the root metadata merge at the end of `_graft` -/
def mergeMd (h : Heap) (opt : MdOpt) (oldRootId newRootId : Nat) : Heap :=
  match h.find oldRootId, h.find newRootId with
  | some oldR, some newR =>
    let (md', mds', next') := mergeDict opt newR.md oldR.md h.mds h.nextMd
    { h with comps := updateInList newRootId (fun r => r.setMd md') h.comps, mds := mds', nextMd := next' }
  | _, _ => h

/-- `self._root = None` -/
def unroot : RNode → RNode
  | .mk i n isR _ t m ks => .mk i n isR none t m ks

/-- `del(x._branch[k])` for the child with this id -/
def dropKid (kid : Nat) (x : RNode) : RNode := x.setKids (x.kids.filter (fun y => y.id != kid))

/-- one iteration of the loop that empties a root being grafted: the child leaves the root's `_branch`, is unrooted and
    added under the receiver (if the receiver can still be reached) -/
def moveKid (sid recvId : Nat) (acc : Heap) (k : RNode) : Heap :=
  let acc' : Heap := { acc with comps := updateInList sid (dropKid k.id) acc.comps ++ [unroot k] }
  if (acc'.find recvId).isSome then attachUnder acc' recvId (unroot k) else acc'

/-- the tree surgery of `_graft` for a scion that is not a root: remove the connection from upstream, unroot, add -/
def moveBranch (h : Heap) (s : RNode) (recvId : Nat) : Heap :=
  let acc : Heap := { h with comps := (h.comps.map (removeIn s.id)) ++ [unroot s] }
  if (acc.find recvId).isSome then attachUnder acc recvId (unroot s) else acc

/-- `scion._graft(receiver, opt)` -/
def graftInto (h : Heap) (scionId recvId : Nat) (opt : MdOpt) : Heap × TOut :=
  match h.find scionId, h.find recvId with
  | some s, some r =>
    match s.root, r.root with
    | some oldRoot, some newRoot =>
      let h1 : Heap :=
        if s.isRoot then s.kids.foldl (moveKid s.id recvId) h     -- grafting from a root: its children move one by one
        else moveBranch h s recvId
      match opt with
      | .invalid => (h1, .refused)      -- the assertion on merge_metadata comes after the tree surgery
      | _ => (mergeMd h1 opt oldRoot newRoot, .node newRoot)
    | none, _ => (h, .refused)
    | _, none => (h, .refused)
  | _, _ => (h, .error)

/-- `receiver.graft(scion, opt)` -/
def graft (h : Heap) (recvId scionId : Nat) (opt : MdOpt) : Heap × TOut := graftInto h scionId recvId opt

/-- `parent.force_add_to_tree(child)` -/
def forceAdd (h : Heap) (pid cid : Nat) : Heap × TOut :=
  match addToTree h pid cid with
  | (h', .refused) =>
    match graftInto h' cid pid .no with
    | (h'', .node _) => (h'', .ok)
    | (h'', o) => (h'', o)
  | r => r

/-- `node.cut(opt)`: a new Root named `<root>_cut_<node>` receives the branch -/
def cut (h : Heap) (nid : Nat) (opt : MdOpt) : Heap × TOut :=
  match h.find nid with
  | some n =>
    match n.root.bind h.find with
    | some r =>
      let newRoot : RNode := .mk h.nextNode (r.name ++ "_cut_" ++ n.name) true (some h.nextNode) (some "") [] []
      let h1 := { h with comps := h.comps ++ [newRoot], nextNode := h.nextNode + 1 }
      graftInto h1 nid newRoot.id opt
    | none => (h, .error)       -- `self.root.name` on None
  | none => (h, .error)

def mkRoot (h : Heap) (name : String) : Heap :=
  { h with comps := h.comps ++ [.mk h.nextNode name true (some h.nextNode) (some "") [] []], nextNode := h.nextNode + 1 }

def mkNode (h : Heap) (name : String) : Heap :=
  { h with comps := h.comps ++ [.mk h.nextNode name false none none [] []], nextNode := h.nextNode + 1 }

/-- `node.metadata = Metadata(name, content)`: a new Metadata object, keyed by its name -/
def addMd (h : Heap) (nid : Nat) (name content : String) : Heap :=
  { h with comps := updateInList nid (fun r => r.setMd (aset name h.nextMd r.md)) h.comps,
           mds := h.mds ++ [(h.nextMd, { name := name, content := content })], nextMd := h.nextMd + 1 }

/-- walk `names` down the `_branch` dictionaries -/
def walkKids : List RNode → List String → Option RNode
  | _, [] => none
  | ks, [n] => ks.find? (fun k => k.name = n)
  | ks, n :: rest => match ks.find? (fun k => k.name = n) with
    | some k => walkKids k.kids rest
    | none => none

/-- `node.get_from_tree(path)` for a parsed path: `fromRoot` = the string started with '/' -/
def getFromTree (h : Heap) (nid : Nat) (fromRoot : Bool) (names : List String) : TOut :=
  match h.find nid with
  | none => .error
  | some n =>
    if names.isEmpty && !fromRoot then
      -- name == '': returns self.root
      match n.root with | some r => .node r | none => .error
    else
      let start : Option RNode := if fromRoot then n.root.bind h.find else some n
      match start with
      | none => .error
      | some s =>
        if names.isEmpty then .error
        else match walkKids s.kids names with
          | some x => .node x.id
          | none => .refused

end EmdModel

namespace EmdModel

/-- what `save` does to the caller's objects (write.py): an unrooted node is given a temporary root named
    `<name>_root` (or is hung under `root_savedlist`) while the file is written and is unrooted again afterwards —
    whether or not the write succeeded (the repaired defect); its private `_treepath` keeps the temporary value -/
def saveEffectOne (n : RNode) : RNode :=
  match n with
  | .mk i nm isR none _ m ks => .mk i nm isR none (some ("/" ++ nm)) m ks
  | other => other

def saveEffect (h : Heap) (passed : List Nat) : Heap :=
  { h with comps := h.comps.map (fun c => if passed.contains c.id then saveEffectOne c else c) }

/-- what the caller can observe of a top-level object: everything, except that the cached treepath of a node that is in
    no tree has no observable meaning (it is overwritten when the node is added to a tree) -/
def observeTop (c : RNode) : RNode :=
  match c with
  | .mk i nm isR none _ m ks => .mk i nm isR none none m ks
  | other => other

def observe (h : Heap) : List RNode × List (Nat × MdObj) := (h.comps.map observeTop, h.mds)

end EmdModel
