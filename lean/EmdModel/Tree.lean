/-
EmdModel.Tree — runtime trees at the level the tree-shaped properties talk about.

A node is its name, its Python class, its EMD group type and its *body*: exactly the HDF5
objects the class's `to_h5` puts into the node's group besides the two tags (datasets,
the `metadatabundle` group, `custom_*` groups).  Tree-level theorems quantify over arbitrary
bodies; the codec models (Array / PointList / Metadata …) say what the bodies are.
-/
import EmdModel.H5

namespace EmdModel

structure NodeInfo where
  name : String
  cls : String
  gtype : String
  body : List (String × Obj)
  deriving Repr, Inhabited

inductive Tree where
  | mk (info : NodeInfo) (kids : List Tree)
  deriving Repr, Inhabited

namespace Tree
def info : Tree → NodeInfo | mk i _ => i
def kids : Tree → List Tree | mk _ k => k
def name (t : Tree) : String := t.info.name
end Tree

/-- the child called `n` (first match; sibling names are distinct in a Python dict) -/
def findKid (n : String) : List Tree → Option Tree
  | [] => none
  | t :: ts => if t.name = n then some t else findKid n ts

/-- `node.tree('a/b/c')` on a list of names -/
def Tree.at : Tree → List String → Option Tree
  | t, [] => some t
  | t, n :: p =>
    match findKid n t.kids with
    | some c => c.at p
    | none => none

/-- the three values of the `tree` argument of save / read -/
inductive TreeOpt where
  | yes    -- True: node and its branch
  | no     -- False: node alone
  | below  -- None: the branch below the node, without the node
  deriving DecidableEq, Repr, Inhabited

/-- the tags every node group carries -/
def nodeAttrs (i : NodeInfo) : Attrs :=
  [("emd_group_type", .str i.gtype), ("python_class", .str i.cls)]

/-- the group `Node.to_h5` creates for a node, before any child is written -/
def nodeGroup (i : NodeInfo) : Obj := .group (nodeAttrs i) i.body

mutual
/-- the group a node and its whole branch become in the file (pure; the writer computes this when nothing collides) -/
def encode : Tree → Obj
  | .mk i kids => .group (nodeAttrs i) (i.body ++ encodeKids kids)
def encodeKids : List Tree → List (String × Obj)
  | [] => []
  | t :: ts => (t.name, encode t) :: encodeKids ts
end

mutual
/-- all node paths of a tree (relative to it), root first -/
def Tree.paths : Tree → List (List String)
  | .mk _ kids => [] :: pathsKids kids
def pathsKids : List Tree → List (List String)
  | [] => []
  | t :: ts => (t.paths.map (t.name :: ·)) ++ pathsKids ts
end

mutual
def Tree.size : Tree → Nat
  | .mk _ kids => 1 + sizeKids kids
def sizeKids : List Tree → Nat
  | [] => 0
  | t :: ts => t.size + sizeKids ts
end

end EmdModel
