/-
EmdModel.Legacy — model of `read_EMD_v0p1.py`: find every group tagged `emd_group_type = 1` at any depth, import each
as an Array (name = the group's basename, data, and per axis the 1-based `dim<n>` dataset with its `name` and `units`),
hang them under a root named after the file; return the Array if there is exactly one, the root otherwise.
-/
import EmdModel.Array
import EmdModel.Read

namespace EmdModel

mutual
/-- `visititems(_is_emd_group)`: all groups below `o` carrying the integer tag 1, with their names -/
def legacyGroups : Obj → List (String × Obj)
  | .dataset _ _ => []
  | .group _ kids => legacyGroupsKids kids
def legacyGroupsKids : List (String × Obj) → List (String × Obj)
  | [] => []
  | (k, o) :: rest =>
    (match o with
     | .group a ks => if alookup "emd_group_type" a == some (.int 1) then [(k, Obj.group a ks)] else []
     | .dataset _ _ => []) ++ legacyGroups o ++ legacyGroupsKids rest
end

/-- axis i of a legacy data group: the 1-based dataset `dim<i+1>` with its `units` and `name` -/
def legacyDimTriple (kids : List (String × Obj)) (i : Nat) : R (DimArg × String × String) :=
  match alookup (autoName "dim" (i + 1)) kids with
  | some (.dataset a (.nums xs)) => do
    let u ← strAttr (.dataset a (.nums xs)) "units"
    let nm ← strAttr (.dataset a (.nums xs)) "name"
    pure (DimArg.vec xs, u, nm)
  | _ => throw (.error "dim not found")

/-- the `data` dataset of a legacy data group -/
def legacyData (g : Obj) : R String :=
  match alookup "data" g.kids with
  | some (.dataset _ (.tok t)) => pure t
  | _ => throw (.error "no data")

/-- one legacy data group -> Array: `shapeOf` is the shape h5py reports for the `data` dataset -/
def importLegacyGroup (ops : NumOps) (shapeOf : String → List Nat) (g : Obj) : R ArrayVal := do
  let tok ← legacyData g
  let shape := shapeOf tok
  let triples ← (List.range shape.length).mapM (legacyDimTriple g.kids)
  mkArray ops tok shape "" (some (triples.map (·.1))) (some (triples.map (·.2.2))) (some (triples.map (·.2.1))) .none

/-- `root.tree(arr)`: a later array of the same name replaces the earlier one -/
def setNamed (n : String) (a : ArrayVal) : List (String × ArrayVal) → List (String × ArrayVal)
  | [] => [(n, a)]
  | (k, v) :: rest => if k = n then (n, a) :: rest else (k, v) :: setNamed n a rest

inductive LegacyOut where
  | single (name : String) (a : ArrayVal)
  | many (arrays : List (String × ArrayVal))
  deriving Repr

/-- one data group imported and appended to the list of (name, Array) -/
def importStep (ops : NumOps) (shapeOf : String → List Nat) (acc : List (String × ArrayVal)) (kg : String × Obj) :
    R (List (String × ArrayVal)) := do
  let a ← importLegacyGroup ops shapeOf kg.2
  pure (acc ++ [(kg.1, a)])

/-- `read_EMD_v0p1(filepath)` -/
def readLegacy (ops : NumOps) (shapeOf : String → List Nat) (f : Obj) : R LegacyOut := do
  let gs := legacyGroups f
  if gs.isEmpty then throw (.error "No EMD 0.1 groups found!")
  let arrs ← gs.foldlM (importStep ops shapeOf) []
  match arrs with
  | [(n, a)] => pure (.single n a)
  | _ => pure (.many (arrs.foldl (fun acc na => setNamed na.1 na.2 acc) []))

/-- `read` on a path that is not an EMD 1.0 file: legacy import, or an error -/
def readNonEMD (ops : NumOps) (shapeOf : String → List Nat) (st : Option FileState) : R LegacyOut :=
  match st with
  | none => throw (.refused "file not found")
  | some (.junk _) => throw (.error "not an HDF5 file")
  | some (.h5 f) =>
    if isEMDFile f then throw (.error "is an EMD 1.0 file")
    else match readLegacy ops shapeOf f with
      | .ok r => pure r
      | .error _ => throw (.error "not recognized as an EMD file")

end EmdModel
