/-
EmdModel.Read — model of `emdfile.read` for EMD 1.0 files and of the read utilities.
`read` never returns a store: it cannot modify the file system (C08, structural).
-/
import EmdModel.Save

namespace EmdModel

/-- class name ↦ EMD group type, for the classes the reader can find (`_get_class`) -/
abbrev ClassTable := List (String × String)

def builtinClasses : ClassTable := EmdGen.classGroupTypes

/-- what a class's `from_h5` consumes at tree level: everything in the group that is not a tree child -/
def bodyOf (dt : List String) (g : Obj) : List (String × Obj) :=
  g.kids.filter (fun kv => !isDataKid dt kv.2)

/-- `_read_single_node(grp)`: class lookup by the `python_class` tag, then `cls.from_h5(grp)` -/
def readSingleNode (ct : ClassTable) (dt : List String) (name : String) (g : Obj) : R NodeInfo :=
  match g.pyClass with
  | none => throw (.error "no python_class tag")
  | some c =>
    match alookup c ct with
    | none => throw (.error ("Unknown classname " ++ c))
    | some gt =>
      -- Node.from_h5 validates the group tag
      match g.gtype with
      | none => throw (.refused "not a valid EMD node")
      | some t =>
        if !EmdGen.groupTypes.contains t then throw (.refused "not a valid EMD node")
        else pure { name := name, cls := c, gtype := gt, body := bodyOf dt g }

mutual
/-- a node with everything `_populate_tree` hangs beneath it -/
def readNodeFull (ct : ClassTable) (dt : List String) (name : String) : Obj → R Tree
  | .group a kids => do
    let i ← readSingleNode ct dt name (.group a kids)
    let ks ← populateKids ct dt kids
    pure (.mk i ks)
  | .dataset _ _ => throw (.error "not a group")
/-- `_populate_tree(node, group)`: the tree children found among the links of a group -/
def populateKids (ct : ClassTable) (dt : List String) : List (String × Obj) → R (List Tree)
  | [] => pure []
  | (k, o) :: rest =>
    if isDataKid dt o then do
      let t ← readNodeFull ct dt k o
      let ts ← populateKids ct dt rest
      pure (t :: ts)
    else populateKids ct dt rest
end

/-- `Root.from_h5(rootgroup)`: always a Root, whatever class the group names -/
def readRoot (dt : List String) (name : String) (g : Obj) : R NodeInfo :=
  match g.gtype with
  | none => throw (.refused "not a valid EMD node")
  | some t =>
    if !EmdGen.groupTypes.contains t then throw (.refused "not a valid EMD node")
    else pure { name := name, cls := "Root", gtype := "root", body := bodyOf dt g }

/-- what `read` returns -/
inductive ReadOut where
  | node (root : Tree) (path : List String)      -- the node at `path` of a tree whose `.root` is `root`
  | rootnames (names : List String)              -- several roots and no emdpath
  | metadata (name : String) (o : Obj)           -- a file holding nothing but one Metadata
  deriving Repr

/-- `emdpath` parsing of read.py: split on '/', remove the FIRST '' only -/
def parseEmdpathRead (s : String) : Option (String × List String) :=
  let p := (splitSlash s).eraseP (· == "")
  match p with
  | [] => none
  | r :: rest =>
    -- treepath = '/'.join(rest); group_names = treepath.split('/'); [''] means the root itself
    some (r, if rest == [""] then [] else rest)

/-- walk `group_names` from the root group: every name must be a link (`assert name in keys`) -/
def descend : Obj → List String → R Obj
  | o, [] => pure o
  | o, n :: p =>
    match o with
    | .dataset _ _ => throw (.error "dataset has no keys")
    | .group _ kids =>
      match alookup n kids with
      | none => throw (.refused ("group not found: " ++ n))
      | some c => descend c p

/-- `read` once the emdpath is parsed into a root name and the names below it -/
def readEMDAt (ct : ClassTable) (dt : List String) (f : Obj) (rootname : String) (names : List String)
    (opt : TreeOpt) : R ReadOut := do
  let rootgroup ← match alookup rootname f.kids with
    | some g => pure g
    | none => throw (.refused "root group not found")
  let nodegroup ← descend rootgroup names
  let rootInfo ← readRoot dt rootname rootgroup
  if names.isEmpty then
    match opt with
    | .no => pure (.node (.mk rootInfo []) [])
    | .yes => do
      let ks ← populateKids ct dt rootgroup.kids
      match ks with
      | [k] => pure (.node (.mk rootInfo ks) [k.name])
      | [] =>
        match mdEntries rootInfo with
        | [(n, o)] => pure (.metadata n o)
        | _ => pure (.node (.mk rootInfo []) [])
      | _ => pure (.node (.mk rootInfo ks) [])
    | .below => do
      let ks ← populateKids ct dt rootgroup.kids
      pure (.node (.mk rootInfo ks) [])
  else
    let nm := names.getLast?.getD ""
    match opt with
    | .no => do
      let i ← readSingleNode ct dt nm nodegroup
      -- `root.force_add_to_tree(node)` only accepts Node instances (a Metadata group is not one)
      if i.gtype == "metadata" then throw (.error "not a Node")
      pure (.node (.mk rootInfo [.mk i []]) [nm])
    | .yes => do
      let t ← readNodeFull ct dt nm nodegroup
      if t.info.gtype == "metadata" then throw (.error "not a Node")
      pure (.node (.mk rootInfo [t]) [nm])
    | .below => do
      -- `_populate_tree(root, nodegroup)` calls `nodegroup.keys()`: a dataset has none
      if !nodegroup.isGroup then throw (.error "dataset has no keys")
      let ks ← populateKids ct dt nodegroup.kids
      pure (.node (.mk rootInfo ks) [])

/-- `read` on an EMD 1.0 file: choose / parse the emdpath (a lone root's *name* is parsed like any emdpath) -/
def readEMD (ct : ClassTable) (dt : List String) (f : Obj) (emdpath : Option String) (opt : TreeOpt) : R ReadOut := do
  let ep ← match emdpath with
    | some e => pure e
    | none =>
      match rootGroups f with
      | [] => throw (.error "no root groups")
      | [r] => pure r
      | rs => return (.rootnames rs)
  match parseEmdpathRead ep with
  | some (rootname, names) => readEMDAt ct dt f rootname names opt
  | none => throw (.error "empty emdpath")

/-- `emdfile.read(path, emdpath, tree)` on the model file system (EMD 1.0 part; legacy import is in Legacy.lean) -/
def readFS (ct : ClassTable) (dt : List String) (fs : FS) (path : String) (emdpath : Option String) (opt : TreeOpt)
    (legacy : Obj → R ReadOut) : R ReadOut :=
  match fsLookup fs path with
  | none => throw (.refused "file not found")
  | some (.junk _) => throw (.error "not an HDF5 file")
  | some (.h5 f) =>
    if !isEMDFile f then
      match legacy f with
      | .ok r => pure r
      | .error _ => throw (.error "not recognized as an EMD file")
    else readEMD ct dt f emdpath opt

end EmdModel
