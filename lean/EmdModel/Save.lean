/-
EmdModel.Save — model of `emdfile.save` (= `write.write`) for Node inputs, over a tiny file system.
Mirrors the dispatch of write.py branch for branch.
-/
import EmdModel.Write
import EmdGen.Tables

namespace EmdModel

inductive FileState where
  | junk (id : String)          -- bytes that are not an HDF5 file
  | h5 (f : Obj)                -- an HDF5 file: its root group
  deriving Repr, Inhabited

/-- path ⇀ file -/
abbrev FS := List (String × FileState)

structure Session where
  program : String := "emdfile"
  user : String := ""
  deriving Repr, Inhabited

/-- what `save` is given (Node inputs): a node of a rooted tree, or an unrooted node -/
inductive Src where
  | rooted (root : Tree) (target : List String)   -- data = root.tree(target); `data is root` iff target = []
  | unrooted (node : NodeInfo)
  deriving Repr, Inhabited

def rootInfoFor (name : String) : NodeInfo :=
  { name := name, cls := "Root", gtype := "root", body := [] }

/-- `root = Root(name=data.name+"_root"); root.add_to_tree(data)` for unrooted data -/
def Src.resolve : Src → Tree × List String
  | .rooted r t => (r, t)
  | .unrooted n => (.mk (rootInfoFor (n.name ++ "_root")) [.mk n []], [n.name])

def headerAttrs (s : Session) (uuid : String) : Attrs :=
  [("emd_group_type", .str "file"), ("version_major", .int 1), ("version_minor", .int 0),
   ("UUID", .str uuid), ("authoring_program", .str s.program), ("authoring_user", .str s.user)]

/-- `_get_EMD_rootgroups` -/
def rootGroups (f : Obj) : List String :=
  (f.kids.filter (fun kv => kv.2.gtype == some "root")).map (·.1)

/-- `_is_EMD_file` on an HDF5 file -/
def isEMDFile (f : Obj) : Bool :=
  (alookup "emd_group_type" f.attrs == some (.str "file")) &&
  (alookup "version_major" f.attrs == some (.int 1)) &&
  (alookup "version_minor" f.attrs == some (.int 0)) &&
  !(rootGroups f).isEmpty

/-- `_get_EMD_version` -/
def emdVersion (f : Obj) : Option (Int × Int × Int) :=
  match alookup "version_major" f.attrs, alookup "version_minor" f.attrs with
  | some (.int a), some (.int b) =>
    match alookup "version_release" f.attrs with
    | some (.int c) => some (a, b, c)
    | none => some (a, b, 0)
    | _ => none
  | _, _ => none

/-- the root group `_write_from_root` builds, with the selected part of the tree inside it -/
def rootFilled (root : Tree) (target : List String) (opt : TreeOpt) : R Obj :=
  -- the root itself (its tag is set to 'root' again; Root's group type already is 'root')
  let rootgroup := nodeGroup { root.info with gtype := "root" }
  match target with
  | [] =>
    match opt with
    | .no => pure rootgroup
    | _ => writeTree rootgroup root
  | _ =>
    match root.at target with
    | none => throw (.error "target not in its own tree")
    | some data =>
      match opt with
      | .no => writeSingleNode rootgroup data.info
      | .yes => do
        let c ← writeNodeFull data
        createIn rootgroup data.name c
      | .below => writeTree rootgroup data

/-- `_write_from_root(file, root, data, tree)`: one new top-level group -/
def writeFromRoot (f : Obj) (root : Tree) (target : List String) (opt : TreeOpt) : R Obj := do
  let filled ← rootFilled root target opt
  createIn f root.name filled

/-- entries of a node's own metadata bundle, as written by `Node.to_h5` -/
def mdEntries (i : NodeInfo) : List (String × Obj) :=
  match alookup "metadatabundle" i.body with
  | some b => b.kids
  | none => []

def bundleAttrs : Attrs := [("emd_group_type", .str "metadatabundle")]

/-- the loop of `_append_root_metadata` over the runtime root's Metadata, acting on the entries of the
    file root's bundle; `existing` is `metadata_groups`, computed once before the loop -/
def mdMergeEntries (over : Bool) (existing : List String) :
    List (String × Obj) → List (String × Obj) → R (List (String × Obj))
  | fe, [] => pure fe
  | fe, (k, v) :: rest =>
    if existing.contains k then
      -- present in the file: replaced (append-over: `del` then `to_h5`) or skipped (append)
      mdMergeEntries over existing (if over then areplace k v fe else fe) rest
    else if !validName k then throw (.error ("name outside the modelled domain: " ++ k))
    else if (alookup k fe).isSome then throw (.error ("name already exists: " ++ k))
    else mdMergeEntries over existing (fe ++ [(k, v)]) rest

/-- `_append_root_metadata(rootgroup, root, appendover)`.  A bundle that has to be created is put in front of
    the other links: link order is not observable (H5), and this keeps the group in the shape `encode` produces. -/
def appendRootMetadata (rootgroup : Obj) (root : NodeInfo) (over : Bool) : R Obj :=
  let entries := mdEntries root
  if entries.isEmpty then pure rootgroup
  else if !rootgroup.isGroup then throw (.error "not a group")
  else
    match alookup "metadatabundle" rootgroup.kids with
    | none => do
      let es ← mdMergeEntries over [] [] entries
      pure (rootgroup.setKids (("metadatabundle", .group bundleAttrs es) :: rootgroup.kids))
    | some b => do
      let existing := (b.kids.filter (fun kv => kv.2.gtype == some "metadata")).map (·.1)
      let es ← mdMergeEntries over existing b.kids entries
      pure (rootgroup.setKids (areplace "metadatabundle" (b.setKids es) rootgroup.kids))

/-- `emdpath` parsing of write.py: strip one leading '/', split, first name is the root -/
def parseEmdpathWrite (s : String) : Option (String × List String) :=
  if s.isEmpty then none else
  let s' := if s.toList.head? = some '/' then String.ofList (s.toList.drop 1) else s
  match splitSlash s' with
  | [] => none
  | r :: rest =>
    -- treepath = '/'.join(rest); `_validate_treepath` splits again and removes the FIRST '' only
    let names := rest.eraseP (· == "")
    some (r, names)

/-- write at the group at `p` below `rootgroup` -/
def atPath (rootgroup : Obj) (p : List String) (f : Obj → R Obj) : R Obj := updateAt f rootgroup p

def isPrefixOf' : List String → List String → Option (List String)
  | [], l => some l
  | _ :: _, [] => none
  | a :: as, b :: bs => if a = b then isPrefixOf' as bs else none

/-- overwrite (when asked) then append the branch, at `target` for runtime node `data` -/
def overThenAppend (dt : List String) (rootgroup : Obj) (target : List String) (data : Tree)
    (over : Bool) (opt : TreeOpt) : R Obj := do
  let rg1 ←
    if over && (opt == .yes || opt == .no) then
      match target.getLast?, target.dropLast with
      | none, _ =>
        -- the root group itself: `_overwrite_single_node` asserts '/' == '' and refuses
        throw (.refused "overwrite of the root group")
      | some n, parent =>
        if n != data.name then throw (.refused "names don't match")
        else atPath rootgroup parent (fun pg => overwriteSingleNode dt pg data.info)
    else pure rootgroup
  if opt == .yes || opt == .below then
    atPath rg1 target (fun g => appendBranch dt over g data)
  else pure rg1

/-- the append dispatch of `write` for the three cases that rewrite an existing root group: returns the name of
    that root group and its new value (nothing else in the file is touched) -/
def appendCore (dt : List String) (f : Obj) (root : Tree) (target : List String) (over : Bool)
    (opt : TreeOpt) (emdpath : Option String) : R (String × Obj) := do
  let data ← match root.at target with
    | some d => pure d
    | none => throw (.error "target not in its own tree")
  let isRoot := target.isEmpty
  let inFile := (rootGroups f).contains root.name
  match inFile, emdpath with
  | false, none => throw (.error "unreachable: handled by appendInto")
  | false, some ep =>
    match parseEmdpathWrite ep with
    | none => throw (.error "bad emdpath")
    | some (rootname, names) =>
      match alookup rootname f.kids with
      | none => throw (.refused "no such root")
      | some rootgroup =>
        match validateTreepath rootgroup names with
        | none => throw (.error "no node at emdpath")
        | some (_, false) => throw (.error "no node at emdpath")
        | some (tp, true) => do
          let rg' ←
            if isRoot && opt == .no then throw (.error "incompatible inputs")
            else if isRoot then atPath rootgroup tp (fun g => writeTree g data)
            else match opt with
              | .no => atPath rootgroup tp (fun g => writeSingleNode g data.info)
              | .yes => atPath rootgroup tp (fun g => do
                  let c ← writeNodeFull data
                  createIn g data.name c)
              | .below => atPath rootgroup tp (fun g => writeTree g data)
          pure (rootname, rg')
  | true, none =>
    match alookup root.name f.kids with
    | none => throw (.error "unreachable")
    | some rootgroup0 => do
      let rootgroup ← appendRootMetadata rootgroup0 root.info over
      let rg' ←
        if isRoot then
          (if opt == .yes then appendBranch dt over rootgroup data else pure rootgroup)
        else
          match validateTreepath rootgroup target with
          | none => throw (.error "treepath not in file")
          | some (wp, true) =>
            (match opt with
            | .yes => overThenAppend dt rootgroup wp data over .yes
            | .no => overThenAppend dt rootgroup wp data over .no
            | .below => atPath rootgroup wp (fun g => appendBranch dt over g data))
          | some (wp, false) =>
            (match opt with
            | .yes => atPath rootgroup wp (fun g => do
                let c ← writeNodeFull data
                createIn g data.name c)
            | .no => atPath rootgroup wp (fun g => writeSingleNode g data.info)
            | .below => atPath rootgroup wp (fun g => writeTree g data))
      pure (root.name, rg')
  | true, some ep =>
    match parseEmdpathWrite ep with
    | none => throw (.error "bad emdpath")
    | some (_, names) =>
      match alookup root.name f.kids with
      | none => throw (.error "unreachable")
      | some rootgroup0 =>
        match validateTreepath rootgroup0 names with
        | none => throw (.error "no node at emdpath")
        | some (_, false) => throw (.error "no node at emdpath")
        | some (tp, true) => do
          let rootgroup ← appendRootMetadata rootgroup0 root.info over
          let rg' ←
            if isRoot then
              -- move `data` to the target node
              match data.at tp with
              | none => throw (.error "target not in runtime tree")
              | some d' => overThenAppend dt rootgroup tp d' over opt
            else
              match validateTreepath rootgroup target with
              | none => throw (.error "source not in file")
              | some (sp, false) =>
                if sp == tp then
                  (match opt with
                  | .yes => atPath rootgroup tp (fun g => do
                      let c ← writeNodeFull data
                      createIn g data.name c)
                  | .below => atPath rootgroup tp (fun g => appendBranch dt over g data)
                  | .no => atPath rootgroup tp (fun g => writeSingleNode g data.info))
                else throw (.error "source beyond file but not at target")
              | some (sp, true) =>
                let tgtKeys : List String := match rootgroup.at tp with
                  | some g => akeys g.kids
                  | none => []
                if sp == tp then overThenAppend dt rootgroup tp data over opt
                else if (match sp.getLast? with | some b => tgtKeys.contains b | none => false) then
                  overThenAppend dt rootgroup sp data over opt
                else
                  match isPrefixOf' sp tp with
                  | some rel =>
                    (match data.at rel with
                    | none => throw (.error "target not in runtime tree")
                    | some d' => overThenAppend dt rootgroup tp d' over opt)
                  | none => throw (.error "target not downstream of source")
          pure (root.name, rg')

/-- the append dispatch of `write` once the file is open in 'a' mode -/
def appendInto (dt : List String) (f : Obj) (root : Tree) (target : List String) (over : Bool)
    (opt : TreeOpt) (emdpath : Option String) : R Obj :=
  if !(rootGroups f).contains root.name && emdpath.isNone then
    -- the root is not in the file and no emdpath: a new tree is written
    writeFromRoot f root target opt
  else do
    let (nm, rg') ← appendCore dt f root target over opt emdpath
    pure (f.setKids (areplace nm rg' f.kids))

inductive ModeClass where
  | write | overwrite | append | appendover
  deriving DecidableEq, Repr

/-- classification of the mode string with the tables REGENERATED from write.py -/
def classifyMode (m : String) : Option ModeClass :=
  if EmdGen.writeModes.contains m then some .write
  else if EmdGen.overwriteModes.contains m then some .overwrite
  else if EmdGen.appendModes.contains m then some .append
  else if EmdGen.appendOverModes.contains m then some .appendover
  else none

def fsLookup (fs : FS) (p : String) : Option FileState := alookup p fs
def fsSet (fs : FS) (p : String) (s : FileState) : FS := aset p s fs
def fsErase (fs : FS) (p : String) : FS := aeraseAll p fs

/-- "emdpath implies append mode" -/
def effectiveMode (mode : String) (emdpath : Option String) : String :=
  if emdpath.isSome && !(EmdGen.appendOverModes.contains mode) then "a" else mode

/-- the branch of `write` that creates a new file: header, then `_write_from_root` -/
def saveNewFile (sess : Session) (uuid : String) (fs : FS) (path : String) (root : Tree) (target : List String)
    (opt : TreeOpt) : R FS := do
  let f0 : Obj := .group (headerAttrs sess uuid) []
  let f ← writeFromRoot f0 root target opt
  pure (fsSet fs path (.h5 f))

/-- the branch of `write` that appends to an existing file -/
def saveAppend (fs : FS) (path : String) (st : FileState) (root : Tree) (target : List String) (over : Bool)
    (opt : TreeOpt) (emdpath : Option String) : R FS :=
  match st with
  | .junk _ => throw (.error "not an HDF5 file")
  | .h5 f =>
    if !isEMDFile f then throw (.refused "not an EMD 1.0 file")
    else do
      let f' ← appendInto EmdGen.dataGroupTypes f root target over opt emdpath
      pure (fsSet fs path (.h5 f'))

/-- after mode validation: what each mode class does -/
def saveClass (sess : Session) (uuid : String) (fs : FS) (path : String) (root : Tree) (target : List String)
    (mc : ModeClass) (opt : TreeOpt) (emdpath : Option String) : R FS :=
  match mc with
  | .write =>
    if (fsLookup fs path).isSome then throw (.refused "file exists")
    else saveNewFile sess uuid fs path root target opt
  | .overwrite => saveNewFile sess uuid (fsErase fs path) path root target opt
  | .append =>
    match fsLookup fs path with
    | none => saveNewFile sess uuid fs path root target opt
    | some st => saveAppend fs path st root target false opt emdpath
  | .appendover =>
    match fsLookup fs path with
    | none => saveNewFile sess uuid fs path root target opt
    | some st => saveAppend fs path st root target true opt emdpath

/-- `emdfile.save(path, data, mode, tree, emdpath)` for Node data.  `uuid` is the token the header of a
    newly created file receives. -/
def save (sess : Session) (uuid : String) (fs : FS) (path : String) (src : Src) (mode : String)
    (opt : TreeOpt) (emdpath : Option String) : R FS :=
  match classifyMode (effectiveMode mode emdpath) with
  | none => throw (.refused "unrecognized mode")
  | some mc => saveClass sess uuid fs path src.resolve.1 src.resolve.2 mc opt emdpath

end EmdModel
