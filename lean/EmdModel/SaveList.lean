/-
EmdModel.SaveList — the non-Node inputs of `emdfile.save`: numpy arrays, dicts, Metadata, and lists /
tuples mixing roots, rooted nodes, unrooted nodes, arrays and dicts (write.py, first half of `write`).
-/
import EmdModel.Save

namespace EmdModel

/-- an element of a list passed to `save` -/
inductive Item where
  | root (t : Tree)                                             -- a Root instance: its whole tree
  | rooted (rootId : Nat) (root : Tree) (target : List String)  -- a node that has a root (rootId: object identity of the root)
  | unrooted (n : NodeInfo)                                     -- a node without root
  | array (body : List (String × Obj))                          -- np.ndarray: the body `Array(data=x).to_h5` writes
  | dict (entry : Obj)                                          -- dict: the group `Metadata(data=x).to_h5` writes
  | other                                                       -- anything else (refused)
  deriving Repr, Inhabited

inductive Input where
  | node (s : Src)
  | array (body : List (String × Obj))
  | dict (entry : Obj)
  | metadata (name : String) (entry : Obj)
  | list (items : List Item)
  | other
  deriving Repr, Inhabited

def bundleOf (entries : List (String × Obj)) : List (String × Obj) :=
  if entries.isEmpty then [] else [("metadatabundle", .group bundleAttrs entries)]

def arrayNode (name : String) (body : List (String × Obj)) : Tree :=
  .mk { name := name, cls := "Array", gtype := "array", body := body } []

/-- `self._branch[node.name] = node` on the list of children: a later node of the same name replaces the earlier -/
def setKid (t : Tree) : List Tree → List Tree
  | [] => [t]
  | k :: ks => if k.name = t.name then t :: ks else k :: setKid t ks

/-- the shared root `root_savedlist` holding every unrooted item of the list -/
def savedListRoot (items : List Item) : Option Tree :=
  let nodes := items.filterMap (fun x => match x with | .unrooted n => some n | _ => none)
  let others := items.filter (fun x => match x with | .array _ => true | .dict _ => true | _ => false)
  if nodes.isEmpty && others.isEmpty then none else
  let kids0 := nodes.foldl (fun ks n => setKid (.mk n []) ks) []
  let step (acc : List Tree × List (String × Obj) × Nat × Nat) (x : Item) :=
    let (ks, md, ia, id) := acc
    match x with
    | .array b => (setKid (arrayNode s!"array_{ia}" b) ks, md, ia + 1, id)
    | .dict e => (ks, aset s!"dictionary_{id}" e md, ia, id + 1)
    | _ => acc
  let (ks, md, _, _) := others.foldl step (kids0, [], 0, 0)
  some (.mk { rootInfoFor "root_savedlist" with body := bundleOf md } ks)

def Item.isOther : Item → Bool
  | .other => true
  | _ => false

def Item.asRoot : Item → Option Tree
  | .root t => some t
  | _ => none

def Item.asRooted : Item → Option (Tree × List String)
  | .rooted _ r t => some (r, t)
  | _ => none

/-- one step of collecting the rooted items' roots -/
def rootedStep (acc : List (String × Nat × Tree)) : Item → Option (List (String × Nat × Tree))
  | .rooted rid r _ =>
    match alookup r.name acc with
    | none => some (acc ++ [(r.name, rid, r)])
    | some (rid', _) => if rid' = rid then some acc else none
  | _ => some acc

/-- the rooted items' roots, by name, first occurrence first; `none` = two different roots share a name (refused) -/
def rootedRoots (items : List Item) : Option (List (String × Nat × Tree)) := items.foldlM rootedStep []

/-- the whole trees a list is written as: the shared root of everything unrooted (if any), then the given Roots in
    the order of the list -/
def listRoots (items : List Item) : List Tree :=
  let given := items.filterMap Item.asRoot
  match savedListRoot items with
  | some r => r :: given
  | none => given

/-- `save` for a list / tuple -/
def saveList (sess : Session) (uuid : String) (fs : FS) (path : String) (items : List Item) (mc : ModeClass) : R FS := do
  if items.any Item.isOther then
    throw (.refused "can only save np.array, dictionary, or emd.Node objects")
  let roots := listRoots items
  let rr ← match rootedRoots items with
    | some l => pure l
    | none => throw (.refused "two nodes have different roots with identical names")
  -- mode: write -> append (the existence check was made before), overwrite -> remove the file then append
  let (fs, mode) := match mc with
    | .write => (fs, "a")
    | .overwrite => (fsErase fs path, "a")
    | .append => (fs, "a")
    | .appendover => (fs, "ao")
  -- whole roots
  let fs ← roots.foldlM (fun fs r => save sess uuid fs path (.rooted r []) mode .yes none) fs
  -- a copy of the root (name and metadata) of every rooted node
  let fs ← rr.foldlM (fun fs (e : String × Nat × Tree) =>
    let newRoot : Tree := .mk { rootInfoFor e.1 with body := e.2.2.info.body } []
    save sess uuid fs path (.rooted newRoot []) mode .yes none) fs
  -- the rooted nodes themselves, alone, by append-over under their root
  let rooted := items.filterMap Item.asRooted
  rooted.foldlM (fun fs (rt : Tree × List String) =>
    save sess uuid fs path (.rooted rt.1 rt.2) "ao" .no (some rt.1.name)) fs

/-- `emdfile.save` for every kind of input -/
def saveInput (sess : Session) (uuid : String) (fs : FS) (path : String) (inp : Input) (mode : String)
    (opt : TreeOpt) (emdpath : Option String) : R FS :=
  match inp with
  | .node s => save sess uuid fs path s mode opt emdpath
  | .array body =>
    save sess uuid fs path (.rooted (.mk (rootInfoFor "root") [arrayNode "np.array" body]) ["np.array"]) mode opt emdpath
  | .dict e =>
    save sess uuid fs path (.rooted (.mk { rootInfoFor "root" with body := bundleOf [("dictionary", e)] } []) []) mode opt emdpath
  | .metadata n e =>
    save sess uuid fs path (.rooted (.mk { rootInfoFor "root" with body := bundleOf [(n, e)] } []) []) mode opt emdpath
  | .list items =>
    match classifyMode (effectiveMode mode emdpath) with
    | none => throw (.refused "unrecognized mode")
    | some mc =>
      if mc == .write && (fsLookup fs path).isSome then throw (.refused "file exists")
      else saveList sess uuid fs path items mc
  | .other =>
    -- mode validation and the write-mode existence check come first, then the type assertion
    match classifyMode (effectiveMode mode emdpath) with
    | none => throw (.refused "unrecognized mode")
    | some _ => throw (.refused "invalid type for data")

/-- the `tree` argument as the caller writes it -/
inductive TreeArg where
  | yes       -- True
  | no        -- False
  | below     -- None
  | noroot    -- the deprecated spelling 'noroot' of None
  | invalid   -- anything else
  deriving Repr, DecidableEq, Inhabited

/-- `write`: 'noroot' becomes None (with a warning), other values are refused -/
def TreeArg.resolve : TreeArg → Option TreeOpt
  | .yes => some .yes
  | .no => some .no
  | .below => some .below
  | .noroot => some .below
  | .invalid => none

/-- `emdfile.save` with the argument validation at the top of `write`: the mode first, then `tree` -/
def saveArgs (sess : Session) (uuid : String) (fs : FS) (path : String) (inp : Input) (mode : String)
    (ta : TreeArg) (emdpath : Option String) : R FS :=
  match classifyMode (effectiveMode mode emdpath) with
  | none => throw (.refused "unrecognized mode")
  | some _ =>
    match ta.resolve with
    | none => throw (.refused "invalid value passed for `tree`")
    | some opt => saveInput sess uuid fs path inp mode opt emdpath

end EmdModel
