/-
EmdModel.Metadata — model of `classes/metadata.py`: `_save_item` (the writer's guard chain, in its order) and
`_read_item` (the reader's tag dispatch).  What numpy / h5py make of a Python value handed to `create_dataset(data=…)`
is not re-implemented: every sequence carries the token `st` of what was stored for it (supplied by the abstraction
function; `none` = h5py refuses), per contract H6.
-/
import EmdModel.Write
import EmdGen.Tables

namespace EmdModel

/-- Python values that can sit in a Metadata dictionary -/
inductive PyVal where
  | none
  | bool (b : Bool)
  | num (kind : String) (repr : String)               -- Python int / float / complex (kind, exact repr)
  | npnum (dtype : String) (kind : String) (repr : String)   -- numpy number scalar: dtype and the Python number `.item()` gives
  | npbool (b : Bool)                                 -- numpy.bool_ (not a `numbers.Number`)
  | str (s : String)
  | bytes (s : String)
  | arr (tok : String)                                -- numpy array
  | tuple (xs : List PyVal) (st : Option String)
  | list (xs : List PyVal) (st : Option String)
  | seqNp (isTuple : Bool) (tok : String)             -- what the reader returns for a numeric sequence: `tuple(v[...])`
  | dict (items : List (String × PyVal))
  | other (kind : String)
  deriving Repr, Inhabited

namespace PyVal

/-- `isinstance(v, numbers.Number)`: Python bool / int / float / complex and numpy number scalars -/
def isNumber : PyVal → Bool
  | bool _ => true
  | num _ _ => true
  | npnum _ _ _ => true
  | _ => false

/-- the guard `isinstance(v[0], (Number, np.bool_))` of the numeric-sequence branches -/
def numberLike : PyVal → Bool
  | npbool _ => true
  | v => v.isNumber

def isTuple : PyVal → Bool
  | tuple _ _ => true
  | seqNp true _ => true      -- what the reader returned for a numeric tuple IS a tuple (of numpy scalars)
  | _ => false

def isArr : PyVal → Bool
  | arr _ => true
  | _ => false

def isStr : PyVal → Bool
  | str _ => true
  | _ => false

/-- what `create_dataset(name, data=x)` stores for an element of a tuple of tuples -/
def elemStore : PyVal → Option DVal
  | tuple _ (some t) => some (.tok t)
  | list _ (some t) => some (.tok t)
  | arr t => some (.tok t)
  | seqNp _ t => some (.tok t)          -- a sequence of the entries of a stored array re-coerces to that array (H6)
  | bool b => some (.scalar "bool" (toString b))
  | num k r => some (.scalar k r)
  | npnum _ k r => some (.scalar k r)
  | npbool b => some (.scalar "bool" (toString b))
  | str s => some (.bytes s)
  | bytes s => some (.bytes s)
  | _ => Option.none

end PyVal

def typeAttr (t : String) : Attrs := [("type", .str t)]
def contAttrs (t : String) (n : Nat) : Attrs := [("type", .str t), ("length", .int n)]

/-- the numbered children "k", "k+1", … of a container group -/
def numberedFrom (k : Nat) : List DVal → List (String × Obj)
  | [] => []
  | d :: ds => (toString k, Obj.dataset [] d) :: numberedFrom (k + 1) ds

def numbered (ds : List DVal) : List (String × Obj) := numberedFrom 0 ds

mutual
/-- `Metadata._save_item(k, v, grp)`: the object stored under key `k` -/
def saveItem : PyVal → R Obj
  | .dict items => do
    let kids ← saveItems items
    pure (.group (typeAttr "dict") kids)
  | .none => pure (.dataset (typeAttr "None") (.bytes "_None"))
  | .str s => pure (.dataset (typeAttr "string") (.bytes s))
  | .bool b => pure (.dataset (typeAttr "bool") (.scalar "bool" (toString b)))
  | .num k r => pure (.dataset (typeAttr "number") (.scalar k r))
  | .npnum _ k r => pure (.dataset (typeAttr "number") (.scalar k r))
  | .arr t => pure (.dataset (typeAttr "array") (.tok t))
  | .tuple xs st =>
    match xs with
    | [] => match st with
      | some t => pure (.dataset (typeAttr "tuple") (.tok t))
      | none => throw (.error "h5py refuses")
    | x :: _ =>
      if x.numberLike then
        match st with
        | some t => pure (.dataset (typeAttr "tuple") (.tok t))
        | none => throw (.error "numpy / h5py refuse the sequence")
      else if xs.any PyVal.isTuple then
        match xs.mapM PyVal.elemStore with
        | some ds => pure (.group (contAttrs "tuple_of_tuples" xs.length) (numbered ds))
        | none => throw (.error "numpy / h5py refuse an element")
      else if x.isArr then
        if xs.all PyVal.isArr then
          pure (.group (contAttrs "tuple_of_arrays" xs.length) (numbered (xs.filterMap PyVal.elemStore)))
        else throw (.error "element without dtype")
      else if x.isStr then
        if xs.all PyVal.isStr then
          pure (.group (contAttrs "tuple_of_strings" xs.length) (numbered (xs.filterMap PyVal.elemStore)))
        else throw (.error "element without encode")
      else throw (.error "unsupported tuple")
  | .list xs st =>
    match xs with
    | [] => match st with
      | some t => pure (.dataset (typeAttr "list") (.tok t))
      | none => throw (.error "h5py refuses")
    | x :: _ =>
      if x.numberLike then
        match st with
        | some t => pure (.dataset (typeAttr "list") (.tok t))
        | none => throw (.error "numpy / h5py refuse the sequence")
      else if x.isArr then
        if xs.all PyVal.isArr then
          pure (.group (contAttrs "list_of_arrays" xs.length) (numbered (xs.filterMap PyVal.elemStore)))
        else throw (.error "element without dtype")
      else if x.isStr then
        if xs.all PyVal.isStr then
          pure (.group (contAttrs "list_of_strings" xs.length) (numbered (xs.filterMap PyVal.elemStore)))
        else throw (.error "element without encode")
      else throw (.error "unsupported list")
  | .seqNp isT t =>
    -- second generation: the tuple / list of numpy scalars the reader returned is a numeric sequence again, and numpy
    -- makes the same array of it (H6)
    pure (.dataset (typeAttr (if isT then "tuple" else "list")) (.tok t))
  | .npbool _ => throw (.error "unsupported type")
  | .bytes _ => throw (.error "unsupported type")
  | .other _ => throw (.error "unsupported type")
/-- the loop over `v.items()`: `create_group` / `create_dataset` fail on a key that already resolves -/
def saveItems : List (String × PyVal) → R (List (String × Obj))
  | [] => pure []
  | (k, v) :: rest => do
    if !validName k then throw (.error ("key outside the modelled domain: " ++ k))
    let o ← saveItem v
    let os ← saveItems rest
    if (alookup k os).isSome then throw (.error "name already exists")
    pure ((k, o) :: os)
end

/-- the element a container group yields for child `i` -/
def elemRead (tagKind : String) (d : DVal) : R PyVal :=
  match tagKind, d with
  | "arrays", .tok t => pure (.arr t)
  | "strings", .bytes s => pure (.str s)
  | "tuples", .tok t => pure (.seqNp true t)         -- ndim > 0: `tuple(x)`; (0-d array tokens are scalars, see below)
  | "tuples", .scalar "bool" r => pure (.bool (r == "true"))
  | "tuples", .scalar k r => pure (.num k r)
  | "tuples", .bytes s => pure (.bytes s)
  | _, _ => throw (.error "unexpected stored element")

/-- `for l in range(L): … v[str(l)] …` starting at index k -/
def readNumberedFrom (tagKind : String) (kids : List (String × Obj)) (k : Nat) : Nat → R (List PyVal)
  | 0 => pure []
  | n + 1 => do
    let x ← match alookup (toString k) kids with
      | some (.dataset _ d) => elemRead tagKind d
      | _ => throw (.error "missing element")
    let xs ← readNumberedFrom tagKind kids (k + 1) n
    pure (x :: xs)

/-- read the children "0" … "length-1" -/
def readNumbered (tagKind : String) (kids : List (String × Obj)) (n : Nat) : R (List PyVal) :=
  readNumberedFrom tagKind kids 0 n

def lengthAttr (a : Attrs) : R Nat :=
  match alookup "length" a with
  | some (.int n) => pure n.toNat
  | _ => throw (.error "no length")

mutual
/-- `Metadata._read_item(k, v, group)` -/
def readItem : Obj → R PyVal
  | .group a kids =>
    match alookup "type" a with
    | some (.str "dict") => do
      let items ← readItems kids
      pure (.dict items)
    | some (.str "tuple_of_arrays") => do pure (.tuple (← readNumbered "arrays" kids (← lengthAttr a)) Option.none)
    | some (.str "tuple_of_tuples") => do pure (.tuple (← readNumbered "tuples" kids (← lengthAttr a)) Option.none)
    | some (.str "tuple_of_strings") => do pure (.tuple (← readNumbered "strings" kids (← lengthAttr a)) Option.none)
    | some (.str "list_of_arrays") => do pure (.list (← readNumbered "arrays" kids (← lengthAttr a)) Option.none)
    | some (.str "list_of_strings") => do pure (.list (← readNumbered "strings" kids (← lengthAttr a)) Option.none)
    | _ => throw (.error "unrecognized Metadata value type")
  | .dataset a d =>
    match alookup "type" a, d with
    | some (.str "None"), _ => pure .none
    | some (.str "string"), .bytes s => pure (if s == "_None" then .none else .str s)
    | some (.str "number"), .scalar k r => pure (.num k r)
    | some (.str "bool"), .scalar _ r => pure (.bool (r == "true"))
    | some (.str "array"), .tok t => pure (.arr t)
    | some (.str "tuple"), .tok t => pure (.seqNp true t)
    | some (.str "list"), .tok t => pure (.seqNp false t)
    | _, _ => throw (.error "unrecognized Metadata value type")
def readItems : List (String × Obj) → R (List (String × PyVal))
  | [] => pure []
  | (k, o) :: rest => do
    let v ← readItem o
    let vs ← readItems rest
    pure ((k, v) :: vs)
end

mutual
/-- the value `read` returns for what `save` was given: the canonical form of a documented value -/
def canon : PyVal → PyVal
  | .dict items => .dict (canonItems items)
  | .npnum _ k r => .num k r
  | .tuple xs st =>
    match xs, st with
    | [], some t => .seqNp true t
    | x :: _, some t => if x.numberLike then .seqNp true t
                         else .tuple (canonElems xs) Option.none
    | _, _ => .tuple (canonElems xs) Option.none
  | .list xs st =>
    match xs, st with
    | [], some t => .seqNp false t
    | x :: _, some t => if x.numberLike then .seqNp false t
                         else .list (canonElems xs) Option.none
    | _, _ => .list (canonElems xs) Option.none
  | v => v
def canonItems : List (String × PyVal) → List (String × PyVal)
  | [] => []
  | (k, v) :: rest => (k, canon v) :: canonItems rest
/-- elements of container groups: inner numeric tuples come back as `tuple(x)` of the stored row -/
def canonElems : List PyVal → List PyVal
  | [] => []
  | .tuple _ (some t) :: rest => .seqNp true t :: canonElems rest
  | .list _ (some t) :: rest => .seqNp true t :: canonElems rest
  | .npnum _ k r :: rest => .num k r :: canonElems rest
  | .npbool b :: rest => .bool b :: canonElems rest
  | v :: rest => v :: canonElems rest
end

/-- `Metadata.to_h5`: the group of one Metadata instance -/
def mdToObj (cls : String) (items : List (String × PyVal)) : R Obj := do
  let kids ← saveItems items
  pure (.group [("emd_group_type", .str "metadata"), ("python_class", .str cls)] kids)

/-- `Metadata.from_h5` -/
def mdFromObj (o : Obj) : R (List (String × PyVal)) :=
  match o with
  | .group _ kids =>
    if o.gtype != some "metadata" then throw (.refused "not a Metadata group")
    else readItems kids
  | .dataset _ _ => throw (.error "not a group")

end EmdModel
