/-
EmdModel.Basic — small shared definitions (import-free).
-/
namespace EmdModel

/-- association-list lookup (first match), the model of `dict[k]` / `group[k]` -/
def alookup {β : Type} (k : String) : List (String × β) → Option β
  | [] => none
  | (k', v) :: r => if k' = k then some v else alookup k r

/-- replace the value at the first occurrence of `k` (no-op when absent) -/
def areplace {β : Type} (k : String) (v : β) : List (String × β) → List (String × β)
  | [] => []
  | (k', v') :: r => if k' = k then (k', v) :: r else (k', v') :: areplace k v r

/-- remove the first occurrence of `k` -/
def aerase {β : Type} (k : String) : List (String × β) → List (String × β)
  | [] => []
  | (k', v') :: r => if k' = k then r else (k', v') :: aerase k r

/-- remove every occurrence of `k` -/
def aeraseAll {β : Type} (k : String) (l : List (String × β)) : List (String × β) :=
  l.filter (fun kv => kv.1 ≠ k)

/-- `dict[k] = v`: replace in place when present, else append (Python dict order) -/
def aset {β : Type} (k : String) (v : β) (l : List (String × β)) : List (String × β) :=
  match alookup k l with
  | some _ => areplace k v l
  | none => l ++ [(k, v)]

/-- Python's `str.split(c)` on the character list (structural, so that it reduces in the kernel) -/
def splitAux (c : Char) : List Char → List Char → List (List Char)
  | [], acc => [acc.reverse]
  | x :: xs, acc => if x = c then acc.reverse :: splitAux c xs [] else splitAux c xs (x :: acc)

/-- `s.split('/')` -/
def splitSlash (s : String) : List String := (splitAux '/' s.toList []).map String.ofList

/-- `'/' in s` -/
def hasSlash (s : String) : Bool := s.toList.contains '/'

def akeys {β : Type} (l : List (String × β)) : List String := l.map (·.1)

end EmdModel
