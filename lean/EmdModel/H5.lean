/-
EmdModel.H5 — the idealised HDF5 store (contract H1–H7 of DESIGN.md §4.2).

An HDF5 object is a group (attributes + named links) or a dataset (attributes + value).
Dataset values are tokens: the model moves them around and never looks inside, except for
the small numeric vectors (dim vectors) and metadata scalars which carry their content.
-/
import EmdModel.Basic

namespace EmdModel

/-- attribute values (H3: `str`/`np.str_`/decoded `bytes` are identified by the harness) -/
inductive AVal where
  | str (s : String)
  | int (i : Int)
  deriving DecidableEq, Repr, Inhabited

abbrev Attrs := List (String × AVal)

/-- numbers carried by dim vectors: Python/numpy ints (exact) or IEEE doubles as bit patterns -/
inductive Num where
  | int (v : Int)
  | flt (bits : UInt64)
  deriving DecidableEq, Repr, Inhabited

/-- dataset payloads -/
inductive DVal where
  | tok (t : String)                 -- opaque array token (dtype, shape, digest) rendered by alpha
  | nums (xs : List Num)             -- 1-D numeric vector with visible content (dim vectors)
  | strs (xs : List String)          -- 1-D vector of byte strings (stack labels)
  | bytes (s : String)               -- scalar byte string (metadata strings)
  | scalar (kind : String) (repr : String)   -- scalar number / bool with its kind
  | seq (dtype : String) (xs : List String)  -- numeric python sequence as numpy made it (dtype + element reprs)
  | cells (dtype : String) (rows : Nat) (cols : Nat) (cs : List String) -- vlen dataset: row-major cell tokens
  deriving DecidableEq, Repr, Inhabited

/-- HDF5 objects -/
inductive Obj where
  | group (attrs : Attrs) (kids : List (String × Obj))
  | dataset (attrs : Attrs) (val : DVal)
  deriving Repr, Inhabited

namespace Obj

def attrs : Obj → Attrs
  | group a _ => a
  | dataset a _ => a

def kids : Obj → List (String × Obj)
  | group _ k => k
  | dataset _ _ => []

def isGroup : Obj → Bool
  | group _ _ => true
  | dataset _ _ => false

def setAttrs (o : Obj) (a : Attrs) : Obj :=
  match o with
  | group _ k => group a k
  | dataset _ v => dataset a v

def setKids (o : Obj) (k : List (String × Obj)) : Obj :=
  match o with
  | group a _ => group a k
  | dataset a v => dataset a v

/-- the `emd_group_type` tag, if it is a string attribute -/
def gtype (o : Obj) : Option String :=
  match alookup "emd_group_type" o.attrs with
  | some (.str s) => some s
  | _ => none

def pyClass (o : Obj) : Option String :=
  match alookup "python_class" o.attrs with
  | some (.str s) => some s
  | _ => none

/-- `'emd_group_type' in obj.attrs` -/
def hasTag (o : Obj) : Bool := (alookup "emd_group_type" o.attrs).isSome

end Obj

/-- path lookup from an object: `obj[a/b/c]` for a list of link names -/
def Obj.at : Obj → List String → Option Obj
  | o, [] => some o
  | o, n :: p =>
    match alookup n o.kids with
    | some c => c.at p
    | none => none

end EmdModel
