/-
EmdModel.Array — model of `classes/array.py`: construction (dims / dim_units / dim_names / slicelabels handling),
`_unpack_dim`, `_dim_is_linear`, the setters, stack arrays, `to_h5` and `_get_constructor_args`.
The data themselves are a token; dim vectors carry their numbers.  Arithmetic is a parameter (`NumOps`): theorems that
need no arithmetic law hold for IEEE doubles, int64 and exact numbers alike; the driver instantiates it with Lean's
`Float` (bit-identical to numpy for `start + step*arange(n)`) and `Int`.
-/
import EmdModel.Write

namespace EmdModel

structure NumOps where
  add : Num → Num → Num
  sub : Num → Num → Num
  mul : Num → Num → Num
  ofNat : Nat → Num
  eq : Num → Num → Bool          -- numpy `==` (nan ≠ nan, -0.0 == 0.0, 1 == 1.0)
  toFlt : Num → Num              -- what `np.asarray` makes of an int inside a sequence that also holds floats

/-- one entry of the `dims` argument -/
inductive DimArg where
  | none
  | num (x : Num)
  | vec (xs : List Num)
  deriving Repr, Inhabited

/-- the `slicelabels` argument -/
inductive LabelArg where
  | none
  | auto                      -- True
  | given (ls : List String)
  deriving Repr, Inhabited

structure ArrayVal where
  dataTok : String
  dataShape : List Nat            -- data.shape (incl. the leading stack axis)
  units : String
  isStack : Bool
  labels : List String
  dims : List (List Num)
  dimUnits : List String
  dimNames : List String
  deriving Repr, Inhabited

namespace ArrayVal
def shape (a : ArrayVal) : List Nat := if a.isStack then a.dataShape.drop 1 else a.dataShape
def rank (a : ArrayVal) : Nat := a.shape.length
def depth (a : ArrayVal) : Nat := if a.isStack then a.dataShape.headD 0 else 0
end ArrayVal

/-- `start + step*np.arange(length)` -/
def ramp (ops : NumOps) (start step : Num) (length : Nat) : List Num :=
  (List.range length).map (fun i => ops.add start (ops.mul step (ops.ofNat i)))

/-- the sequence `_unpack_dim` works on: None -> 1 -> [0, 1]; a number -> [0, number]; a sequence as it is -/
def dimVec (ops : NumOps) : DimArg → List Num
  | .none => [ops.ofNat 0, ops.ofNat 1]
  | .num x => [ops.ofNat 0, x]
  | .vec xs => xs

def unpackVec (ops : NumOps) (v : List Num) (length : Nat) : R (List Num) :=
  if v.length == length then pure v
  else match v with
    | [a, b] => pure (ramp ops a (ops.sub b a) length)
    | _ => throw (.error "dim vector length must be 2 or the axis length")

/-- `Array._unpack_dim(dim, length)` -/
def unpackDim (ops : NumOps) (d : DimArg) (length : Nat) : R (List Num) := unpackVec ops (dimVec ops d) length

def padTo {α : Type} (n : Nat) (xs : List α) (fill : Nat → α) : List α :=
  if xs.length < n then xs ++ (List.range (n - xs.length)).map (fun i => fill (i + xs.length)) else xs.take n

/-- `f"dim{i}"` / `f"array{i}"` -/
def autoName (p : String) (i : Nat) : String := p ++ toString i

def setNth {α : Type} : List α → Nat → α → List α
  | [], _, _ => []
  | _ :: xs, 0, v => v :: xs
  | x :: xs, n + 1, v => x :: setNth xs n v

/-- `set_dim(n, dim, units, name)` -/
def setDim (ops : NumOps) (a : ArrayVal) (n : Nat) (d : DimArg) (units name : Option String) : R ArrayVal :=
  if n ≥ a.rank then throw (.refused "n must be < rank")
  else do
    let v ← unpackDim ops d (a.shape.getD n 0)
    let a1 := { a with dims := setNth a.dims n v }
    let a2 := match units with | some u => { a1 with dimUnits := setNth a1.dimUnits n u } | none => a1
    pure (match name with | some nm => { a2 with dimNames := setNth a2.dimNames n nm } | none => a2)

def setDimUnits (a : ArrayVal) (n : Nat) (u : String) : R ArrayVal :=
  if n ≥ a.rank then throw (.refused "n must be < rank") else pure { a with dimUnits := setNth a.dimUnits n u }

def setDimName (a : ArrayVal) (n : Nat) (nm : String) : R ArrayVal :=
  if n ≥ a.rank then throw (.refused "n must be < rank") else pure { a with dimNames := setNth a.dimNames n nm }

/-- the loop at the end of `Array.__init__`: `set_dim(idx, dim=d, units=du, name=dn)` for every axis -/
def buildDims (ops : NumOps) (a0 : ArrayVal) (rank : Nat) (dimArgs : List DimArg) (units names : List String) : R ArrayVal :=
  (List.range rank).foldlM (fun a i =>
    setDim ops a i (dimArgs.getD i .none) (some (units.getD i "unknown")) (some (names.getD i ""))) a0

def labIsStack : LabelArg → Bool
  | .none => false
  | _ => true

/-- the array before its dim vectors are set -/
def initArray (dataTok : String) (dataShape : List Nat) (units : String) (lab : LabelArg) : ArrayVal :=
  let isStack := labIsStack lab
  let depth := if isStack then dataShape.headD 0 else 0
  let labels : List String := match lab with
    | .none => []
    | .auto => (List.range depth).map (autoName "array")
    | .given ls => padTo depth ls (autoName "array")
  let rank := (if isStack then dataShape.drop 1 else dataShape).length
  { dataTok := dataTok, dataShape := dataShape, units := units, isStack := isStack, labels := labels,
    dims := List.replicate rank [], dimUnits := List.replicate rank "unknown",
    dimNames := (List.range rank).map (autoName "dim") }

/-- the per-axis arguments `__init__` computes from what the caller passed -/
def ctorDimArgs (rank : Nat) (dims : Option (List DimArg)) : List DimArg :=
  match dims with
  | none => List.replicate rank .none
  | some ds => padTo rank ds (fun _ => .none)

def ctorUnits (rank : Nat) (dimArgs : List DimArg) (dimUnits : Option (List String)) : List String :=
  let units0 : List String := match dimUnits with
    | none => List.replicate rank "unknown"
    | some us => padTo rank us (fun _ => "unknown")
  -- 'pixels' wherever the dim was omitted
  (List.range rank).map (fun i =>
    match dimArgs.getD i .none with
    | .none => "pixels"
    | _ => units0.getD i "unknown")

def ctorNames (rank : Nat) (dimNames : Option (List String)) : List String :=
  match dimNames with
  | none => (List.range rank).map (autoName "dim")
  | some ns => padTo rank ns (autoName "dim")

/-- `Array.__init__` -/
def mkArray (ops : NumOps) (dataTok : String) (dataShape : List Nat) (units : String)
    (dims : Option (List DimArg)) (dimNames dimUnits : Option (List String)) (lab : LabelArg) : R ArrayVal :=
  if labIsStack lab && dataShape.isEmpty then throw (.error "0-d data cannot be a stack")
  else
    let a0 := initArray dataTok dataShape units lab
    let dimArgs := ctorDimArgs a0.rank dims
    buildDims ops a0 a0.rank dimArgs (ctorUnits a0.rank dimArgs dimUnits) (ctorNames a0.rank dimNames)

/-- numpy `array_equal(dim, expanded)` -/
def vecEq (ops : NumOps) : List Num → List Num → Bool
  | [], [] => true
  | x :: xs, y :: ys => ops.eq x y && vecEq ops xs ys
  | _, _ => false

/-- `Array._dim_is_linear(dim, length)` -/
def dimIsLinear (ops : NumOps) (d : List Num) (length : Nat) : Bool :=
  match unpackDim ops (.vec (d.take 2)) length with
  | .ok e => vecEq ops d e
  | .error _ => false

def Num.isInt : Num → Bool
  | .int _ => true
  | .flt _ => false

/-- what `create_dataset(data=<python sequence or array>)` stores: ints stay ints unless a float is among them -/
def storeVec (ops : NumOps) (xs : List Num) : List Num :=
  if xs.all Num.isInt then xs else xs.map ops.toFlt

/-- `Array.to_h5`: the datasets written into the node's group (the metadata bundle is added by `Node.to_h5`) -/
def ArrayVal.toBody (ops : NumOps) (a : ArrayVal) : List (String × Obj) :=
  [("data", Obj.dataset [("units", .str a.units)] (.tok a.dataTok))] ++
  (List.range a.rank).map (fun n =>
    let d := a.dims.getD n []
    let stored := if dimIsLinear ops d (a.shape.getD n 0) then d.take 2 else d
    (autoName "dim" n, Obj.dataset [("name", .str (a.dimNames.getD n "")), ("units", .str (a.dimUnits.getD n ""))]
      (.nums (storeVec ops stored)))) ++
  (if a.isStack then [(autoName "dim" a.rank, Obj.dataset [("name", .str "_labels_")] (.strs a.labels))] else [])

def strAttr (o : Obj) (k : String) : R String :=
  match alookup k o.attrs with
  | some (.str s) => pure s
  | _ => throw (.error ("missing attribute " ++ k))

/-- the `data` dataset: its token and its `units` attribute -/
def readData (body : List (String × Obj)) : R (String × String) :=
  match alookup "data" body with
  | some (.dataset a (.tok t)) => do
    let u ← strAttr (.dataset a (.tok t)) "units"
    pure (t, u)
  | _ => throw (.error "no data")

/-- the dataset after the last axis of the data (none for 0-dimensional data, which has no dim vectors at all) -/
def readLastDim (rank : Nat) (body : List (String × Obj)) : R (Option Obj) :=
  if rank == 0 then pure none else
    match alookup (autoName "dim" (rank - 1)) body with
    | some o => pure (some o)
    | none => throw (.error "last dim not found")

/-- stack detection: the last dim dataset is called `_labels_` -/
def readIsStack : Option Obj → R Bool
  | none => pure false
  | some o => do
    let lastName ← strAttr o "name"
    pure (lastName == "_labels_")

/-- one axis: its vector, units and name -/
def readDimTriple (body : List (String × Obj)) (n : Nat) : R (DimArg × String × String) :=
  match alookup (autoName "dim" n) body with
  | some (.dataset a (.nums xs)) => do
    let u ← strAttr (.dataset a (.nums xs)) "units"
    let nm ← strAttr (.dataset a (.nums xs)) "name"
    pure (DimArg.vec xs, u, nm)
  | _ => throw (.error "dim not found")

def readLabels (isStack : Bool) (lastDim : Option Obj) : R LabelArg :=
  if isStack then
    match lastDim with
    | some (.dataset _ (.strs ls)) => pure (LabelArg.given ls)
    | _ => throw (.error "labels are not strings")
  else pure LabelArg.none

/-- `Array._get_constructor_args` followed by `Array(**args)`: `dataShape` is the shape h5py reports for `data` -/
def ArrayVal.fromBody (ops : NumOps) (dataShape : List Nat) (body : List (String × Obj)) : R ArrayVal := do
  let (tok, units) ← readData body
  let rank := dataShape.length
  let lastDim ← readLastDim rank body
  let isStack ← readIsStack lastDim
  let normal := if isStack then rank - 1 else rank
  let triples ← (List.range normal).mapM (readDimTriple body)
  let lab ← readLabels isStack lastDim
  mkArray ops tok dataShape units (some (triples.map (·.1))) (some (triples.map (·.2.2))) (some (triples.map (·.2.1))) lab

/-- `ar[label]` / `get_slice(label)`: the index the label addresses (`Labels._dict`: the last occurrence wins) -/
def labelIndex (labels : List String) (l : String) : Option Nat :=
  (labels.zipIdx.filter (fun p => p.1 == l)).getLast?.map (·.2)

/-- `Array.get_slice(label)`: slice number `labelIndex` of the data (its token is supplied by the store: `sliceTok`) as a
    new Array built by the constructor from the stack's own units, dim vectors, dim units and dim names -/
def ArrayVal.getSlice (ops : NumOps) (sliceTok : String → Nat → String) (a : ArrayVal) (l : String) : R (Nat × ArrayVal) :=
  match labelIndex a.labels l with
  | none => throw (.error "KeyError")
  | some i => do
    let s ← mkArray ops (sliceTok a.dataTok i) (a.dataShape.drop 1) a.units (some (a.dims.map DimArg.vec))
      (some a.dimNames) (some a.dimUnits) .none
    pure (i, s)

end EmdModel

namespace EmdModel

def Num.toFloat : Num → Float
  | .int v => Float.ofInt v
  | .flt b => Float.ofBits b

/-- the arithmetic of the code that exists: Python / numpy ints stay ints among themselves, anything else is IEEE double -/
def realOps : NumOps where
  add a b := match a, b with
    | .int x, .int y => .int (x + y)
    | _, _ => .flt (a.toFloat + b.toFloat).toBits
  sub a b := match a, b with
    | .int x, .int y => .int (x - y)
    | _, _ => .flt (a.toFloat - b.toFloat).toBits
  mul a b := match a, b with
    | .int x, .int y => .int (x * y)
    | _, _ => .flt (a.toFloat * b.toFloat).toBits
  ofNat n := .int n
  eq a b := match a, b with
    | .int x, .int y => x == y
    | _, _ => a.toFloat == b.toFloat
  toFlt a := .flt a.toFloat.toBits

end EmdModel
