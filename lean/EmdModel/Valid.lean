/-
EmdModel.Valid — a decidable validator for the EMD 1.0 layout, transcribing the statement of C05:
header (group type 'file', version 1.0, UUID, authoring program / user), every top-level group a tagged root,
every node group tagged with a vocabulary group type and a Python class, metadata in a tagged bundle of tagged,
typed items; Array groups with `data` (+units) and one calibration dataset per axis.
-/
import EmdModel.Save

namespace EmdModel

def hasStrAttr (o : Obj) (k : String) : Bool :=
  match alookup k o.attrs with
  | some (.str _) => true
  | _ => false

def hasAttr (o : Obj) (k : String) : Bool := (alookup k o.attrs).isSome

mutual
/-- a metadata item: datasets carry a `type`; dict groups carry type 'dict' and hold items; the container groups
    (tuple_of_arrays, list_of_strings, …) carry `type` and `length` -/
def mdItemOK : Obj → Bool
  | .dataset a _ => (alookup "type" a).isSome
  | .group a kids =>
    match alookup "type" a with
    | some (.str "dict") => mdItemsOK kids
    | some (.str _) => (alookup "length" a).isSome
    | _ => false
def mdItemsOK : List (String × Obj) → Bool
  | [] => true
  | (_, o) :: r => mdItemOK o && mdItemsOK r
end

/-- a Metadata group: tagged 'metadata', with a class, all items typed -/
def mdEntryOK (o : Obj) : Bool :=
  match o with
  | .group _ kids => o.gtype == some "metadata" && o.pyClass.isSome && mdItemsOK kids
  | .dataset _ _ => false

/-- a metadata bundle: tagged 'metadatabundle', holding Metadata groups only -/
def bundleOK (o : Obj) : Bool :=
  match o with
  | .group _ kids => o.gtype == some "metadatabundle" && kids.all (fun kv => mdEntryOK kv.2)
  | .dataset _ _ => false

/-- `dim<n>` names for n < rank -/
def dimName (n : Nat) : String := "dim" ++ toString n

/-- the datasets an Array group must hold: `data` with `units`; the caller supplies the rank (read from the data
    token by the harness; the model's Array codec knows it) via the number of `dim*` datasets present:
    exactly `dim0 … dim(k-1)` for some k, each a dataset with `name` (and `units` unless it is the label vector) -/
def arrayBodyOK (body : List (String × Obj)) : Bool :=
  (match alookup "data" body with
   | some (.dataset a _) => (alookup "units" a).isSome
   | _ => false) &&
  (let dims := body.filter (fun kv => kv.1.toList.take 3 == ['d', 'i', 'm'])
   let k := dims.length
   (List.range k).all (fun n =>
     match alookup (dimName n) body with
     | some (.dataset a _) => (alookup "name" a).isSome &&
         ((alookup "units" a).isSome || alookup "name" a == some (.str "_labels_"))
     | _ => false))

/-- a group inside a node's body that is not the metadata bundle can only be a node-valued attribute of a Custom node:
    tagged `custom_<data group type>` (never anything else, never untagged) and carrying a class name -/
def attrGroupOK (o : Obj) : Bool :=
  match o with
  | .dataset _ _ => true
  | .group _ _ =>
    (match o.gtype with
     | some t => EmdGen.customGroupTypes.contains t
     | none => false) && o.pyClass.isSome

def bodyGroupsOK (body : List (String × Obj)) : Bool :=
  body.all (fun kv => kv.1 == "metadatabundle" || attrGroupOK kv.2)

/-- what the body of a node group must look like, by EMD group type -/
def bodyOK (gtype : String) (body : List (String × Obj)) : Bool :=
  (match alookup "metadatabundle" body with
   | none => true
   | some b => bundleOK b) &&
  (if gtype == "array" then arrayBodyOK body else true) &&
  bodyGroupsOK body

def infoOK (i : NodeInfo) : Bool := bodyOK i.gtype i.body

mutual
/-- a node (or root) group and everything below it -/
def validGroup (dt : List String) : Obj → Bool
  | .dataset _ _ => false
  | .group a kids =>
    (match alookup "emd_group_type" a with
     | some (.str t) => EmdGen.groupTypes.contains t && bodyOK t (kids.filter (fun kv => !isDataKid dt kv.2))
     | _ => false) &&
    (match alookup "python_class" a with
     | some (.str _) => true
     | _ => false) &&
    validKids dt kids
def validKids (dt : List String) : List (String × Obj) → Bool
  | [] => true
  | (_, o) :: r => (if isDataKid dt o then validGroup dt o else true) && validKids dt r
end

def headerOK (s : Session) (a : Attrs) : Bool :=
  alookup "emd_group_type" a == some (.str "file") &&
  alookup "version_major" a == some (.int 1) &&
  alookup "version_minor" a == some (.int 0) &&
  (match alookup "UUID" a with | some (.str _) => true | _ => false) &&
  (alookup "version_release" a).isNone &&      -- the package writes no release number; absent is read as 0
  alookup "authoring_program" a == some (.str s.program) &&
  alookup "authoring_user" a == some (.str s.user)

/-- the whole file: header, at least one tree, every top-level object a valid root group -/
def validFile (dt : List String) (s : Session) (f : Obj) : Bool :=
  match f with
  | .dataset _ _ => false
  | .group a kids =>
    headerOK s a && !kids.isEmpty &&
    kids.all (fun kv => kv.2.gtype == some "root" && validGroup dt kv.2)

/-! ### `Custom.to_h5` (custom.py): the node group as `Node.to_h5` writes it, then every attribute that is a node, written
    by its own class under the attribute's name and re-tagged `custom_<its group type>` -/

/-- `attr_grp.attrs['emd_group_type'] = 'custom_' + attr_grp.attrs['emd_group_type']` -/
def retagCustom (o : Obj) : Obj :=
  match o with
  | .group a k =>
    (match alookup "emd_group_type" a with
     | some (.str t) => .group (areplace "emd_group_type" (.str ("custom_" ++ t)) a) k
     | _ => .group a k)
  | .dataset a v => .dataset a v

/-- the group written for a node-valued attribute: the attribute's own `to_h5` (the node alone, no tree below it) under the
    attribute name, then the re-tag -/
def customAttrGroup (i : NodeInfo) : Obj := retagCustom (nodeGroup i)

/-- body of a Custom node: what `Node.to_h5` wrote (`own`: the metadata bundle, if any) followed by one group per node-valued
    attribute, in attribute order -/
def customBody (own : List (String × Obj)) (attrs : List NodeInfo) : List (String × Obj) :=
  own ++ attrs.map (fun i => (i.name, customAttrGroup i))

/-- `Custom._get_emd_attr_data(group)` looks at the groups whose tag starts with `custom_` … -/
def isCustomTagged (o : Obj) : Bool :=
  match o with
  | .group a _ =>
    (match alookup "emd_group_type" a with
     | some (.str t) => t.toList.take 7 == ['c', 'u', 's', 't', 'o', 'm', '_']
     | _ => false)
  | .dataset _ _ => false

/-- … and returns each, read by its own class, under the group's name: the keys of the dictionary the reader hook gets -/
def attrDataKeys (body : List (String × Obj)) : List String :=
  (body.filter (fun kv => isCustomTagged kv.2)).map (·.1)

end EmdModel
