/-
EmdModel.Registry — model of `classes/utils.py::_get_class`: the lookup table of class names built from the built-in
classes and from every module in `sys.modules` that opts in with `_emd_hook = True`, walking hooked sub-modules found
in module namespaces down to the documented depth.
-/
import EmdModel.Basic
import EmdGen.Tables

namespace EmdModel

/-- the value of a module's `_emd_hook` attribute -/
inductive Hook where
  | absent
  | yes        -- True
  | one        -- 1 (equal to True, not identical to it)
  | other
  deriving DecidableEq, Repr, Inhabited

/-- what an attribute of a module can be -/
inductive PyMember where
  | cls (id : Nat) (isEmd : Bool)          -- a class object (identity), and whether Node or Metadata is in its MRO
  | mod (hook : Hook) (members : List (String × PyMember))   -- a module with its namespace (sorted as `inspect.getmembers`)
  | other
  deriving Repr, Inhabited

/-- class name ↦ class identity -/
abbrev ClassDict := List (String × Nat)

mutual
/-- `_walk_module_find_classes(mod, dic, depth, maxdepth)` on the namespace of `mod` -/
def walkMembers (maxdepth depth : Nat) (dic : ClassDict) : List (String × PyMember) → ClassDict
  | [] => dic
  | (name, m) :: rest =>
    let dic1 := walkMember maxdepth depth name dic m
    walkMembers maxdepth depth dic1 rest
def walkMember (maxdepth depth : Nat) (name : String) (dic : ClassDict) : PyMember → ClassDict
  | .cls id isEmd => if isEmd then aset name id dic else dic
  | .mod hook members =>
    -- `obj._emd_hook == True` (equality), then the recursive call returns at once when depth+1 >= maxdepth
    if (hook == .yes || hook == .one) && depth + 1 < maxdepth then walkMembers maxdepth (depth + 1) dic members else dic
  | .other => dic
end

/-- the built-in classes: `inspect.getmembers(emdfile.classes)` -/
def builtinDict : ClassDict :=
  [("Array", 0), ("Custom", 1), ("Metadata", 2), ("Node", 3), ("PointList", 4), ("PointListArray", 5), ("Root", 6)]

/-- the table `_get_class` builds: built-ins, then every `sys.modules` entry whose `_emd_hook is True` -/
def classStep (maxdepth : Nat) (dic : ClassDict) (nm : String × PyMember) : ClassDict :=
  match nm.2 with
  | .mod .yes members => if 0 < maxdepth then walkMembers maxdepth 0 dic members else dic
  | _ => dic

def classDict (maxdepth : Nat) (sysModules : List (String × PyMember)) : ClassDict :=
  sysModules.foldl (classStep maxdepth) builtinDict

/-- `_get_class(grp)`: the class for a `python_class` tag, or an error — never a substitute -/
def getClass (maxdepth : Nat) (sysModules : List (String × PyMember)) (classname : String) : Option Nat :=
  alookup classname (classDict maxdepth sysModules)

end EmdModel
