/-
EmdModel.Points — model of `classes/pointlist.py` and `classes/pointlistarray.py` (to_h5 / _get_constructor_args /
_populate_instance).  Columns and cells are tokens (dtype, shape, element bytes); what numpy makes of a structured
array column and what a vlen read returns is contract H6.
-/
import EmdModel.Write

namespace EmdModel

/-- a PointList: its fields (name, dtype as written by `np.bytes_(t)`, column token) and its length -/
structure PLVal where
  fields : List (String × String × String)
  length : Nat
  deriving Repr, Inhabited

/-- `PointList.to_h5`: one dataset per field, named after the field, with the `dtype` attribute -/
def PLVal.toBody (p : PLVal) : List (String × Obj) :=
  p.fields.map (fun f => (f.1, Obj.dataset [("dtype", .str f.2.1)] (.tok f.2.2)))

def isDataset : Obj → Bool
  | .dataset _ _ => true
  | .group _ _ => false

/-- the loop over the field datasets: name, dtype attribute, column -/
def readFields : List (String × Obj) → R (List (String × String × String))
  | [] => pure []
  | (k, o) :: rest => do
    let f ← match o with
      | .dataset a (.tok t) =>
        match alookup "dtype" a with
        | some (.str d) => pure (k, d, t)
        | _ => throw (.error "no dtype attribute")
      | _ => throw (.error "unexpected field dataset")
    let fs ← readFields rest
    pure (f :: fs)

/-- `PointList._get_constructor_args`: the fields are the DATASETS of the group (child nodes and the metadata bundle
    are groups); the length is the length of the first of them (`lenOf`: what h5py reports for a stored column) -/
def PLVal.fromBody (lenOf : String → Nat) (kids : List (String × Obj)) : R PLVal := do
  let fields ← readFields (kids.filter (fun kv => isDataset kv.2))
  match fields with
  | [] => throw (.error "no fields")          -- fields[0]
  | f :: _ => pure { fields := fields, length := lenOf f.2.2 }

/-- a PointListArray: the dtype token of its points, its 2D shape, and the cell tokens in row-major order -/
structure PLAVal where
  dtype : String
  rows : Nat
  cols : Nat
  cells : List String
  deriving Repr, Inhabited

/-- `PointListArray.to_h5`: one vlen dataset `data` of the array's shape; cell (i,j) holds the points of `self[i,j]` -/
def PLAVal.toBody (q : PLAVal) : List (String × Obj) :=
  [("data", Obj.dataset [] (.cells q.dtype q.rows q.cols q.cells))]

/-- `_get_constructor_args` + `_populate_instance`: dtype and shape from the dataset, every cell from `dset[i,j]` -/
def PLAVal.fromBody (kids : List (String × Obj)) : R PLAVal :=
  match alookup "data" kids with
  | some (.dataset _ (.cells d r c cs)) => pure { dtype := d, rows := r, cols := c, cells := cs }
  | _ => throw (.error "no data")

/-- cell (i, j) -/
def PLAVal.cell (q : PLAVal) (i j : Nat) : Option String := q.cells[i * q.cols + j]?

end EmdModel
