/-
EmdModel.Write — model of `emdfile/utils.py` write utilities and of `emdfile/write.py::write`
for Node inputs (function names follow the Python).  h5py handles become paths; a function that
mutates a group through a handle returns the updated group.
-/
import EmdModel.Tree

namespace EmdModel

/-- exceptions: `AssertionError` ↦ refused, anything else ↦ error (messages are never compared) -/
inductive Err where
  | refused (why : String)
  | error (why : String)
  deriving Repr, Inhabited

abbrev R := Except Err

/-- the link names the model covers: non-empty, no '/', not '.' (others: out of the modelled domain) -/
def validName (n : String) : Bool := n ≠ "" && !(hasSlash n) && n ≠ "."

/-- `group.create_group(name)` / `create_dataset(name)`: fails if the name already resolves -/
def createIn (g : Obj) (name : String) (o : Obj) : R Obj :=
  if !g.isGroup then throw (.error "not a group")
  else if !validName name then throw (.error ("name outside the modelled domain: " ++ name))
  else if (alookup name g.kids).isSome then throw (.error ("name already exists: " ++ name))
  else pure (g.setKids (g.kids ++ [(name, o)]))

/-- `_write_single_node(group, data)`: `data.to_h5(group)`; returns the updated parent -/
def writeSingleNode (g : Obj) (i : NodeInfo) : R Obj := createIn g i.name (nodeGroup i)

mutual
/-- a node's group together with its whole branch: `_write_single_node` followed by `_write_tree` -/
def writeNodeFull : Tree → R Obj
  | .mk i kids => writeKids (nodeGroup i) kids
/-- `_write_tree(group, data)` for the list of `data`'s children -/
def writeKids (g : Obj) : List Tree → R Obj
  | [] => pure g
  | t :: ts => do
    -- create_group(name) comes first in Node.to_h5: a collision is detected before the branch is written
    if !g.isGroup then throw (.error "not a group")
    if !validName t.name then throw (.error ("name outside the modelled domain: " ++ t.name))
    if (alookup t.name g.kids).isSome then throw (.error ("name already exists: " ++ t.name))
    let c ← writeNodeFull t
    writeKids (g.setKids (g.kids ++ [(t.name, c)])) ts
end

/-- `_write_tree(group, data)` -/
def writeTree (g : Obj) (t : Tree) : R Obj := writeKids g t.kids

/-- apply `f` to the object at path `p` below `o` and put the result back -/
def updateAt (f : Obj → R Obj) : Obj → List String → R Obj
  | o, [] => f o
  | o, n :: p =>
    match alookup n o.kids with
    | some c => do
      let c' ← updateAt f c p
      pure (o.setKids (areplace n c' o.kids))
    | none => throw (.error ("no such object: " ++ n))

/-- names of the links of a group that carry an `emd_group_type` attribute -/
def taggedKeys (g : Obj) : List String :=
  (g.kids.filter (fun kv => kv.2.hasTag)).map (·.1)

/-- does the object carry an `emd_group_type` attribute naming one of the data group types
    (the test `_overwrite_single_node` applies to decide which links to keep) -/
def hasDataTag (dataTypes : List String) (o : Obj) : Bool :=
  match o.gtype with
  | some t => dataTypes.contains t
  | none => false

/-- is this link a tree child in the sense of `_populate_tree`: a *group* with a data group type tag -/
def isDataKid (dataTypes : List String) (o : Obj) : Bool := o.isGroup && hasDataTag dataTypes o

/-- `_overwrite_single_node(group, data)` seen from the parent group: the old group is parked under a
    scratch name that no sibling uses (`_tmp_<name>`, `_tmp__tmp_<name>`, …), the node is written anew, the
    old group's tree children are linked into it and the parked group is deleted.  The scratch name is not
    observable afterwards, so the entry is replaced where it stands (link order is not observable, H5). -/
def overwriteSingleNode (dataTypes : List String) (parent : Obj) (i : NodeInfo) : R Obj :=
  match alookup i.name parent.kids with
  | none => throw (.error ("no such group: " ++ i.name))
  | some old =>
    -- links copied only for keys that have the tag attribute and a data group type;
    -- `h5py` raises if the key already exists in the new group (a body name)
    let links := old.kids.filter (fun kv => hasDataTag dataTypes kv.2)
    if links.any (fun kv => (alookup kv.1 i.body).isSome) then
      throw (.error "link: name already exists")
    else
      pure (parent.setKids (areplace i.name (.group (nodeAttrs i) (i.body ++ links)) parent.kids))

mutual
/-- one iteration of the loop of `_append_branch(group, data, appendover)`, for the child `d` of `data`;
    `keys0` is `groupkeys`, computed once before the loop -/
def appendOne (dataTypes : List String) (over : Bool) (keys0 : List String) (g : Obj) : Tree → R Obj
  | .mk di dk =>
    if !keys0.contains di.name then do
      -- new node: simple write of the node and of its branch beneath it
      if !g.isGroup then throw (.error "not a group")
      if !validName di.name then throw (.error ("name outside the modelled domain: " ++ di.name))
      if (alookup di.name g.kids).isSome then throw (.error ("name already exists: " ++ di.name))
      let c ← writeNodeFull (.mk di dk)
      pure (g.setKids (g.kids ++ [(di.name, c)]))
    else do
      let g' ← if over then overwriteSingleNode dataTypes g di else pure g
      match alookup di.name g'.kids with
      | none => throw (.error "no such group")
      | some sub => do
        -- `_append_branch(next_node, d, appendover)`
        let sub' ← appendKids dataTypes over (taggedKeys sub) sub dk
        pure (g'.setKids (areplace di.name sub' g'.kids))
/-- the loop of `_append_branch` over the children of `data` -/
def appendKids (dataTypes : List String) (over : Bool) (keys0 : List String) (g : Obj) : List Tree → R Obj
  | [] => pure g
  | d :: ds => do
    let g1 ← appendOne dataTypes over keys0 g d
    appendKids dataTypes over keys0 g1 ds
end

/-- `_append_branch(next_node, d, appendover)` -/
def appendNode (dataTypes : List String) (over : Bool) (sub : Obj) (t : Tree) : R Obj :=
  appendKids dataTypes over (taggedKeys sub) sub t.kids

/-- `_append_branch(group, data, appendover)` -/
def appendBranch (dataTypes : List String) (over : Bool) (g : Obj) (t : Tree) : R Obj :=
  appendNode dataTypes over g t

/-- `_validate_treepath(rootgroup, treepath)` on a list of names: `none` = False,
    `some (p, inside)` = the path of the last group found and whether the whole path is in the file -/
def validateTreepath (root : Obj) (names : List String) : Option (List String × Bool) :=
  go root [] names
where
  go (g : Obj) (acc : List String) : List String → Option (List String × Bool)
    | [] => some (acc, true)
    | n :: rest =>
      match alookup n g.kids with
      | none => if rest.isEmpty then some (acc, false) else none
      | some c => if c.isGroup then go c (acc ++ [n]) rest else none

end EmdModel
