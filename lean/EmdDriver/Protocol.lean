/-
EmdDriver.Protocol — JSON glue between the line protocol and the model (parsing / printing only).
-/
import Lean.Data.Json
import EmdModel
open Lean EmdModel

namespace EmdDriver.Protocol

abbrev P := Except String

def optField (j : Json) (k : String) : Option Json :=
  match j.getObjVal? k with
  | .ok Json.null => none
  | .ok v => some v
  | .error _ => none

def strField (j : Json) (k : String) : P String := do (← j.getObjVal? k).getStr?
def arrField (j : Json) (k : String) : P (List Json) := do pure (← (← j.getObjVal? k).getArr?).toList

def hexDigit (c : Char) : Option Nat :=
  if '0' ≤ c ∧ c ≤ '9' then some (c.toNat - '0'.toNat)
  else if 'a' ≤ c ∧ c ≤ 'f' then some (c.toNat - 'a'.toNat + 10)
  else none

def parseHex (s : String) : P UInt64 :=
  s.toList.foldlM (fun acc c => match hexDigit c with
    | some d => pure (acc * 16 + d.toUInt64)
    | none => throw "bad hex") (0 : UInt64)

def toHex (x : UInt64) : String :=
  let ds := (List.range 16).map (fun i =>
    let d := ((x >>> (UInt64.ofNat (4 * (15 - i)))) &&& 0xF).toNat
    Char.ofNat (if d < 10 then '0'.toNat + d else 'a'.toNat + d - 10))
  String.ofList ds

-- ---------- AVal / Num / DVal / Obj

def avalOfJson : Json → P AVal
  | .str s => pure (.str s)
  | j => do pure (.int (← j.getInt?))

def avalToJson : AVal → Json
  | .str s => .str s
  | .int i => Json.num (JsonNumber.fromInt i)

def attrsOfJson (j : Json) : P Attrs := do
  let o ← j.getObj?
  o.toList.mapM (fun (k, v) => do pure (k, ← avalOfJson v))

def attrsToJson (a : Attrs) : Json := Json.mkObj (a.map (fun (k, v) => (k, avalToJson v)))

def numOfJson : Json → P Num
  | j@(.obj _) => do pure (.flt (← parseHex (← strField j "f")))
  | j => do pure (.int (← j.getInt?))

def numToJson : Num → Json
  | .int v => Json.num (JsonNumber.fromInt v)
  | .flt b => Json.mkObj [("f", .str (toHex b))]

def strListOfJson (j : Json) : P (List String) := do (← j.getArr?).toList.mapM (·.getStr?)
def strListToJson (l : List String) : Json := Json.arr (l.map Json.str).toArray

def dvalOfJson : Json → P DVal
  | .str s => pure (.tok s)
  | j => do
    if let some v := optField j "nums" then
      return .nums (← (← v.getArr?).toList.mapM numOfJson)
    if let some v := optField j "strs" then return .strs (← strListOfJson v)
    if let some v := optField j "bytes" then return .bytes (← v.getStr?)
    if let some v := optField j "scalar" then
      return .scalar (← strField v "kind") (← strField v "repr")
    if let some v := optField j "seq" then
      return .seq (← strField v "dtype") (← strListOfJson (← v.getObjVal? "xs"))
    if let some v := optField j "cells" then
      return .cells (← strField v "dtype") (← (← v.getObjVal? "rows").getNat?) (← (← v.getObjVal? "cols").getNat?)
        (← strListOfJson (← v.getObjVal? "cs"))
    throw "bad dval"

def dvalToJson : DVal → Json
  | .tok t => .str t
  | .nums xs => Json.mkObj [("nums", Json.arr (xs.map numToJson).toArray)]
  | .strs xs => Json.mkObj [("strs", strListToJson xs)]
  | .bytes s => Json.mkObj [("bytes", .str s)]
  | .scalar k r => Json.mkObj [("scalar", Json.mkObj [("kind", .str k), ("repr", .str r)])]
  | .seq d xs => Json.mkObj [("seq", Json.mkObj [("dtype", .str d), ("xs", strListToJson xs)])]
  | .cells d r c cs => Json.mkObj [("cells", Json.mkObj [("dtype", .str d), ("rows", (r : Nat)), ("cols", (c : Nat)), ("cs", strListToJson cs)])]

partial def objOfJson (j : Json) : P Obj := do
  if let some a := optField j "g" then
    let ks ← arrField j "k"
    let kids ← ks.mapM (fun e => do
      let pr ← e.getArr?
      if pr.size != 2 then throw "bad kid"
      pure ((← pr[0]!.getStr?), (← objOfJson pr[1]!)))
    return .group (← attrsOfJson a) kids
  if let some a := optField j "d" then
    return .dataset (← attrsOfJson a) (← dvalOfJson (← j.getObjVal? "v"))
  throw "bad obj"

partial def objToJson : Obj → Json
  | .group a kids => Json.mkObj [("g", attrsToJson a),
      ("k", Json.arr (kids.map (fun (k, o) => Json.arr #[.str k, objToJson o])).toArray)]
  | .dataset a v => Json.mkObj [("d", attrsToJson a), ("v", dvalToJson v)]

def bodyOfJson (j : Json) : P (List (String × Obj)) := do
  (← j.getArr?).toList.mapM (fun e => do
    let pr ← e.getArr?
    if pr.size != 2 then throw "bad body entry"
    pure ((← pr[0]!.getStr?), (← objOfJson pr[1]!)))

def bodyToJson (b : List (String × Obj)) : Json :=
  Json.arr (b.map (fun (k, o) => Json.arr #[.str k, objToJson o])).toArray

-- ---------- trees

def infoOfJson (j : Json) : P NodeInfo := do
  pure { name := ← strField j "n", cls := ← strField j "c", gtype := ← strField j "t",
         body := ← bodyOfJson (← j.getObjVal? "b") }

partial def treeOfJson (j : Json) : P Tree := do
  let i ← infoOfJson j
  let ks ← (← arrField j "k").mapM treeOfJson
  pure (.mk i ks)

def infoFields (i : NodeInfo) : List (String × Json) :=
  [("n", .str i.name), ("c", .str i.cls), ("t", .str i.gtype), ("b", bodyToJson i.body)]

partial def treeToJson : Tree → Json
  | .mk i ks => Json.mkObj (infoFields i ++ [("k", Json.arr (ks.map treeToJson).toArray)])

def optOfJson : Json → P TreeOpt
  | .bool true => pure .yes
  | .bool false => pure .no
  | .null => pure .below
  | _ => throw "bad tree option"

def treeArgField (j : Json) : P TreeArg :=
  match j.getObjVal? "tree" with
  | .ok (.bool true) => pure .yes
  | .ok (.bool false) => pure .no
  | .ok .null => pure .below
  | .ok (.str "noroot") => pure .noroot
  | .ok _ => pure .invalid
  | .error _ => pure .yes

def treeOptField (j : Json) : P TreeOpt :=
  match j.getObjVal? "tree" with
  | .ok v => optOfJson v
  | .error _ => pure .yes

def errToJson : Err → Json
  | .refused w => Json.mkObj [("err", "refused"), ("why", .str w)]
  | .error w => Json.mkObj [("err", "error"), ("why", .str w)]

def srcOfJson (j : Json) : P Src := do
  if let some u := optField j "unrooted" then return .unrooted (← infoOfJson u)
  let r ← treeOfJson (← j.getObjVal? "root")
  let t ← strListOfJson (← j.getObjVal? "target")
  pure (.rooted r t)

def itemOfJson (j : Json) : P Item := do
  if let some t := optField j "root" then return .root (← treeOfJson t)
  if let some r := optField j "rooted" then
    return .rooted (← (← r.getObjVal? "id").getNat?) (← treeOfJson (← r.getObjVal? "root"))
      (← strListOfJson (← r.getObjVal? "target"))
  if let some u := optField j "unrooted" then return .unrooted (← infoOfJson u)
  if let some b := optField j "array" then return .array (← bodyOfJson b)
  if let some e := optField j "dict" then return .dict (← objOfJson e)
  return .other

def inputOfJson (j : Json) : P Input := do
  let kind ← strField j "kind"
  match kind with
  | "array" => pure (.array (← bodyOfJson (← j.getObjVal? "body")))
  | "dict" => pure (.dict (← objOfJson (← j.getObjVal? "entry")))
  | "metadata" => pure (.metadata (← strField j "name") (← objOfJson (← j.getObjVal? "entry")))
  | "list" => pure (.list (← (← arrField j "items").mapM itemOfJson))
  | _ => pure .other

def readOutToJson : ReadOut → Json
  | .node r p => Json.mkObj [("kind", "node"), ("root", treeToJson r), ("path", strListToJson p)]
  | .rootnames ns => Json.mkObj [("kind", "rootnames"), ("names", strListToJson ns)]
  | .metadata n o => Json.mkObj [("kind", "metadata"), ("name", .str n), ("obj", objToJson o)]

-- ---------- history machine

structure St where
  fs : FS := []
  sess : Session := {}
  created : Nat := 0
  version : Nat := 0     -- counts successful mutations of the file system (for the `hash` observation)

def noLegacy (_ : Obj) : R ReadOut := throw (.error "legacy import not modelled at this level")

def step (st : St) (j : Json) : P (St × Json) := do
  let what ← strField j "do"
  match what with
  | "save" =>
    let path ← strField j "path"
    let inp ← match optField j "input" with
      | some i => inputOfJson i
      | none => do pure (Input.node (← srcOfJson (← j.getObjVal? "src")))
    let mode ← strField j "mode"
    let opt ← treeArgField j
    let ep := (optField j "emdpath").bind (fun v => v.getStr?.toOption)
    let existed := (fsLookup st.fs path).isSome
    match saveArgs st.sess s!"u{st.created}" st.fs path inp mode opt ep with
    | .ok fs' =>
      -- a header (and so a UUID) is written exactly when a new file is created
      let createdNow := !existed || (match classifyMode (effectiveMode mode ep) with
        | some .overwrite => true | _ => false)
      pure ({ st with fs := fs', created := if createdNow then st.created + 1 else st.created, version := st.version + 1 }, Json.mkObj [("ok", true)])
    | .error e => pure (st, errToJson e)
  | "read" =>
    let path ← strField j "path"
    let opt ← treeOptField j
    let ep := (optField j "emdpath").bind (fun v => v.getStr?.toOption)
    match readFS builtinClasses EmdGen.dataGroupTypes st.fs path ep opt noLegacy with
    | .ok r => pure (st, readOutToJson r)
    | .error e => pure (st, errToJson e)
  | "put" =>
    let path ← strField j "path"
    if let some id := optField j "junk" then
      pure ({ st with fs := fsSet st.fs path (.junk (← id.getStr?)), version := st.version + 1 }, Json.mkObj [("ok", true)])
    else
      let o ← objOfJson (← j.getObjVal? "h5")
      pure ({ st with fs := fsSet st.fs path (.h5 o), version := st.version + 1 }, Json.mkObj [("ok", true)])
  | "remove" =>
    let path ← strField j "path"
    pure ({ st with fs := fsErase st.fs path, version := st.version + 1 }, Json.mkObj [("ok", true)])
  | "walk" =>
    let path ← strField j "path"
    match fsLookup st.fs path with
    | none => pure (st, Json.mkObj [("absent", true)])
    | some (.junk id) => pure (st, Json.mkObj [("junk", .str id)])
    | some (.h5 f) => pure (st, Json.mkObj [("h5", objToJson f)])
  | "hash" =>
    -- reads have no store output, so the content version only moves on save / put / remove
    let path ← strField j "path"
    match fsLookup st.fs path with
    | none => pure (st, Json.mkObj [("absent", true)])
    | some _ => pure (st, Json.mkObj [("hash", .str s!"v{st.version}")])
  | "validate" =>
    let path ← strField j "path"
    match fsLookup st.fs path with
    | some (.h5 f) => pure (st, Json.mkObj [("valid", validFile EmdGen.dataGroupTypes st.sess f)])
    | _ => pure (st, Json.mkObj [("valid", false)])
  | "info" =>
    let path ← strField j "path"
    match fsLookup st.fs path with
    | some (.h5 f) =>
      let v := match emdVersion f with
        | some (a, b, c) => Json.arr #[Json.num (JsonNumber.fromInt a), Json.num (JsonNumber.fromInt b), Json.num (JsonNumber.fromInt c)]
        | none => Json.null
      pure (st, Json.mkObj [("is_emd", isEMDFile f), ("version", if isEMDFile f then v else Json.null),
        ("rootgroups", strListToJson (rootGroups f))])
    | some (.junk _) => pure (st, Json.mkObj [("err", "error")])
    | none => pure (st, Json.mkObj [("err", "error")])
  | "session" =>
    let p := (optField j "program").bind (fun v => v.getStr?.toOption)
    let u := (optField j "user").bind (fun v => v.getStr?.toOption)
    pure ({ st with sess := { program := p.getD st.sess.program, user := u.getD st.sess.user } }, Json.mkObj [("ok", true)])
  | _ => throw ("bad step " ++ what)

-- ---------- the runtime-object machine (C12 / C13 / C19)

partial def rnodeToJson : RNode → Json
  | .mk i n isR r t m ks => Json.mkObj [("id", (i : Nat)), ("name", .str n), ("isroot", isR),
      ("root", match r with | some x => ((x : Nat) : Json) | none => Json.null),
      ("tp", match t with | some x => Json.str x | none => Json.null),
      ("md", Json.mkObj (m.map (fun (k, v) => (k, ((v : Nat) : Json))))),
      ("k", Json.arr (ks.map rnodeToJson).toArray)]

def heapToJson (h : Heap) : Json :=
  Json.mkObj [("comps", Json.arr (h.comps.map rnodeToJson).toArray),
    ("mds", Json.mkObj (h.mds.map (fun (i, o) => (toString i, Json.arr #[.str o.name, .str o.content]))))]

def mdOptOfJson : Json → MdOpt
  | .bool true => .yes
  | .bool false => .no
  | .str "copy" => .copy
  | .str "overwrite" => .overwrite
  | .str "copyover" => .copyover
  | _ => .invalid

def toutToJson : TOut → Json
  | .ok => "ok"
  | .refused => "refused"
  | .error => "error"
  | .node i => Json.mkObj [("node", (i : Nat))]

def natField (j : Json) (k : String) : P Nat := do (← j.getObjVal? k).getNat?

def fstep (h : Heap) (j : Json) : P (Heap × TOut) := do
  let what ← strField j "do"
  match what with
  | "root" => pure (mkRoot h (← strField j "name"), .ok)
  | "node" => pure (mkNode h (← strField j "name"), .ok)
  | "md" => pure (addMd h (← natField j "node") (← strField j "name") (← strField j "content"), .ok)
  | "add" => pure (addToTree h (← natField j "parent") (← natField j "child"))
  | "force" => pure (forceAdd h (← natField j "parent") (← natField j "child"))
  | "graft" => pure (graft h (← natField j "recv") (← natField j "scion") (mdOptOfJson ((optField j "opt").getD Json.null)))
  | "cut" => pure (cut h (← natField j "node") (mdOptOfJson ((optField j "opt").getD Json.null)))
  | "get" =>
    let fromRoot ← (← j.getObjVal? "fromroot").getBool?
    pure (h, getFromTree h (← natField j "node") fromRoot (← strListOfJson (← j.getObjVal? "names")))
  | _ => throw ("bad forest step " ++ what)

-- ---------- the Array codec (C02 / C14)

def dimArgOfJson : Json → P DimArg
  | .null => pure .none
  | j => do
    if let some v := optField j "vec" then return .vec (← (← v.getArr?).toList.mapM numOfJson)
    if let some v := optField j "num" then return .num (← numOfJson v)
    throw "bad dim arg"

def optStrList (j : Json) (k : String) : P (Option (List String)) :=
  match optField j k with
  | some v => do pure (some (← strListOfJson v))
  | none => pure none

def natListToJson (l : List Nat) : Json := Json.arr (l.map (fun (n : Nat) => (n : Json))).toArray

def arrayValToJson (a : ArrayVal) : Json :=
  Json.mkObj [("tok", .str a.dataTok), ("shape", natListToJson a.dataShape), ("units", .str a.units),
    ("stack", a.isStack), ("labels", strListToJson a.labels),
    ("dims", Json.arr (a.dims.map (fun d => Json.arr (d.map numToJson).toArray)).toArray),
    ("dunits", strListToJson a.dimUnits), ("dnames", strListToJson a.dimNames),
    ("rank", (a.rank : Nat)), ("depth", (a.depth : Nat)), ("ashape", natListToJson a.shape)]

def rToJson {α : Type} (f : α → Json) : R α → Json
  | .ok v => f v
  | .error e => errToJson e

def arraySetter (a : ArrayVal) (j : Json) : P (R ArrayVal) := do
  let what ← strField j "set"
  let n ← natField j "n"
  match what with
  | "dim" => pure (setDim realOps a n (← dimArgOfJson ((optField j "dim").getD Json.null))
      ((optField j "units").bind (fun v => v.getStr?.toOption)) ((optField j "name").bind (fun v => v.getStr?.toOption)))
  | "units" => pure (setDimUnits a n (← strField j "units"))
  | "name" => pure (setDimName a n (← strField j "name"))
  | _ => throw "bad setter"

def handleArray (j : Json) : P Json := do
  let shape ← (← arrField j "shape").mapM (·.getNat?)
  let dims ← match optField j "dims" with
    | some v => do pure (some (← (← v.getArr?).toList.mapM dimArgOfJson))
    | none => pure none
  let lab ← match optField j "labels" with
    | none => pure LabelArg.none
    | some (.bool true) => pure LabelArg.auto
    | some v => do pure (LabelArg.given (← strListOfJson v))
  let ctor := mkArray realOps (← strField j "tok") shape (← strField j "units") dims
    (← optStrList j "names") (← optStrList j "dunits") lab
  -- setters, each observed
  let setters := (optField j "then").bind (fun v => v.getArr?.toOption) |>.getD #[]
  let (final, outs) ← setters.toList.foldlM (fun (acc : R ArrayVal × List Json) s => do
    match acc.1 with
    | .error _ => pure (acc.1, acc.2 ++ [Json.mkObj [("skipped", true)]])
    | .ok a =>
      let r ← arraySetter a s
      match r with
      | .ok a' => pure (.ok a', acc.2 ++ [arrayValToJson a'])
      | .error e => pure (.ok a, acc.2 ++ [errToJson e])) (ctor, [])
  let body := match final with | .ok a => bodyToJson (a.toBody realOps) | .error _ => Json.null
  let back := match final with
    | .ok a => rToJson arrayValToJson (ArrayVal.fromBody realOps a.dataShape (a.toBody realOps))
    | .error _ => Json.null
  let slices := match final with
    | .ok a => Json.mkObj (a.labels.map (fun l => (l, match labelIndex a.labels l with | some i => ((i : Nat) : Json) | none => Json.null)))
    | .error _ => Json.null
  -- `ar[label]` for every label: the slice's calibrations (its data token is the store's business)
  let slicecal := match final with
    | .ok a => if a.isStack then Json.mkObj (a.labels.map (fun l =>
        (l, match a.getSlice realOps (fun t i => t ++ "#" ++ toString i) l with
            | .ok (i, s) => Json.mkObj [("idx", (i : Nat)), ("units", .str s.units), ("stack", s.isStack),
                ("dims", Json.arr (s.dims.map (fun d => Json.arr (d.map numToJson).toArray)).toArray),
                ("dunits", strListToJson s.dimUnits), ("dnames", strListToJson s.dimNames), ("ashape", natListToJson s.shape)]
            | .error e => errToJson e))) else Json.mkObj []
    | .error _ => Json.null
  pure (Json.mkObj [("ctor", rToJson arrayValToJson ctor), ("setters", Json.arr outs.toArray), ("body", body),
    ("back", back), ("slices", slices), ("slicecal", slicecal)])

-- ---------- the Metadata codec (C03)

partial def pyvalOfJson (j : Json) : P PyVal := do
  let t ← strField j "t"
  let st : Option String := (optField j "st").bind (fun v => v.getStr?.toOption)
  match t with
  | "none" => pure .none
  | "bool" => pure (.bool (← (← j.getObjVal? "v").getBool?))
  | "num" => pure (.num (← strField j "kind") (← strField j "repr"))
  | "npnum" => pure (.npnum (← strField j "dtype") (← strField j "kind") (← strField j "repr"))
  | "npbool" => pure (.npbool (← (← j.getObjVal? "v").getBool?))
  | "str" => pure (.str (← strField j "v"))
  | "bytes" => pure (.bytes (← strField j "v"))
  | "arr" => pure (.arr (← strField j "tok"))
  | "tuple" => pure (.tuple (← (← arrField j "xs").mapM pyvalOfJson) st)
  | "list" => pure (.list (← (← arrField j "xs").mapM pyvalOfJson) st)
  | "seq" => pure (.seqNp (← (← j.getObjVal? "tuple").getBool?) (← strField j "tok"))
  | "dict" =>
    let items ← (← arrField j "items").mapM (fun e => do
      let pr ← e.getArr?
      if pr.size != 2 then throw "bad item"
      pure ((← pr[0]!.getStr?), (← pyvalOfJson pr[1]!)))
    pure (.dict items)
  | _ => pure (.other ((optField j "kind").bind (fun v => v.getStr?.toOption) |>.getD t))

partial def pyvalToJson : PyVal → Json
  | .none => Json.mkObj [("t", "none")]
  | .bool b => Json.mkObj [("t", "bool"), ("v", b)]
  | .num k r => Json.mkObj [("t", "num"), ("kind", .str k), ("repr", .str r)]
  | .npnum d k r => Json.mkObj [("t", "npnum"), ("dtype", .str d), ("kind", .str k), ("repr", .str r)]
  | .npbool b => Json.mkObj [("t", "npbool"), ("v", b)]
  | .str s => Json.mkObj [("t", "str"), ("v", .str s)]
  | .bytes s => Json.mkObj [("t", "bytes"), ("v", .str s)]
  | .arr t => Json.mkObj [("t", "arr"), ("tok", .str t)]
  | .tuple xs _ => Json.mkObj [("t", "tuple"), ("xs", Json.arr (xs.map pyvalToJson).toArray)]
  | .list xs _ => Json.mkObj [("t", "list"), ("xs", Json.arr (xs.map pyvalToJson).toArray)]
  | .seqNp b t => Json.mkObj [("t", "seq"), ("tuple", b), ("tok", .str t)]
  | .dict items => Json.mkObj [("t", "dict"), ("items", Json.arr (items.map (fun (k, v) => Json.arr #[.str k, pyvalToJson v])).toArray)]
  | .other k => Json.mkObj [("t", "other"), ("kind", .str k)]

def handleMd (j : Json) : P Json := do
  let items ← (← arrField j "items").mapM (fun e => do
    let pr ← e.getArr?
    if pr.size != 2 then throw "bad item"
    pure ((← pr[0]!.getStr?), (← pyvalOfJson pr[1]!)))
  let cls := (optField j "cls").bind (fun v => v.getStr?.toOption) |>.getD "Metadata"
  let o := mdToObj cls items
  let back : Json := match o with
    | .ok g => rToJson (fun l => Json.arr (l.map (fun (k, v) => Json.arr #[.str k, pyvalToJson v])).toArray) (mdFromObj g)
    | .error _ => Json.null
  let can := Json.arr ((canonItems items).map (fun (k, v) => Json.arr #[.str k, pyvalToJson v])).toArray
  pure (Json.mkObj [("obj", rToJson objToJson o), ("back", back), ("canon", can)])

-- ---------- PointList / PointListArray (C04)

/-- the length h5py reports for a stored column: second component of the token "dtype|[n]|digest" -/
def tokLen (t : String) : Nat :=
  -- the dtype itself may contain '|': the shape is the last component but one; the length is its first extent
  let parts := t.splitOn "|"
  let shp := parts.getD (parts.length - 2) ""
  let inner := ((shp.replace "[" "").replace "]" "")
  match inner.splitOn "," with
  | first :: _ => first.trimAscii.toString.toNat?.getD 0
  | [] => 0

def handlePoints (j : Json) : P Json := do
  if let some pl := optField j "pointlist" then
    let fields ← (← pl.getArr?).toList.mapM (fun e => do
      let a ← e.getArr?
      if a.size != 3 then throw "bad field"
      pure ((← a[0]!.getStr?), (← a[1]!.getStr?), (← a[2]!.getStr?)))
    let p : PLVal := { fields := fields, length := (← natField j "length") }
    let body := p.toBody
    let extra ← match optField j "extra" with | some x => bodyOfJson x | none => pure []
    let back := PLVal.fromBody tokLen (body ++ extra)
    pure (Json.mkObj [("body", bodyToJson body),
      ("back", rToJson (fun (q : PLVal) => Json.mkObj [("fields", Json.arr (q.fields.map (fun f => Json.arr #[.str f.1, .str f.2.1, .str f.2.2])).toArray),
        ("length", (q.length : Nat))]) back)])
  else
    let q : PLAVal := { dtype := ← strField j "dtype", rows := ← natField j "rows", cols := ← natField j "cols",
                        cells := ← strListOfJson (← j.getObjVal? "cells") }
    let body := q.toBody
    let back := PLAVal.fromBody body
    pure (Json.mkObj [("body", bodyToJson body),
      ("back", rToJson (fun (b : PLAVal) => Json.mkObj [("dtype", .str b.dtype), ("rows", (b.rows : Nat)), ("cols", (b.cols : Nat)),
        ("cells", strListToJson b.cells)]) back)])

-- ---------- legacy import (C17)

def tokShape (t : String) : List Nat :=
  let parts := t.splitOn "|"
  let shp := parts.getD (parts.length - 2) ""
  let inner := ((shp.replace "[" "").replace "]" "")
  if inner.trimAscii.toString.isEmpty then [] else
  (inner.splitOn ",").map (fun s => s.trimAscii.toString.toNat?.getD 0)

def handleLegacy (j : Json) : P Json := do
  let st : Option FileState ← match optField j "h5", optField j "junk" with
    | some o, _ => do pure (some (.h5 (← objOfJson o)))
    | none, some x => do pure (some (.junk (← x.getStr?)))
    | none, none => pure none
  match readNonEMD realOps tokShape st with
  | .ok (.single n a) => pure (Json.mkObj [("kind", "single"), ("name", .str n), ("array", arrayValToJson a)])
  | .ok (.many l) => pure (Json.mkObj [("kind", "many"),
      ("arrays", Json.mkObj (l.map (fun (n, a) => (n, arrayValToJson a))))])
  | .error e => pure (errToJson e)

-- ---------- primitive mutations (C18)

def mutOfJson (j : Json) : P Mut := do
  let m ← strField j "m"
  let path (k : String) : P (List String) := do strListOfJson (← j.getObjVal? k)
  match m with
  | "mkGroup" => pure (.mkGroup (← path "p") (← strField j "n"))
  | "mkDataset" => pure (.mkDataset (← path "p") (← strField j "n") (← dvalOfJson (← j.getObjVal? "v")))
  | "setAttr" => pure (.setAttr (← path "p") (← strField j "k") (← avalOfJson (← j.getObjVal? "v")))
  | "delAttr" => pure (.delAttr (← path "p") (← strField j "k"))
  | "delete" => pure (.delete (← path "p") (← strField j "n"))
  | "move" => pure (.move (← path "p") (← strField j "s") (← strField j "d"))
  | "link" => pure (.link (← path "p") (← strField j "n") (← path "t"))
  | "setData" => pure (.setData (← path "p") (← dvalOfJson (← j.getObjVal? "v")))
  | _ => throw ("bad mutation " ++ m)

def handleMutations (j : Json) : P Json := do
  let f0 ← objOfJson (← j.getObjVal? "h5")
  let ms ← (← arrField j "muts").mapM mutOfJson
  let (ff, flags) := replay f0 f0 ms
  pure (Json.mkObj [("final", objToJson ff),
    ("flags", Json.arr (flags.map (fun (a, e) => Json.arr #[.bool a, .bool e])).toArray)])

-- ---------- class registry (C06)

partial def memberOfJson (j : Json) : P PyMember := do
  if let some c := optField j "cls" then
    return .cls (← c.getNat?) (← (← j.getObjVal? "emd").getBool?)
  if let some ms := optField j "mod" then
    let hook := match optField j "hook" with
      | some (.bool true) => Hook.yes
      | some (.num n) => if n == JsonNumber.fromNat 1 then Hook.one else Hook.other
      | some _ => Hook.other
      | none => Hook.absent
    let members ← (← ms.getArr?).toList.mapM (fun e => do
      let pr ← e.getArr?
      if pr.size != 2 then throw "bad member"
      pure ((← pr[0]!.getStr?), (← memberOfJson pr[1]!)))
    return .mod hook members
  return .other

def handleRegistry (j : Json) : P Json := do
  let mods ← (← arrField j "modules").mapM (fun e => do
    let pr ← e.getArr?
    if pr.size != 2 then throw "bad module"
    pure ((← pr[0]!.getStr?), (← memberOfJson pr[1]!)))
  let names ← strListOfJson (← j.getObjVal? "names")
  pure (Json.mkObj (names.map (fun n =>
    (n, match getClass EmdGen.walkMaxDepth mods n with | some i => ((i : Nat) : Json) | none => Json.str "error"))))

def handle (op : String) (j : Json) : P Json := do
  match op with
  | "registry" => handleRegistry j
  | "custombody" =>
    let own ← bodyOfJson (← j.getObjVal? "own")
    let attrs ← (← arrField j "attrs").mapM infoOfJson
    let b := customBody own attrs
    pure (Json.mkObj [("body", bodyToJson b), ("valid", bodyOK "custom" b), ("attrkeys", strListToJson (attrDataKeys b))])
  | "legacy" => handleLegacy j
  | "mutations" => handleMutations j
  | "points" => handlePoints j
  | "md" => handleMd j
  | "array" => handleArray j
  | "forest" =>
    let steps ← arrField j "steps"
    let (_, outs) ← steps.foldlM (fun (acc : Heap × List Json) s => do
      let (h', o) ← fstep acc.1 s
      pure (h', Json.mkObj [("r", toutToJson o), ("heap", heapToJson h')] :: acc.2)) (({} : Heap), [])
    pure (Json.mkObj [("out", Json.arr outs.reverse.toArray)])
  | "history" =>
    let steps ← arrField j "steps"
    let (_, outs) ← steps.foldlM (fun (acc : St × List Json) s => do
      let (st', o) ← step acc.1 s
      pure (st', o :: acc.2)) (({} : St), [])
    pure (Json.mkObj [("out", Json.arr outs.reverse.toArray)])
  | _ => throw ("bad-op " ++ op)

end EmdDriver.Protocol
