import Lean.Data.Json
open Lean
namespace EmdDriver.Protocol

def handle (op : String) (_j : Json) : Except String Json :=
  throw ("bad-op " ++ op)

end EmdDriver.Protocol
