import EmdProofs.Basic
import EmdProofs.TreeWF
import EmdProofs.Roundtrip
import EmdProofs.Append
import EmdProofs.AppendSpec
import EmdProofs.ValidProofs
