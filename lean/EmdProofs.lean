import EmdProofs.Basic
