import EmdProofs.Basic
import EmdProofs.TreeWF
import EmdProofs.Roundtrip
