/-
C15 — Whatever save accepts, read returns: unsupported input is rejected at save time.

The claim "for ANY input" is false of the code that exists; the theorem is therefore stated as `…_partial` under the
explicit domain `documented` (C03) / `rootedWF` (C01) / `PlWF` (C04), each exclusion is exhibited by a counterexample
decided in the model, and each counterexample is replayed on the implementation on every run (known findings C15-K1 … K7).
Proved for EVERY value: `C15_rejects_unsupported` — the kinds the writer does not know (numpy bools, bytes, sets and any
other object, and what h5py refuses: ints beyond int64, unicode / object arrays) are rejected AT SAVE TIME, at any
position inside documented containers (`C15_rejects_in_dict`, `C15_rejects_in_sequence`);
`C15_metadata_partial` — a value of the documented kinds is never rejected and always reads back as its canonical form
(C03); `C15_tree_partial` — a well-formed tree always round-trips exactly (C01).
-/
import EmdProps.C03
import EmdProps.C04
import EmdProps.C08
import EmdProps.C02

set_option linter.unusedSimpArgs false

namespace EmdProps
open EmdModel

/-- the writer rejects, at save time, every value whose kind it does not know -/
theorem C15_rejects_unsupported :
    (∀ b, ∃ e, saveItem (.npbool b) = .error e) ∧ (∀ s, ∃ e, saveItem (.bytes s) = .error e) ∧
    (∀ k, ∃ e, saveItem (.other k) = .error e) :=
  ⟨fun _ => ⟨_, rfl⟩, fun _ => ⟨_, rfl⟩, fun _ => ⟨_, rfl⟩⟩

/-- …also when it sits anywhere inside a dictionary: the whole save raises, nothing half-accepted is left to read -/
theorem C15_rejects_in_dict (k : String) (v : PyVal) (rest : List (String × PyVal)) (e : Err)
    (h : saveItem v = .error e) (hk : validName k = true) : ∃ e', saveItem (.dict ((k, v) :: rest)) = .error e' := by
  simp [saveItem, saveItems, hk, h, bind, Except.bind]

/-- …and a sequence that numpy / h5py refuse to store (`st = none`: ragged, mixed with None, …) is rejected -/
theorem C15_rejects_in_sequence (x : PyVal) (xs : List PyVal) (h : x.numberLike = true) :
    (∃ e, saveItem (.tuple (x :: xs) none) = .error e) ∧ (∃ e, saveItem (.list (x :: xs) none) = .error e) := by
  constructor <;> simp [saveItem, h] <;> exact ⟨_, rfl⟩

/-- lists of lists / of tuples / of dicts, and tuples of dicts or of None, are rejected -/
theorem C15_rejects_odd_lists (x : PyVal) (xs : List PyVal) (st : Option String)
    (h1 : x.numberLike = false) (h2 : x.isArr = false) (h3 : x.isStr = false) :
    ∃ e, saveItem (.list (x :: xs) st) = .error e := by
  simp [saveItem, h1, h2, h3]; exact ⟨_, rfl⟩

/-- C15 on the documented metadata domain: accepted, and read back as the canonical form -/
theorem C15_metadata_partial (v : PyVal) (h : documented v = true) :
    ∃ o, saveItem v = .ok o ∧ readItem o = .ok (canon v) := C03_item v h

/-- C15 on well-formed trees: accepted, and read back exactly -/
theorem C15_tree_partial (sess : Session) (uuid path : String) (t : Tree) (h : t.rootedWF CT DT = true) :
    ∃ f, save sess uuid [] path (.rooted t []) "w" .yes none = .ok [(path, .h5 f)] ∧
         readEMDAt CT DT f t.name [] .below = .ok (.node t []) := by
  obtain ⟨f, h1, _, h3⟩ := C01_roundtrip sess uuid path t h
  exact ⟨f, h1, h3⟩

-- the exclusions, each exhibited in the model (the witnesses replayed on the implementation are in known_findings.json)

/-- K1: the sentinel string -/
theorem C15_counterexample_None_string : (match saveItem (.str "_None") with
    | .ok o => (match readItem o with | .ok .none => true | _ => false) | .error _ => false) = true := by decide

/-- K4: a tuple mixing a tuple with a string is accepted and read back with bytes in place of the string -/
theorem C15_counterexample_mixed_tuple :
    (match saveItem (.tuple [.tuple [.num "int" "1", .num "int" "2"] (some "T"), .str "x"] none) with
     | .ok o => (match readItem o with
        | .ok (.tuple [.seqNp true "T", .bytes "x"] none) => true | _ => false)
     | .error _ => false) = true := by decide

/-- K3: a non-stack Array whose last dim is called `_labels_` is written, then taken for a stack and refused by the reader -/
theorem C15_counterexample_labels_name :
    (match mkArray realOps "t" [2] "" none (some ["_labels_"]) none .none with
     | .ok a => (match ArrayVal.fromBody realOps a.dataShape (a.toBody realOps) with | .ok _ => false | .error _ => true)
     | .error _ => false) = true := by decide +kernel

/-- K2 / K7 in the model's terms: names with '/' (or outside valid link names) are outside the modelled store contract -/
theorem C15_names_outside_contract : validName "a/b" = false ∧ validName "" = false ∧ validName "." = false ∧
    validName "ünï cöde 数据" = true := by decide

/-- K5: a PointList without fields cannot be read back -/
theorem C15_counterexample_no_fields (lenOf : String → Nat) :
    (match PLVal.fromBody lenOf ({ fields := [], length := 0 } : PLVal).toBody with
     | .ok _ => false | .error _ => true) = true := C04_counterexample_no_fields lenOf

-- repaired: 0-dimensional data round-trips in the model of the repaired reader
example : (match mkArray realOps "t" [] "u" none none none .none with
    | .ok a => (match ArrayVal.fromBody realOps a.dataShape (a.toBody realOps) with
        | .ok b => b.rank == 0 && b.dataTok == "t" && b.units == "u" | .error _ => false)
    | .error _ => false) = true := by decide +kernel

/-- C15 for Arrays: whatever the constructor ACCEPTS is read back as it was — for every form of the constructor's arguments
    (`mkArray` succeeded), numpy-array dim vectors, and the last dim name not being the reserved `_labels_` on a non-stack
    (known finding C15-K3, the forced hypothesis), reading what `to_h5` wrote succeeds and returns the Array's data token,
    shape, units, stack flag, labels, dim units, dim names, and per axis the same vector (verbatim or numpy-equal) -/
theorem C15_array_reads_back (ops : NumOps) (tok : String) (dataShape : List Nat) (units : String)
    (dims : Option (List DimArg)) (names dunits : Option (List String)) (lab : LabelArg) (a : ArrayVal)
    (h : mkArray ops tok dataShape units dims names dunits lab = .ok a) (hplain : PlainDims ops a)
    (hnolabel : a.isStack = false → ∀ n, n + 1 = a.rank → a.dimNames.getD n "" ≠ "_labels_") :
    ∃ b, ArrayVal.fromBody ops a.dataShape (a.toBody ops) = .ok b ∧
      b.dataTok = a.dataTok ∧ b.dataShape = a.dataShape ∧ b.units = a.units ∧ b.isStack = a.isStack ∧
      b.labels = a.labels ∧ b.dimUnits = a.dimUnits ∧ b.dimNames = a.dimNames ∧
      ∀ n, n < a.rank → (b.dims.getD n [] = a.dims.getD n [] ∨ vecEq ops (a.dims.getD n []) (b.dims.getD n []) = true) := by
  obtain ⟨h1, h2, h3, h4⟩ := C02_ctor_meets_hypotheses ops tok dataShape units dims names dunits lab a h
  exact C02_roundtrip ops a h1 h2 hplain h3 h4 hnolabel

end EmdProps
