/-
C18 — A save that fails does not damage what the file already held.

What is proved, and at which granularity.  A failing whole-root APPEND, at the granularity of nodes, has written the
runtime tree only up to some point: the state of the file is what a COMPLETED append of a pruned runtime tree R' leaves
(R' = R with the not-yet-reached nodes dropped).  `Pruned` is that relation; `C18_pruned_wf` and `C18_pruned_compat` show
that every pruned tree inherits well-formedness and the common-name-space condition, so C09's refinement theorem applies
to EVERY failure point: `C18_append_every_point` — whatever prefix of the work was done, every node that was in the file
is still at its path with exactly the content it had (append mode), other trees and the header are untouched
(`C09_other_roots`), and the result is again the encoding of a well-formed tree, so no scratch group exists.
A half-written NEW node sits under a name that was free (`createIn` refuses names that resolve), below its parent, and
cannot be on the path of any pre-existing node.  Finer granularity — the individual h5py mutations (create group /
dataset, set / delete attribute, delete, move, link, dataset write): EmdModel/Mutations.lean gives them a semantics on the
store; `C18_mutation_step` / `C18_every_interruption` (EmdProofs/MutFrame.lean): after ANY prefix of a sequence of
ADDITIVE mutations every object the file held is still at its path with the same attributes and value.  The check records
the mutation sequence the real code performs (every generated append, every injected failure incl. the writer's cleanup),
replays it in the model (the model's file must be the real file, every mutation executable) and evaluates `additive`.
Append-over is not failure-atomic for the nodes it replaces: known finding C18-K1; `C18_appendover_counterexample`
exhibits it in the model's own terms (the replace step is delete-then-write).
-/
import EmdProps.C10
import EmdProofs.MutFrame

set_option linter.unusedSimpArgs false

namespace EmdProps
open EmdModel

mutual
/-- `Pruned r' r`: r' is r with some nodes (and their branches) not yet written -/
inductive Pruned : Tree → Tree → Prop
  | mk (i : NodeInfo) (ks' ks : List Tree) : PrunedKids ks' ks → Pruned (.mk i ks') (.mk i ks)
inductive PrunedKids : List Tree → List Tree → Prop
  | nil (ks : List Tree) : PrunedKids [] ks
  | keep (t' t : Tree) (ks' ks : List Tree) : Pruned t' t → PrunedKids ks' ks → PrunedKids (t' :: ks') (t :: ks)
  | drop (t : Tree) (ks' ks : List Tree) : PrunedKids ks' ks → PrunedKids ks' (t :: ks)
end

theorem pruned_info {t' t : Tree} (h : Pruned t' t) : t'.info = t.info := by cases h; rfl

theorem prunedKids_names : ∀ {ks' ks : List Tree}, PrunedKids ks' ks → ∀ n, n ∈ names ks' → n ∈ names ks
  | _, _, .nil _, n, hn => by simp [names] at hn
  | _, _, .keep t' t ks' ks ht hk, n, hn => by
    simp only [names, List.map_cons, List.mem_cons] at hn ⊢
    cases hn with
    | inl e => left; rw [e]; simp [Tree.name, pruned_info ht]
    | inr e => right; exact prunedKids_names hk n e
  | _, _, .drop t ks' ks hk, n, hn => by
    simp only [names, List.map_cons, List.mem_cons]
    right; exact prunedKids_names hk n hn

mutual
/-- every pruned tree of a well-formed tree is well-formed -/
theorem C18_pruned_wf : ∀ {t' t : Tree}, Pruned t' t → t.wf CT DT = true → t'.wf CT DT = true
  | _, _, .mk i ks' ks hk, h => by
    simp only [Tree.wf, Bool.and_eq_true] at h ⊢
    exact ⟨h.1, C18_prunedKids_wf hk (akeys i.body) h.2⟩
theorem C18_prunedKids_wf : ∀ {ks' ks : List Tree}, PrunedKids ks' ks → ∀ taken, kidsWF CT DT taken ks = true →
    kidsWF CT DT taken ks' = true
  | _, _, .nil _, _, _ => by simp [kidsWF]
  | _, _, .keep t' t ks' ks ht hk, taken, h => by
    simp only [kidsWF, Bool.and_eq_true] at h ⊢
    have hn : t'.name = t.name := by simp [Tree.name, pruned_info ht]
    rw [hn, pruned_info ht]
    exact ⟨⟨⟨h.1.1.1, h.1.1.2⟩, C18_pruned_wf ht h.1.2⟩, C18_prunedKids_wf hk _ h.2⟩
  | _, _, .drop t ks' ks hk, taken, h => by
    simp only [kidsWF, Bool.and_eq_true] at h
    exact C18_prunedKids_wf hk taken (kidsWF_mono ks (t.name :: taken) taken (fun n hn => List.mem_cons_of_mem _ hn) h.2)
end

mutual
/-- …and inherits the common-name-space condition with the file tree (in APPEND mode) -/
theorem C18_pruned_compatOne : ∀ {d' d : Tree}, Pruned d' d → ∀ (i : NodeInfo) (fk : List Tree) (avoid avoid' : List String),
    compatOne false i fk avoid d = true → compatOne false i fk avoid' d' = true
  | _, _, .mk di ks' ks hk, i, fk, avoid, avoid', h => by
    simp only [compatOne, Bool.and_eq_true, Bool.not_false, Bool.true_or, Bool.true_and] at h ⊢
    refine ⟨h.1, ?_⟩
    cases hf : findKid di.name fk with
    | none => rfl
    | some f =>
      have h2 := h.2
      simp only [hf, Bool.false_eq_true, if_false] at h2 ⊢
      exact C18_pruned_compatKids hk f.info f.kids _ _ h2
theorem C18_pruned_compatKids : ∀ {ks' ks : List Tree}, PrunedKids ks' ks → ∀ (i : NodeInfo) (fk : List Tree)
    (avoid avoid' : List String), compatKids false i fk avoid ks = true → compatKids false i fk avoid' ks' = true
  | _, _, .nil _, _, _, _, _, _ => by simp [compatKids]
  | _, _, .keep t' t ks' ks ht hk, i, fk, avoid, avoid', h => by
    simp only [compatKids, Bool.and_eq_true] at h ⊢
    exact ⟨C18_pruned_compatOne ht i fk avoid avoid' h.1, C18_pruned_compatKids hk i fk avoid avoid' h.2⟩
  | _, _, .drop t ks' ks hk, i, fk, avoid, avoid', h => by
    simp only [compatKids, Bool.and_eq_true] at h
    exact C18_pruned_compatKids hk i fk avoid avoid' h.2
end

/-- C18, append mode, every node-granular failure point: whatever part R' of the runtime tree had been written when the
    save failed, the root group is the encoding of a well-formed tree in which every node the file held is still at its
    path with the content it had; nothing else in the file is touched (C09_other_roots) -/
theorem C18_append_every_point (i : NodeInfo) (fk rk rk' : List Tree) (takenR : List String)
    (hF : (Tree.mk i fk).wf CT DT = true) (hR : kidsWF CT DT takenR rk = true)
    (hc : compatKids false i fk (akeys i.body ++ names fk ++ names rk) rk = true)
    (hp : PrunedKids rk' rk) :
    ∃ fk', (Tree.mk i fk').wf CT DT = true ∧
      appendKids DT false (taggedKeys (encode (.mk i fk))) (encode (.mk i fk)) rk' = .ok (encode (.mk i fk')) ∧
      ∀ n p x, cK fk n p = some x → cK fk' n p = some x := by
  have hR' := C18_prunedKids_wf hp takenR hR
  have hc' := C18_pruned_compatKids hp i fk _ (akeys i.body ++ names fk ++ names rk') hc
  obtain ⟨fk', h1, h2, _, _, h5⟩ := appendKids_spec (ct := CT) (dt := DT) false rk' i fk (taggedKeys (encode (.mk i fk)))
    (akeys i.body ++ names fk ++ names rk') takenR hF hR' hc'
    (fun m hm => by
      simp only [List.mem_append]
      cases hm with
      | inl h => exact Or.inl (Or.inl h)
      | inr h => exact Or.inl (Or.inr h))
    (fun m hm => by simp only [List.mem_append]; exact Or.inr hm)
    (fun d' hd' => by
      simp only [encode]
      exact taggedKeys_contains _ _ _ _ (compatKids_not_body false i fk _ rk' hc' d' hd'))
  refine ⟨fk', h1, h2, fun n p x hx => ?_⟩
  obtain ⟨y, hy, hyx, _⟩ := C09_existing_kept false fk rk' fk' h5 n p x hx
  rw [hy, hyx rfl]

/-- a node being written for the first time goes under a name that was free: it cannot shadow or replace anything -/
theorem C18_new_node_fresh (g g' : Obj) (i : NodeInfo) (h : writeSingleNode g i = .ok g') :
    alookup i.name g.kids = none ∧ ∀ other, other ≠ i.name → alookup other g'.kids = alookup other g.kids := by
  have hfr := createIn_frame g g' i.name (nodeGroup i) h
  refine ⟨?_, hfr.2⟩
  unfold writeSingleNode createIn at h
  split at h
  · cases h
  · split at h
    · cases h
    · split at h
      · cases h
      · next hn =>
        cases hl : alookup i.name g.kids with
        | none => rfl
        | some v => simp [hl] at hn

/-- append-over replaces a node by delete-then-write: between the two steps the node is gone (known finding C18-K1) -/
theorem C18_appendover_counterexample :
    let parent : Obj := .group [] [("a", .group [("emd_group_type", .str "node"), ("python_class", .str "Node")] [])]
    -- the state after the first half of `_overwrite_single_node` (old group moved to the scratch name)
    let parked : Obj := .group [] [("_tmp_a", .group [("emd_group_type", .str "node"), ("python_class", .str "Node")] [])]
    (alookup "a" parent.kids).isSome = true ∧ (alookup "a" parked.kids).isSome = false ∧
      (alookup "_tmp_a" parked.kids).isSome = true := by decide

-- non-vacuity: the C09 example runtime tree written only as far as its first node `a` (without `a/new`)
example : PrunedKids [.mk { name := "a", cls := "Node", gtype := "node", body := [] } []] exR.kids :=
  .keep _ _ _ _ (.mk _ _ _ (.nil _)) (.nil _)

/-! ## The granularity of single HDF5 mutations -/

/-- C18, one mutation: a mutation that creates something, or that changes / removes only objects that were not in the file
    `f0` the save started from, keeps every object `f0` held — at its path, with the same attributes and (datasets) the
    same value -/
theorem C18_mutation_step (f0 f f' : Obj) (m : Mut) (hk : Kept f0 f) (ha : additive f0 m = true)
    (h : applyMut f m = some f') : Kept f0 f' := Kept_applyMut f0 f f' m hk ha h

/-- C18, every interruption point: after ANY prefix of a sequence of additive mutations (a mutation that raises changes
    nothing and the sequence goes on, e.g. with the writer's cleanup) the file holds everything it held.  The check records
    the mutation sequence the real code performs for every generated append and every injected failure, replays it with
    `replay` (the model's file must equal the real file) and evaluates `additive` on every element: in plain append mode
    all of them are additive. -/
theorem C18_every_interruption (f0 : Obj) (ms : List Mut) (k : Nat) (ha : ∀ m ∈ ms, additive f0 m = true) :
    Kept f0 (replay f0 f0 (ms.take k)).1 :=
  Kept_replay f0 (ms.take k) f0 (Kept_refl f0) (fun m hm => ha m (List.mem_of_mem_take hm))

/-- what `Kept` says, spelled out for one pre-existing dataset: it is still there with its attributes and its value -/
theorem C18_dataset_kept (f0 f : Obj) (hk : Kept f0 f) (p : List String) (a : Attrs) (v : DVal)
    (h : f0.at p = some (.dataset a v)) : f.at p = some (.dataset a v) := by
  obtain ⟨o, ho, he⟩ := hk p _ h
  cases o with
  | group b ks => simp [shallowEq] at he
  | dataset b w => simp only [shallowEq] at he; rw [ho, he.1, he.2]

-- non-vacuity: a file with one tree; an append creating a group with tags and a dataset, interrupted anywhere, then a
-- cleanup deleting the half-written group: all additive; the append-over step `move` of an existing node is not
def exFile0 : Obj := .group [("emd_group_type", .str "file")]
  [("r", .group [("emd_group_type", .str "root")] [("a", .group [("emd_group_type", .str "node")] [("data", .dataset [] (.tok "T"))])])]
def exTrace : List Mut :=
  [.mkGroup ["r", "a"] "new", .setAttr ["r", "a", "new"] "emd_group_type" (.str "array"),
   .mkDataset ["r", "a", "new"] "data" (.tok "U"), .setAttr ["r", "a", "new", "data"] "units" (.str "nm"),
   .delete ["r", "a"] "new"]
example : exTrace.all (additive exFile0) = true ∧ (replay exFile0 exFile0 exTrace).2.all (·.2) = true := by decide
example : ((replay exFile0 exFile0 (exTrace.take 4)).1.at ["r", "a", "new", "data"]).isSome = true ∧
    ((replay exFile0 exFile0 exTrace).1.at ["r", "a", "new"]).isSome = false := by decide
example : additive exFile0 (.move ["r"] "a" "_tmp_a") = false ∧ additive exFile0 (.setAttr ["r", "a"] "python_class" (.str "X")) = false := by decide

end EmdProps
