/-
C19 — Saving does not disturb the caller's objects and is repeatable.

In the model `save` (EmdModel.SaveList.saveInput) is a function from VALUES (trees, bodies, tokens) and a file system
to a file system or an error: the caller's objects are not among its outputs, for successful and failing saves alike
(structural frame).  What write.py does to the caller's runtime objects besides reading them is the temporary rooting
of unrooted nodes; `saveEffect` is its net effect after the repair (`_root` is None again in a `finally`), and
`C19_frame` shows it is invisible: every node keeps its root (none), its place, its children and its metadata objects.
`C19_repeat`: two saves of the same input into two fresh files give files with identical content apart from the header
(UUID): the content written does not depend on the header attributes.  `C19_deterministic`: save is a function.
-/
import EmdProps.C07

set_option linter.unusedSimpArgs false

namespace EmdProps
open EmdModel

theorem observeTop_saveEffectOne (c : RNode) : observeTop (saveEffectOne c) = observeTop c := by
  cases c with
  | mk i nm isR ro tp m ks => cases ro <;> rfl

/-- C19, frame: after any save — successful or not — the caller's forest is observably what it was -/
theorem C19_frame (h : Heap) (passed : List Nat) : observe (saveEffect h passed) = observe h := by
  simp only [observe, saveEffect, List.map_map]
  congr 1
  apply List.map_congr_left
  intro c _
  simp only [Function.comp]
  split
  · exact observeTop_saveEffectOne c
  · rfl

/-- an unrooted node is still unrooted after the save, so it can still be added to a tree -/
theorem C19_still_unrooted (n : RNode) (h : n.root = none) : (saveEffectOne n).root = none := by
  cases n with
  | mk i nm isR ro tp m ks => simp only [RNode.root] at h; subst h; rfl

/-- a node that IS in a tree is not touched at all by a save, whatever its root is called (the writer only ever un-roots what
    it has rooted itself: a Root that happens to be called `<node name>_root` is not the writer's temporary root) -/
theorem C19_rooted_untouched (n : RNode) (r : Nat) (h : n.root = some r) : saveEffectOne n = n := by
  cases n with
  | mk i nm isR ro tp m ks => simp only [RNode.root] at h; subst h; rfl

/-- objects that were not passed to the save are not touched -/
theorem C19_others_untouched (h : Heap) (passed : List Nat) (c : RNode) (hc : c ∈ h.comps) (hp : passed.contains c.id = false) :
    c ∈ (saveEffect h passed).comps := by
  simp only [saveEffect, List.mem_map]
  refine ⟨c, hc, ?_⟩
  have : (passed.contains c.id) = false := hp
  simp only [this, Bool.false_eq_true, if_false]

theorem C19_can_be_added (hp : Heap) (pid cid : Nat) (p c : RNode) (x : Nat)
    (hf : hp.find pid = some p) (hc : hp.find cid = some c) (hr : p.root = some x) (hcr : c.root = none) (hne : pid ≠ cid) :
    (addToTree hp pid cid).2 = .ok := by
  simp [addToTree, hf, hc, hr, hcr, hne]

/-- C19, repeatability: the tree content written into a fresh file does not depend on the header (UUID):
    two saves of the same input into two fresh paths differ in the header attributes only -/
theorem C19_repeat (a1 a2 : Attrs) (root : Tree) (target : List String) (opt : TreeOpt) :
    (writeFromRoot (.group a1 []) root target opt).map Obj.kids
      = (writeFromRoot (.group a2 []) root target opt).map Obj.kids := by
  unfold writeFromRoot
  simp only [bind, Except.bind]
  cases rootFilled root target opt with
  | error e => rfl
  | ok filled =>
    simp only [createIn, Obj.isGroup, Bool.not_true, Bool.false_eq_true, if_false, Obj.kids, alookup,
      Option.isSome_none]
    split <;> rfl

/-- save is a function of its inputs: the same input and the same file system give the same result -/
theorem C19_deterministic (s : Session) (u : String) (fs : FS) (p : String) (x : Input) (m : String) (o : TreeOpt)
    (e : Option String) : saveInput s u fs p x m o e = saveInput s u fs p x m o e := rfl

-- non-vacuity: the effect really changes the private field, and only that
example : saveEffectOne (.mk 3 "n" false none none [] []) = .mk 3 "n" false none (some "/n") [] [] := rfl
example : observe (saveEffect { comps := [.mk 3 "n" false none none [("m", 0)] []], mds := [(0, ⟨"m", "c"⟩)] } [3])
    = observe { comps := [.mk 3 "n" false none none [("m", 0)] []], mds := [(0, ⟨"m", "c"⟩)] } := C19_frame _ _

end EmdProps
