/-
C01 — Tree round-trip: every node comes back at its path with its class.

Statement proved (for ALL well-formed rooted trees, any depth/branching/classes/names):
saving the tree into a fresh file succeeds; the file is the header plus exactly one top-level group,
`encode t`, in which the node at tree path p is the group at /<root>/<p> carrying the node's group type and
class tags; and reading the file back returns *exactly* the tree that was saved (same paths, same classes,
same names, same bodies, same child order).

`Tree.rootedWF` (EmdProofs/TreeWF.lean) is the explicit domain: valid link names (non-empty, no '/', not '.'),
sibling names distinct, classes known to the reader, and — forced by the proof, see `C01_counterexample_collision`
— no child named like an object of its parent's own body (e.g. a child called `data` under an Array).
-/
import EmdProofs.Roundtrip

set_option linter.unusedSimpArgs false

namespace EmdProps
open EmdModel

abbrev CT := builtinClasses
abbrev DT := EmdGen.dataGroupTypes

/-- the file a whole-tree save into a fresh path produces -/
def fileOf (sess : Session) (uuid : String) (t : Tree) : Obj :=
  .group (headerAttrs sess uuid) [(t.name, encode t)]

theorem classify_w : classifyMode (effectiveMode "w" none) = some .write := by decide

theorem writeFromRoot_whole (f0attrs : Attrs) (t : Tree) (h : t.rootedWF CT DT = true) :
    writeFromRoot (.group f0attrs []) t [] .yes = .ok (.group f0attrs [(t.name, encode t)]) := by
  simp only [Tree.rootedWF, Bool.and_eq_true, beq_iff_eq] at h
  obtain ⟨⟨hwf, _⟩, hgt⟩ := h
  have hv : validName t.name = true := infoWF_validName (Tree.wf_info hwf)
  have hw := writeNodeFull_ok (ct := CT) (dt := DT) t hwf
  cases t with
  | mk i k =>
    simp only [Tree.info] at hgt
    have hroot : ({ i with gtype := "root" } : NodeInfo) = i := by cases i; simp_all
    simp only [writeNodeFull] at hw
    simp only [Tree.name, Tree.info] at hv
    unfold writeFromRoot rootFilled
    simp only [Tree.info, hroot, writeTree, Tree.kids, hw, bind, Except.bind, Tree.name]
    rw [createIn_fresh _ _ _ _ hv (by simp [alookup])]
    simp

/-- saving a well-formed rooted tree in write mode to a fresh path succeeds and writes `fileOf` -/
theorem C01_save (sess : Session) (uuid path : String) (fs : FS) (t : Tree)
    (hfree : fsLookup fs path = none)
    (h : t.rootedWF CT DT = true) :
    save sess uuid fs path (.rooted t []) "w" .yes none = .ok (fsSet fs path (.h5 (fileOf sess uuid t))) := by
  simp only [save, classify_w, saveClass, hfree, Option.isSome_none, Bool.false_eq_true, if_false,
    Src.resolve, saveNewFile, writeFromRoot_whole _ t h, fileOf, bind, Except.bind, pure, Except.pure]

/-- reading the whole tree back (emdpath = the root, tree=None) returns exactly the saved tree -/
theorem C01_read (sess : Session) (uuid : String) (t : Tree) (h : t.rootedWF CT DT = true) :
    readEMDAt CT DT (fileOf sess uuid t) t.name [] .below = .ok (.node t []) := by
  simp only [Tree.rootedWF, Bool.and_eq_true, beq_iff_eq] at h
  obtain ⟨⟨hwf, hcls⟩, hgt⟩ := h
  cases t with
  | mk i kids =>
    simp only [Tree.wf, Bool.and_eq_true] at hwf
    obtain ⟨hi, hk⟩ := hwf
    simp only [infoWF, Bool.and_eq_true, beq_iff_eq, List.contains_eq_mem, decide_eq_true_eq] at hi
    obtain ⟨⟨⟨_, hct⟩, hgts⟩, hb⟩ := hi
    simp only [Tree.info] at hcls hgt
    have hbody := bodyOf_encode (ct := CT) (dt := DT) (nodeAttrs i) i.body kids (akeys i.body) hb hk
    have hpop : populateKids CT DT (i.body ++ encodeKids kids) = .ok kids := by
      rw [populateKids_body _ _ hb]
      exact populateKids_encode kids (akeys i.body) hk
    have hinfo : ({ name := i.name, cls := "Root", gtype := "root", body := i.body } : NodeInfo) = i := by
      cases i; simp_all
    simp only [readEMDAt, fileOf, Obj.kids, alookup, Tree.name, Tree.info, descend, readRoot, encode,
      gtype_nodeAttrs, List.isEmpty_nil, bind, Except.bind, pure, Except.pure]
    simp [hgts, hbody, hpop, hinfo]

/-- C01 (main statement): save then read is the identity on well-formed rooted trees -/
theorem C01_roundtrip (sess : Session) (uuid path : String) (t : Tree) (h : t.rootedWF CT DT = true) :
    ∃ f, save sess uuid [] path (.rooted t []) "w" .yes none = .ok [(path, .h5 f)] ∧
         rootGroups f = [t.name] ∧
         readEMDAt CT DT f t.name [] .below = .ok (.node t []) := by
  refine ⟨fileOf sess uuid t, ?_, ?_, C01_read sess uuid t h⟩
  · have := C01_save sess uuid path [] t (by simp [fsLookup, alookup]) h
    simpa [fsSet, aset, alookup] using this
  · simp only [Tree.rootedWF, Bool.and_eq_true, beq_iff_eq] at h
    cases t with
    | mk i kids =>
      have hg : i.gtype = "root" := h.2
      simp only [rootGroups, fileOf, Obj.kids, encode, List.filter_cons, List.filter_nil, gtype_nodeAttrs, hg,
        Tree.name, Tree.info]
      simp

theorem alookup_encodeKids (n : String) : ∀ (kids : List Tree) (c : Tree), findKid n kids = some c →
    alookup n (encodeKids kids) = some (encode c)
  | [], c, h => by simp [findKid] at h
  | t :: ts, c, h => by
    simp only [findKid] at h
    simp only [encodeKids, alookup]
    split at h
    · next heq => simp only [heq, if_true]; cases h; rfl
    · next hne => simp only [hne, if_false]; exact alookup_encodeKids n ts c h

theorem kidsWF_findKid (n : String) : ∀ (kids : List Tree) (taken : List String) (c : Tree),
    kidsWF CT DT taken kids = true → findKid n kids = some c →
    c.wf CT DT = true ∧ n ∉ taken ∧ DT.contains c.info.gtype = true
  | [], _, c, _, h => by simp [findKid] at h
  | t :: ts, taken, c, hw, h => by
    simp only [kidsWF, Bool.and_eq_true, Bool.not_eq_true', List.contains_eq_mem, decide_eq_false_iff_not] at hw
    obtain ⟨⟨⟨hf, hd⟩, hwf⟩, hr⟩ := hw
    simp only [findKid] at h
    split at h
    · next heq => cases h; exact ⟨hwf, heq ▸ hf, by simpa using hd⟩
    · have := kidsWF_findKid n ts (t.name :: taken) c hr h
      exact ⟨this.1, fun hm => this.2.1 (List.mem_cons_of_mem _ hm), this.2.2⟩

/-- in the file, the node at tree path `p` is the group at `p` below the tree's own group, i.e. at
    /<root name>/<p>, and it carries the node's group type and class -/
theorem C01_node_at : ∀ (p : List String) (t d : Tree), t.wf CT DT = true → t.at p = some d →
    (encode t).at p = some (encode d)
  | [], t, d, _, h => by simp only [Tree.at] at h; cases h; simp [Obj.at]
  | n :: q, .mk i kids, d, hw, h => by
    simp only [Tree.wf, Bool.and_eq_true] at hw
    simp only [Tree.at, Tree.kids] at h
    cases hf : findKid n kids with
    | none => simp [hf] at h
    | some c =>
      simp only [hf] at h
      obtain ⟨hcw, hnt, _⟩ := kidsWF_findKid n kids (akeys i.body) c hw.2 hf
      have hnb : alookup n i.body = none := alookup_none_of_not_mem n i.body hnt
      simp only [encode, Obj.at, Obj.kids, alookup_append, hnb, alookup_encodeKids n kids c hf]
      exact C01_node_at q c d hcw h

theorem C01_tags (d : Tree) : (encode d).gtype = some d.info.gtype ∧ (encode d).pyClass = some d.info.cls := by
  cases d with
  | mk i k => simp [encode, Tree.info]

/-- whole-file form: the node at tree path p of the saved tree is the group /<root>/<p> of the file -/
theorem C01_file_path (sess : Session) (uuid : String) (t d : Tree) (p : List String)
    (h : t.rootedWF CT DT = true) (hd : t.at p = some d) :
    (fileOf sess uuid t).at (t.name :: p) = some (encode d) := by
  simp only [Tree.rootedWF, Bool.and_eq_true] at h
  simp only [fileOf, Obj.at, Obj.kids, alookup, if_true]
  exact C01_node_at p t d h.1.1 hd

-- ---------------------------------------------------------------------------------------------
-- non-vacuity: a concrete depth-3 tree with all four classes and non-ASCII names is well-formed
-- ---------------------------------------------------------------------------------------------

def exBody : List (String × Obj) := [("data", .dataset [("units", .str "nm")] (.tok "f8|[2]|abc")),
  ("dim0", .dataset [("name", .str "dim0"), ("units", .str "pixels")] (.nums [.int 0, .int 1]))]

def exTree : Tree :=
  .mk { name := "wurzel é", cls := "Root", gtype := "root", body := [("metadatabundle", .group bundleAttrs [])] }
    [ .mk { name := "a b", cls := "Array", gtype := "array", body := exBody }
        [ .mk { name := "数据", cls := "PointList", gtype := "pointlist", body := [] }
            [ .mk { name := "leaf", cls := "Node", gtype := "node", body := [] } [] ],
          .mk { name := "pla", cls := "PointListArray", gtype := "pointlistarray", body := [] } [] ],
      .mk { name := "n", cls := "Node", gtype := "node", body := [] } [] ]

example : exTree.rootedWF CT DT = true := by decide

/-- the hypothesis the proof forces: a child named like an object of its parent's body makes the real
    writer (and the model) raise — the tree is valid by the property's naming rules, so this is a finding -/
def exCollision : Tree :=
  .mk { name := "r", cls := "Root", gtype := "root", body := [] }
    [ .mk { name := "a", cls := "Array", gtype := "array", body := exBody }
        [ .mk { name := "data", cls := "Node", gtype := "node", body := [] } [] ] ]

theorem C01_counterexample_collision :
    (match save {} "u0" [] "p" (.rooted exCollision []) "w" .yes none with
     | .ok _ => false | .error _ => true) = true := by decide

end EmdProps
