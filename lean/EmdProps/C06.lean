/-
C06 — Nodes are re-created as the class that wrote them, incl. downstream subclasses.

The registry model is `_get_class`'s lookup table: the built-in classes, then every class exposed in the namespace of a
`sys.modules` entry whose `_emd_hook is True`, walking hooked sub-modules to depth < maxdepth (constant REGENERATED from
the source: `C06_maxdepth`).  For namespaces of ANY size and nesting:
  C06_absent      — a name no class is exposed under is NOT found: the lookup fails (no substitution of another class);
  C06_unhooked    — a top-level module that does not opt in (hook absent / False / 1-but-not-True) contributes nothing;
  C06_sub_unhooked / C06_too_deep — an un-hooked sub-module, or one at the depth limit, is not searched;
  C06_exposed     — a class exposed at the top level of a hooked module under a name no later entry re-binds is found
                    (`C06_found_last`: the last binding of a name wins, which is why class names must be distinct);
  C06_found_nested — EVERY placement: the walk is exactly the sequence of its bindings (`walkMembers_eq`, `classDict_eq`), so
                    with distinct class names every class the documented rule reaches — top level of a module with
                    `_emd_hook is True`, or hooked sub-modules nested up to the documented depth (`C06_reaches_*`) — is
                    what the lookup returns; five deep is in, six deep is out (examples);
  C06_custom_not_child — a group tagged `custom_<type>` is never a tree child (it belongs to its Custom node's body),
                    for all five custom types of the regenerated vocabulary.
-/
import EmdProofs.Roundtrip
import EmdProps.C13

set_option linter.unusedSimpArgs false

namespace EmdProps
open EmdModel

/-- the documented search depth is what the source says -/
theorem C06_maxdepth : EmdGen.walkMaxDepth = 6 := by decide

-- does any class get bound to `name` anywhere in these members (over-approximation: ignores hooks and depth)
mutual
def bindsName (name : String) : List (String × PyMember) → Bool
  | [] => false
  | (k, m) :: rest => bindsMember name k m || bindsName name rest
def bindsMember (name : String) (k : String) : PyMember → Bool
  | .cls _ isEmd => isEmd && k == name
  | .mod _ members => bindsName name members
  | .other => false
end

mutual
/-- walking a namespace that never binds `name` leaves the entry for `name` alone -/
theorem walkMembers_frame (maxdepth : Nat) (name : String) : ∀ (ms : List (String × PyMember)) (depth : Nat) (dic : ClassDict),
    bindsName name ms = false → alookup name (walkMembers maxdepth depth dic ms) = alookup name dic
  | [], _, _, _ => rfl
  | (k, m) :: rest, depth, dic, h => by
    simp only [bindsName, Bool.or_eq_false_iff] at h
    simp only [walkMembers]
    rw [walkMembers_frame maxdepth name rest depth _ h.2, walkMember_frame maxdepth name k m depth dic h.1]
theorem walkMember_frame (maxdepth : Nat) (name : String) (k : String) : ∀ (m : PyMember) (depth : Nat) (dic : ClassDict),
    bindsMember name k m = false → alookup name (walkMember maxdepth depth k dic m) = alookup name dic
  | .cls id isEmd, _, dic, h => by
    simp only [bindsMember, Bool.and_eq_false_iff, beq_eq_false_iff_ne, ne_eq] at h
    simp only [walkMember]
    split
    · next he =>
      cases h with
      | inl h1 => simp [he] at h1
      | inr h1 => exact alookup_aset_other k name id dic (fun e => h1 e.symm)
    · rfl
  | .mod hook members, depth, dic, h => by
    simp only [bindsMember] at h
    simp only [walkMember]
    split
    · exact walkMembers_frame maxdepth name members (depth + 1) dic h
    · rfl
  | .other, _, _, _ => rfl
end

/-- which `sys.modules` entries are searched at all -/
def searched : PyMember → Bool
  | .mod .yes _ => true
  | _ => false

theorem classDict_frame (maxdepth : Nat) (name : String) : ∀ (mods : List (String × PyMember)) (dic : ClassDict),
    (∀ nm ∈ mods, searched nm.2 = true → ∀ ms h, nm.2 = .mod h ms → bindsName name ms = false) →
    alookup name (mods.foldl (classStep maxdepth) dic) = alookup name dic
  | [], _, _ => rfl
  | nm :: rest, dic, h => by
    simp only [List.foldl_cons]
    rw [classDict_frame maxdepth name rest _ (fun x hx => h x (List.mem_cons_of_mem _ hx))]
    obtain ⟨k, m⟩ := nm
    cases m with
    | cls id e => rfl
    | other => rfl
    | mod hook ms =>
      cases hook with
      | yes =>
        simp only [classStep]
        split
        · exact walkMembers_frame maxdepth name ms 0 dic (h (k, .mod .yes ms) (by simp) rfl ms .yes rfl)
        · rfl
      | absent => rfl
      | one => rfl
      | other => rfl

/-- C06, absent: if no searched module binds the name and it is not a built-in, the lookup FAILS — no other class is
    substituted -/
theorem C06_absent (mods : List (String × PyMember)) (name : String)
    (hb : alookup name builtinDict = none)
    (h : ∀ nm ∈ mods, searched nm.2 = true → ∀ ms hk, nm.2 = .mod hk ms → bindsName name ms = false) :
    getClass EmdGen.walkMaxDepth mods name = none := by
  unfold getClass classDict
  rw [classDict_frame EmdGen.walkMaxDepth name mods builtinDict h, hb]

/-- built-in classes are found whenever no searched module re-binds their name -/
theorem C06_builtin (mods : List (String × PyMember)) (name : String) (id : Nat)
    (hb : alookup name builtinDict = some id)
    (h : ∀ nm ∈ mods, searched nm.2 = true → ∀ ms hk, nm.2 = .mod hk ms → bindsName name ms = false) :
    getClass EmdGen.walkMaxDepth mods name = some id := by
  unfold getClass classDict
  rw [classDict_frame EmdGen.walkMaxDepth name mods builtinDict h, hb]

/-- C06, un-hooked modules are not searched: whatever they contain, they change nothing -/
theorem C06_unhooked (maxdepth : Nat) (mods : List (String × PyMember)) (k : String) (m : PyMember)
    (h : searched m = false) (dic : ClassDict) :
    ((k, m) :: mods).foldl (classStep maxdepth) dic
    = mods.foldl (classStep maxdepth) dic := by
  simp only [List.foldl_cons]
  congr 1
  cases m with
  | cls id e => rfl
  | other => rfl
  | mod hook ms =>
    cases hook with
    | yes => simp [searched] at h
    | absent => rfl
    | one => rfl
    | other => rfl

/-- an un-hooked sub-module is not searched -/
theorem C06_sub_unhooked (maxdepth depth : Nat) (k : String) (dic : ClassDict) (hook : Hook) (ms : List (String × PyMember))
    (h : hook = .absent ∨ hook = .other) : walkMember maxdepth depth k dic (.mod hook ms) = dic := by
  cases h with
  | inl e => subst e; simp [walkMember]
  | inr e => subst e; simp [walkMember]

/-- a sub-module at the depth limit is not searched: with maxdepth 6, modules nested 6 deep are out, 5 deep are in -/
theorem C06_too_deep (maxdepth depth : Nat) (k : String) (dic : ClassDict) (hook : Hook) (ms : List (String × PyMember))
    (h : maxdepth ≤ depth + 1) : walkMember maxdepth depth k dic (.mod hook ms) = dic := by
  have : ¬ (depth + 1 < maxdepth) := by omega
  simp [walkMember, this]

/-- the last binding of a name wins -/
theorem C06_found_last (maxdepth depth : Nat) (name : String) (id : Nat) (dic : ClassDict)
    (rest : List (String × PyMember)) (h : bindsName name rest = false) :
    alookup name (walkMembers maxdepth depth dic ((name, .cls id true) :: rest)) = some id := by
  simp only [walkMembers, walkMember, if_true]
  rw [walkMembers_frame maxdepth name rest depth _ h]
  exact alookup_aset_same name id dic

/-- C06, exposed: a class at the top level of the LAST searched module, under a name nothing after it re-binds -/
theorem C06_exposed (mods : List (String × PyMember)) (k name : String) (id : Nat)
    (before after : List (String × PyMember)) (h : bindsName name after = false) :
    getClass EmdGen.walkMaxDepth (mods ++ [(k, .mod .yes (before ++ (name, .cls id true) :: after))]) name = some id := by
  unfold getClass classDict
  simp only [List.foldl_append, List.foldl_cons, List.foldl_nil, classStep]
  have hd : 0 < EmdGen.walkMaxDepth := by decide
  simp only [hd, if_true]
  generalize (mods.foldl _ builtinDict) = dic
  have key : ∀ (bs : List (String × PyMember)) (d : ClassDict),
      alookup name (walkMembers EmdGen.walkMaxDepth 0 d (bs ++ (name, .cls id true) :: after)) = some id := by
    intro bs
    induction bs with
    | nil => intro d; exact C06_found_last _ _ name id d after h
    | cons b bs ih => intro d; obtain ⟨bk, bm⟩ := b; simp only [List.cons_append, walkMembers]; exact ih _
  exact key before dic

/-! ### every placement within the depth limit -/

def hooked (h : Hook) : Bool := h == .yes || h == .one

mutual
/-- the (name, class) bindings the walk makes, in the order it makes them: EMD classes of the namespace, and those of
    hooked sub-modules while the depth limit allows -/
def bindings (maxdepth depth : Nat) : List (String × PyMember) → List (String × Nat)
  | [] => []
  | (k, m) :: rest => memberBindings maxdepth depth k m ++ bindings maxdepth depth rest
def memberBindings (maxdepth depth : Nat) (k : String) : PyMember → List (String × Nat)
  | .cls id isEmd => if isEmd then [(k, id)] else []
  | .mod hook members => if hooked hook && depth + 1 < maxdepth then bindings maxdepth (depth + 1) members else []
  | .other => []
end

def asetAll (dic : ClassDict) (bs : List (String × Nat)) : ClassDict := bs.foldl (fun a kv => aset kv.1 kv.2 a) dic

theorem asetAll_append (dic : ClassDict) (a b : List (String × Nat)) : asetAll dic (a ++ b) = asetAll (asetAll dic a) b := by
  simp [asetAll, List.foldl_append]

mutual
/-- the walk is exactly the sequence of its bindings -/
theorem walkMembers_eq (maxdepth : Nat) : ∀ (ms : List (String × PyMember)) (depth : Nat) (dic : ClassDict),
    walkMembers maxdepth depth dic ms = asetAll dic (bindings maxdepth depth ms)
  | [], _, _ => rfl
  | (k, m) :: rest, depth, dic => by
    simp only [walkMembers, bindings, asetAll_append]
    rw [walkMember_eq maxdepth k m depth dic, walkMembers_eq maxdepth rest depth _]
theorem walkMember_eq (maxdepth : Nat) (k : String) : ∀ (m : PyMember) (depth : Nat) (dic : ClassDict),
    walkMember maxdepth depth k dic m = asetAll dic (memberBindings maxdepth depth k m)
  | .cls id isEmd, _, dic => by
    simp only [walkMember, memberBindings]
    split <;> simp [asetAll]
  | .mod hook members, depth, dic => by
    simp only [walkMember, memberBindings, hooked]
    by_cases hc : ((hook == Hook.yes || hook == Hook.one) && decide (depth + 1 < maxdepth)) = true
    · simp only [hc, if_true]
      exact walkMembers_eq maxdepth members (depth + 1) dic
    · simp only [hc, if_false, Bool.false_eq_true]
      rfl
  | .other, _, dic => by simp [walkMember, memberBindings, asetAll]
end

theorem alookup_asetAll_frame (n : String) : ∀ (bs : List (String × Nat)) (dic : ClassDict), n ∉ bs.map (·.1) →
    alookup n (asetAll dic bs) = alookup n dic
  | [], _, _ => rfl
  | (k, v) :: r, dic, h => by
    simp only [List.map_cons, List.mem_cons, not_or] at h
    simp only [asetAll, List.foldl_cons]
    have := alookup_asetAll_frame n r (aset k v dic) h.2
    simp only [asetAll] at this
    rw [this, alookup_aset_other k n v dic h.1]

/-- with distinct names every binding the walk makes is what the lookup returns -/
theorem alookup_asetAll_mem (n : String) (c : Nat) : ∀ (bs : List (String × Nat)) (dic : ClassDict), (bs.map (·.1)).Nodup →
    (n, c) ∈ bs → alookup n (asetAll dic bs) = some c
  | [], _, _, h => by cases h
  | (k, v) :: r, dic, hn, h => by
    simp only [List.map_cons, List.nodup_cons] at hn
    simp only [asetAll, List.foldl_cons]
    cases h with
    | head =>
      have := alookup_asetAll_frame n r (aset n c dic) hn.1
      simp only [asetAll] at this
      rw [this, alookup_aset_same]
    | tail _ h' =>
      have := alookup_asetAll_mem n c r (aset k v dic) hn.2 h'
      simpa [asetAll] using this

/-- all bindings made for `sys.modules` -/
def allBindings (maxdepth : Nat) : List (String × PyMember) → List (String × Nat)
  | [] => []
  | (_, .mod .yes ms) :: rest => (if 0 < maxdepth then bindings maxdepth 0 ms else []) ++ allBindings maxdepth rest
  | _ :: rest => allBindings maxdepth rest

theorem classDict_eq (maxdepth : Nat) : ∀ (mods : List (String × PyMember)) (dic : ClassDict),
    mods.foldl (classStep maxdepth) dic = asetAll dic (allBindings maxdepth mods)
  | [], _ => rfl
  | (k, m) :: rest, dic => by
    simp only [List.foldl_cons]
    rw [classDict_eq maxdepth rest]
    cases m with
    | cls id e => simp [classStep, allBindings]
    | other => simp [classStep, allBindings]
    | mod hk ms =>
      cases hk with
      | yes =>
        simp only [classStep, allBindings, asetAll_append]
        split
        · rw [walkMembers_eq]
        · simp [asetAll]
      | absent => simp [classStep, allBindings]
      | one => simp [classStep, allBindings]
      | other => simp [classStep, allBindings]

/-- C06, EVERY placement: a class that the documented rule reaches — exposed in a module with `_emd_hook is True`, or in a
    hooked sub-module nested at most to the documented depth — is what the lookup returns for its name, provided class
    names are distinct (among the searched bindings and the built-ins) -/
theorem C06_found_nested (mods : List (String × PyMember)) (name : String) (id : Nat)
    (hmem : (name, id) ∈ allBindings EmdGen.walkMaxDepth mods)
    (hnd : ((allBindings EmdGen.walkMaxDepth mods).map (·.1)).Nodup) :
    getClass EmdGen.walkMaxDepth mods name = some id := by
  unfold getClass classDict
  rw [classDict_eq]
  exact alookup_asetAll_mem name id _ builtinDict hnd hmem

/-- …and what the rule reaches: a binding of a hooked sub-module within the limit is a binding of the enclosing namespace -/
theorem C06_reaches_submodule (maxdepth depth : Nat) (k : String) (hook : Hook) (sub : List (String × PyMember))
    (before after : List (String × PyMember)) (x : String × Nat)
    (hh : hooked hook = true) (hd : depth + 1 < maxdepth) (hx : x ∈ bindings maxdepth (depth + 1) sub) :
    x ∈ bindings maxdepth depth (before ++ (k, .mod hook sub) :: after) := by
  induction before with
  | nil =>
    simp only [List.nil_append, bindings, memberBindings, hh, hd, decide_true, Bool.and_self, if_true, List.mem_append]
    exact Or.inl hx
  | cons b bs ih =>
    obtain ⟨bk, bm⟩ := b
    simp only [List.cons_append, bindings, List.mem_append]
    exact Or.inr ih

/-- …and a class exposed in a namespace is a binding of it -/
theorem C06_reaches_class (maxdepth depth : Nat) (name : String) (id : Nat) (before after : List (String × PyMember)) :
    (name, id) ∈ bindings maxdepth depth (before ++ (name, .cls id true) :: after) := by
  induction before with
  | nil => simp [bindings, memberBindings]
  | cons b bs ih =>
    obtain ⟨bk, bm⟩ := b
    simp only [List.cons_append, bindings, List.mem_append]
    exact Or.inr ih

-- a class five hooked sub-modules deep is reached, six deep is not (the documented depth)
def chainOf : Nat → List (String × PyMember)
  | 0 => [("Kdeep", .cls 42 true)]
  | n + 1 => [("sub", .mod .yes (chainOf n))]
example : allBindings EmdGen.walkMaxDepth [("top", .mod .yes (chainOf 5))] = [("Kdeep", 42)] := by decide
example : allBindings EmdGen.walkMaxDepth [("top", .mod .yes (chainOf 6))] = [] := by decide
example : getClass EmdGen.walkMaxDepth [("top", .mod .yes (chainOf 5))] "Kdeep" = some 42 :=
  C06_found_nested _ _ _ (by decide) (by decide)

/-- Custom attribute nodes are never tree children: no `custom_*` type is a data group type -/
theorem C06_custom_not_child :
    (EmdGen.customGroupTypes.all (fun t => !EmdGen.dataGroupTypes.contains t)) = true ∧
    EmdGen.customGroupTypes = EmdGen.dataGroupTypes.map (fun s => "custom_" ++ s) ∧
    (EmdGen.customGroupTypes.all (fun t => EmdGen.groupTypes.contains t)) = true := by decide

theorem C06_custom_is_body (a : Attrs) (k : List (String × Obj)) (t : String)
    (ht : EmdGen.customGroupTypes.contains t = true)
    (hg : alookup "emd_group_type" a = some (.str t)) : isDataKid EmdGen.dataGroupTypes (.group a k) = false := by
  have h := C06_custom_not_child.1
  rw [List.all_eq_true] at h
  have := h t (by simpa using ht)
  simp only [Bool.not_eq_true'] at this
  have hnot : ¬ t ∈ EmdGen.dataGroupTypes := by simpa using this
  simp [isDataKid, hasDataTag, Obj.gtype, Obj.attrs, hg, hnot]

theorem isCustomTagged_attrGroup (i : NodeInfo) : isCustomTagged (customAttrGroup i) = true := by
  simp only [customAttrGroup, nodeGroup, nodeAttrs, retagCustom, alookup, if_true, areplace, isCustomTagged]
  simp [String.toList_append]

/-- C06, node-valued attributes of a Custom object come back under their attribute names: of the body `Custom.to_h5` writes
    (`customBody`), the reader hook's dictionary (`_get_emd_attr_data`) has exactly the attribute names as keys, in attribute
    order — every attribute, whatever its class and whether its name looks private or not, and nothing else -/
theorem C06_custom_attrs_returned (own : List (String × Obj)) (attrs : List NodeInfo)
    (hown : own.all (fun kv => !isCustomTagged kv.2) = true) :
    attrDataKeys (customBody own attrs) = attrs.map (·.name) := by
  simp only [attrDataKeys, customBody, List.filter_append, List.map_append]
  have h1 : own.filter (fun kv => isCustomTagged kv.2) = [] := by
    rw [List.filter_eq_nil_iff]
    intro kv hkv
    have := (List.all_eq_true.mp hown) kv hkv
    simpa using this
  have h2 : ∀ (l : List NodeInfo), ((l.map (fun i => (i.name, customAttrGroup i))).filter (fun kv => isCustomTagged kv.2)).map (·.1)
      = l.map (·.name) := by
    intro l
    induction l with
    | nil => rfl
    | cons i is ih =>
      simp only [List.map_cons, List.filter_cons, isCustomTagged_attrGroup, if_true, List.map_cons, ih]
  rw [h1, h2]
  rfl

example : attrDataKeys (customBody [("metadatabundle", .group bundleAttrs [])]
    [⟨"first", "Image", "array", []⟩, ⟨"_hidden", "Node", "node", []⟩]) = ["first", "_hidden"] := by
  rw [C06_custom_attrs_returned _ _ (by decide)]; rfl

-- non-vacuity: a concrete registry with a hooked chain 5 deep (found) and 6 deep (not found), an un-hooked module, a 1-hook
def chain : Nat → PyMember
  | 0 => .mod .yes [("Deep", .cls 42 true)]
  | n + 1 => .mod .yes [("lvl", chain n)]

example : getClass EmdGen.walkMaxDepth [("m", chain 5)] "Deep" = some 42 := by decide
example : getClass EmdGen.walkMaxDepth [("m", chain 6)] "Deep" = none := by decide
example : getClass EmdGen.walkMaxDepth [("m", .mod .absent [("K", .cls 9 true)])] "K" = none := by decide
example : getClass EmdGen.walkMaxDepth [("m", .mod .one [("K", .cls 9 true)])] "K" = none := by decide
example : getClass EmdGen.walkMaxDepth [("m", .mod .yes [("s", .mod .one [("K", .cls 9 true)])])] "K" = some 9 := by decide
example : getClass EmdGen.walkMaxDepth [("m", .mod .yes [("K", .cls 9 false)])] "K" = none := by decide
example : getClass EmdGen.walkMaxDepth [] "Array" = some 0 := by decide

end EmdProps
