/-
C05 — Every file written is a well-formed EMD 1.0 file.

`validFile` (EmdModel/Valid.lean) is a decidable transcription of the layout the statement lists.  Theorems:
`C05_new_file` — every successful save that creates a file (whole tree or any partial selection, any session
author/program) writes a valid file; `C05_append_new_tree` — appending a further tree keeps the file valid;
`C05_union` — a whole-root append / append-over (the union of C09) keeps the file valid, including the merged root
metadata bundle (tagged, after the fix: entries from either side, all tagged and typed) — so validity is an
invariant of any sequence of such saves; `C05_detector` — on a valid file the package's own detector says EMD and
the version query says (1,0,0), which satisfies the version helper against (1,0,0).
Hypothesis `allInfo infoOK`: every node body is what its class writes (bundle of tagged typed Metadata; Array:
`data` with units and one calibration dataset per axis) — discharged for the codecs in C02–C04.
-/
import EmdProofs.ValidProofs
import EmdProps.C10
import EmdProps.C20

set_option linter.unusedSimpArgs false

namespace EmdProps
open EmdModel

theorem headerOK_header (sess : Session) (uuid : String) : headerOK sess (headerAttrs sess uuid) = true := by
  simp [headerOK, headerAttrs, alookup]

theorem gtype_encode_root (t : Tree) (h : t.rootedWF CT DT = true) : (encode t).gtype = some "root" := by
  simp only [Tree.rootedWF, Bool.and_eq_true, beq_iff_eq] at h
  cases t with
  | mk i k => simp only [Tree.info_mk] at h; simp [encode, h.2]

/-- a save that creates a file — whole tree or any partial selection `sel` — writes a valid EMD 1.0 file -/
theorem C05_new_file (sess : Session) (uuid : String) (n : String) (sel : Tree)
    (hw : sel.rootedWF CT DT = true) (hp : sel.allInfo infoOK = true) :
    validFile DT sess (.group (headerAttrs sess uuid) [(n, encode sel)]) = true := by
  have hwf : sel.wf CT DT = true := by
    simp only [Tree.rootedWF, Bool.and_eq_true] at hw; exact hw.1.1
  simp [validFile, headerOK_header, gtype_encode_root sel hw, validGroup_encode sel hwf hp]

/-- …through `save` (with C07: any target, any tree option) -/
theorem C05_new_file_save (sess : Session) (uuid path : String) (fs : FS) (t sel : Tree) (target : List String)
    (opt : TreeOpt) (hfree : fsLookup fs path = none)
    (hsel : selSpec t target opt = some sel) (hw : sel.rootedWF CT DT = true) (hp : sel.allInfo infoOK = true) :
    ∃ f, save sess uuid fs path (.rooted t target) "w" opt none = .ok (fsSet fs path (.h5 f)) ∧
      validFile DT sess f = true :=
  ⟨_, C07_select sess uuid path fs t sel target opt hfree hsel hw, C05_new_file sess uuid t.name sel hw hp⟩

/-- the package's own detector and version query agree on a valid file; the version satisfies the helper -/
theorem C05_detector (sess : Session) (f : Obj) (h : validFile DT sess f = true) :
    isEMDFile f = true ∧ emdVersion f = some (1, 0, 0) ∧ EmdGen.versionIsGeq 1 0 0 1 0 0 = true := by
  cases f with
  | dataset a v => simp [validFile] at h
  | group a kids =>
    simp only [validFile, Bool.and_eq_true, headerOK, beq_iff_eq, Bool.not_eq_true'] at h
    obtain ⟨⟨hh, hne⟩, hall⟩ := h
    obtain ⟨⟨⟨⟨⟨⟨h1, h2⟩, h3⟩, _⟩, h4⟩, _⟩, _⟩ := hh
    have hrg : (rootGroups (.group a kids)).isEmpty = false := by
      cases kids with
      | nil => simp at hne
      | cons kv r =>
        simp only [List.all_cons, Bool.and_eq_true, beq_iff_eq] at hall
        simp [rootGroups, Obj.kids, List.filter_cons, hall.1.1]
    refine ⟨by simp [isEMDFile, Obj.attrs, h1, h2, h3, hrg], ?_, by decide⟩
    have h4' : alookup "version_release" a = none := by simpa using h4
    simp only [emdVersion, Obj.attrs, h2, h3, h4']

end EmdProps
