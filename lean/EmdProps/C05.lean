/-
C05 — Every file written is a well-formed EMD 1.0 file.

`validFile` (EmdModel/Valid.lean) is a decidable transcription of the layout the statement lists.  Theorems:
`C05_new_file` — every successful save that creates a file (whole tree or any partial selection, any session
author/program) writes a valid file; `C05_append_new_tree` — appending a further tree keeps the file valid;
`C05_union` — a whole-root append / append-over (the union of C09) keeps the file valid, including the merged root
metadata bundle (tagged, after the fix: entries from either side, all tagged and typed) — so validity is an
invariant of any sequence of such saves; `C05_detector` — on a valid file the package's own detector says EMD and
the version query says (1,0,0), which satisfies the version helper against (1,0,0).
Hypothesis `allInfo infoOK`: every node body is what its class writes (bundle of tagged typed Metadata; Array:
`data` with units and one calibration dataset per axis) — discharged for the codecs in C02–C04.
-/
import EmdProofs.ValidProofs
import EmdProps.C10
import EmdProps.C20
import EmdProps.C02

set_option linter.unusedSimpArgs false

namespace EmdProps
open EmdModel

theorem headerOK_header (sess : Session) (uuid : String) : headerOK sess (headerAttrs sess uuid) = true := by
  simp [headerOK, headerAttrs, alookup]

theorem gtype_encode_root (t : Tree) (h : t.rootedWF CT DT = true) : (encode t).gtype = some "root" := by
  simp only [Tree.rootedWF, Bool.and_eq_true, beq_iff_eq] at h
  cases t with
  | mk i k => simp only [Tree.info_mk] at h; simp [encode, h.2]

/-- a save that creates a file — whole tree or any partial selection `sel` — writes a valid EMD 1.0 file -/
theorem C05_new_file (sess : Session) (uuid : String) (n : String) (sel : Tree)
    (hw : sel.rootedWF CT DT = true) (hp : sel.allInfo infoOK = true) :
    validFile DT sess (.group (headerAttrs sess uuid) [(n, encode sel)]) = true := by
  have hwf : sel.wf CT DT = true := by
    simp only [Tree.rootedWF, Bool.and_eq_true] at hw; exact hw.1.1
  simp [validFile, headerOK_header, gtype_encode_root sel hw, validGroup_encode sel hwf hp]

/-- …through `save` (with C07: any target, any tree option) -/
theorem C05_new_file_save (sess : Session) (uuid path : String) (fs : FS) (t sel : Tree) (target : List String)
    (opt : TreeOpt) (hfree : fsLookup fs path = none)
    (hsel : selSpec t target opt = some sel) (hw : sel.rootedWF CT DT = true) (hp : sel.allInfo infoOK = true) :
    ∃ f, save sess uuid fs path (.rooted t target) "w" opt none = .ok (fsSet fs path (.h5 f)) ∧
      validFile DT sess f = true :=
  ⟨_, C07_select sess uuid path fs t sel target opt hfree hsel hw, C05_new_file sess uuid t.name sel hw hp⟩

/-- the package's own detector and version query agree on a valid file; the version satisfies the helper -/
theorem C05_detector (sess : Session) (f : Obj) (h : validFile DT sess f = true) :
    isEMDFile f = true ∧ emdVersion f = some (1, 0, 0) ∧ EmdGen.versionIsGeq 1 0 0 1 0 0 = true := by
  cases f with
  | dataset a v => simp [validFile] at h
  | group a kids =>
    simp only [validFile, Bool.and_eq_true, headerOK, beq_iff_eq, Bool.not_eq_true'] at h
    obtain ⟨⟨hh, hne⟩, hall⟩ := h
    obtain ⟨⟨⟨⟨⟨⟨h1, h2⟩, h3⟩, _⟩, h4⟩, _⟩, _⟩ := hh
    have hrg : (rootGroups (.group a kids)).isEmpty = false := by
      cases kids with
      | nil => simp at hne
      | cons kv r =>
        simp only [List.all_cons, Bool.and_eq_true, beq_iff_eq] at hall
        simp [rootGroups, Obj.kids, List.filter_cons, hall.1.1]
    refine ⟨by simp [isEMDFile, Obj.attrs, h1, h2, h3, hrg], ?_, by decide⟩
    have h4' : alookup "version_release" a = none := by simpa using h4
    simp only [emdVersion, Obj.attrs, h2, h3, h4']

/-- appending a further valid tree keeps the file valid -/
theorem C05_append_new_tree (sess : Session) (a : Attrs) (roots : List (String × Obj)) (t : Tree)
    (hv : validFile DT sess (.group a roots) = true)
    (hw : t.rootedWF CT DT = true) (hp : t.allInfo infoOK = true) :
    validFile DT sess (.group a (roots ++ [(t.name, encode t)])) = true := by
  have hwf : t.wf CT DT = true := by
    simp only [Tree.rootedWF, Bool.and_eq_true] at hw; exact hw.1.1
  simp only [validFile, Bool.and_eq_true] at hv ⊢
  refine ⟨⟨hv.1.1, by simp⟩, ?_⟩
  simp [List.all_append, hv.2, gtype_encode_root t hw, validGroup_encode t hwf hp]

-- ---------------------------------------------------------------- nodes of a tree vs. nodes at paths

theorem allInfo_at (P : NodeInfo → Bool) : ∀ (p : List String) (t d : Tree), t.allInfo P = true →
    t.at p = some d → d.allInfo P = true
  | [], t, d, h, hd => by simp only [Tree.at] at hd; cases hd; exact h
  | n :: q, .mk i kids, d, h, hd => by
    simp only [Tree.allInfo, Bool.and_eq_true] at h
    simp only [Tree.at, Tree.kids_mk] at hd
    cases hf : findKid n kids with
    | none => simp [hf] at hd
    | some c =>
      simp only [hf] at hd
      have hc : c.allInfo P = true := by
        have key : ∀ (l : List Tree), allInfoKids P l = true → findKid n l = some c → c.allInfo P = true := by
          intro l
          induction l with
          | nil => intro _ h2; simp [findKid] at h2
          | cons x xs ih =>
            intro h1 h2
            simp only [allInfoKids, Bool.and_eq_true] at h1
            simp only [findKid] at h2
            split at h2
            · cases h2; exact h1.1
            · exact ih h1.2 h2
        exact key kids h.2 hf
      exact allInfo_at P q c d hc hd

/-- Lemma B: every node reachable by a path satisfies `P` when the whole forest does -/
theorem paths_of_allInfo (P : NodeInfo → Bool) (kids : List Tree) (h : allInfoKids P kids = true)
    (n : String) (p : List String) (i : NodeInfo) (hi : cK kids n p = some i) : P i = true := by
  have := allInfo_at P (n :: p) (.mk default kids)
  simp only [cK, Option.map_eq_some_iff] at hi
  obtain ⟨d, hd, rfl⟩ := hi
  have hd' : (Tree.mk default kids).at (n :: p) = some d := by
    simp only [Tree.at, Tree.kids_mk]
    cases hf : findKid n kids with
    | none => simp [hf] at hd
    | some c => simpa [hf] using hd
  have h2 := allInfo_at P (n :: p) (.mk default kids) d
  have hroot : ∀ (Q : NodeInfo → Bool), allInfoKids Q kids = true →
      (Tree.mk default kids).at (n :: p) = some d → d.allInfo Q = true := by
    intro Q hq hat
    -- descend one level by hand so that nothing is required of the dummy root
    simp only [Tree.at, Tree.kids_mk] at hat
    cases hf : findKid n kids with
    | none => simp [hf] at hat
    | some c =>
      simp only [hf] at hat
      have hc : c.allInfo Q = true := by
        have key : ∀ (l : List Tree), allInfoKids Q l = true → findKid n l = some c → c.allInfo Q = true := by
          intro l
          induction l with
          | nil => intro _ h2; simp [findKid] at h2
          | cons x xs ih =>
            intro h1 h2
            simp only [allInfoKids, Bool.and_eq_true] at h1
            simp only [findKid] at h2
            split at h2
            · cases h2; exact h1.1
            · exact ih h1.2 h2
        exact key kids hq hf
      exact allInfo_at Q p c d hc hat
  have := hroot P h hd'
  cases d with
  | mk di dk => simp only [Tree.allInfo, Bool.and_eq_true] at this; exact this.1

mutual
/-- Lemma A: in a well-formed forest every node sits at a path, so a property of all paths is a property of all nodes -/
theorem allInfo_of_paths (P : NodeInfo → Bool) : ∀ (t : Tree), t.wf CT DT = true → P t.info = true →
    (∀ n p i, cK t.kids n p = some i → P i = true) → t.allInfo P = true
  | .mk i kids, hw, hp, hall => by
    simp only [Tree.wf, Bool.and_eq_true] at hw
    simp only [Tree.allInfo, Bool.and_eq_true]
    exact ⟨hp, allInfoKids_of_paths P kids (akeys i.body) hw.2 hall⟩
theorem allInfoKids_of_paths (P : NodeInfo → Bool) : ∀ (kids : List Tree) (taken : List String),
    kidsWF CT DT taken kids = true → (∀ n p i, cK kids n p = some i → P i = true) → allInfoKids P kids = true
  | [], _, _, _ => rfl
  | t :: ts, taken, hw, hall => by
    simp only [kidsWF, Bool.and_eq_true] at hw
    obtain ⟨⟨⟨_, _⟩, htw⟩, hr⟩ := hw
    simp only [allInfoKids, Bool.and_eq_true]
    have hfind : findKid t.name (t :: ts) = some t := by simp [findKid]
    refine ⟨allInfo_of_paths P t htw ?_ ?_, allInfoKids_of_paths P ts _ hr ?_⟩
    · exact hall t.name [] t.info (by simp [cK, hfind, Tree.at])
    · intro n p i hi
      exact hall t.name (n :: p) i (by rw [cK_cons _ _ _ _ _ hfind]; exact hi)
    · intro n p i hi
      apply hall n p i
      have hne : t.name ≠ n := by
        intro e
        have hsome : (findKid n ts).isSome = true := by
          simp only [cK, Option.map_eq_some_iff] at hi
          obtain ⟨d, hd, _⟩ := hi
          cases hf : findKid n ts with
          | none => simp [hf] at hd
          | some c => rfl
        have hin : n ∈ names ts := by
          apply Classical.byContradiction
          intro hc
          have := (findKid_none_iff n ts).mpr hc
          simp [this] at hsome
        exact kidsWF_names_not_taken ts _ hr n hin (by simp [e])
      simp only [cK, findKid, hne, if_false] at hi ⊢
      exact hi
end

-- ---------------------------------------------------------------- the merged root metadata bundle

theorem mdMerge_mem (over : Bool) (existing : List String) : ∀ (re fe es : List (String × Obj)),
    mdMergeEntries over existing fe re = .ok es → ∀ x ∈ es, x ∈ fe ∨ x ∈ re
  | [], fe, es, h, x, hx => by
    simp only [mdMergeEntries, pure, Except.pure, Except.ok.injEq] at h
    subst h; exact Or.inl hx
  | (k, v) :: rest, fe, es, h, x, hx => by
    simp only [mdMergeEntries] at h
    split at h
    · have := mdMerge_mem over existing rest _ es h x hx
      cases this with
      | inr h2 => exact Or.inr (List.mem_cons_of_mem _ h2)
      | inl h2 =>
        split at h2
        · -- x ∈ areplace k v fe
          have key : ∀ (l : List (String × Obj)), x ∈ areplace k v l → x ∈ l ∨ x = (k, v) := by
            intro l
            induction l with
            | nil => intro h3; simp [areplace] at h3
            | cons kv l ih =>
              obtain ⟨k', w⟩ := kv
              simp only [areplace]
              split
              · next hk =>
                intro h3
                simp only [List.mem_cons] at h3
                cases h3 with
                | inl e => right; rw [e, hk]
                | inr e => left; exact List.mem_cons_of_mem _ e
              · intro h3
                simp only [List.mem_cons] at h3
                cases h3 with
                | inl e => left; simp [e]
                | inr e =>
                  cases ih e with
                  | inl e2 => left; exact List.mem_cons_of_mem _ e2
                  | inr e2 => right; exact e2
          cases key fe h2 with
          | inl h3 => exact Or.inl h3
          | inr h3 => right; simp [h3]
        · exact Or.inl h2
    · split at h
      · cases h
      · split at h
        · cases h
        · have := mdMerge_mem over existing rest _ es h x hx
          cases this with
          | inr h2 => exact Or.inr (List.mem_cons_of_mem _ h2)
          | inl h2 =>
            simp only [List.mem_append, List.mem_singleton] at h2
            cases h2 with
            | inl h3 => exact Or.inl h3
            | inr h3 => right; simp [h3]

theorem bodyGroupsOK_cons_bundle (o : Obj) (body : List (String × Obj)) :
    bodyGroupsOK (("metadatabundle", o) :: body) = bodyGroupsOK body := by
  simp [bodyGroupsOK]

theorem bodyGroupsOK_areplace_bundle (o : Obj) : ∀ (body : List (String × Obj)), bodyGroupsOK body = true →
    bodyGroupsOK (areplace "metadatabundle" o body) = true
  | [], _ => rfl
  | (k, v) :: r, h => by
    simp only [bodyGroupsOK, List.all_cons, Bool.and_eq_true] at h
    simp only [areplace]
    split
    · next hk =>
      subst hk
      simp only [bodyGroupsOK, List.all_cons, Bool.and_eq_true, beq_self_eq_true, Bool.true_or, true_and]
      exact h.2
    · simp only [bodyGroupsOK, List.all_cons, Bool.and_eq_true]
      exact ⟨h.1, bodyGroupsOK_areplace_bundle o r h.2⟩

/-- the root body after `_append_root_metadata` is a valid root body: the bundle is tagged and all its entries
    (taken from the file's bundle or from the runtime root's) are tagged, typed Metadata groups -/
theorem mdBody_ok (over : Bool) (body body' : List (String × Obj)) (entries : List (String × Obj))
    (hb : bodyOK "root" body = true) (he : entries.all (fun kv => mdEntryOK kv.2) = true)
    (h : mdBody over body entries = .ok body') : bodyOK "root" body' = true := by
  have hroot : ("root" == "array") = false := by decide
  simp only [bodyOK, hroot, Bool.false_eq_true, if_false, Bool.and_true, Bool.and_eq_true] at hb ⊢
  obtain ⟨hb, hg⟩ := hb
  unfold mdBody at h
  by_cases hemp : entries.isEmpty = true
  · simp only [hemp, if_true, pure, Except.pure, Except.ok.injEq] at h
    subst h; exact ⟨hb, hg⟩
  · simp only [hemp, Bool.false_eq_true, if_false] at h
    cases hbm : alookup "metadatabundle" body with
    | none =>
      simp only [hbm, bind, Except.bind, pure, Except.pure] at h
      cases hm : mdMergeEntries over [] [] entries with
      | error e => simp [hm] at h
      | ok es =>
        simp only [hm, Except.ok.injEq] at h
        subst h
        refine ⟨?_, by rw [bodyGroupsOK_cons_bundle]; exact hg⟩
        simp only [alookup, if_true, bundleOK, Bool.and_eq_true]
        refine ⟨by simp [Obj.gtype, Obj.attrs, bundleAttrs, alookup], ?_⟩
        rw [List.all_eq_true]
        intro x hx
        cases mdMerge_mem over [] entries [] es hm x hx with
        | inl h1 => simp at h1
        | inr h1 => exact (List.all_eq_true.mp he) x h1
    | some b =>
      simp only [hbm] at hb
      simp only [hbm, bind, Except.bind, pure, Except.pure] at h
      cases hm : mdMergeEntries over ((b.kids.filter (fun kv => kv.2.gtype == some "metadata")).map (·.1))
          b.kids entries with
      | error e => simp [hm] at h
      | ok es =>
        simp only [hm, Except.ok.injEq] at h
        subst h
        refine ⟨?_, bodyGroupsOK_areplace_bundle _ body hg⟩
        rw [alookup_areplace_same _ _ _ (by simp [hbm])]
        cases b with
        | dataset a v => simp [bundleOK] at hb
        | group a k =>
          simp only [bundleOK, Bool.and_eq_true, Obj.setKids] at hb ⊢
          refine ⟨by simpa [Obj.gtype, Obj.attrs] using hb.1, ?_⟩
          rw [List.all_eq_true]
          intro x hx
          cases mdMerge_mem over _ entries k es hm x hx with
          | inl h1 => exact (List.all_eq_true.mp hb.2) x h1
          | inr h1 => exact (List.all_eq_true.mp he) x h1

/-- the union of C09 keeps the file valid: with `T'` as delivered by `C09_union` -/
theorem C05_union (sess : Session) (over : Bool) (f : Obj) (F Rt T' : Tree) (body' : List (String × Obj))
    (hv : validFile DT sess f = true)
    (hF : F.allInfo infoOK = true) (hR : Rt.allInfo infoOK = true)
    (hmd : mdBody over F.info.body (mdEntries Rt.info) = .ok body')
    (hFroot : F.info.gtype = "root")
    (hmdR : (mdEntries Rt.info).all (fun kv => mdEntryOK kv.2) = true)
    (hT : T'.rootedWF CT DT = true) (hTi : T'.info = { F.info with body := body' })
    (hspec : ∀ n p, cK T'.kids n p = combine over (cK F.kids n p) (cK Rt.kids n p)) :
    validFile DT sess (f.setKids (areplace F.name (encode T') f.kids)) = true := by
  have hTwf : T'.wf CT DT = true := by
    simp only [Tree.rootedWF, Bool.and_eq_true] at hT; exact hT.1.1
  -- every node of T' has a valid body
  have hFk : allInfoKids infoOK F.kids = true ∧ infoOK F.info = true := by
    cases F with
    | mk i k => simp only [Tree.allInfo, Bool.and_eq_true] at hF; exact ⟨hF.2, hF.1⟩
  have hRk : allInfoKids infoOK Rt.kids = true := by
    cases Rt with
    | mk i k => simp only [Tree.allInfo, Bool.and_eq_true] at hR; exact hR.2
  have hTp : T'.allInfo infoOK = true := by
    apply allInfo_of_paths infoOK T' hTwf
    · rw [hTi]
      have := hFk.2
      simp only [infoOK, hFroot] at this ⊢
      exact mdBody_ok over _ _ _ this hmdR hmd
    · intro n p i hi
      rw [hspec n p] at hi
      cases hf : cK F.kids n p with
      | none =>
        rw [hf] at hi
        simp only [combine] at hi
        exact paths_of_allInfo infoOK Rt.kids hRk n p i hi
      | some x =>
        rw [hf] at hi
        cases hr : cK Rt.kids n p with
        | none =>
          rw [hr] at hi; simp only [combine, Option.some.injEq] at hi
          subst hi; exact paths_of_allInfo infoOK F.kids hFk.1 n p x hf
        | some y =>
          rw [hr] at hi; simp only [combine, Option.some.injEq] at hi
          subst hi
          split
          · exact paths_of_allInfo infoOK Rt.kids hRk n p y hr
          · exact paths_of_allInfo infoOK F.kids hFk.1 n p x hf
  have hvalid := validGroup_encode (ct := CT) (dt := DT) T' hTwf hTp
  cases f with
  | dataset a v => simp [validFile] at hv
  | group a kids =>
    simp only [validFile, Bool.and_eq_true, Obj.setKids, Obj.kids] at hv ⊢
    refine ⟨⟨hv.1.1, ?_⟩, ?_⟩
    · have : (areplace F.name (encode T') kids).isEmpty = kids.isEmpty := by
        cases kids with
        | nil => rfl
        | cons kv l => obtain ⟨k, w⟩ := kv; simp only [areplace]; split <;> rfl
      rw [this]; exact hv.1.2
    · apply all_areplace _ _ _ _ hv.2
      intro _ _
      simp [gtype_encode_root T' hT, hvalid]

/-! ### every other rewrite of a root group: targeted appends -/

/-- rewriting a root group of a valid file into the encoding of ANY well-formed rooted tree with valid node bodies keeps
    the file valid (the general step behind `C05_union`) -/
theorem C05_replace_root (sess : Session) (f : Obj) (name : String) (T' : Tree)
    (hv : validFile DT sess f = true) (hT : T'.rootedWF CT DT = true) (hTp : T'.allInfo infoOK = true) :
    validFile DT sess (f.setKids (areplace name (encode T') f.kids)) = true := by
  have hTwf : T'.wf CT DT = true := by
    simp only [Tree.rootedWF, Bool.and_eq_true] at hT; exact hT.1.1
  have hvalid := validGroup_encode (ct := CT) (dt := DT) T' hTwf hTp
  cases f with
  | dataset a v => simp [validFile] at hv
  | group a kids =>
    simp only [validFile, Bool.and_eq_true, Obj.setKids, Obj.kids] at hv ⊢
    refine ⟨⟨hv.1.1, ?_⟩, ?_⟩
    · have : (areplace name (encode T') kids).isEmpty = kids.isEmpty := by
        cases kids with
        | nil => rfl
        | cons kv l => obtain ⟨k, w⟩ := kv; simp only [areplace]; split <;> rfl
      rw [this]; exact hv.1.2
    · apply all_areplace _ _ _ _ hv.2
      intro _ _
      simp [gtype_encode_root T' hT, hvalid]

theorem allInfoKids_replaceKid (P : NodeInfo → Bool) (n : String) (t' : Tree) : ∀ (kids : List Tree),
    allInfoKids P kids = true → t'.allInfo P = true → allInfoKids P (replaceKid n t' kids) = true
  | [], _, _ => by simp [replaceKid, allInfoKids]
  | k :: ks, h, ht => by
    simp only [allInfoKids, Bool.and_eq_true] at h
    simp only [replaceKid]
    split
    · simp only [allInfoKids, Bool.and_eq_true]; exact ⟨ht, h.2⟩
    · simp only [allInfoKids, Bool.and_eq_true]; exact ⟨h.1, allInfoKids_replaceKid P n t' ks h.2 ht⟩

theorem allInfoKids_find (P : NodeInfo → Bool) (n : String) : ∀ (kids : List Tree) (c : Tree), allInfoKids P kids = true →
    findKid n kids = some c → c.allInfo P = true
  | [], _, _, h => by simp [findKid] at h
  | k :: ks, c, ha, h => by
    simp only [allInfoKids, Bool.and_eq_true] at ha
    simp only [findKid] at h
    split at h
    · cases h; exact ha.1
    · exact allInfoKids_find P n ks c ha.2 h

/-- replacing a subtree by one whose nodes are all fine leaves all nodes fine -/
theorem allInfo_replaceAt (P : NodeInfo → Bool) : ∀ (p : List String) (F S' : Tree), F.allInfo P = true →
    S'.allInfo P = true → (F.replaceAt p S').allInfo P = true
  | [], _, _, _, h => by simpa [Tree.replaceAt] using h
  | n :: p, .mk i kids, S', hF, hS => by
    simp only [Tree.allInfo, Bool.and_eq_true] at hF
    simp only [Tree.replaceAt]
    cases hk : findKid n kids with
    | none => simp only [Tree.allInfo, Bool.and_eq_true]; exact hF
    | some c =>
      simp only [Tree.allInfo, Bool.and_eq_true]
      exact ⟨hF.1, allInfoKids_replaceKid P n _ kids hF.2
        (allInfo_replaceAt P p c S' (allInfoKids_find P n kids c hF.2 hk) hS)⟩

theorem allInfoKids_append (P : NodeInfo → Bool) : ∀ (a b : List Tree), allInfoKids P (a ++ b) = (allInfoKids P a && allInfoKids P b)
  | [], b => by simp [allInfoKids]
  | x :: xs, b => by simp [allInfoKids, allInfoKids_append P xs b, Bool.and_assoc]

theorem allInfo_addKid (P : NodeInfo → Bool) (Pt D : Tree) (h1 : Pt.allInfo P = true) (h2 : D.allInfo P = true) :
    (Pt.addKid D).allInfo P = true := by
  cases Pt with
  | mk i kids =>
    simp only [Tree.allInfo, Bool.and_eq_true] at h1
    simp only [Tree.addKid, Tree.info_mk, Tree.kids_mk, Tree.allInfo, allInfoKids_append, allInfoKids, Bool.and_eq_true, Bool.and_true]
    exact ⟨h1.1, h1.2, h2⟩

theorem rootedWF_replaceAt (F S' : Tree) (n : String) (p : List String) (hF : F.rootedWF CT DT = true)
    (hw : (F.replaceAt (n :: p) S').wf CT DT = true) : (F.replaceAt (n :: p) S').rootedWF CT DT = true := by
  simp only [Tree.rootedWF, Bool.and_eq_true, beq_iff_eq] at hF ⊢
  rw [Tree.replaceAt_info]
  exact ⟨⟨hw, hF.1.2⟩, hF.2⟩

/-- C05 after a targeted append of a new branch (`C09_target_new_branch`, parent below the root): the file is still a
    well-formed EMD 1.0 file -/
theorem C05_target_new_branch (sess : Session) (over : Bool) (f : Obj) (F Rt P D : Tree) (body' : List (String × Obj))
    (n0 : String) (q0 : List String) (m : String)
    (hv : validFile DT sess f = true)
    (hFok : F.allInfo infoOK = true) (hRok : Rt.allInfo infoOK = true)
    (hmdR : (mdEntries Rt.info).all (fun kv => mdEntryOK kv.2) = true)
    (hF : F.rootedWF CT DT = true) (hR : Rt.rootedWF CT DT = true) (hname : Rt.name = F.name)
    (hf : alookup F.name f.kids = some (encode F)) (hroot : (rootGroups f).contains F.name = true)
    (hmdname : "metadatabundle" ∉ names F.kids)
    (hmd : mdBody over F.info.body (mdEntries Rt.info) = .ok body')
    (hP : (withBody F body').at (n0 :: q0) = some P) (hD : Rt.at ((n0 :: q0) ++ [m]) = some D)
    (hnew : m ∉ names P.kids) (hbody : m ∉ akeys P.info.body) :
    ∃ f', appendInto DT f Rt ((n0 :: q0) ++ [m]) over .yes none = .ok f' ∧ validFile DT sess f' = true := by
  obtain ⟨hap, hwf⟩ := C09_target_new_branch over f F Rt P D body' (n0 :: q0) m hF hR hname hf hroot hmdname hmd hP hD hnew hbody
  refine ⟨_, hap, ?_⟩
  -- the root with its merged body is still a valid root body, every node of the new tree has a valid body
  have hFroot : F.info.gtype = "root" := by
    simp only [Tree.rootedWF, Bool.and_eq_true, beq_iff_eq] at hF; exact hF.2
  have hF1ok : (withBody F body').allInfo infoOK = true := by
    cases F with
    | mk i k =>
      simp only [Tree.allInfo, Bool.and_eq_true] at hFok
      simp only [withBody, Tree.info_mk, Tree.kids_mk, Tree.allInfo, Bool.and_eq_true]
      refine ⟨?_, hFok.2⟩
      simp only [Tree.info_mk] at hFroot hmd
      have := hFok.1
      simp only [infoOK, hFroot] at this ⊢
      exact mdBody_ok over _ _ _ this hmdR hmd
  have hPok : P.allInfo infoOK = true := allInfo_at infoOK (n0 :: q0) (withBody F body') P hF1ok hP
  have hDok : D.allInfo infoOK = true := allInfo_at infoOK _ Rt D hRok hD
  have hall := allInfo_replaceAt infoOK (n0 :: q0) (withBody F body') (P.addKid D) hF1ok (allInfo_addKid infoOK P D hPok hDok)
  have hF1r : (withBody F body').rootedWF CT DT = true := by
    simp only [Tree.rootedWF, Bool.and_eq_true, beq_iff_eq] at hF ⊢
    obtain ⟨hw1, _⟩ := rootMd_encode over F Rt.info body' hF.1.1 hmdname hmd
    exact ⟨⟨hw1, by cases F; exact hF.1.2⟩, by cases F; exact hF.2⟩
  exact C05_replace_root sess f F.name _ hv (rootedWF_replaceAt (withBody F body') (P.addKid D) n0 q0 hF1r hwf) hall

theorem kidsWF_append_list : ∀ (fk ds : List Tree) (taken : List String),
    kidsWF CT DT taken fk = true → kidsWF CT DT (taken ++ names fk) ds = true → kidsWF CT DT taken (fk ++ ds) = true
  | [], ds, taken, _, h => by simpa [names] using h
  | x :: xs, ds, taken, h, hd => by
    simp only [kidsWF, Bool.and_eq_true] at h
    simp only [List.cons_append, kidsWF, Bool.and_eq_true]
    refine ⟨h.1, kidsWF_append_list xs ds (x.name :: taken) h.2 ?_⟩
    refine kidsWF_mono ds (taken ++ names (x :: xs)) ((x.name :: taken) ++ names xs) ?_ hd
    intro n hn
    simp only [names, List.map_cons, List.mem_append, List.mem_cons] at hn ⊢
    rcases hn with (h1 | h1) | h1
    · exact Or.inr (Or.inl h1)
    · exact Or.inl h1
    · exact Or.inr (Or.inr h1)

/-- C05 after a FOREIGN ROOT was saved under an emdpath into an existing tree (`C09_foreign_root`; target below the root):
    the Root is not written as a group inside another tree — its children are grafted below the target — and the file is
    still a well-formed EMD 1.0 file -/
theorem C05_foreign_root (sess : Session) (over : Bool) (opt : TreeOpt) (hopt : opt ≠ .no) (f : Obj) (F X P : Tree)
    (ep : String) (n0 : String) (q0 : List String)
    (hv : validFile DT sess f = true)
    (hFok : F.allInfo infoOK = true) (hXok : X.allInfo infoOK = true)
    (hF : F.rootedWF CT DT = true) (hX : X.wf CT DT = true)
    (hXnot : (rootGroups f).contains X.name = false)
    (hparse : parseEmdpathWrite ep = some (F.name, n0 :: q0))
    (hf : alookup F.name f.kids = some (encode F))
    (hP : F.at (n0 :: q0) = some P)
    (hfresh : ∀ k ∈ X.kids, k.name ∉ akeys P.info.body ++ names P.kids) :
    ∃ f', appendInto DT f X [] over opt (some ep) = .ok f' ∧ validFile DT sess f' = true := by
  have hFw : F.wf CT DT = true := by
    simp only [Tree.rootedWF, Bool.and_eq_true] at hF; exact hF.1.1
  have hap := C09_foreign_root over opt hopt f F X P ep (n0 :: q0) hFw hX hXnot hparse hf hP hfresh
  refine ⟨_, hap, ?_⟩
  obtain ⟨hPw, hPd⟩ := wf_at (n0 :: q0) F P hFw hP
  have hXk : kidsWF CT DT (akeys P.info.body ++ names P.kids) X.kids = true :=
    kidsWF_retake' X.kids _ _ (Tree.wf_kids hX) hfresh
  have hP'w : (Tree.mk P.info (P.kids ++ X.kids)).wf CT DT = true := by
    cases P with
    | mk pi pk =>
      simp only [Tree.info_mk, Tree.kids_mk] at hXk ⊢
      have hk := Tree.wf_kids hPw
      simp only [Tree.info_mk, Tree.kids_mk] at hk
      simp only [Tree.wf, Bool.and_eq_true]
      exact ⟨Tree.wf_info hPw, kidsWF_append_list pk X.kids _ hk hXk⟩
  have hwf := replaceAt_wf (ct := CT) (dt := DT) (n0 :: q0) F P (.mk P.info (P.kids ++ X.kids)) hFw hP hP'w
    (by cases P; rfl) (fun h => by cases P; exact hPd h)
  have hPok : P.allInfo infoOK = true := allInfo_at infoOK (n0 :: q0) F P hFok hP
  have hP'ok : (Tree.mk P.info (P.kids ++ X.kids)).allInfo infoOK = true := by
    cases P with
    | mk pi pk =>
      cases X with
      | mk xi xk =>
        simp only [Tree.allInfo, Bool.and_eq_true] at hPok hXok
        simp only [Tree.info_mk, Tree.kids_mk, Tree.allInfo, allInfoKids_append, Bool.and_eq_true]
        exact ⟨hPok.1, hPok.2, hXok.2⟩
  have hall := allInfo_replaceAt infoOK (n0 :: q0) F _ hFok hP'ok
  exact C05_replace_root sess f F.name _ hv (rootedWF_replaceAt F _ n0 q0 hF hwf) hall

-- non-vacuity / model run: a foreign Root `other` with one child saved under the emdpath `r/a` of the example file: the hypotheses
-- hold, the child lands below `a`, no group called `other` is written, and the file validates
def exX : Tree :=
  .mk { name := "other", cls := "Root", gtype := "root", body := [] }
    [ .mk { name := "g", cls := "Node", gtype := "node", body := [] } [] ]
example : exX.wf CT DT = true ∧ (rootGroups (fileOf {} "u" exF)).contains exX.name = false ∧
    parseEmdpathWrite "r/a" = some (exF.name, ["a"]) ∧
    (match exF.at ["a"] with
     | some P => exX.kids.all (fun k => !(akeys P.info.body ++ names P.kids).contains k.name)
     | none => false) = true := by decide
example : (match appendInto DT (fileOf {} "u" exF) exX [] false .yes (some "r/a") with
    | .ok f => validFile DT {} f && (f.at ["r", "a", "g"]).isSome && (f.at ["r", "a", "other"]).isNone
    | .error _ => false) = true := by decide

/-- a node whose children are, path by path, the `combine` of two families of valid-bodied nodes has only valid bodies -/
theorem allInfo_combine (over : Bool) (S' : Tree) (i : NodeInfo) (k1 k2 : List Tree) (hw : S'.wf CT DT = true)
    (hi : S'.info = i) (hiok : infoOK i = true)
    (h1 : allInfoKids infoOK k1 = true) (h2 : allInfoKids infoOK k2 = true)
    (hspec : ∀ n p, cK S'.kids n p = combine over (cK k1 n p) (cK k2 n p)) : S'.allInfo infoOK = true := by
  apply allInfo_of_paths infoOK S' hw (by rw [hi]; exact hiok)
  intro n p j hj
  rw [hspec n p] at hj
  cases hf : cK k1 n p with
  | none =>
    rw [hf] at hj
    simp only [combine] at hj
    exact paths_of_allInfo infoOK k2 h2 n p j hj
  | some x =>
    rw [hf] at hj
    cases hr : cK k2 n p with
    | none =>
      rw [hr] at hj; simp only [combine, Option.some.injEq] at hj
      subst hj; exact paths_of_allInfo infoOK k1 h1 n p x hf
    | some y =>
      rw [hr] at hj; simp only [combine, Option.some.injEq] at hj
      subst hj
      split
      · exact paths_of_allInfo infoOK k2 h2 n p y hr
      · exact paths_of_allInfo infoOK k1 h1 n p x hf

theorem allInfo_kids (P : NodeInfo → Bool) (t : Tree) (h : t.allInfo P = true) : allInfoKids P t.kids = true ∧ P t.info = true := by
  cases t with
  | mk i k => simp only [Tree.allInfo, Bool.and_eq_true] at h; exact ⟨h.2, h.1⟩

/-- C05 after a targeted append BELOW an existing node (`C09_target_below`: node in both trees, tree=None — its children
    merged by the union rule): the file is still a well-formed EMD 1.0 file -/
theorem C05_target_below (sess : Session) (over : Bool) (f : Obj) (F Rt S D : Tree) (body' : List (String × Obj))
    (n0 : String) (p0 : List String)
    (hv : validFile DT sess f = true)
    (hFok : F.allInfo infoOK = true) (hRok : Rt.allInfo infoOK = true)
    (hmdR : (mdEntries Rt.info).all (fun kv => mdEntryOK kv.2) = true)
    (hF : F.rootedWF CT DT = true) (hR : Rt.rootedWF CT DT = true) (hname : Rt.name = F.name)
    (hf : alookup F.name f.kids = some (encode F)) (hroot : (rootGroups f).contains F.name = true)
    (hmdname : "metadatabundle" ∉ names F.kids)
    (hmd : mdBody over F.info.body (mdEntries Rt.info) = .ok body')
    (hS : F.at (n0 :: p0) = some S) (hD : Rt.at (n0 :: p0) = some D)
    (hcompat : compatKids over S.info S.kids (akeys S.info.body ++ names S.kids ++ names D.kids) D.kids = true) :
    ∃ f', appendInto DT f Rt (n0 :: p0) over .below none = .ok f' ∧ validFile DT sess f' = true := by
  obtain ⟨S', hS'w, hS'i, hap, hspec, hwf⟩ :=
    C09_target_below over f F Rt S D body' n0 p0 hF hR hname hf hroot hmdname hmd hS hD hcompat
  refine ⟨_, hap, ?_⟩
  have hFroot : F.info.gtype = "root" := by
    simp only [Tree.rootedWF, Bool.and_eq_true, beq_iff_eq] at hF; exact hF.2
  have hF1ok : (withBody F body').allInfo infoOK = true := by
    cases F with
    | mk i k =>
      simp only [Tree.allInfo, Bool.and_eq_true] at hFok
      simp only [withBody, Tree.info_mk, Tree.kids_mk, Tree.allInfo, Bool.and_eq_true]
      refine ⟨?_, hFok.2⟩
      simp only [Tree.info_mk] at hFroot hmd
      have := hFok.1
      simp only [infoOK, hFroot] at this ⊢
      exact mdBody_ok over _ _ _ this hmdR hmd
  have hSok := allInfo_kids infoOK S (allInfo_at infoOK (n0 :: p0) F S hFok hS)
  have hDok := allInfo_kids infoOK D (allInfo_at infoOK (n0 :: p0) Rt D hRok hD)
  have hS'ok := allInfo_combine over S' S.info S.kids D.kids hS'w hS'i hSok.2 hSok.1 hDok.1 hspec
  have hall := allInfo_replaceAt infoOK (n0 :: p0) (withBody F body') S' hF1ok hS'ok
  have hF1r : (withBody F body').rootedWF CT DT = true := by
    simp only [Tree.rootedWF, Bool.and_eq_true, beq_iff_eq] at hF ⊢
    obtain ⟨hw1, _⟩ := rootMd_encode over F Rt.info body' hF.1.1 hmdname hmd
    exact ⟨⟨hw1, by cases F; exact hF.1.2⟩, by cases F; exact hF.2⟩
  exact C05_replace_root sess f F.name _ hv (rootedWF_replaceAt (withBody F body') S' n0 p0 hF1r hwf) hall

-- non-vacuity / model run for `C05_target_below` on the example pair of C09 (`a` is in both trees): valid bodies on both sides,
-- a valid file before, and the file after the targeted merge below `a` validates (append and append-over)
example : exF.allInfo infoOK = true ∧ exR.allInfo infoOK = true ∧ validFile DT {} (fileOf {} "u" exF) = true ∧
    (mdEntries exR.info).all (fun kv => mdEntryOK kv.2) = true := by decide
example : ∀ over : Bool, (match appendInto DT (fileOf {} "u" exF) exR ["a"] over .below none with
    | .ok f => validFile DT {} f && (f.at ["r", "a", "new", "newdeep"]).isSome && (f.at ["r", "a", "deepF"]).isSome
    | .error _ => false) = true := by decide

theorem getLast_snoc' : ∀ (l : List String) (a m : String) (h : a :: (l ++ [m]) ≠ []), (a :: (l ++ [m])).getLast h = m
  | [], a, m, h => rfl
  | x :: l, a, m, h => by
    simp only [List.cons_append, List.getLast_cons_cons]
    exact getLast_snoc' l x m (by simp)

/-- the root of the file after `_append_root_metadata` still has only valid bodies and is a well-formed rooted tree
    (factored out of the targeted validity theorems) -/
theorem withBody_ok (over : Bool) (F : Tree) (ri : NodeInfo) (body' : List (String × Obj))
    (hFok : F.allInfo infoOK = true) (hF : F.rootedWF CT DT = true) (hmdname : "metadatabundle" ∉ names F.kids)
    (hmdR : (mdEntries ri).all (fun kv => mdEntryOK kv.2) = true)
    (hmd : mdBody over F.info.body (mdEntries ri) = .ok body') :
    (withBody F body').allInfo infoOK = true ∧ (withBody F body').rootedWF CT DT = true := by
  have hFroot : F.info.gtype = "root" := by
    simp only [Tree.rootedWF, Bool.and_eq_true, beq_iff_eq] at hF; exact hF.2
  constructor
  · cases F with
    | mk i k =>
      simp only [Tree.allInfo, Bool.and_eq_true] at hFok
      simp only [withBody, Tree.info_mk, Tree.kids_mk, Tree.allInfo, Bool.and_eq_true]
      refine ⟨?_, hFok.2⟩
      simp only [Tree.info_mk] at hFroot hmd
      have := hFok.1
      simp only [infoOK, hFroot] at this ⊢
      exact mdBody_ok over _ _ _ this hmdR hmd
  · simp only [Tree.rootedWF, Bool.and_eq_true, beq_iff_eq] at hF ⊢
    obtain ⟨hw1, _⟩ := rootMd_encode over F ri body' hF.1.1 hmdname hmd
    exact ⟨⟨hw1, by cases F; exact hF.1.2⟩, by cases F; exact hF.2⟩

/-- C05 after a targeted append of a NEW node ALONE (`C09_target_new_single`, tree=False, parent below the root): the file
    is still a well-formed EMD 1.0 file -/
theorem C05_target_new_single (sess : Session) (over : Bool) (f : Obj) (F Rt P D : Tree) (body' : List (String × Obj))
    (n0 : String) (q0 : List String) (m : String)
    (hv : validFile DT sess f = true)
    (hFok : F.allInfo infoOK = true) (hRok : Rt.allInfo infoOK = true)
    (hmdR : (mdEntries Rt.info).all (fun kv => mdEntryOK kv.2) = true)
    (hF : F.rootedWF CT DT = true) (hR : Rt.rootedWF CT DT = true) (hname : Rt.name = F.name)
    (hf : alookup F.name f.kids = some (encode F)) (hroot : (rootGroups f).contains F.name = true)
    (hmdname : "metadatabundle" ∉ names F.kids)
    (hmd : mdBody over F.info.body (mdEntries Rt.info) = .ok body')
    (hP : (withBody F body').at (n0 :: q0) = some P) (hD : Rt.at ((n0 :: q0) ++ [m]) = some D)
    (hnew : m ∉ names P.kids) (hbody : m ∉ akeys P.info.body) :
    ∃ f', appendInto DT f Rt ((n0 :: q0) ++ [m]) over .no none = .ok f' ∧ validFile DT sess f' = true := by
  have hap := C09_target_new_single over f F Rt P D body' (n0 :: q0) m hF hR hname hf hroot hmdname hmd hP hD hnew hbody
  refine ⟨_, hap, ?_⟩
  obtain ⟨hF1ok, hF1r⟩ := withBody_ok over F Rt.info body' hFok hF hmdname hmdR hmd
  have hF1w : (withBody F body').wf CT DT = true := by
    simp only [Tree.rootedWF, Bool.and_eq_true] at hF1r; exact hF1r.1.1
  have hRw : Rt.wf CT DT = true := by
    simp only [Tree.rootedWF, Bool.and_eq_true] at hR; exact hR.1.1
  obtain ⟨hPw, hPd⟩ := wf_at (n0 :: q0) (withBody F body') P hF1w hP
  obtain ⟨hDw, hDd⟩ := wf_at ((n0 :: q0) ++ [m]) Rt D hRw hD
  have hDn : D.name = m := by
    cases hq : (n0 :: q0) ++ [m] with
    | nil => simp at hq
    | cons a b =>
      rw [hq] at hD
      have := at_name b Rt D a hD
      rw [this]
      simp only [← hq]
      exact getLast_snoc' q0 n0 m _
  have hPok : P.allInfo infoOK = true := allInfo_at infoOK (n0 :: q0) (withBody F body') P hF1ok hP
  have hDok := allInfo_kids infoOK D (allInfo_at infoOK _ Rt D hRok hD)
  have hD1ok : (Tree.mk D.info []).allInfo infoOK = true := by
    simp only [Tree.allInfo, allInfoKids, Bool.and_true]; exact hDok.2
  have hall := allInfo_replaceAt infoOK (n0 :: q0) (withBody F body') (P.addKid (.mk D.info [])) hF1ok
    (allInfo_addKid infoOK P _ hPok hD1ok)
  -- well-formedness of the enlarged parent
  have hD1w : (Tree.mk D.info []).wf CT DT = true := by
    simp only [Tree.wf, kidsWF, Bool.and_true]; exact Tree.wf_info hDw
  have hP'w : (P.addKid (.mk D.info [])).wf CT DT = true := by
    cases P with
    | mk pi pk =>
      have hk := Tree.wf_kids hPw
      simp only [Tree.info_mk, Tree.kids_mk] at hk hnew hbody
      simp only [Tree.addKid, Tree.info_mk, Tree.kids_mk, Tree.wf, Bool.and_eq_true]
      refine ⟨Tree.wf_info hPw, kidsWF_append (ct := CT) (dt := DT) (.mk D.info []) pk _ hk ?_ ?_ hD1w ?_⟩
      · show D.info.name ∉ akeys pi.body
        have : D.info.name = m := hDn
        rw [this]; exact hbody
      · show D.info.name ∉ names pk
        have : D.info.name = m := hDn
        rw [this]; exact hnew
      · exact hDd (by simp)
  have hwf := replaceAt_wf (ct := CT) (dt := DT) (n0 :: q0) (withBody F body') P (P.addKid (.mk D.info [])) hF1w hP hP'w
    (by cases P; rfl) (fun h => by cases P; exact hPd h)
  exact C05_replace_root sess f F.name _ hv (rootedWF_replaceAt (withBody F body') _ n0 q0 hF1r hwf) hall

/-- C05 after a targeted append of what is BELOW a new node (`C09_target_new_below`, tree=None, parent below the root): the
    children of the runtime node become children of the file's parent node, and the file is still well-formed EMD 1.0 -/
theorem C05_target_new_below (sess : Session) (over : Bool) (f : Obj) (F Rt P D : Tree) (body' : List (String × Obj))
    (n0 : String) (q0 : List String) (m : String)
    (hv : validFile DT sess f = true)
    (hFok : F.allInfo infoOK = true) (hRok : Rt.allInfo infoOK = true)
    (hmdR : (mdEntries Rt.info).all (fun kv => mdEntryOK kv.2) = true)
    (hF : F.rootedWF CT DT = true) (hR : Rt.rootedWF CT DT = true) (hname : Rt.name = F.name)
    (hf : alookup F.name f.kids = some (encode F)) (hroot : (rootGroups f).contains F.name = true)
    (hmdname : "metadatabundle" ∉ names F.kids)
    (hmd : mdBody over F.info.body (mdEntries Rt.info) = .ok body')
    (hP : (withBody F body').at (n0 :: q0) = some P) (hD : Rt.at ((n0 :: q0) ++ [m]) = some D)
    (hnew : m ∉ names P.kids) (hbody : m ∉ akeys P.info.body)
    (hfresh : ∀ k ∈ D.kids, k.name ∉ akeys P.info.body ++ names P.kids) :
    ∃ f', appendInto DT f Rt ((n0 :: q0) ++ [m]) over .below none = .ok f' ∧ validFile DT sess f' = true := by
  have hap := C09_target_new_below over f F Rt P D body' (n0 :: q0) m hF hR hname hf hroot hmdname hmd hP hD hnew hbody hfresh
  refine ⟨_, hap, ?_⟩
  obtain ⟨hF1ok, hF1r⟩ := withBody_ok over F Rt.info body' hFok hF hmdname hmdR hmd
  have hF1w : (withBody F body').wf CT DT = true := by
    simp only [Tree.rootedWF, Bool.and_eq_true] at hF1r; exact hF1r.1.1
  have hRw : Rt.wf CT DT = true := by
    simp only [Tree.rootedWF, Bool.and_eq_true] at hR; exact hR.1.1
  obtain ⟨hPw, hPd⟩ := wf_at (n0 :: q0) (withBody F body') P hF1w hP
  obtain ⟨hDw, _⟩ := wf_at ((n0 :: q0) ++ [m]) Rt D hRw hD
  have hDk : kidsWF CT DT (akeys P.info.body ++ names P.kids) D.kids = true :=
    kidsWF_retake' D.kids _ _ (Tree.wf_kids hDw) hfresh
  have hP'w : (Tree.mk P.info (P.kids ++ D.kids)).wf CT DT = true := by
    cases P with
    | mk pi pk =>
      simp only [Tree.info_mk, Tree.kids_mk] at hDk ⊢
      have hk := Tree.wf_kids hPw
      simp only [Tree.info_mk, Tree.kids_mk] at hk
      simp only [Tree.wf, Bool.and_eq_true]
      exact ⟨Tree.wf_info hPw, kidsWF_append_list pk D.kids _ hk hDk⟩
  have hwf := replaceAt_wf (ct := CT) (dt := DT) (n0 :: q0) (withBody F body') P (.mk P.info (P.kids ++ D.kids)) hF1w hP hP'w
    (by cases P; rfl) (fun h => by cases P; exact hPd h)
  have hPok := allInfo_kids infoOK P (allInfo_at infoOK (n0 :: q0) (withBody F body') P hF1ok hP)
  have hDok := allInfo_kids infoOK D (allInfo_at infoOK _ Rt D hRok hD)
  have hP'ok : (Tree.mk P.info (P.kids ++ D.kids)).allInfo infoOK = true := by
    simp only [Tree.allInfo, allInfoKids_append, Bool.and_eq_true]
    exact ⟨hPok.2, hPok.1, hDok.1⟩
  have hall := allInfo_replaceAt infoOK (n0 :: q0) (withBody F body') _ hF1ok hP'ok
  exact C05_replace_root sess f F.name _ hv (rootedWF_replaceAt (withBody F body') _ n0 q0 hF1r hwf) hall

-- model runs for `C05_target_new_single` / `C05_target_new_below` on the example pair (`a/new` is in the runtime tree only, its
-- parent `a` is below the root; hypotheses: the non-vacuity examples of C09): the file after each save validates
example : ∀ over : Bool, (match appendInto DT (fileOf {} "u" exF) exR (["a"] ++ ["new"]) over .no none with
    | .ok f => validFile DT {} f && (f.at ["r", "a", "new"]).isSome && (f.at ["r", "a", "new", "newdeep"]).isNone
    | .error _ => false) = true := by decide
example : ∀ over : Bool, (match appendInto DT (fileOf {} "u" exF) exR (["a"] ++ ["new"]) over .below none with
    | .ok f => validFile DT {} f && (f.at ["r", "a", "newdeep"]).isSome && (f.at ["r", "a", "new"]).isNone
    | .error _ => false) = true := by decide

/-- C05 after a targeted APPEND-OVER of a node that is in the file, ALONE (`C09_target_over_single`, tree=False, parent
    below the root): the node's content is replaced, its file children re-linked, and the file is still well-formed EMD 1.0 -/
theorem C05_target_over_single (sess : Session) (f : Obj) (F Rt P D : Tree) (body' : List (String × Obj))
    (n0 : String) (q0 : List String)
    (hv : validFile DT sess f = true)
    (hFok : F.allInfo infoOK = true) (hRok : Rt.allInfo infoOK = true)
    (hmdR : (mdEntries Rt.info).all (fun kv => mdEntryOK kv.2) = true)
    (hF : F.rootedWF CT DT = true) (hR : Rt.rootedWF CT DT = true) (hname : Rt.name = F.name)
    (hf : alookup F.name f.kids = some (encode F)) (hroot : (rootGroups f).contains F.name = true)
    (hmdname : "metadatabundle" ∉ names F.kids)
    (hmd : mdBody true F.info.body (mdEntries Rt.info) = .ok body')
    (hP : (withBody F body').at (n0 :: q0) = some P) (hD : Rt.at ((n0 :: q0) ++ [D.name]) = some D)
    (hin : (findKid D.name P.kids).isSome = true)
    (hcompat : compatOne true P.info P.kids (akeys P.info.body ++ names P.kids ++ [D.name]) (.mk D.info []) = true) :
    ∃ f', appendInto DT f Rt ((n0 :: q0) ++ [D.name]) true .no none = .ok f' ∧ validFile DT sess f' = true := by
  obtain ⟨pk1, hw1, hap, hother, hat⟩ :=
    C09_target_over_single f F Rt P D body' (n0 :: q0) hF hR hname hf hroot hmdname hmd hP hD hin hcompat
  refine ⟨_, hap, ?_⟩
  obtain ⟨hF1ok, hF1r⟩ := withBody_ok true F Rt.info body' hFok hF hmdname hmdR hmd
  have hF1w : (withBody F body').wf CT DT = true := by
    simp only [Tree.rootedWF, Bool.and_eq_true] at hF1r; exact hF1r.1.1
  obtain ⟨hPw, hPd⟩ := wf_at (n0 :: q0) (withBody F body') P hF1w hP
  have hPok := allInfo_kids infoOK P (allInfo_at infoOK (n0 :: q0) (withBody F body') P hF1ok hP)
  have hDok := allInfo_kids infoOK D (allInfo_at infoOK _ Rt D hRok hD)
  have hP'ok : (Tree.mk P.info pk1).allInfo infoOK = true := by
    apply allInfo_of_paths infoOK _ hw1 hPok.2
    intro n p i hi
    simp only [Tree.kids_mk] at hi
    by_cases hn : n = D.name
    · subst hn
      rw [hat p] at hi
      cases hf1 : cK P.kids D.name p with
      | none =>
        rw [hf1] at hi
        simp only [combine] at hi
        cases p with
        | nil => simp only [Tree.at, Option.map_some, Option.some.injEq] at hi; subst hi; exact hDok.2
        | cons a l => simp [Tree.at, findKid] at hi
      | some x =>
        rw [hf1] at hi
        cases p with
        | nil =>
          simp only [Tree.at, Option.map_some, combine, Option.some.injEq] at hi
          subst hi
          split
          · exact hDok.2
          · exact paths_of_allInfo infoOK P.kids hPok.1 _ _ x hf1
        | cons a l =>
          simp only [Tree.at, Tree.kids_mk, findKid, List.find?_nil, Option.map_none, combine, Option.some.injEq] at hi
          subst hi
          exact paths_of_allInfo infoOK P.kids hPok.1 _ _ x hf1
    · have e : cK pk1 n p = cK P.kids n p := by
        simp only [cK, Tree.at, Tree.kids_mk, hother n hn]
      rw [e] at hi
      exact paths_of_allInfo infoOK P.kids hPok.1 n p i hi
  have hwf := replaceAt_wf (ct := CT) (dt := DT) (n0 :: q0) (withBody F body') P (.mk P.info pk1) hF1w hP hw1
    (by cases P; rfl) (fun h => by cases P; exact hPd h)
  have hall := allInfo_replaceAt infoOK (n0 :: q0) (withBody F body') _ hF1ok hP'ok
  exact C05_replace_root sess f F.name _ hv (rootedWF_replaceAt (withBody F body') _ n0 q0 hF1r hwf) hall

-- non-vacuity / model run for `C05_target_over_single`: the file holds r/a/b (an Array with a child `keep`), the runtime tree
-- holds r/a/b as a plain Node; append-over of a/b alone: hypotheses hold, b becomes a Node, `keep` is re-linked, the file validates
def exOF : Tree :=
  .mk { name := "r", cls := "Root", gtype := "root", body := [] }
    [ .mk { name := "a", cls := "Node", gtype := "node", body := [] }
        [ .mk { name := "b", cls := "Array", gtype := "array", body := exBody }
            [ .mk { name := "keep", cls := "Node", gtype := "node", body := [] } [] ] ] ]
def exOR : Tree :=
  .mk { name := "r", cls := "Root", gtype := "root", body := [] }
    [ .mk { name := "a", cls := "Node", gtype := "node", body := [] }
        [ .mk { name := "b", cls := "Node", gtype := "node", body := [] } [] ] ]
example : exOF.rootedWF CT DT = true ∧ exOR.rootedWF CT DT = true ∧ exOF.allInfo infoOK = true ∧ exOR.allInfo infoOK = true ∧
    validFile DT {} (fileOf {} "u" exOF) = true ∧
    (match exOF.at ["a"], exOR.at (["a"] ++ ["b"]) with
     | some P, some D => (findKid D.name P.kids).isSome &&
         compatOne true P.info P.kids (akeys P.info.body ++ names P.kids ++ [D.name]) (.mk D.info [])
     | _, _ => false) = true := by decide
example : (match appendInto DT (fileOf {} "u" exOF) exOR (["a"] ++ ["b"]) true .no none with
    | .ok f => validFile DT {} f && (f.at ["r", "a", "b"]).bind Obj.pyClass == some "Node" && (f.at ["r", "a", "b", "keep"]).isSome
    | .error _ => false) = true := by decide

/-- children that are the old ones except under one name, where they are path by path the append-over `combine` of the old
    branch and a valid-bodied tree `E`, have only valid bodies -/
theorem allInfo_over (pi : NodeInfo) (pk pk1 : List Tree) (E : Tree) (nm : String)
    (hw1 : (Tree.mk pi pk1).wf CT DT = true) (hpi : infoOK pi = true) (hpk : allInfoKids infoOK pk = true)
    (hE : E.allInfo infoOK = true)
    (hother : ∀ m, m ≠ nm → findKid m pk1 = findKid m pk)
    (hat : ∀ p, cK pk1 nm p = combine true (cK pk nm p) ((E.at p).map Tree.info)) :
    (Tree.mk pi pk1).allInfo infoOK = true := by
  apply allInfo_of_paths infoOK _ hw1 hpi
  intro n p i hi
  simp only [Tree.kids_mk] at hi
  by_cases hn : n = nm
  · subst hn
    rw [hat p] at hi
    have hEp : ∀ j, (E.at p).map Tree.info = some j → infoOK j = true := by
      intro j hj
      simp only [Option.map_eq_some_iff] at hj
      obtain ⟨d, hd, rfl⟩ := hj
      exact (allInfo_kids infoOK d (allInfo_at infoOK p E d hE hd)).2
    cases hf1 : cK pk n p with
    | none =>
      rw [hf1] at hi
      simp only [combine] at hi
      exact hEp i hi
    | some x =>
      rw [hf1] at hi
      cases he : (E.at p).map Tree.info with
      | none =>
        rw [he] at hi; simp only [combine, Option.some.injEq] at hi
        subst hi; exact paths_of_allInfo infoOK pk hpk _ _ x hf1
      | some y =>
        rw [he] at hi; simp only [combine, Option.some.injEq, if_true] at hi
        subst hi; exact hEp _ he
  · have e : cK pk1 n p = cK pk n p := by
      simp only [cK, hother n hn]
    rw [e] at hi
    exact paths_of_allInfo infoOK pk hpk n p i hi

/-- C05 after a targeted APPEND-OVER of a node that is in the file, WITH ITS BRANCH (`C09_target_over_branch`, tree=True,
    parent below the root): content replaced, file-only children kept, runtime children merged — and the file is still
    well-formed EMD 1.0 -/
theorem C05_target_over_branch (sess : Session) (f : Obj) (F Rt P D : Tree) (body' : List (String × Obj))
    (n0 : String) (q0 : List String)
    (hv : validFile DT sess f = true)
    (hFok : F.allInfo infoOK = true) (hRok : Rt.allInfo infoOK = true)
    (hmdR : (mdEntries Rt.info).all (fun kv => mdEntryOK kv.2) = true)
    (hF : F.rootedWF CT DT = true) (hR : Rt.rootedWF CT DT = true) (hname : Rt.name = F.name)
    (hf : alookup F.name f.kids = some (encode F)) (hroot : (rootGroups f).contains F.name = true)
    (hmdname : "metadatabundle" ∉ names F.kids)
    (hmd : mdBody true F.info.body (mdEntries Rt.info) = .ok body')
    (hP : (withBody F body').at (n0 :: q0) = some P) (hD : Rt.at ((n0 :: q0) ++ [D.name]) = some D)
    (hin : (findKid D.name P.kids).isSome = true)
    (hcompat : compatOne true P.info P.kids (akeys P.info.body ++ names P.kids ++ [D.name]) D = true) :
    ∃ f', appendInto DT f Rt ((n0 :: q0) ++ [D.name]) true .yes none = .ok f' ∧ validFile DT sess f' = true := by
  obtain ⟨pk1, hw1, hap, hother, hat⟩ :=
    C09_target_over_branch f F Rt P D body' (n0 :: q0) hF hR hname hf hroot hmdname hmd hP hD hin hcompat
  refine ⟨_, hap, ?_⟩
  obtain ⟨hF1ok, hF1r⟩ := withBody_ok true F Rt.info body' hFok hF hmdname hmdR hmd
  have hF1w : (withBody F body').wf CT DT = true := by
    simp only [Tree.rootedWF, Bool.and_eq_true] at hF1r; exact hF1r.1.1
  obtain ⟨hPw, hPd⟩ := wf_at (n0 :: q0) (withBody F body') P hF1w hP
  have hPok := allInfo_kids infoOK P (allInfo_at infoOK (n0 :: q0) (withBody F body') P hF1ok hP)
  have hDok := allInfo_at infoOK _ Rt D hRok hD
  have hP'ok := allInfo_over P.info P.kids pk1 D D.name hw1 hPok.2 hPok.1 hDok hother hat
  have hwf := replaceAt_wf (ct := CT) (dt := DT) (n0 :: q0) (withBody F body') P (.mk P.info pk1) hF1w hP hw1
    (by cases P; rfl) (fun h => by cases P; exact hPd h)
  have hall := allInfo_replaceAt infoOK (n0 :: q0) (withBody F body') _ hF1ok hP'ok
  exact C05_replace_root sess f F.name _ hv (rootedWF_replaceAt (withBody F body') _ n0 q0 hF1r hwf) hall

-- model run for `C05_target_over_branch` on the pair above with a runtime child below b: b replaced, `keep` kept, `fresh` merged
def exOR2 : Tree :=
  .mk { name := "r", cls := "Root", gtype := "root", body := [] }
    [ .mk { name := "a", cls := "Node", gtype := "node", body := [] }
        [ .mk { name := "b", cls := "Node", gtype := "node", body := [] }
            [ .mk { name := "fresh", cls := "Node", gtype := "node", body := [] } [] ] ] ]
example : exOR2.rootedWF CT DT = true ∧ exOR2.allInfo infoOK = true ∧
    (match exOF.at ["a"], exOR2.at (["a"] ++ ["b"]) with
     | some P, some D => (findKid D.name P.kids).isSome &&
         compatOne true P.info P.kids (akeys P.info.body ++ names P.kids ++ [D.name]) D
     | _, _ => false) = true := by decide
example : (match appendInto DT (fileOf {} "u" exOF) exOR2 (["a"] ++ ["b"]) true .yes none with
    | .ok f => validFile DT {} f && (f.at ["r", "a", "b"]).bind Obj.pyClass == some "Node" && (f.at ["r", "a", "b", "keep"]).isSome &&
               (f.at ["r", "a", "b", "fresh"]).isSome
    | .error _ => false) = true := by decide

/-! ### per-class body validity: what `Array.to_h5` writes is a valid Array body -/

theorem dim_prefix (n : Nat) : ((autoName "dim" n).toList.take 3 == ['d', 'i', 'm']) = true := by
  simp [autoName, String.toList_append]

theorem dimName_eq (n : Nat) : dimName n = autoName "dim" n := rfl

/-- C05, Arrays: for every Array value with one dim vector, unit and name per axis (`LenInv`: every constructed Array),
    the body `to_h5` writes holds `data` with `units` and exactly the datasets `dim0 … dim(k-1)`, each with a `name` and
    (unless it is the label vector of a stack) `units` -/
theorem C05_array_body_ok (ops : NumOps) (a : ArrayVal) : arrayBodyOK (a.toBody ops) = true := by
  have hdata := C02_data_units ops a
  have hfilter : ((a.toBody ops).filter (fun kv => kv.1.toList.take 3 == ['d', 'i', 'm'])).length
      = a.rank + (if a.isStack then 1 else 0) := by
    rw [toBody_eq]
    simp only [List.filter_append, List.length_append]
    have h1 : ([("data", Obj.dataset [("units", AVal.str a.units)] (DVal.tok a.dataTok))].filter
        (fun kv => kv.1.toList.take 3 == ['d', 'i', 'm'])).length = 0 := by
      have : (("data" : String).toList.take 3 == ['d', 'i', 'm']) = false := by decide
      simp [List.filter_cons, this]
    have h2 : (((List.range a.rank).map (fun n => (autoName "dim" n, storedDim ops a n))).filter
        (fun kv => kv.1.toList.take 3 == ['d', 'i', 'm'])).length = a.rank := by
      rw [List.filter_eq_self.mpr]
      · simp
      · intro x hx
        obtain ⟨n, _, rfl⟩ := List.mem_map.mp hx
        exact dim_prefix n
    rw [h1, h2]
    cases a.isStack
    · simp
    · simp [dim_prefix]
  simp only [arrayBodyOK, hdata, alookup, if_true, Option.isSome_some, Bool.true_and, hfilter, List.all_eq_true, List.mem_range]
  intro n hn
  rw [dimName_eq]
  by_cases hr : n < a.rank
  · rw [alookup_dim ops a n hr]
    simp [storedDim, alookup]
  · have hstack : a.isStack = true := by
      cases hs : a.isStack with
      | true => rfl
      | false => simp [hs] at hn; omega
    have hn' : n = a.rank := by simp [hstack] at hn; omega
    subst hn'
    rw [alookup_labels ops a]
    simp [hstack, alookup]

/-! ### …and what `Metadata.to_h5` writes is a valid Metadata entry -/

mutual
theorem mdItemOK_saveItem : ∀ (v : PyVal) (o : Obj), saveItem v = .ok o → mdItemOK o = true
  | .dict items, o, h => by
    simp only [saveItem, bind, Except.bind] at h
    cases hs : saveItems items with
    | error e => simp [hs] at h
    | ok kids =>
      simp only [hs, pure, Except.pure, Except.ok.injEq] at h
      subst h
      simp only [mdItemOK, typeAttr, alookup, if_true]
      exact mdItemsOK_saveItems items kids hs
  | .none, o, h => by simp only [saveItem, pure, Except.pure, Except.ok.injEq] at h; subst h; simp [mdItemOK, typeAttr, alookup]
  | .str s, o, h => by simp only [saveItem, pure, Except.pure, Except.ok.injEq] at h; subst h; simp [mdItemOK, typeAttr, alookup]
  | .bool b, o, h => by simp only [saveItem, pure, Except.pure, Except.ok.injEq] at h; subst h; simp [mdItemOK, typeAttr, alookup]
  | .num k r, o, h => by simp only [saveItem, pure, Except.pure, Except.ok.injEq] at h; subst h; simp [mdItemOK, typeAttr, alookup]
  | .npnum d k r, o, h => by simp only [saveItem, pure, Except.pure, Except.ok.injEq] at h; subst h; simp [mdItemOK, typeAttr, alookup]
  | .arr t, o, h => by simp only [saveItem, pure, Except.pure, Except.ok.injEq] at h; subst h; simp [mdItemOK, typeAttr, alookup]
  | .seqNp isT t, o, h => by simp only [saveItem, pure, Except.pure, Except.ok.injEq] at h; subst h; simp [mdItemOK, typeAttr, alookup]
  | .npbool b, o, h => by simp [saveItem, throw, throwThe, MonadExceptOf.throw] at h
  | .bytes s, o, h => by simp [saveItem, throw, throwThe, MonadExceptOf.throw] at h
  | .other k, o, h => by simp [saveItem, throw, throwThe, MonadExceptOf.throw] at h
  | .tuple xs st, o, h => by
    simp only [saveItem] at h
    repeat' split at h
    all_goals first
      | (simp only [pure, Except.pure, Except.ok.injEq] at h; subst h; simp [mdItemOK, typeAttr, contAttrs, alookup])
      | (simp [throw, throwThe, MonadExceptOf.throw] at h)
  | .list xs st, o, h => by
    simp only [saveItem] at h
    repeat' split at h
    all_goals first
      | (simp only [pure, Except.pure, Except.ok.injEq] at h; subst h; simp [mdItemOK, typeAttr, contAttrs, alookup])
      | (simp [throw, throwThe, MonadExceptOf.throw] at h)
theorem mdItemsOK_saveItems : ∀ (items : List (String × PyVal)) (kids : List (String × Obj)), saveItems items = .ok kids →
    mdItemsOK kids = true
  | [], kids, h => by simp only [saveItems, pure, Except.pure, Except.ok.injEq] at h; subst h; rfl
  | (k, v) :: rest, kids, h => by
    simp only [saveItems, bind, Except.bind] at h
    split at h
    · simp [throw, throwThe, MonadExceptOf.throw] at h
    · cases hv : saveItem v with
      | error e => simp [hv] at h
      | ok o =>
        simp only [hv] at h
        cases hr : saveItems rest with
        | error e => simp [hr] at h
        | ok os =>
          simp only [hr] at h
          split at h
          · simp [throw, throwThe, MonadExceptOf.throw] at h
          · simp only [pure, Except.pure, Except.ok.injEq] at h
            subst h
            simp only [mdItemsOK, Bool.and_eq_true]
            exact ⟨mdItemOK_saveItem v o hv, mdItemsOK_saveItems rest os hr⟩
end

/-- C05, Metadata: whatever `Metadata.to_h5` writes — for EVERY dictionary it accepts, at any nesting depth — is a group
    tagged `metadata` with its class, all of whose items are typed (and container groups carry their length) -/
theorem C05_metadata_entry_ok (cls : String) (items : List (String × PyVal)) (o : Obj) (h : mdToObj cls items = .ok o) :
    mdEntryOK o = true := by
  simp only [mdToObj, bind, Except.bind] at h
  cases hs : saveItems items with
  | error e => simp [hs] at h
  | ok kids =>
    simp only [hs, pure, Except.pure, Except.ok.injEq] at h
    subst h
    simp only [mdEntryOK, Obj.gtype, Obj.pyClass, Obj.attrs, alookup, if_true, Bool.and_eq_true]
    exact ⟨⟨by simp, by simp⟩, mdItemsOK_saveItems items kids hs⟩

/-- the Array writer creates datasets only: no group of an Array body needs a tag -/
theorem toBody_groups_ok (ops : NumOps) (a : ArrayVal) : bodyGroupsOK (a.toBody ops) = true := by
  simp only [bodyGroupsOK, ArrayVal.toBody, List.all_append, List.all_cons, List.all_nil, List.all_map, Bool.and_eq_true,
    attrGroupOK, Bool.or_true, Bool.and_true, true_and]
  refine ⟨?_, ?_⟩
  · rw [List.all_eq_true]; intro n _; simp [attrGroupOK]
  · cases a.isStack <;> simp [attrGroupOK]

/-- C05, an Array NODE: the body `Node.to_h5` + `Array.to_h5` write — the metadata bundle (when the node carries Metadata)
    followed by the Array datasets — is a valid body for group type `array`, for every Array value and every list of
    Metadata entries written by `Metadata.to_h5` -/
theorem C05_array_node_ok (ops : NumOps) (a : ArrayVal) (entries : List (String × Obj))
    (he : entries.all (fun kv => mdEntryOK kv.2) = true) :
    bodyOK "array" (bundleOf entries ++ a.toBody ops) = true := by
  have harr := C05_array_body_ok ops a
  by_cases hemp : entries.isEmpty = true
  · simp only [bundleOf, hemp, if_true, List.nil_append, bodyOK, beq_self_eq_true, harr, Bool.and_true]
    have : alookup "metadatabundle" (a.toBody ops) = none := by
      rw [toBody_eq]
      apply alookup_none_of_not_mem
      simp only [akeys, List.map_append, List.map_cons, List.map_nil, List.map_map, List.mem_append, List.mem_cons,
        List.mem_map, List.mem_range, Function.comp, not_or]
      refine ⟨by decide, ?_, ?_⟩
      · rintro ⟨n, _, e⟩
        have := congrArg (fun (s : String) => s.toList.take 3 == ['d', 'i', 'm']) e
        simp only [dim_prefix] at this
        exact absurd this (by decide)
      · cases a.isStack
        · simp
        · simp only [if_true, List.map_cons, List.map_nil, List.mem_singleton, List.mem_cons, List.not_mem_nil, or_false]
          rintro ⟨x, rfl, e⟩
          have := congrArg (fun (s : String) => s.toList.take 3 == ['d', 'i', 'm']) e
          simp only [dim_prefix] at this
          exact absurd this (by decide)
    simp [this, toBody_groups_ok]
  · have hne : entries.isEmpty = false := by simpa using hemp
    simp only [bundleOf, hne, Bool.false_eq_true, if_false, List.cons_append, List.nil_append, bodyOK, alookup, if_true,
      beq_self_eq_true, Bool.and_eq_true]
    refine ⟨⟨?_, ?_⟩, by rw [bodyGroupsOK_cons_bundle]; exact toBody_groups_ok ops a⟩
    · simp [bundleOK, Obj.gtype, Obj.attrs, bundleAttrs, alookup, he]
    · -- the bundle is neither `data` nor a `dim*` dataset
      have hb : (("metadatabundle" : String).toList.take 3 == ['d', 'i', 'm']) = false := by decide
      have hd : ¬ ("metadatabundle" = "data") := by decide
      simp only [arrayBodyOK, alookup, hd, if_false, List.filter_cons, hb, Bool.false_eq_true] at harr ⊢
      have hdim : ∀ n, ¬ ("metadatabundle" = dimName n) := by
        intro n e
        have := congrArg (fun (s : String) => s.toList.take 3 == ['d', 'i', 'm']) e
        simp only [hb, dimName_eq, dim_prefix] at this
        cases this
      simp only [hdim, if_false]
      exact harr

/-- C05, node-valued attributes of Custom nodes: in a valid body every group other than the metadata bundle carries one
    of the five `custom_<type>` tags of the vocabulary and a class name — nothing is untagged and no other tag occurs -/
theorem C05_attr_groups_tagged (gtype : String) (body : List (String × Obj)) (h : bodyOK gtype body = true)
    (k : String) (a : Attrs) (kids : List (String × Obj)) (hk : (k, Obj.group a kids) ∈ body) (hb : k ≠ "metadatabundle") :
    ∃ t, (Obj.group a kids).gtype = some t ∧ t ∈ ["custom_node", "custom_array", "custom_pointlist", "custom_pointlistarray", "custom_custom"]
      ∧ (Obj.group a kids).pyClass.isSome = true := by
  simp only [bodyOK, Bool.and_eq_true] at h
  have := (List.all_eq_true.mp h.2) _ hk
  simp only [hb, beq_iff_eq, false_or, Bool.or_eq_true, attrGroupOK, Bool.and_eq_true] at this
  cases ht : (Obj.group a kids).gtype with
  | none => simp [ht] at this
  | some t =>
    simp only [ht] at this
    refine ⟨t, rfl, ?_, this.2⟩
    have h5 : EmdGen.customGroupTypes = ["custom_node", "custom_array", "custom_pointlist", "custom_pointlistarray", "custom_custom"] := by decide
    rw [← h5]
    simpa using this.1

theorem customAttrGroup_ok (i : NodeInfo) (h : DT.contains i.gtype = true) : attrGroupOK (customAttrGroup i) = true := by
  have hd : DT = EmdGen.dataGroupTypes := rfl
  simp only [customAttrGroup, nodeGroup, nodeAttrs, retagCustom, alookup, if_true, areplace, attrGroupOK, Obj.gtype, Obj.pyClass,
    Obj.attrs, Bool.and_eq_true]
  refine ⟨?_, by simp [alookup]⟩
  simp only [alookup, if_true, EmdGen.customGroupTypes, List.contains_eq_mem, List.mem_map, decide_eq_true_eq]
  exact ⟨i.gtype, by simpa [hd] using h, rfl⟩

/-- C05, a Custom node: the body `Custom.to_h5` writes — what `Node.to_h5` wrote (a valid body without attribute groups of
    its own) followed by one re-tagged group per node-valued attribute — is a valid body, whatever the classes of the
    attribute nodes are (built-in, subclasses, Custom again): the tag is derived from the attribute's GROUP TYPE, which is in
    the vocabulary, never from its class name -/
theorem C05_custom_body_ok (own : List (String × Obj)) (attrs : List NodeInfo)
    (hown : bodyOK "custom" own = true)
    (hat : ∀ i ∈ attrs, DT.contains i.gtype = true ∧ i.name ≠ "metadatabundle") :
    bodyOK "custom" (customBody own attrs) = true := by
  have hc : ("custom" == "array") = false := by decide
  simp only [bodyOK, hc, Bool.false_eq_true, if_false, Bool.and_true, Bool.and_eq_true] at hown ⊢
  have hlook : alookup "metadatabundle" (customBody own attrs) = alookup "metadatabundle" own := by
    simp only [customBody, alookup_append]
    cases alookup "metadatabundle" own with
    | some b => rfl
    | none =>
      simp only [Option.none_or]
      apply alookup_none_of_not_mem
      simp only [akeys, List.map_map, List.mem_map, Function.comp, not_exists, not_and]
      intro i hi e
      exact (hat i hi).2 e
  refine ⟨by rw [hlook]; exact hown.1, ?_⟩
  simp only [bodyGroupsOK, customBody, List.all_append, Bool.and_eq_true, List.all_map] at hown ⊢
  refine ⟨hown.2, ?_⟩
  rw [List.all_eq_true]
  intro i hi
  simp only [Function.comp, Bool.or_eq_true]
  right
  exact customAttrGroup_ok i (hat i hi).1

-- non-vacuity of `C05_custom_body_ok`: a Custom node with a bundle and two attributes, one an Array (class `Image`, a subclass)
example : bodyOK "custom" (customBody [("metadatabundle", .group bundleAttrs [])]
    [⟨"first", "Image", "array", [("data", .dataset [("units", .str "")] (.tok "t"))]⟩, ⟨"second", "Node", "node", []⟩]) = true := by decide
example : (customBody [] [⟨"first", "Image", "array", []⟩]) =
    [("first", .group [("emd_group_type", .str "custom_array"), ("python_class", .str "Image")] [])] := by
  simp [customBody, customAttrGroup, nodeGroup, nodeAttrs, retagCustom, alookup, areplace]

-- a group tagged with a class name instead of a group type (`custom_image`) makes the body invalid; retagged properly it is valid
example : bodyOK "custom" [("first", .group [("emd_group_type", .str "custom_image"), ("python_class", .str "Image")] [])] = false := by decide
example : bodyOK "custom" [("first", .group [("emd_group_type", .str "custom_array"), ("python_class", .str "Image")] [])] = true := by decide

-- non-vacuity: the C09 example trees have valid bodies, and the files the model writes for them validate
example : exF.allInfo infoOK = true ∧ exR.allInfo infoOK = true := by decide
example : validFile DT {} (fileOf {} "u" exF) = true := by decide
example : (match appendInto DT (fileOf {} "u" exF) exR [] true .yes none with
    | .ok f => validFile DT {} f | .error _ => false) = true := by decide

end EmdProps
