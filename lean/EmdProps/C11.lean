/-
C11 — Write never clobbers, overwrite leaves no residue, append to nothing is write.

All four clauses are theorems about `save` for EVERY file-system state (whatever the old file is: EMD, foreign
HDF5 or junk bytes), EVERY source and tree option.  A failing `save` returns no file system at all (`Except`),
so "nothing is touched" is structural: the caller's `fs` is the state afterwards.  The mode tables the model
classifies with are REGENERATED from write.py on every run; `C11_tables` ties them to the documented spellings.
-/
import EmdProps.C01

set_option linter.unusedSimpArgs false

namespace EmdProps
open EmdModel

/-- write mode on an existing path is refused, whatever the path holds -/
theorem C11_write_refuses (sess : Session) (uuid path mode : String) (fs : FS) (src : Src) (opt : TreeOpt)
    (st : FileState) (hex : fsLookup fs path = some st)
    (hm : classifyMode (effectiveMode mode none) = some .write) :
    ∃ w, save sess uuid fs path src mode opt none = .error (.refused w) := by
  refine ⟨"file exists", ?_⟩
  simp only [save, hm, saveClass, hex, Option.isSome_some, if_true]
  rfl

/-- an unknown mode string is rejected before anything is touched -/
theorem C11_unknown (sess : Session) (uuid path mode : String) (fs : FS) (src : Src) (opt : TreeOpt)
    (ep : Option String) (hm : classifyMode (effectiveMode mode ep) = none) :
    ∃ w, save sess uuid fs path src mode opt ep = .error (.refused w) := by
  refine ⟨"unrecognized mode", ?_⟩
  simp only [save, hm]
  rfl

/-- … for EVERY kind of input (`save(path, x, 'w')` with x a node, an array, a dict, a Metadata, a list or tuple of anything, or
    something that cannot be saved at all): write mode on an existing path is refused, whatever the file holds; a failing save
    returns no file system, so the file is untouched -/
theorem C11_write_refuses_every_input (sess : Session) (uuid path mode : String) (fs : FS) (inp : Input) (opt : TreeOpt)
    (st : FileState) (hex : fsLookup fs path = some st)
    (hm : classifyMode (effectiveMode mode none) = some .write) :
    ∃ w, saveInput sess uuid fs path inp mode opt none = .error (.refused w) := by
  cases inp with
  | node s => exact C11_write_refuses sess uuid path mode fs s opt st hex hm
  | array b => exact C11_write_refuses sess uuid path mode fs _ opt st hex hm
  | dict e => exact C11_write_refuses sess uuid path mode fs _ opt st hex hm
  | metadata n e => exact C11_write_refuses sess uuid path mode fs _ opt st hex hm
  | list items =>
    refine ⟨"file exists", ?_⟩
    simp only [saveInput, hm, hex, Option.isSome_some, Bool.and_true, beq_self_eq_true, if_true]
    rfl
  | other =>
    refine ⟨"invalid type for data", ?_⟩
    simp only [saveInput, hm]
    rfl

/-- … and an unknown mode string is rejected for every kind of input -/
theorem C11_unknown_every_input (sess : Session) (uuid path mode : String) (fs : FS) (inp : Input) (opt : TreeOpt)
    (ep : Option String) (hm : classifyMode (effectiveMode mode ep) = none) :
    ∃ w, saveInput sess uuid fs path inp mode opt ep = .error (.refused w) := by
  cases inp with
  | node s => exact C11_unknown sess uuid path mode fs s opt ep hm
  | array b => exact C11_unknown sess uuid path mode fs _ opt ep hm
  | dict e => exact C11_unknown sess uuid path mode fs _ opt ep hm
  | metadata n e => exact C11_unknown sess uuid path mode fs _ opt ep hm
  | list items =>
    refine ⟨"unrecognized mode", ?_⟩
    simp only [saveInput, hm]
    rfl
  | other =>
    refine ⟨"unrecognized mode", ?_⟩
    simp only [saveInput, hm]
    rfl

/-- overwrite = delete, then exactly what a write into the now fresh path does: nothing of the old file can
    survive, because the old file is not an input of the right-hand side -/
theorem C11_overwrite (sess : Session) (uuid path mode wmode : String) (fs : FS) (src : Src) (opt : TreeOpt)
    (hm : classifyMode (effectiveMode mode none) = some .overwrite)
    (hw : classifyMode (effectiveMode wmode none) = some .write) :
    save sess uuid fs path src mode opt none = save sess uuid (fsErase fs path) path src wmode opt none := by
  have hfree : fsLookup (fsErase fs path) path = none := alookup_aeraseAll_same path fs
  simp only [save, hm, hw, saveClass, hfree, Option.isSome_none, Bool.false_eq_true, if_false]

/-- after an overwrite the path holds a file that does not depend on what was there before:
    two file systems that differ only at `path` give results that differ nowhere -/
theorem C11_overwrite_no_residue (sess : Session) (uuid path mode : String) (fs : FS) (old1 old2 : FileState)
    (src : Src) (opt : TreeOpt) (hm : classifyMode (effectiveMode mode none) = some .overwrite) :
    save sess uuid (fsErase (fsSet fs path old1) path) path src mode opt none
      = save sess uuid (fsErase (fsSet fs path old2) path) path src mode opt none := by
  have h : ∀ o, fsErase (fsErase (fsSet fs path o) path) path = fsErase fs path := by
    intro o
    simp only [fsErase, fsSet, aset, aeraseAll]
    cases alookup path fs with
    | none => simp [List.filter_append, List.filter_filter]
    | some v =>
      simp only [List.filter_filter, Bool.and_self]
      induction fs with
      | nil => rfl
      | cons kv l ih =>
        obtain ⟨k, w⟩ := kv
        simp only [areplace]
        by_cases hk : k = path
        · simp [hk]
        · simp only [hk, if_false, List.filter_cons, ne_eq, not_false_eq_true, decide_true, if_true]
          rw [ih]
  simp only [save, hm, saveClass, h]

/-- append / append-over to a path that does not exist behave exactly like write -/
theorem C11_append_absent (sess : Session) (uuid path mode wmode : String) (fs : FS) (src : Src) (opt : TreeOpt)
    (hfree : fsLookup fs path = none)
    (hm : classifyMode (effectiveMode mode none) = some .append ∨
          classifyMode (effectiveMode mode none) = some .appendover)
    (hw : classifyMode (effectiveMode wmode none) = some .write) :
    save sess uuid fs path src mode opt none = save sess uuid fs path src wmode opt none := by
  cases hm with
  | inl h => simp only [save, h, hw, saveClass, hfree, Option.isSome_none, Bool.false_eq_true, if_false]
  | inr h => simp only [save, h, hw, saveClass, hfree, Option.isSome_none, Bool.false_eq_true, if_false]

/-- the documented spellings (write.py docstring) and what the regenerated tables make of them -/
def documentedModes : List (String × ModeClass) :=
  [("w", .write), ("write", .write), ("o", .overwrite), ("overwrite", .overwrite),
   ("a", .append), ("+", .append), ("append", .append),
   ("ao", .appendover), ("oa", .appendover), ("o+", .appendover), ("+o", .appendover), ("appendover", .appendover)]

/-- every documented spelling is classified as documented, and the four tables contain nothing else -/
theorem C11_tables :
    (documentedModes.all (fun (m, c) => classifyMode m == some c)) = true ∧
    ((EmdGen.writeModes ++ EmdGen.overwriteModes ++ EmdGen.appendModes ++ EmdGen.appendOverModes).all
      (fun m => (documentedModes.map (·.1)).contains m)) = true ∧
    (["", "r", "x", "W", "wa", "append-over", "aa"].all (fun m => classifyMode m == none)) = true := by
  decide

/-- without an emdpath the mode string is taken as given -/
theorem C11_effective_none (mode : String) : effectiveMode mode none = mode := by
  simp [effectiveMode]

-- non-vacuity: the hypotheses are met by the documented spellings
example : classifyMode (effectiveMode "write" none) = some .write := by decide
example : classifyMode (effectiveMode "o" none) = some .overwrite := by decide
example : classifyMode (effectiveMode "+" none) = some .append := by decide
example : classifyMode (effectiveMode "o+" none) = some .appendover := by decide
example : classifyMode (effectiveMode "banana" none) = none := by decide

end EmdProps
