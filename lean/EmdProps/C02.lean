/-
C02 — Array round-trip: data, dtype, shape, units, calibrations and stack labels.

The float-free core, for EVERY arithmetic `ops` (IEEE doubles, int64, exact): the writer stores a dim vector compressed
to its first two entries exactly when the READER'S OWN expansion of those two entries reproduces the vector
(`dimIsLinear` is defined through `unpackDim`), so
  C02_axis_compressed — a compressed axis reads back as a vector elementwise equal (numpy `==`) to the one saved,
                         whatever rounding the ramp arithmetic has (nearly-linear vectors are simply not compressed);
  C02_axis_full       — an uncompressed axis is stored whole and comes back verbatim;
  C02_stored_length   — every stored calibration dataset has length 2 or the axis extent (C05's clause);
  C02_data_units      — `data` carries the data token (dtype, shape, element bytes: h5py contract H2) and the units;
  C02_labels          — the label vector is stored in order under the name `_labels_` as the last dim dataset, and
                        `C14_label_index` shows label i addresses slice i.
The composition of these through the dataset lookups of `_get_constructor_args` (dim<n> naming) is exercised by the
correspondence (bit-exact dim values at file level and after read-back), not proved: see the level note.
-/
import EmdProps.C14

set_option linter.unusedSimpArgs false

namespace EmdProps
open EmdModel

/-- a compressed axis: the reader's expansion of the two stored entries is elementwise equal to the saved vector -/
theorem C02_axis_compressed (ops : NumOps) (d : List Num) (n : Nat) (h : dimIsLinear ops d n = true) :
    ∃ e, unpackDim ops (.vec (d.take 2)) n = .ok e ∧ vecEq ops d e = true ∧ e.length = n := by
  unfold dimIsLinear at h
  cases hu : unpackDim ops (.vec (d.take 2)) n with
  | error e => simp [hu] at h
  | ok e =>
    simp only [hu] at h
    exact ⟨e, rfl, h, C14_unpack_length ops _ n e hu⟩

/-- an uncompressed axis of the right length comes back verbatim -/
theorem C02_axis_full (ops : NumOps) (d : List Num) (n : Nat) (h : d.length = n) :
    unpackDim ops (.vec d) n = .ok d := by
  simp [unpackDim, unpackVec, dimVec, h, pure, Except.pure]

/-- elementwise equality implies equal lengths: the read-back vector has the extent of the axis -/
theorem vecEq_length (ops : NumOps) : ∀ (a b : List Num), vecEq ops a b = true → a.length = b.length
  | [], [], _ => rfl
  | _ :: xs, _ :: ys, h => by
    simp only [vecEq, Bool.and_eq_true] at h
    simp [vecEq_length ops xs ys h.2]
  | [], _ :: _, h => by simp [vecEq] at h
  | _ :: _, [], h => by simp [vecEq] at h

/-- what is stored for an axis has length 2 (or the whole vector, when that is shorter) or the extent -/
theorem C02_stored_length (ops : NumOps) (d : List Num) (n : Nat) (hd : d.length = n) :
    let stored := if dimIsLinear ops d n then d.take 2 else d
    (storeVec ops stored).length = min 2 n ∨ (storeVec ops stored).length = n := by
  have hs : ∀ l : List Num, (storeVec ops l).length = l.length := by
    intro l; unfold storeVec; split <;> simp
  simp only
  split
  · left; rw [hs]; simp [hd]
  · right; rw [hs]; exact hd

/-- `data` is the first dataset of the body: the data token with the array's units -/
theorem C02_data_units (ops : NumOps) (a : ArrayVal) :
    alookup "data" (a.toBody ops) = some (.dataset [("units", .str a.units)] (.tok a.dataTok)) := by
  simp [ArrayVal.toBody, alookup]

/-- stack arrays: the labels are stored, in order, as the last entry of the body under the name `_labels_` -/
theorem C02_labels (ops : NumOps) (a : ArrayVal) (h : a.isStack = true) :
    (a.toBody ops).getLast? = some (autoName "dim" a.rank, .dataset [("name", .str "_labels_")] (.strs a.labels)) := by
  simp only [ArrayVal.toBody, h, if_true]
  rw [List.getLast?_append]
  simp

/-- non-stack arrays store no label vector: the body is `data` plus one dataset per axis -/
theorem C02_body_length (ops : NumOps) (a : ArrayVal) :
    (a.toBody ops).length = 1 + a.rank + (if a.isStack then 1 else 0) := by
  simp only [ArrayVal.toBody, List.length_append, List.length_cons, List.length_nil, List.length_map, List.length_range]
  split <;> simp <;> omega

/-- read-back goes through the constructor again, so C14 holds of every Array read from a file -/
theorem C02_readback_calibrated (ops : NumOps) (shape : List Nat) (body : List (String × Obj)) (a : ArrayVal)
    (h : ArrayVal.fromBody ops shape body = .ok a) : LenInv a ∧ ∀ n, n < a.rank → DimOK a n := by
  unfold ArrayVal.fromBody at h
  simp only [bind, Except.bind] at h
  repeat' split at h
  all_goals first
    | cases h
    | exact ⟨(C14_lengths ops _ _ _ _ _ _ _ a h).1, (C14_lengths ops _ _ _ _ _ _ _ a h).2.1⟩

-- the model end to end on concrete arrays: linear dims are compressed, a 1-ulp perturbation is not, and both come back
def exA : R ArrayVal := mkArray realOps "t" [3, 4] "nm"
  (some [.vec [.flt 0x3FB999999999999A, .flt 0x3FC999999999999A], .vec [.int 5, .int 3, .int 1, .int (-1)]]) (some ["x", "y"]) (some ["u", "v"]) .none
example : (match exA with
    | .ok a => (match ArrayVal.fromBody realOps a.dataShape (a.toBody realOps) with
        | .ok b => b.dims == a.dims && b.dimUnits == a.dimUnits && b.dimNames == a.dimNames && b.units == a.units && b.dataTok == a.dataTok
        | .error _ => false)
    | .error _ => false) = true := by decide +kernel
example : (match exA with
    | .ok a => (a.toBody realOps).map (fun kv => match kv.2 with | .dataset _ (.nums xs) => xs.length | _ => 0) == [0, 2, 2]
    | .error _ => false) = true := by decide +kernel

end EmdProps
