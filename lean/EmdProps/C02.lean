/-
C02 — Array round-trip: data, dtype, shape, units, calibrations and stack labels.

The float-free core, for EVERY arithmetic `ops` (IEEE doubles, int64, exact): the writer stores a dim vector compressed
to its first two entries exactly when the READER'S OWN expansion of those two entries reproduces the vector
(`dimIsLinear` is defined through `unpackDim`), so
  C02_axis_compressed — a compressed axis reads back as a vector elementwise equal (numpy `==`) to the one saved,
                         whatever rounding the ramp arithmetic has (nearly-linear vectors are simply not compressed);
  C02_axis_full       — an uncompressed axis is stored whole and comes back verbatim;
  C02_stored_length   — every stored calibration dataset has length 2 or the axis extent (C05's clause);
  C02_data_units      — `data` carries the data token (dtype, shape, element bytes: h5py contract H2) and the units;
  C02_labels          — the label vector is stored in order under the name `_labels_` as the last dim dataset, and
                        `C14_label_index` shows label i addresses slice i.
`C02_roundtrip` composes them through the dataset lookups of `_get_constructor_args` (`dim<n>` naming, stack detection,
label recovery) and the constructor: reading what `to_h5` wrote returns an Array equal to the saved one in every field,
each axis verbatim or numpy-equal; `C02_ctor_meets_hypotheses` shows every Array the constructor returns is in its domain.
-/
import EmdProps.C14
import EmdProofs.Basic
import Std.Data.String.ToNat

set_option linter.unusedSimpArgs false

namespace EmdProps
open EmdModel

/-- a compressed axis: the reader's expansion of the two stored entries is elementwise equal to the saved vector -/
theorem C02_axis_compressed (ops : NumOps) (d : List Num) (n : Nat) (h : dimIsLinear ops d n = true) :
    ∃ e, unpackDim ops (.vec (d.take 2)) n = .ok e ∧ vecEq ops d e = true ∧ e.length = n := by
  unfold dimIsLinear at h
  cases hu : unpackDim ops (.vec (d.take 2)) n with
  | error e => simp [hu] at h
  | ok e =>
    simp only [hu] at h
    exact ⟨e, rfl, h, C14_unpack_length ops _ n e hu⟩

/-- an uncompressed axis of the right length comes back verbatim -/
theorem C02_axis_full (ops : NumOps) (d : List Num) (n : Nat) (h : d.length = n) :
    unpackDim ops (.vec d) n = .ok d := by
  simp [unpackDim, unpackVec, dimVec, h, pure, Except.pure]

/-- elementwise equality implies equal lengths: the read-back vector has the extent of the axis -/
theorem vecEq_length (ops : NumOps) : ∀ (a b : List Num), vecEq ops a b = true → a.length = b.length
  | [], [], _ => rfl
  | _ :: xs, _ :: ys, h => by
    simp only [vecEq, Bool.and_eq_true] at h
    simp [vecEq_length ops xs ys h.2]
  | [], _ :: _, h => by simp [vecEq] at h
  | _ :: _, [], h => by simp [vecEq] at h

/-- what is stored for an axis has length 2 (or the whole vector, when that is shorter) or the extent -/
theorem C02_stored_length (ops : NumOps) (d : List Num) (n : Nat) (hd : d.length = n) :
    let stored := if dimIsLinear ops d n then d.take 2 else d
    (storeVec ops stored).length = min 2 n ∨ (storeVec ops stored).length = n := by
  have hs : ∀ l : List Num, (storeVec ops l).length = l.length := by
    intro l; unfold storeVec; split <;> simp
  simp only
  split
  · left; rw [hs]; simp [hd]
  · right; rw [hs]; exact hd

/-- `data` is the first dataset of the body: the data token with the array's units -/
theorem C02_data_units (ops : NumOps) (a : ArrayVal) :
    alookup "data" (a.toBody ops) = some (.dataset [("units", .str a.units)] (.tok a.dataTok)) := by
  simp [ArrayVal.toBody, alookup]

/-- stack arrays: the labels are stored, in order, as the last entry of the body under the name `_labels_` -/
theorem C02_labels (ops : NumOps) (a : ArrayVal) (h : a.isStack = true) :
    (a.toBody ops).getLast? = some (autoName "dim" a.rank, .dataset [("name", .str "_labels_")] (.strs a.labels)) := by
  simp only [ArrayVal.toBody, h, if_true]
  rw [List.getLast?_append]
  simp

/-- non-stack arrays store no label vector: the body is `data` plus one dataset per axis -/
theorem C02_body_length (ops : NumOps) (a : ArrayVal) :
    (a.toBody ops).length = 1 + a.rank + (if a.isStack then 1 else 0) := by
  simp only [ArrayVal.toBody, List.length_append, List.length_cons, List.length_nil, List.length_map, List.length_range]
  split <;> simp <;> omega

/-- read-back goes through the constructor again, so C14 holds of every Array read from a file -/
theorem C02_readback_calibrated (ops : NumOps) (shape : List Nat) (body : List (String × Obj)) (a : ArrayVal)
    (h : ArrayVal.fromBody ops shape body = .ok a) : LenInv a ∧ ∀ n, n < a.rank → DimOK a n := by
  unfold ArrayVal.fromBody at h
  simp only [bind, Except.bind] at h
  repeat' split at h
  all_goals first
    | cases h
    | exact ⟨(C14_lengths ops _ _ _ _ _ _ _ a h).1, (C14_lengths ops _ _ _ _ _ _ _ a h).2.1⟩

-- the model end to end on concrete arrays: linear dims are compressed, a 1-ulp perturbation is not, and both come back
def exA : R ArrayVal := mkArray realOps "t" [3, 4] "nm"
  (some [.vec [.flt 0x3FB999999999999A, .flt 0x3FC999999999999A], .vec [.int 5, .int 3, .int 1, .int (-1)]]) (some ["x", "y"]) (some ["u", "v"]) .none
example : (match exA with
    | .ok a => (match ArrayVal.fromBody realOps a.dataShape (a.toBody realOps) with
        | .ok b => b.dims == a.dims && b.dimUnits == a.dimUnits && b.dimNames == a.dimNames && b.units == a.units && b.dataTok == a.dataTok
        | .error _ => false)
    | .error _ => false) = true := by decide +kernel
example : (match exA with
    | .ok a => (a.toBody realOps).map (fun kv => match kv.2 with | .dataset _ (.nums xs) => xs.length | _ => 0) == [0, 2, 2]
    | .error _ => false) = true := by decide +kernel

/-! ## The composite round trip: `fromBody (toBody a) = a` up to numpy equality of compressed axes -/

theorem autoName_inj (p : String) (i j : Nat) (h : autoName p i = autoName p j) : i = j := by
  simp only [autoName] at h
  have h' := congrArg String.toList h
  simp only [String.toList_append] at h'
  have := List.append_cancel_left h'
  exact Nat.repr_injective (String.toList_inj.mp this)

theorem data_ne_dim (i : Nat) : autoName "dim" i ≠ "data" := by
  intro h
  have h' := congrArg String.toList h
  simp only [autoName, String.toList_append] at h'
  have : ("dim".toList ++ (toString i).toList)[1]? = ("data".toList)[1]? := by rw [h']
  simp at this

/-- lookup in a table generated from a range by an injective key -/
theorem alookup_range_map {β : Type} (key : Nat → String) (val : Nat → β) (hinj : ∀ i j, key i = key j → i = j) :
    ∀ (r n : Nat), n < r → alookup (key n) ((List.range r).map (fun i => (key i, val i))) = some (val n)
  | 0, n, h => by omega
  | r + 1, n, h => by
    rw [List.range_succ, List.map_append, alookup_append]
    by_cases hn : n < r
    · rw [alookup_range_map key val hinj r n hn]
    · have : n = r := by omega
      subst this
      have hnone : alookup (key n) ((List.range n).map (fun i => (key i, val i))) = none := by
        apply alookup_none_of_not_mem
        simp only [akeys, List.map_map, List.mem_map, List.mem_range, Function.comp]
        rintro ⟨i, hi, e⟩
        have := hinj _ _ e
        omega
      rw [hnone]
      simp [alookup]

theorem alookup_range_map_none {β : Type} (key : Nat → String) (val : Nat → β) (hinj : ∀ i j, key i = key j → i = j)
    (r n : Nat) (h : r ≤ n) : alookup (key n) ((List.range r).map (fun i => (key i, val i))) = none := by
  apply alookup_none_of_not_mem
  simp only [akeys, List.map_map, List.mem_map, List.mem_range, Function.comp]
  rintro ⟨i, hi, e⟩
  have := hinj _ _ e
  omega

/-- what `to_h5` stores for axis n -/
def storedDim (ops : NumOps) (a : ArrayVal) (n : Nat) : Obj :=
  let d := a.dims.getD n []
  Obj.dataset [("name", .str (a.dimNames.getD n "")), ("units", .str (a.dimUnits.getD n ""))]
    (.nums (storeVec ops (if dimIsLinear ops d (a.shape.getD n 0) then d.take 2 else d)))

theorem toBody_eq (ops : NumOps) (a : ArrayVal) :
    a.toBody ops = [("data", Obj.dataset [("units", .str a.units)] (.tok a.dataTok))] ++
      ((List.range a.rank).map (fun n => (autoName "dim" n, storedDim ops a n)) ++
      (if a.isStack then [(autoName "dim" a.rank, Obj.dataset [("name", .str "_labels_")] (.strs a.labels))] else [])) := by
  simp only [ArrayVal.toBody, storedDim, List.append_assoc]

/-- the dataset the reader finds for axis n -/
theorem alookup_dim (ops : NumOps) (a : ArrayVal) (n : Nat) (h : n < a.rank) :
    alookup (autoName "dim" n) (a.toBody ops) = some (storedDim ops a n) := by
  rw [toBody_eq, alookup_append]
  have h1 : alookup (autoName "dim" n) [("data", Obj.dataset [("units", .str a.units)] (.tok a.dataTok))] = none := by
    simp [alookup, (data_ne_dim n).symm]
  rw [h1, alookup_append, alookup_range_map (autoName "dim") (storedDim ops a) (autoName_inj "dim") a.rank n h]

/-- the dataset after the last axis: the labels of a stack, nothing otherwise -/
theorem alookup_labels (ops : NumOps) (a : ArrayVal) :
    alookup (autoName "dim" a.rank) (a.toBody ops) =
      if a.isStack then some (Obj.dataset [("name", .str "_labels_")] (.strs a.labels)) else none := by
  rw [toBody_eq, alookup_append]
  have h1 : alookup (autoName "dim" a.rank) [("data", Obj.dataset [("units", .str a.units)] (.tok a.dataTok))] = none := by
    simp [alookup, (data_ne_dim a.rank).symm]
  rw [h1, alookup_append, alookup_range_map_none (autoName "dim") (storedDim ops a) (autoName_inj "dim") a.rank a.rank (Nat.le_refl _)]
  cases a.isStack <;> simp [alookup]

/-! ### `_get_constructor_args` on what `to_h5` wrote -/

theorem mapM_ok {α β : Type} (f : α → R β) (g : α → β) : ∀ (l : List α), (∀ x ∈ l, f x = .ok (g x)) → l.mapM f = .ok (l.map g)
  | [], _ => rfl
  | x :: xs, h => by
    rw [List.mapM_cons, h x List.mem_cons_self, mapM_ok f g xs (fun y hy => h y (List.mem_cons_of_mem _ hy))]
    rfl

theorem getD_map_range {β : Type} (f : Nat → β) (r i : Nat) (d : β) (h : i < r) : ((List.range r).map f).getD i d = f i := by
  rw [List.getD_eq_getElem?_getD, List.getElem?_map, List.getElem?_range h]; rfl

/-- what is stored for axis n (before numpy's int/float coercion of mixed sequences) -/
def storedVec (ops : NumOps) (a : ArrayVal) (n : Nat) : List Num :=
  if dimIsLinear ops (a.dims.getD n []) (a.shape.getD n 0) then (a.dims.getD n []).take 2 else a.dims.getD n []

/-- the dim vectors are what numpy arrays are: all ints or all floats, so storing them changes no entry -/
def PlainDims (ops : NumOps) (a : ArrayVal) : Prop := ∀ n, n < a.rank → storeVec ops (storedVec ops a n) = storedVec ops a n

theorem storedDim_eq (ops : NumOps) (a : ArrayVal) (n : Nat) (hp : storeVec ops (storedVec ops a n) = storedVec ops a n) :
    storedDim ops a n = Obj.dataset [("name", .str (a.dimNames.getD n "")), ("units", .str (a.dimUnits.getD n ""))]
      (.nums (storedVec ops a n)) := by
  simp only [storedDim, storedVec] at hp ⊢
  rw [hp]

/-- the reader's expansion of what is stored for axis n -/
theorem stored_unpacks (ops : NumOps) (a : ArrayVal) (n : Nat) (hd : DimOK a n) :
    ∃ e, unpackDim ops (.vec (storedVec ops a n)) (a.shape.getD n 0) = .ok e ∧
      (e = a.dims.getD n [] ∨ vecEq ops (a.dims.getD n []) e = true) := by
  unfold storedVec
  by_cases hl : dimIsLinear ops (a.dims.getD n []) (a.shape.getD n 0) = true
  · obtain ⟨e, h1, h2, _⟩ := C02_axis_compressed ops _ _ hl
    exact ⟨e, by simp only [hl, if_true]; exact h1, Or.inr h2⟩
  · simp only [hl, Bool.false_eq_true, if_false]
    exact ⟨_, C02_axis_full ops _ _ hd, Or.inl rfl⟩

/-- C02, THE ROUND TRIP.  For every Array value the constructor can produce (`LenInv`, `DimOK`: C14), whose dim vectors
    are numpy arrays (`PlainDims`), whose labels are as many as its depth, and whose last dim name is not the reserved
    `_labels_` unless it is a stack (known finding C15-K3): reading what `to_h5` wrote succeeds and returns an Array
    with the same data token (dtype, shape, bytes: contract H2), data shape, units, stack flag, labels in order, dim
    units and dim names, and for every axis a dim vector that is the saved one verbatim (uncompressed axis) or
    elementwise numpy-equal to it (compressed axis: whatever the ramp arithmetic rounds to, the writer compressed only
    because the reader's own expansion reproduces the vector). -/
theorem C02_roundtrip (ops : NumOps) (a : ArrayVal) (hinv : LenInv a) (hdim : ∀ n, n < a.rank → DimOK a n)
    (hplain : PlainDims ops a)
    (hstack : a.isStack = true → a.dataShape ≠ [] ∧ a.labels.length = a.depth)
    (hnostack_labels : a.isStack = false → a.labels = [])
    (hnolabel : a.isStack = false → ∀ n, n + 1 = a.rank → a.dimNames.getD n "" ≠ "_labels_") :
    ∃ b, ArrayVal.fromBody ops a.dataShape (a.toBody ops) = .ok b ∧
      b.dataTok = a.dataTok ∧ b.dataShape = a.dataShape ∧ b.units = a.units ∧ b.isStack = a.isStack ∧
      b.labels = a.labels ∧ b.dimUnits = a.dimUnits ∧ b.dimNames = a.dimNames ∧
      ∀ n, n < a.rank → (b.dims.getD n [] = a.dims.getD n [] ∨ vecEq ops (a.dims.getD n []) (b.dims.getD n []) = true) := by
  -- the expansion per axis
  let v : Nat → List Num := fun n => match unpackDim ops (.vec (storedVec ops a n)) (a.shape.getD n 0) with
    | .ok e => e
    | .error _ => []
  have hv : ∀ n, n < a.rank → unpackDim ops (.vec (storedVec ops a n)) (a.shape.getD n 0) = .ok (v n) ∧
      (v n = a.dims.getD n [] ∨ vecEq ops (a.dims.getD n []) (v n) = true) := by
    intro n hn
    obtain ⟨e, h1, h2⟩ := stored_unpacks ops a n (hdim n hn)
    have : v n = e := by simp only [v, h1]
    rw [this]; exact ⟨h1, h2⟩
  -- the label argument the reader reconstructs
  let lab : LabelArg := if a.isStack then .given a.labels else .none
  have hlabst : labIsStack lab = a.isStack := by simp only [lab]; cases a.isStack <;> rfl
  -- shape bookkeeping
  have hrank : (if a.isStack then a.dataShape.length - 1 else a.dataShape.length) = a.rank := by
    simp only [ArrayVal.rank, ArrayVal.shape]
    cases a.isStack <;> simp
  -- the constructor call
  have hinit_rank : (initArray a.dataTok a.dataShape a.units lab).rank = a.rank := by
    simp only [initArray, ArrayVal.rank, ArrayVal.shape, hlabst]
  have hinit_shape : (initArray a.dataTok a.dataShape a.units lab).shape = a.shape := by
    simp only [initArray, ArrayVal.shape, hlabst]
  have hinit_labels : (initArray a.dataTok a.dataShape a.units lab).labels = a.labels := by
    cases hs : a.isStack with
    | false =>
      have : a.labels = [] := by
        obtain ⟨l1, _, _⟩ := hinv
        -- a non-stack array carries no labels in the model's values produced by the constructor
        exact hnostack_labels hs
      simp [initArray, lab, hs, this]
    | true =>
      obtain ⟨_, hl⟩ := hstack hs
      simp only [initArray, lab, hs, if_true, labIsStack]
      simp only [ArrayVal.depth, hs, if_true] at hl
      exact padTo_exact _ _ _ hl
  -- what the reader finds in the body
  have hdata : readData (a.toBody ops) = .ok (a.dataTok, a.units) := by
    simp only [readData, C02_data_units ops a, strAttr, Obj.attrs, alookup, if_true, bind, Except.bind, pure, Except.pure]
  have hlook : ∀ n, n < a.rank → readDimTriple (a.toBody ops) n =
      .ok (DimArg.vec (storedVec ops a n), a.dimUnits.getD n "", a.dimNames.getD n "") := by
    intro n hn
    simp only [readDimTriple, alookup_dim ops a n hn, storedDim_eq ops a n (hplain n hn), strAttr, Obj.attrs, alookup]
    simp [bind, Except.bind, pure, Except.pure]
  have htriples : (List.range a.rank).mapM (readDimTriple (a.toBody ops)) =
      .ok ((List.range a.rank).map (fun n => (DimArg.vec (storedVec ops a n), a.dimUnits.getD n "", a.dimNames.getD n ""))) :=
    mapM_ok _ _ _ (fun n hn => hlook n (List.mem_range.mp hn))
  -- the last dim dataset, stack detection and labels
  have hlast : ∃ ld, readLastDim a.dataShape.length (a.toBody ops) = .ok ld ∧ readIsStack ld = .ok a.isStack ∧
      readLabels a.isStack ld = .ok lab := by
    cases hs : a.isStack with
    | true =>
      obtain ⟨hne, _⟩ := hstack hs
      have hlen : a.dataShape.length - 1 = a.rank := by rw [← hrank, hs]; rfl
      have hpos : (a.dataShape.length == 0) = false := by
        cases hd : a.dataShape with
        | nil => exact absurd hd hne
        | cons x xs => rfl
      refine ⟨some (Obj.dataset [("name", .str "_labels_")] (.strs a.labels)), ?_, ?_, ?_⟩
      · simp only [readLastDim, hpos, Bool.false_eq_true, if_false, hlen, alookup_labels ops a, hs, if_true, pure, Except.pure]
      · simp [readIsStack, strAttr, Obj.attrs, alookup, bind, Except.bind, pure, Except.pure]
      · simp [readLabels, lab, hs, pure, Except.pure]
    | false =>
      have hlen : a.dataShape.length = a.rank := by rw [← hrank, hs]; rfl
      cases hr : a.rank with
      | zero =>
        refine ⟨none, ?_, ?_, ?_⟩
        · simp [readLastDim, hlen, hr, pure, Except.pure]
        · simp [readIsStack, pure, Except.pure]
        · simp [readLabels, lab, hs, pure, Except.pure]
      | succ r =>
        have hr' : r < a.rank := by omega
        refine ⟨some (storedDim ops a r), ?_, ?_, ?_⟩
        · simp [readLastDim, hlen, hr, alookup_dim ops a r hr', pure, Except.pure]
        · have hne := hnolabel hs r (by omega)
          simp only [List.getD_eq_getElem?_getD] at hne
          simp [readIsStack, storedDim, strAttr, Obj.attrs, alookup, bind, Except.bind, pure, Except.pure, hne]
        · simp [readLabels, lab, hs, pure, Except.pure]
  obtain ⟨ld, hl1, hl2, hl3⟩ := hlast
  -- the constructor
  have hnotempty : (labIsStack lab && a.dataShape.isEmpty) = false := by
    rw [hlabst]
    cases hs : a.isStack with
    | false => rfl
    | true =>
      obtain ⟨hne, _⟩ := hstack hs
      cases hd : a.dataShape with
      | nil => exact absurd hd hne
      | cons x xs => rfl
  obtain ⟨b, hb, b1, b2, b3, b4, b5, binv, ball⟩ := mkArray_ok ops a.dataTok a.dataShape a.units
    ((List.range a.rank).map (fun n => DimArg.vec (storedVec ops a n)))
    ((List.range a.rank).map (fun n => a.dimNames.getD n ""))
    ((List.range a.rank).map (fun n => a.dimUnits.getD n "")) lab v hnotempty
    (by simp [hinit_rank]) (by simp [hinit_rank]) (by simp [hinit_rank])
    (fun i hi => by rw [hinit_rank] at hi; exact ⟨_, getD_map_range _ _ _ _ hi⟩)
    (fun i hi => by
      rw [hinit_rank] at hi
      rw [hinit_shape, getD_map_range _ _ _ _ hi]
      exact (hv i hi).1)
  have hbrank : b.rank = a.rank := by simp only [ArrayVal.rank, ArrayVal.shape, b2, b4, hlabst]
  refine ⟨b, ?_, b1, b2, b3, b4.trans hlabst, b5.trans hinit_labels, ?_, ?_, ?_⟩
  · simp only [ArrayVal.fromBody, hdata, hl1, hl2, hrank, htriples, hl3, bind, Except.bind, List.map_map]
    exact hb
  · obtain ⟨_, l2, _⟩ := binv
    obtain ⟨_, m2, _⟩ := hinv
    apply ext_getD "" _ _ (by rw [l2, m2, hbrank])
    intro i hi
    have hi' : i < a.rank := by rw [← hbrank, ← l2]; exact hi
    rw [(ball i (by rw [hinit_rank]; exact hi')).2.1, getD_map_range _ _ _ _ hi']
  · obtain ⟨_, _, l3⟩ := binv
    obtain ⟨_, _, m3⟩ := hinv
    apply ext_getD "" _ _ (by rw [l3, m3, hbrank])
    intro i hi
    have hi' : i < a.rank := by rw [← hbrank, ← l3]; exact hi
    rw [(ball i (by rw [hinit_rank]; exact hi')).2.2, getD_map_range _ _ _ _ hi']
  · intro n hn
    rw [(ball n (by rw [hinit_rank]; exact hn)).1]
    exact (hv n hn).2

/-- the hypotheses of `C02_roundtrip` about shape, labels and lengths hold of EVERY Array the constructor returns -/
theorem C02_ctor_meets_hypotheses (ops : NumOps) (tok : String) (dataShape : List Nat) (units : String)
    (dims : Option (List DimArg)) (names dunits : Option (List String)) (lab : LabelArg) (a : ArrayVal)
    (h : mkArray ops tok dataShape units dims names dunits lab = .ok a) :
    LenInv a ∧ (∀ n, n < a.rank → DimOK a n) ∧
    (a.isStack = true → a.dataShape ≠ [] ∧ a.labels.length = a.depth) ∧ (a.isStack = false → a.labels = []) := by
  obtain ⟨h1, h2, _, _⟩ := C14_lengths ops tok dataShape units dims names dunits lab a h
  refine ⟨h1, h2, ?_, ?_⟩
  all_goals
    unfold mkArray at h
    split at h
    · cases h
    · rename_i hst
      simp only at h
      obtain ⟨_, _, hs, hstk, hl, _, _, _⟩ := C14_build ops _ a _ _ _ (initArray_inv tok dataShape units lab) h
      obtain ⟨_, f2, _, f4⟩ := initArray_fields tok dataShape units lab
      rw [f2] at hs; rw [f4] at hstk
      intro hst'
      rw [hstk] at hst'
      first
        | -- stack
          have hne : dataShape ≠ [] := by
            intro e; subst e
            simp [hst'] at hst
          refine ⟨by rw [hs]; exact hne, ?_⟩
          rw [hl]
          simp only [ArrayVal.depth, hstk, hst', hs, if_true]
          cases lab with
          | none => simp [labIsStack] at hst'
          | auto => simp [initArray, labIsStack]
          | given ls => simp only [initArray, labIsStack, if_true]; exact C14_pad_length _ _ _
        | -- not a stack
          rw [hl]
          cases lab with
          | none => simp [initArray]
          | auto => simp [labIsStack] at hst'
          | given ls => simp [labIsStack] at hst'

/-- integer dim vectors (the default pixel calibration, integer ramps) are plain for every arithmetic -/
theorem plain_of_ints (ops : NumOps) (a : ArrayVal)
    (h : ∀ n, n < a.rank → (a.dims.getD n []).all Num.isInt = true) :
    PlainDims ops a := by
  intro n hn
  have hall := h n hn
  have : (storedVec ops a n).all Num.isInt = true := by
    unfold storedVec
    split
    · rw [List.all_eq_true] at hall ⊢
      intro x hx; exact hall x (List.mem_of_mem_take hx)
    · exact hall
  unfold storeVec
  rw [if_pos this]

-- the round trip on a concrete stack array with real IEEE arithmetic, by kernel evaluation of the model
def exStack : R ArrayVal := mkArray realOps "t" [2, 3] "counts" (some [.vec [.int 0, .int 2]]) (some ["q"]) (some ["A"]) (.given ["a"])
example : (match exStack with
    | .ok a => (match ArrayVal.fromBody realOps a.dataShape (a.toBody realOps) with
        | .ok b => b.dims == a.dims && b.labels == ["a", "array1"] && b.labels == a.labels && b.isStack && b.dimNames == a.dimNames
        | .error _ => false)
    | .error _ => false) = true := by decide +kernel

end EmdProps
