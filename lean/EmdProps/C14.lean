/-
C14 — Array calibrations match the data: one dim vector per axis, of the axis length.

All statements are for EVERY arithmetic `ops` (so for IEEE doubles, int64 and exact numbers alike) unless they say
`realOps`.  `C14_unpack_length` — whatever form the dim argument has (None, number, pair, full vector), if it is accepted
the resulting vector has exactly as many entries as the axis (structural once the ramp is built from `range(length)`:
the repaired defect).  `C14_lengths` — after construction there is exactly one dim vector, one unit and one name per
(non-label) axis, each dim vector of the axis length; `C14_kept` — units and names are exactly the ones the constructor
computed from the caller's arguments (`C14_pad*`: the caller's entries, in order, padded with 'unknown' / dim<i>, or
truncated), `C14_omitted_pixels` — an omitted dim entry gets 'pixels'; `C14_setters` — every later set_dim /
set_dim_units / set_dim_name keeps all of this.  `C14_ramp_entry` — entry i of an expanded pair (a, b) is
a + (b − a)·i in the arithmetic at hand; `C14_ramp_int` — for Python ints that is exactly the arithmetic ramp with first
two values a and b, and `C14_none_int` — an omitted entry is 0..N−1.  `C14_stack` — depth / rank / shape of a stack are
the leading extent and the remaining shape; `C14_label_index` — the i-th of distinct labels addresses slice i.
-/
import EmdModel

set_option linter.unusedSimpArgs false

namespace EmdProps
open EmdModel

theorem ramp_length (ops : NumOps) (a s : Num) (n : Nat) : (ramp ops a s n).length = n := by
  simp [ramp]

/-- entry i of the expanded ramp -/
theorem C14_ramp_entry (ops : NumOps) (a s : Num) (n i : Nat) (h : i < n) :
    (ramp ops a s n)[i]? = some (ops.add a (ops.mul s (ops.ofNat i))) := by
  simp [ramp, h]

/-- whatever is accepted has the length of the axis -/
theorem C14_unpack_length (ops : NumOps) (d : DimArg) (n : Nat) (v : List Num)
    (h : unpackDim ops d n = .ok v) : v.length = n := by
  unfold unpackDim unpackVec at h
  split at h
  · next heq =>
    simp only [pure, Except.pure, Except.ok.injEq] at h
    subst h
    simpa using heq
  · split at h
    · simp only [pure, Except.pure, Except.ok.injEq] at h
      subst h; exact ramp_length _ _ _ _
    · cases h

theorem setNth_length {α : Type} : ∀ (l : List α) (n : Nat) (v : α), (setNth l n v).length = l.length
  | [], _, _ => rfl
  | _ :: _, 0, _ => rfl
  | _ :: xs, n + 1, v => by simp [setNth, setNth_length xs n v]

theorem setNth_same {α : Type} (d : α) : ∀ (l : List α) (n : Nat) (v : α), n < l.length → (setNth l n v).getD n d = v
  | [], _, _, h => by simp at h
  | _ :: _, 0, _, _ => rfl
  | _ :: xs, n + 1, v, h => by
    simp only [setNth, List.getD_cons_succ]
    exact setNth_same d xs n v (by simpa using h)

theorem setNth_other {α : Type} (d : α) : ∀ (l : List α) (n m : Nat) (v : α), m ≠ n → (setNth l n v).getD m d = l.getD m d
  | [], _, _, _, _ => rfl
  | _ :: _, 0, 0, _, h => absurd rfl h
  | _ :: _, 0, m + 1, _, _ => rfl
  | _ :: _, n + 1, 0, _, _ => rfl
  | _ :: xs, n + 1, m + 1, v, h => by
    simp only [setNth, List.getD_cons_succ]
    exact setNth_other d xs n m v (by omega)

/-- one dim vector, one unit, one name per axis -/
def LenInv (a : ArrayVal) : Prop :=
  a.dims.length = a.rank ∧ a.dimUnits.length = a.rank ∧ a.dimNames.length = a.rank

/-- the dim vector of axis n has as many entries as the axis -/
def DimOK (a : ArrayVal) (n : Nat) : Prop := (a.dims.getD n []).length = a.shape.getD n 0

theorem setDim_spec (ops : NumOps) (a a' : ArrayVal) (n : Nat) (d : DimArg) (u nm : String)
    (hinv : LenInv a) (h : setDim ops a n d (some u) (some nm) = .ok a') :
    n < a.rank ∧ LenInv a' ∧ a'.dataShape = a.dataShape ∧ a'.isStack = a.isStack ∧ a'.labels = a.labels ∧
    a'.units = a.units ∧ a'.dataTok = a.dataTok ∧
    DimOK a' n ∧ a'.dimUnits.getD n "" = u ∧ a'.dimNames.getD n "" = nm ∧
    (∀ m, m ≠ n → a'.dims.getD m [] = a.dims.getD m [] ∧ a'.dimUnits.getD m "" = a.dimUnits.getD m "" ∧
      a'.dimNames.getD m "" = a.dimNames.getD m "") := by
  unfold setDim at h
  split at h
  · cases h
  · next hn =>
    have hn' : n < a.rank := by omega
    simp only [bind, Except.bind] at h
    split at h
    · cases h
    · next v hv =>
      simp only [pure, Except.pure, Except.ok.injEq] at h
      subst h
      obtain ⟨h1, h2, h3⟩ := hinv
      have hlen := C14_unpack_length ops d _ v hv
      refine ⟨hn', ⟨?_, ?_, ?_⟩, rfl, rfl, rfl, rfl, rfl, ?_, ?_, ?_, ?_⟩
      · simp [ArrayVal.rank, ArrayVal.shape, setNth_length] at h1 ⊢; exact h1
      · simp [ArrayVal.rank, ArrayVal.shape, setNth_length] at h2 ⊢; exact h2
      · simp [ArrayVal.rank, ArrayVal.shape, setNth_length] at h3 ⊢; exact h3
      · simp only [DimOK, ArrayVal.shape]
        rw [setNth_same [] a.dims n v (by rw [h1]; exact hn')]
        exact hlen
      · exact setNth_same "" _ n u (by rw [h2]; exact hn')
      · exact setNth_same "" _ n nm (by rw [h3]; exact hn')
      · intro m hm
        exact ⟨setNth_other [] _ n m v hm, setNth_other "" _ n m u hm, setNth_other "" _ n m nm hm⟩

/-- the constructor's loop over the axes -/
theorem fold_setDim (ops : NumOps) (args : Nat → DimArg) (us ns : Nat → String) :
    ∀ (is : List Nat) (a a' : ArrayVal), LenInv a → is.Nodup →
    is.foldlM (fun a i => setDim ops a i (args i) (some (us i)) (some (ns i))) a = .ok a' →
    LenInv a' ∧ a'.dataShape = a.dataShape ∧ a'.isStack = a.isStack ∧ a'.labels = a.labels ∧ a'.units = a.units ∧
    a'.dataTok = a.dataTok ∧
    (∀ i ∈ is, DimOK a' i ∧ a'.dimUnits.getD i "" = us i ∧ a'.dimNames.getD i "" = ns i)
  | [], a, a', hinv, _, h => by
    simp only [List.foldlM, pure, Except.pure, Except.ok.injEq] at h
    subst h
    exact ⟨hinv, rfl, rfl, rfl, rfl, rfl, fun i hi => by simp at hi⟩
  | i :: rest, a, a', hinv, hnd, h => by
    simp only [List.foldlM, bind, Except.bind] at h
    split at h
    · cases h
    · next a1 h1 =>
      obtain ⟨_, hinv1, hs1, hst1, hl1, hu1, ht1, hok1, hun1, hnm1, hother1⟩ := setDim_spec ops a a1 i (args i) (us i) (ns i) hinv h1
      simp only [List.nodup_cons] at hnd
      obtain ⟨hinv', hs', hst', hl', hu', ht', hall'⟩ := fold_setDim ops args us ns rest a1 a' hinv1 hnd.2 h
      refine ⟨hinv', hs'.trans hs1, hst'.trans hst1, hl'.trans hl1, hu'.trans hu1, ht'.trans ht1, ?_⟩
      intro j hj
      simp only [List.mem_cons] at hj
      cases hj with
      | inr hr => exact hall' j hr
      | inl he =>
        subst he
        -- the later iterations touch other axes only: axis j keeps what iteration j gave it
        have key : ∀ (l : List Nat) (b b' : ArrayVal), LenInv b → j ∉ l →
            l.foldlM (fun a i => setDim ops a i (args i) (some (us i)) (some (ns i))) b = .ok b' →
            b'.dims.getD j [] = b.dims.getD j [] ∧ b'.dimUnits.getD j "" = b.dimUnits.getD j "" ∧
            b'.dimNames.getD j "" = b.dimNames.getD j "" ∧ b'.dataShape = b.dataShape ∧ b'.isStack = b.isStack := by
          intro l
          induction l with
          | nil =>
            intro b b' _ _ hb
            simp only [List.foldlM, pure, Except.pure, Except.ok.injEq] at hb
            subst hb; exact ⟨rfl, rfl, rfl, rfl, rfl⟩
          | cons x xs ih =>
            intro b b' hb0 hjx hb
            simp only [List.mem_cons, not_or] at hjx
            simp only [List.foldlM, bind, Except.bind] at hb
            split at hb
            · cases hb
            · next b1 hb1 =>
              obtain ⟨_, hinvb, hsb, hstb, _, _, _, _, _, _, hob⟩ := setDim_spec ops b b1 x (args x) (us x) (ns x) hb0 hb1
              obtain ⟨e1, e2, e3, e4, e5⟩ := ih b1 b' hinvb hjx.2 hb
              have := hob j hjx.1
              exact ⟨e1.trans this.1, e2.trans this.2.1, e3.trans this.2.2, e4.trans hsb, e5.trans hstb⟩
        obtain ⟨e1, e2, e3, e4, e5⟩ := key rest a1 a' hinv1 hnd.1 h
        refine ⟨?_, e2.trans hun1, e3.trans hnm1⟩
        simp only [DimOK, ArrayVal.shape] at hok1 ⊢
        rw [e1, e4, e5]; exact hok1

theorem range_nodup (n : Nat) : (List.range n).Nodup := List.nodup_range

/-- the caller's entries are kept in order; missing ones are filled, surplus ones dropped -/
theorem C14_pad_kept {α : Type} (n : Nat) (xs : List α) (fill : Nat → α) (d : α) (i : Nat)
    (hi : i < n) (hx : i < xs.length) : (padTo n xs fill).getD i d = xs.getD i d := by
  unfold padTo
  split
  · simp [List.getD, List.getElem?_append_left hx]
  · simp [List.getD, List.getElem?_take, hi]

theorem C14_pad_length {α : Type} (n : Nat) (xs : List α) (fill : Nat → α) : (padTo n xs fill).length = n := by
  unfold padTo
  split
  · simp; omega
  · simp; omega

theorem ext_getD {α : Type} (d : α) (l1 l2 : List α) (hl : l1.length = l2.length)
    (h : ∀ i, i < l1.length → l1.getD i d = l2.getD i d) : l1 = l2 := by
  apply List.ext_getElem hl
  intro i h1 h2
  have := h i h1
  simp only [List.getD_eq_getElem?_getD, List.getElem?_eq_getElem h1, List.getElem?_eq_getElem h2,
    Option.getD_some] at this
  exact this

theorem initArray_inv (tok : String) (dataShape : List Nat) (units : String) (lab : LabelArg) :
    LenInv (initArray tok dataShape units lab) := by
  simp only [LenInv, initArray, ArrayVal.rank, ArrayVal.shape]
  by_cases h : labIsStack lab = true <;> simp [h]

/-- the constructor's loop: lengths, and units / names exactly as computed from the caller's arguments -/
theorem C14_build (ops : NumOps) (a0 a : ArrayVal) (dimArgs : List DimArg) (us ns : List String)
    (hinv : LenInv a0) (h : buildDims ops a0 a0.rank dimArgs us ns = .ok a) :
    LenInv a ∧ a.rank = a0.rank ∧ a.dataShape = a0.dataShape ∧ a.isStack = a0.isStack ∧ a.labels = a0.labels ∧
    a.units = a0.units ∧ a.dataTok = a0.dataTok ∧
    ∀ n, n < a.rank → DimOK a n ∧ a.dimUnits.getD n "" = us.getD n "unknown" ∧ a.dimNames.getD n "" = ns.getD n "" := by
  unfold buildDims at h
  obtain ⟨hinv', hs, hst, hl, hu, ht, hall⟩ := fold_setDim ops (fun i => dimArgs.getD i .none)
    (fun i => us.getD i "unknown") (fun i => ns.getD i "") _ a0 a hinv (range_nodup _) h
  have hr : a.rank = a0.rank := by simp [ArrayVal.rank, ArrayVal.shape, hs, hst]
  exact ⟨hinv', hr, hs, hst, hl, hu, ht, fun n hn => hall n (by simp only [List.mem_range]; omega)⟩

/-- C14, construction: one dim vector / unit / name per axis, every dim vector of the axis length, for every form of
    the arguments the constructor accepts; units and names are the ones computed from the caller's arguments -/
theorem C14_lengths (ops : NumOps) (tok : String) (dataShape : List Nat) (units : String)
    (dims : Option (List DimArg)) (names dunits : Option (List String)) (lab : LabelArg) (a : ArrayVal)
    (h : mkArray ops tok dataShape units dims names dunits lab = .ok a) :
    LenInv a ∧ (∀ n, n < a.rank → DimOK a n) ∧
    a.dimUnits = ctorUnits a.rank (ctorDimArgs a.rank dims) dunits ∧ a.dimNames = ctorNames a.rank names := by
  unfold mkArray at h
  split at h
  · cases h
  · simp only at h
    obtain ⟨hinv, hr, _, _, _, _, _, hall⟩ := C14_build ops _ a _ _ _ (initArray_inv tok dataShape units lab) h
    refine ⟨hinv, fun n hn => (hall n hn).1, ?_, ?_⟩
    · rw [hr]
      apply ext_getD "" _ _ (by rw [hinv.2.1, hr]; simp [ctorUnits])
      intro i hi
      have hi' : i < a.rank := by rw [← hinv.2.1]; exact hi
      rw [(hall i hi').2.1]
      have hlen : i < (ctorUnits (initArray tok dataShape units lab).rank
          (ctorDimArgs (initArray tok dataShape units lab).rank dims) dunits).length := by
        simp only [ctorUnits, List.length_map, List.length_range]; omega
      simp [List.getD_eq_getElem?_getD, List.getElem?_eq_getElem hlen]
    · rw [hr]
      have hnl : (ctorNames (initArray tok dataShape units lab).rank names).length = (initArray tok dataShape units lab).rank := by
        simp only [ctorNames]
        cases names with
        | none => simp
        | some ns => exact C14_pad_length _ _ _
      apply ext_getD "" _ _ (by rw [hinv.2.2, hr, hnl])
      intro i hi
      have hi' : i < a.rank := by rw [← hinv.2.2]; exact hi
      exact (hall i hi').2.2

/-- an omitted dim entry gets the unit 'pixels' -/
theorem C14_omitted_pixels (rank : Nat) (dimArgs : List DimArg) (dunits : Option (List String)) (n : Nat)
    (hn : n < rank) (h : dimArgs.getD n .none = .none) : (ctorUnits rank dimArgs dunits).getD n "" = "pixels" := by
  simp only [List.getD_eq_getElem?_getD] at h
  simp [ctorUnits, List.getD, hn, h]

/-- a supplied dim entry keeps the caller's unit -/
theorem C14_units_kept (rank : Nat) (dimArgs : List DimArg) (us : List String) (n : Nat)
    (hn : n < rank) (hu : n < us.length) (h : dimArgs.getD n .none ≠ .none) :
    (ctorUnits rank dimArgs (some us)).getD n "" = us.getD n "" := by
  have hp := C14_pad_kept rank us (fun _ => "unknown") "unknown" n hn hu
  simp only [ctorUnits, List.getD_eq_getElem?_getD, List.getElem?_map, List.getElem?_range hn, Option.map_some,
    Option.getD_some]
  cases hd : dimArgs.getD n .none with
  | none => exact absurd hd h
  | num x =>
    simp only [List.getD_eq_getElem?_getD] at hd hp
    simp only [hd, hp]
    simp [List.getElem?_eq_getElem hu]
  | vec xs =>
    simp only [List.getD_eq_getElem?_getD] at hd hp
    simp only [hd, hp]
    simp [List.getElem?_eq_getElem hu]

/-- the caller's names are kept -/
theorem C14_names_kept (rank : Nat) (ns : List String) (n : Nat) (hn : n < rank) (hu : n < ns.length) :
    (ctorNames rank (some ns)).getD n "" = ns.getD n "" := by
  simp only [ctorNames]
  exact C14_pad_kept rank ns _ "" n hn hu

/-- every setter keeps the invariant and the dim-vector lengths -/
theorem C14_setters (ops : NumOps) (a a' : ArrayVal) (hinv : LenInv a) (hall : ∀ n, n < a.rank → DimOK a n) :
    (∀ n d u nm, setDim ops a n d (some u) (some nm) = .ok a' → LenInv a' ∧ ∀ m, m < a'.rank → DimOK a' m) ∧
    (∀ n u, setDimUnits a n u = .ok a' → LenInv a' ∧ ∀ m, m < a'.rank → DimOK a' m) ∧
    (∀ n nm, setDimName a n nm = .ok a' → LenInv a' ∧ ∀ m, m < a'.rank → DimOK a' m) := by
  refine ⟨?_, ?_, ?_⟩
  · intro n d u nm h
    obtain ⟨_, hinv', hs, hst, _, _, _, hok, _, _, hother⟩ := setDim_spec ops a a' n d u nm hinv h
    refine ⟨hinv', fun m hm => ?_⟩
    have hr : a'.rank = a.rank := by simp [ArrayVal.rank, ArrayVal.shape, hs, hst]
    by_cases hmn : m = n
    · subst hmn; exact hok
    · have := hall m (by omega)
      simp only [DimOK, ArrayVal.shape] at this ⊢
      rw [(hother m hmn).1, hs, hst]; exact this
  · intro n u h
    unfold setDimUnits at h
    split at h
    · cases h
    · simp only [pure, Except.pure, Except.ok.injEq] at h
      subst h
      obtain ⟨h1, h2, h3⟩ := hinv
      exact ⟨⟨h1, by simpa [ArrayVal.rank, ArrayVal.shape, setNth_length] using h2, h3⟩, hall⟩
  · intro n nm h
    unfold setDimName at h
    split at h
    · cases h
    · simp only [pure, Except.pure, Except.ok.injEq] at h
      subst h
      obtain ⟨h1, h2, h3⟩ := hinv
      exact ⟨⟨h1, h2, by simpa [ArrayVal.rank, ArrayVal.shape, setNth_length] using h3⟩, hall⟩

/-- for Python ints the expanded pair is exactly the arithmetic ramp: entry i is a + (b − a)·i, so the first two
    entries are a and b -/
theorem C14_ramp_int (a b : Int) (n i : Nat) (h : i < n) :
    (ramp realOps (.int a) (realOps.sub (.int b) (.int a)) n)[i]? = some (.int (a + (b - a) * i)) := by
  rw [C14_ramp_entry realOps _ _ n i h]
  simp [realOps]

/-- an omitted dim entry becomes 0..N−1 -/
theorem C14_none_int (n : Nat) : unpackDim realOps .none n = .ok ((List.range n).map (fun (i : Nat) => Num.int i)) := by
  unfold unpackDim unpackVec dimVec
  simp only [realOps, List.length_cons, List.length_nil]
  by_cases h : n = 2
  · subst h; rfl
  · have : ((0 + 1 + 1 : Nat) == n) = false := by simpa using fun e => h e.symm
    simp only [this, Bool.false_eq_true, if_false, ramp, pure, Except.pure]
    congr 1
    apply List.map_congr_left
    intro i _
    simp

/-- stack arrays: depth, rank and shape are the data's leading extent and remaining shape -/
theorem C14_stack (a : ArrayVal) (h : a.isStack = true) :
    a.shape = a.dataShape.drop 1 ∧ a.rank = a.dataShape.length - 1 ∧ a.depth = a.dataShape.headD 0 := by
  simp [ArrayVal.shape, ArrayVal.rank, ArrayVal.depth, h]

theorem C14_nonstack (a : ArrayVal) (h : a.isStack = false) :
    a.shape = a.dataShape ∧ a.rank = a.dataShape.length ∧ a.depth = 0 := by
  simp [ArrayVal.shape, ArrayVal.rank, ArrayVal.depth, h]

/-! ### the constructor succeeds, and what it builds -/

theorem setDim_ok (ops : NumOps) (a : ArrayVal) (n : Nat) (d : DimArg) (u nm : String) (v : List Num)
    (hn : n < a.rank) (hv : unpackDim ops d (a.shape.getD n 0) = .ok v) :
    setDim ops a n d (some u) (some nm) =
      .ok { a with dims := setNth a.dims n v, dimUnits := setNth a.dimUnits n u, dimNames := setNth a.dimNames n nm } := by
  have : ¬ n ≥ a.rank := by omega
  simp only [setDim, this, if_false, hv, bind, Except.bind, pure, Except.pure]

theorem fold_setDim_ok (ops : NumOps) (args : Nat → DimArg) (us ns : Nat → String) (v : Nat → List Num) :
    ∀ (is : List Nat) (a : ArrayVal), LenInv a → is.Nodup → (∀ i ∈ is, i < a.rank) →
    (∀ i ∈ is, unpackDim ops (args i) (a.shape.getD i 0) = .ok (v i)) →
    ∃ a', is.foldlM (fun a i => setDim ops a i (args i) (some (us i)) (some (ns i))) a = .ok a' ∧
      LenInv a' ∧ a'.dataShape = a.dataShape ∧ a'.isStack = a.isStack ∧ a'.labels = a.labels ∧ a'.units = a.units ∧
      a'.dataTok = a.dataTok ∧
      (∀ i ∈ is, a'.dims.getD i [] = v i ∧ a'.dimUnits.getD i "" = us i ∧ a'.dimNames.getD i "" = ns i) ∧
      (∀ m, m ∉ is → a'.dims.getD m [] = a.dims.getD m [] ∧ a'.dimUnits.getD m "" = a.dimUnits.getD m "" ∧
        a'.dimNames.getD m "" = a.dimNames.getD m "")
  | [], a, hinv, _, _, _ => ⟨a, rfl, hinv, rfl, rfl, rfl, rfl, rfl, fun i hi => by simp at hi, fun m _ => ⟨rfl, rfl, rfl⟩⟩
  | i :: rest, a, hinv, hnd, hlt, hv => by
    simp only [List.nodup_cons] at hnd
    have hi := hlt i List.mem_cons_self
    let a1 : ArrayVal := { a with dims := setNth a.dims i (v i), dimUnits := setNth a.dimUnits i (us i),
                                  dimNames := setNth a.dimNames i (ns i) }
    have h1 : setDim ops a i (args i) (some (us i)) (some (ns i)) = .ok a1 :=
      setDim_ok ops a i (args i) (us i) (ns i) (v i) hi (hv i List.mem_cons_self)
    have hshape : a1.shape = a.shape := rfl
    have hrank : a1.rank = a.rank := rfl
    have hinv1 : LenInv a1 := by
      obtain ⟨l1, l2, l3⟩ := hinv
      exact ⟨by simp [a1, setNth_length]; exact l1, by simp [a1, setNth_length]; exact l2, by simp [a1, setNth_length]; exact l3⟩
    obtain ⟨a', hf, hinv', hs, hst, hl, hu, ht, hall, hother⟩ := fold_setDim_ok ops args us ns v rest a1 hinv1 hnd.2
      (fun j hj => by rw [hrank]; exact hlt j (List.mem_cons_of_mem _ hj))
      (fun j hj => by rw [hshape]; exact hv j (List.mem_cons_of_mem _ hj))
    refine ⟨a', ?_, hinv', hs, hst, hl, hu, ht, ?_, ?_⟩
    · simp only [List.foldlM, h1, bind, Except.bind]; exact hf
    · intro j hj
      simp only [List.mem_cons] at hj
      cases hj with
      | inr hr => exact hall j hr
      | inl he =>
        subst he
        obtain ⟨o1, o2, o3⟩ := hother j hnd.1
        obtain ⟨l1, l2, l3⟩ := hinv
        refine ⟨o1.trans ?_, o2.trans ?_, o3.trans ?_⟩
        · exact setNth_same [] a.dims j (v j) (by rw [l1]; exact hi)
        · exact setNth_same "" a.dimUnits j (us j) (by rw [l2]; exact hi)
        · exact setNth_same "" a.dimNames j (ns j) (by rw [l3]; exact hi)
    · intro m hm
      simp only [List.mem_cons, not_or] at hm
      obtain ⟨o1, o2, o3⟩ := hother m hm.2
      exact ⟨o1.trans (setNth_other [] a.dims i m (v i) hm.1), o2.trans (setNth_other "" a.dimUnits i m (us i) hm.1),
        o3.trans (setNth_other "" a.dimNames i m (ns i) hm.1)⟩

theorem padTo_exact {α : Type} (n : Nat) (xs : List α) (fill : Nat → α) (h : xs.length = n) : padTo n xs fill = xs := by
  unfold padTo
  have : ¬ xs.length < n := by omega
  simp only [this, if_false]
  rw [← h]; exact List.take_length

theorem getD_default {α : Type} (l : List α) (i : Nat) (d1 d2 : α) (h : i < l.length) : l.getD i d1 = l.getD i d2 := by
  simp [List.getD_eq_getElem?_getD, List.getElem?_eq_getElem h]

theorem initArray_fields (tok : String) (dataShape : List Nat) (units : String) (lab : LabelArg) :
    (initArray tok dataShape units lab).dataTok = tok ∧ (initArray tok dataShape units lab).dataShape = dataShape ∧
    (initArray tok dataShape units lab).units = units ∧ (initArray tok dataShape units lab).isStack = labIsStack lab := by
  simp [initArray]

/-- `Array(**args)` with one dim vector, unit and name per axis: succeeds when every vector unpacks, and holds exactly
    the unpacked vectors, the given units and the given names -/
theorem mkArray_ok (ops : NumOps) (tok : String) (dataShape : List Nat) (units : String) (ds : List DimArg)
    (nms uns : List String) (lab : LabelArg) (v : Nat → List Num)
    (hst : (labIsStack lab && dataShape.isEmpty) = false)
    (hl1 : ds.length = (initArray tok dataShape units lab).rank) (hl2 : nms.length = (initArray tok dataShape units lab).rank)
    (hl3 : uns.length = (initArray tok dataShape units lab).rank)
    (hnn : ∀ i, i < (initArray tok dataShape units lab).rank → ∃ xs, ds.getD i .none = .vec xs)
    (hv : ∀ i, i < (initArray tok dataShape units lab).rank →
      unpackDim ops (ds.getD i .none) ((initArray tok dataShape units lab).shape.getD i 0) = .ok (v i)) :
    ∃ a, mkArray ops tok dataShape units (some ds) (some nms) (some uns) lab = .ok a ∧
      a.dataTok = tok ∧ a.dataShape = dataShape ∧ a.units = units ∧ a.isStack = labIsStack lab ∧
      a.labels = (initArray tok dataShape units lab).labels ∧ LenInv a ∧
      (∀ i, i < (initArray tok dataShape units lab).rank →
        a.dims.getD i [] = v i ∧ a.dimUnits.getD i "" = uns.getD i "" ∧ a.dimNames.getD i "" = nms.getD i "") := by
  generalize ha0 : initArray tok dataShape units lab = a0 at *
  obtain ⟨f1, f2, f3, f4⟩ := initArray_fields tok dataShape units lab
  rw [ha0] at f1 f2 f3 f4
  have hinv0 : LenInv a0 := ha0 ▸ initArray_inv tok dataShape units lab
  have hargs : ctorDimArgs a0.rank (some ds) = ds := by simp only [ctorDimArgs]; exact padTo_exact _ _ _ hl1
  have hunits : ∀ i, i < a0.rank → (ctorUnits a0.rank ds (some uns)).getD i "unknown" = uns.getD i "" := by
    intro i hi
    have hlen : i < (ctorUnits a0.rank ds (some uns)).length := by simp [ctorUnits]; exact hi
    simp only [ctorUnits, padTo_exact _ _ _ hl3]
    rw [List.getD_eq_getElem?_getD, List.getElem?_map, List.getElem?_range hi]
    obtain ⟨xs, hx⟩ := hnn i hi
    simp only [Option.map_some, Option.getD_some, hx]
    exact getD_default uns i _ _ (by rw [hl3]; exact hi)
  have hnames : ∀ i, i < a0.rank → (ctorNames a0.rank (some nms)).getD i "" = nms.getD i "" := by
    intro i _
    simp only [ctorNames, padTo_exact _ _ _ hl2]
  obtain ⟨a, hf, hinv, hs, hstk, hl, hu, ht, hall, _⟩ :=
    fold_setDim_ok ops (fun i => ds.getD i .none) (fun i => (ctorUnits a0.rank ds (some uns)).getD i "unknown")
      (fun i => (ctorNames a0.rank (some nms)).getD i "") v (List.range a0.rank) a0 hinv0 (range_nodup _)
      (fun i hi => List.mem_range.mp hi) (fun i hi => hv i (List.mem_range.mp hi))
  refine ⟨a, ?_, ht.trans f1, hs.trans f2, hu.trans f3, hstk.trans f4, hl, hinv, ?_⟩
  · simp only [mkArray, hst, Bool.false_eq_true, if_false, ha0, hargs, buildDims]
    exact hf
  · intro i hi
    obtain ⟨h1, h2, h3⟩ := hall i (List.mem_range.mpr hi)
    exact ⟨h1, h2.trans (hunits i hi), h3.trans (hnames i hi)⟩


/-! ### labels address slices -/

theorem filter_zipIdx_nodup (x : String) : ∀ (l : List String) (k i : Nat) (h : i < l.length), l.Nodup → l[i] = x →
    (l.zipIdx k).filter (fun p => p.1 == x) = [(x, k + i)]
  | [], _, _, h, _, _ => by simp at h
  | y :: ys, k, 0, _, hnd, hx => by
    simp only [List.getElem_cons_zero] at hx
    subst hx
    simp only [List.zipIdx_cons, List.filter_cons, beq_self_eq_true, if_true, Nat.add_zero]
    congr 1
    rw [List.filter_eq_nil_iff]
    intro p hp
    have hy : y ∉ ys := (List.nodup_cons.mp hnd).1
    have : p.1 ∈ ys := by
      have h3 := (List.mem_zipIdx hp).2.2
      rw [h3]
      exact List.getElem_mem _
    intro e
    simp only [beq_iff_eq] at e
    exact hy (e ▸ this)
  | y :: ys, k, i + 1, h, hnd, hx => by
    simp only [List.getElem_cons_succ] at hx
    have hy : y ∉ ys := (List.nodup_cons.mp hnd).1
    have hne : (y == x) = false := by
      apply beq_false_of_ne
      intro e
      exact hy (e ▸ hx ▸ List.getElem_mem _)
    simp only [List.zipIdx_cons, List.filter_cons, hne, Bool.false_eq_true, if_false]
    rw [filter_zipIdx_nodup x ys (k + 1) i (by simpa using h) (List.nodup_cons.mp hnd).2 hx]
    congr 2
    omega

/-- C14, labels: with distinct labels, the i-th label addresses slice i -/
theorem C14_label_index (labels : List String) (i : Nat) (h : i < labels.length) (hnd : labels.Nodup) :
    labelIndex labels labels[i] = some i := by
  simp only [labelIndex, List.zipIdx]
  rw [filter_zipIdx_nodup labels[i] labels 0 i h hnd rfl]
  simp

/-- … and a label list LONGER than the stack is deep is cut to the depth: the surplus labels play no part, whatever they are
    (e.g. repetitions of kept labels) -/
theorem C14_labels_truncated (tok : String) (dataShape : List Nat) (units : String) (ls : List String)
    (h : dataShape.headD 0 ≤ ls.length) :
    (initArray tok dataShape units (.given ls)).labels = ls.take (dataShape.headD 0) := by
  simp only [initArray, labIsStack, if_true, padTo]
  split
  · omega
  · rfl

/-! ### `get_slice` / `ar[label]` -/

theorem unpackDim_full (ops : NumOps) (xs : List Num) (n : Nat) (h : xs.length = n) : unpackDim ops (.vec xs) n = .ok xs := by
  simp [unpackDim, dimVec, unpackVec, h, pure, Except.pure]

/-- C14, slices: for a stack whose calibrations are well formed (one vector, unit and name per non-label axis, every vector
    as long as its axis), `ar[label]` for a label that occurs in the label list succeeds and returns the slice the label
    addresses (`labelIndex`: for distinct labels, `C14_label_index`, its position) as an ordinary Array over the remaining
    shape with the stack's units and, per axis, exactly the stack's dim vector, dim unit and dim name -/
theorem C14_slice_calibrations (ops : NumOps) (sliceTok : String → Nat → String) (a : ArrayVal) (l : String) (i : Nat)
    (hs : a.isStack = true) (hinv : LenInv a) (hdim : ∀ n, n < a.rank → DimOK a n)
    (hl : labelIndex a.labels l = some i) :
    ∃ s, a.getSlice ops sliceTok l = .ok (i, s) ∧ s.dataTok = sliceTok a.dataTok i ∧ s.isStack = false ∧
      s.dataShape = a.shape ∧ s.rank = a.rank ∧ s.units = a.units ∧ LenInv s ∧
      ∀ n, n < a.rank → s.dims.getD n [] = a.dims.getD n [] ∧ s.dimUnits.getD n "" = a.dimUnits.getD n "" ∧
        s.dimNames.getD n "" = a.dimNames.getD n "" := by
  have hshape : a.shape = a.dataShape.drop 1 := by simp [ArrayVal.shape, hs]
  have hr0 : (initArray (sliceTok a.dataTok i) (a.dataShape.drop 1) a.units .none).rank = a.rank := by
    simp [initArray, ArrayVal.rank, ArrayVal.shape, labIsStack, hs]
  have hsh0 : (initArray (sliceTok a.dataTok i) (a.dataShape.drop 1) a.units .none).shape = a.shape := by
    simp [initArray, ArrayVal.shape, labIsStack, hs]
  obtain ⟨h1, h2, h3⟩ := hinv
  obtain ⟨s, hmk, f1, f2, f3, f4, _, f6, f7⟩ := mkArray_ok ops (sliceTok a.dataTok i) (a.dataShape.drop 1) a.units
    (a.dims.map DimArg.vec) a.dimNames a.dimUnits .none (fun n => a.dims.getD n [])
    (by simp [labIsStack])
    (by rw [hr0, List.length_map]; exact h1) (by rw [hr0]; exact h3) (by rw [hr0]; exact h2)
    (by
      intro n hn
      rw [hr0] at hn
      refine ⟨a.dims.getD n [], ?_⟩
      rw [List.getD_eq_getElem?_getD, List.getElem?_map, List.getElem?_eq_getElem (by rw [h1]; exact hn)]
      simp [List.getD_eq_getElem?_getD, List.getElem?_eq_getElem (show n < a.dims.length by rw [h1]; exact hn)])
    (by
      intro n hn
      rw [hr0] at hn
      rw [hsh0]
      have : (a.dims.map DimArg.vec).getD n .none = .vec (a.dims.getD n []) := by
        rw [List.getD_eq_getElem?_getD, List.getElem?_map, List.getElem?_eq_getElem (by rw [h1]; exact hn)]
        simp [List.getD_eq_getElem?_getD, List.getElem?_eq_getElem (show n < a.dims.length by rw [h1]; exact hn)]
      rw [this]
      exact unpackDim_full ops _ _ (hdim n hn))
  refine ⟨s, ?_, f1, by simpa [labIsStack] using f4, by rw [f2, hshape], ?_, f3, f6, ?_⟩
  · simp only [ArrayVal.getSlice, hl, hmk, bind, Except.bind, pure, Except.pure]
  · have : s.isStack = false := by simpa [labIsStack] using f4
    simp only [ArrayVal.rank, ArrayVal.shape, this, f2, hs, Bool.false_eq_true, if_false, if_true]
  · intro n hn
    exact f7 n (by rw [hr0]; exact hn)

-- non-vacuity: the witnesses of the two repaired defects, in the model
example : (match mkArray realOps "t" [3] "" (some [.num (.flt 0x3FB999999999999A)]) none none .none with   -- dims=[0.1]
    | .ok a => (a.dims.getD 0 []).length == 3 | .error _ => false) = true := by decide
example : (match mkArray realOps "t" [3, 4] "" none none (some ["nm", "A"]) .none with
    | .ok a => a.dimUnits == ["pixels", "pixels"] | .error _ => false) = true := by decide
example : (match mkArray realOps "t" [3, 4] "" (some [.vec [.int 0, .int 2]]) none (some ["nanometers"]) .none with
    | .ok a => a.dimUnits == ["nanometers", "pixels"] && a.dims == [[.int 0, .int 2, .int 4], [.int 0, .int 1, .int 2, .int 3]]
    | .error _ => false) = true := by decide

end EmdProps
