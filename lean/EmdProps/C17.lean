/-
C17 — Legacy EMD 0.1 files are imported faithfully; everything else is refused.

`C17_refuse_junk` / `C17_refuse_no_groups`: a path that is not an HDF5 file, or an HDF5 file that is neither EMD 1.0 nor
contains a group tagged `emd_group_type = 1`, makes read raise — for EVERY such file.  `C17_detector`: the EMD 1.0
detector is exactly "header type 'file', version 1.0, at least one root".  `C17_import_axis`: a full-length 1-based dim
dataset is taken over verbatim as the dim vector of its axis (no re-expansion), for every arithmetic.
`C17_import_calibrated`: every imported Array has one dim vector, name and unit per axis, of the axis length (C14).
`C17_single` / `C17_many`: one data group gives that Array, several give a root holding them by name.
Forced hypothesis (known finding): distinct data-group names across the file — `C17_counterexample_same_name`.
-/
import EmdProps.C02

set_option linter.unusedSimpArgs false

namespace EmdProps
open EmdModel

theorem C17_refuse_junk (ops : NumOps) (shapeOf : String → List Nat) (id : String) :
    ∃ e, readNonEMD ops shapeOf (some (.junk id)) = .error e := ⟨_, rfl⟩

theorem C17_refuse_missing (ops : NumOps) (shapeOf : String → List Nat) :
    ∃ e, readNonEMD ops shapeOf none = .error e := ⟨_, rfl⟩

/-- an HDF5 file that is not EMD 1.0 and holds no legacy data group is refused, whatever else it holds -/
theorem C17_refuse_no_groups (ops : NumOps) (shapeOf : String → List Nat) (f : Obj)
    (h1 : isEMDFile f = false) (h2 : legacyGroups f = []) :
    ∃ e, readNonEMD ops shapeOf (some (.h5 f)) = .error e := by
  refine ⟨.error "not recognized as an EMD file", ?_⟩
  simp [readNonEMD, h1, readLegacy, h2, bind, Except.bind]
  rfl

/-- the EMD 1.0 detector, spelled out -/
theorem C17_detector (f : Obj) :
    isEMDFile f = true ↔
      (alookup "emd_group_type" f.attrs = some (.str "file") ∧ alookup "version_major" f.attrs = some (.int 1) ∧
       alookup "version_minor" f.attrs = some (.int 0) ∧ rootGroups f ≠ []) := by
  simp only [isEMDFile, Bool.and_eq_true, beq_iff_eq, Bool.not_eq_true', List.isEmpty_eq_false_iff, ne_eq]
  constructor
  · rintro ⟨⟨⟨a, b⟩, c⟩, d⟩; exact ⟨a, b, c, d⟩
  · rintro ⟨a, b, c, d⟩; exact ⟨⟨⟨a, b⟩, c⟩, d⟩

/-- … in particular a header attribute that is MISSING is not "as expected": without any one of the three, the file is not an
    EMD 1.0 file, whatever else it holds -/
theorem C17_missing_attribute (f : Obj)
    (h : alookup "emd_group_type" f.attrs = none ∨ alookup "version_major" f.attrs = none ∨ alookup "version_minor" f.attrs = none) :
    isEMDFile f = false := by
  rw [Bool.eq_false_iff]
  intro he
  obtain ⟨a, b, c, _⟩ := (C17_detector f).mp he
  rcases h with h | h | h
  · rw [h] at a; cases a
  · rw [h] at b; cases b
  · rw [h] at c; cases c

/-- a full-length dim dataset becomes the dim vector of its axis verbatim -/
theorem C17_import_axis (ops : NumOps) (xs : List Num) (n : Nat) (h : xs.length = n) :
    unpackDim ops (.vec xs) n = .ok xs := C02_axis_full ops xs n h

/-- every imported Array is calibrated as C14 demands -/
theorem C17_import_calibrated (ops : NumOps) (shapeOf : String → List Nat) (g : Obj) (a : ArrayVal)
    (h : importLegacyGroup ops shapeOf g = .ok a) : LenInv a ∧ ∀ n, n < a.rank → DimOK a n := by
  unfold importLegacyGroup at h
  simp only [bind, Except.bind] at h
  repeat' split at h
  all_goals first
    | cases h
    | exact ⟨(C14_lengths ops _ _ _ _ _ _ _ a h).1, (C14_lengths ops _ _ _ _ _ _ _ a h).2.1⟩

/-- exactly one data group: that Array is returned, under the group's name -/
theorem C17_single (ops : NumOps) (shapeOf : String → List Nat) (f : Obj) (n : String) (g : Obj) (a : ArrayVal)
    (hg : legacyGroups f = [(n, g)]) (ha : importLegacyGroup ops shapeOf g = .ok a) :
    readLegacy ops shapeOf f = .ok (.single n a) := by
  simp [readLegacy, hg, List.foldlM, importStep, ha, bind, Except.bind, pure, Except.pure]

/-- C17, FAITHFUL IMPORT of one data group: for every group holding a `data` dataset and, for each axis, a full-length
    1-based `dim<i+1>` dataset with `name` and `units`, the import succeeds and the Array has that data token (dtype,
    shape, bytes: H2), and per axis exactly the stored vector, name and units — no re-expansion, for every arithmetic -/
theorem C17_import_faithful (ops : NumOps) (shapeOf : String → List Nat) (g : Obj) (tok : String) (da : Attrs)
    (vs : Nat → List Num) (nm un : Nat → String) (ats : Nat → Attrs)
    (hdata : alookup "data" g.kids = some (.dataset da (.tok tok)))
    (hdims : ∀ i, i < (shapeOf tok).length →
      alookup (autoName "dim" (i + 1)) g.kids = some (.dataset (ats i) (.nums (vs i))) ∧
      alookup "units" (ats i) = some (.str (un i)) ∧ alookup "name" (ats i) = some (.str (nm i)) ∧
      (vs i).length = (shapeOf tok).getD i 0) :
    ∃ a, importLegacyGroup ops shapeOf g = .ok a ∧ a.dataTok = tok ∧ a.dataShape = shapeOf tok ∧ a.isStack = false ∧
      ∀ i, i < (shapeOf tok).length → a.dims.getD i [] = vs i ∧ a.dimNames.getD i "" = nm i ∧ a.dimUnits.getD i "" = un i := by
  have hd : legacyData g = .ok tok := by simp [legacyData, hdata, pure, Except.pure]
  have htr : (List.range (shapeOf tok).length).mapM (legacyDimTriple g.kids) =
      .ok ((List.range (shapeOf tok).length).map (fun i => (DimArg.vec (vs i), un i, nm i))) := by
    apply mapM_ok
    intro i hi
    obtain ⟨h1, h2, h3, _⟩ := hdims i (List.mem_range.mp hi)
    simp [legacyDimTriple, h1, strAttr, Obj.attrs, h2, h3, bind, Except.bind, pure, Except.pure]
  have hrank : (initArray tok (shapeOf tok) "" .none).rank = (shapeOf tok).length := by
    simp [initArray, ArrayVal.rank, ArrayVal.shape, labIsStack]
  have hshape : (initArray tok (shapeOf tok) "" .none).shape = shapeOf tok := by
    simp [initArray, ArrayVal.shape, labIsStack]
  obtain ⟨a, ha, a1, a2, _, a4, _, _, aall⟩ := mkArray_ok ops tok (shapeOf tok) ""
    ((List.range (shapeOf tok).length).map (fun i => DimArg.vec (vs i)))
    ((List.range (shapeOf tok).length).map nm) ((List.range (shapeOf tok).length).map un) .none vs
    (by simp [labIsStack]) (by simp [hrank]) (by simp [hrank]) (by simp [hrank])
    (fun i hi => by rw [hrank] at hi; exact ⟨_, getD_map_range _ _ _ _ hi⟩)
    (fun i hi => by
      rw [hrank] at hi
      rw [hshape, getD_map_range _ _ _ _ hi]
      exact C02_axis_full ops _ _ (hdims i hi).2.2.2)
  refine ⟨a, ?_, a1, a2, by rw [a4]; rfl, ?_⟩
  · simp only [importLegacyGroup, hd, htr, bind, Except.bind, List.map_map]
    exact ha
  · intro i hi
    obtain ⟨h1, h2, h3⟩ := aall i (by rw [hrank]; exact hi)
    exact ⟨h1, by rw [h3, getD_map_range _ _ _ _ hi], by rw [h2, getD_map_range _ _ _ _ hi]⟩

theorem setNamed_fresh (n : String) (a : ArrayVal) : ∀ (l : List (String × ArrayVal)), n ∉ l.map (·.1) → setNamed n a l = l ++ [(n, a)]
  | [], _ => rfl
  | (k, v) :: r, h => by
    simp only [List.map_cons, List.mem_cons, not_or] at h
    have : ¬ k = n := fun e => h.1 e.symm
    simp [setNamed, this, setNamed_fresh n a r h.2]

theorem foldl_setNamed_distinct : ∀ (arrs acc : List (String × ArrayVal)), ((acc ++ arrs).map (·.1)).Nodup →
    arrs.foldl (fun acc na => setNamed na.1 na.2 acc) acc = acc ++ arrs
  | [], acc, _ => by simp
  | (n, a) :: rest, acc, h => by
    simp only [List.foldl_cons]
    have hn : n ∉ acc.map (·.1) := by
      intro hm
      simp only [List.map_append, List.map_cons] at h
      have := (List.nodup_append.mp h).2.2 n hm n (by simp)
      exact this rfl
    rw [setNamed_fresh n a acc hn]
    have := foldl_setNamed_distinct rest (acc ++ [(n, a)]) (by simpa [List.append_assoc] using h)
    simpa [List.append_assoc] using this

theorem foldlM_importStep (ops : NumOps) (shapeOf : String → List Nat) : ∀ (gs : List (String × Obj)) (as : List ArrayVal)
    (acc : List (String × ArrayVal)), gs.length = as.length →
    (∀ i, i < gs.length → importLegacyGroup ops shapeOf (gs.getD i ("", .group [] [])).2 = .ok (as.getD i default)) →
    gs.foldlM (importStep ops shapeOf) acc = .ok (acc ++ (gs.map (·.1)).zip as)
  | [], [], acc, _, _ => by simp [List.foldlM, pure, Except.pure]
  | [], _ :: _, _, h, _ => by simp at h
  | _ :: _, [], _, h, _ => by simp at h
  | (n, g) :: gs, a :: as, acc, hl, h => by
    have h0 := h 0 (by simp)
    simp only [List.getD_cons_zero] at h0
    have ih := foldlM_importStep ops shapeOf gs as (acc ++ [(n, a)]) (by simpa using hl) (fun i hi => by
      have := h (i + 1) (by simp; omega)
      simpa using this)
    simp only [List.foldlM, importStep, h0, bind, Except.bind, pure, Except.pure]
    rw [ih]
    simp [List.append_assoc]

/-- C17, SEVERAL data groups with distinct names: the read returns a root holding every imported Array under its group's
    name, in the order the groups are visited -/
theorem C17_many (ops : NumOps) (shapeOf : String → List Nat) (f : Obj) (gs : List (String × Obj)) (as : List ArrayVal)
    (hg : legacyGroups f = gs) (h2 : 2 ≤ gs.length) (hl : gs.length = as.length)
    (himp : ∀ i, i < gs.length → importLegacyGroup ops shapeOf (gs.getD i ("", .group [] [])).2 = .ok (as.getD i default))
    (hdistinct : (gs.map (·.1)).Nodup) :
    readLegacy ops shapeOf f = .ok (.many ((gs.map (·.1)).zip as)) := by
  have hfold := foldlM_importStep ops shapeOf gs as [] hl himp
  have hne : gs.isEmpty = false := by cases gs with
    | nil => simp at h2
    | cons x xs => rfl
  have hzl : ((gs.map (·.1)).zip as).length = gs.length := by simp [List.length_zip, hl]
  have hnames : (((gs.map (·.1)).zip as).map (·.1)) = gs.map (·.1) := by
    rw [List.map_fst_zip]; simp [hl]
  have hset := foldl_setNamed_distinct ((gs.map (·.1)).zip as) [] (by simpa [hnames] using hdistinct)
  simp only [readLegacy, hg, hne, Bool.false_eq_true, if_false, hfold, List.nil_append, bind, Except.bind, pure, Except.pure]
  -- not the single case: the list has at least two entries
  cases hz : (gs.map (·.1)).zip as with
  | nil => rw [hz] at hzl; simp at hzl; omega
  | cons x xs =>
    cases xs with
    | nil => rw [hz] at hzl; simp at hzl; omega
    | cons y ys =>
      rw [hz] at hset
      simp only [List.nil_append] at hset
      simp only [hset]

-- non-vacuity and the forced hypothesis, on concrete files
def exLegacyGroup (name : String) (tok : String) : String × Obj :=
  (name, .group [("emd_group_type", .int 1)]
    [("data", .dataset [] (.tok tok)),
     ("dim1", .dataset [("name", .str "x"), ("units", .str "nm")] (.nums [.int 0, .int 2, .int 5])),
     ("dim2", .dataset [("name", .str "y"), ("units", .str "s")] (.nums [.flt 0x3FF0000000000000, .flt 0x4000000000000000]))])

def exShape (_ : String) : List Nat := [3, 2]

example : (match readLegacy realOps exShape (.group [] [("sub", .group [] [exLegacyGroup "raw" "T1"])]) with
    | .ok (.single n a) => n == "raw" && a.dims == [[.int 0, .int 2, .int 5], [.flt 0x3FF0000000000000, .flt 0x4000000000000000]]
        && a.dimNames == ["x", "y"] && a.dimUnits == ["nm", "s"] && a.dataTok == "T1"
    | _ => false) = true := by decide +kernel

/-- two data groups with the same basename (in different parent groups) collapse to one child of the root -/
theorem C17_counterexample_same_name :
    (match readLegacy realOps exShape (.group [] [("a", .group [] [exLegacyGroup "raw" "T1"]), ("b", .group [] [exLegacyGroup "raw" "T2"])]) with
     | .ok (.many l) => l.length == 1
     | _ => false) = true := by decide +kernel

end EmdProps
