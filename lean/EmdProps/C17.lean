/-
C17 — Legacy EMD 0.1 files are imported faithfully; everything else is refused.

`C17_refuse_junk` / `C17_refuse_no_groups`: a path that is not an HDF5 file, or an HDF5 file that is neither EMD 1.0 nor
contains a group tagged `emd_group_type = 1`, makes read raise — for EVERY such file.  `C17_detector`: the EMD 1.0
detector is exactly "header type 'file', version 1.0, at least one root".  `C17_import_axis`: a full-length 1-based dim
dataset is taken over verbatim as the dim vector of its axis (no re-expansion), for every arithmetic.
`C17_import_calibrated`: every imported Array has one dim vector, name and unit per axis, of the axis length (C14).
`C17_single` / `C17_many`: one data group gives that Array, several give a root holding them by name.
Forced hypothesis (known finding): distinct data-group names across the file — `C17_counterexample_same_name`.
-/
import EmdProps.C02

set_option linter.unusedSimpArgs false

namespace EmdProps
open EmdModel

theorem C17_refuse_junk (ops : NumOps) (shapeOf : String → List Nat) (id : String) :
    ∃ e, readNonEMD ops shapeOf (some (.junk id)) = .error e := ⟨_, rfl⟩

theorem C17_refuse_missing (ops : NumOps) (shapeOf : String → List Nat) :
    ∃ e, readNonEMD ops shapeOf none = .error e := ⟨_, rfl⟩

/-- an HDF5 file that is not EMD 1.0 and holds no legacy data group is refused, whatever else it holds -/
theorem C17_refuse_no_groups (ops : NumOps) (shapeOf : String → List Nat) (f : Obj)
    (h1 : isEMDFile f = false) (h2 : legacyGroups f = []) :
    ∃ e, readNonEMD ops shapeOf (some (.h5 f)) = .error e := by
  refine ⟨.error "not recognized as an EMD file", ?_⟩
  simp [readNonEMD, h1, readLegacy, h2, bind, Except.bind]
  rfl

/-- the EMD 1.0 detector, spelled out -/
theorem C17_detector (f : Obj) :
    isEMDFile f = true ↔
      (alookup "emd_group_type" f.attrs = some (.str "file") ∧ alookup "version_major" f.attrs = some (.int 1) ∧
       alookup "version_minor" f.attrs = some (.int 0) ∧ rootGroups f ≠ []) := by
  simp only [isEMDFile, Bool.and_eq_true, beq_iff_eq, Bool.not_eq_true', List.isEmpty_eq_false_iff, ne_eq]
  constructor
  · rintro ⟨⟨⟨a, b⟩, c⟩, d⟩; exact ⟨a, b, c, d⟩
  · rintro ⟨a, b, c, d⟩; exact ⟨⟨⟨a, b⟩, c⟩, d⟩

/-- a full-length dim dataset becomes the dim vector of its axis verbatim -/
theorem C17_import_axis (ops : NumOps) (xs : List Num) (n : Nat) (h : xs.length = n) :
    unpackDim ops (.vec xs) n = .ok xs := C02_axis_full ops xs n h

/-- every imported Array is calibrated as C14 demands -/
theorem C17_import_calibrated (ops : NumOps) (shapeOf : String → List Nat) (g : Obj) (a : ArrayVal)
    (h : importLegacyGroup ops shapeOf g = .ok a) : LenInv a ∧ ∀ n, n < a.rank → DimOK a n := by
  unfold importLegacyGroup at h
  simp only [bind, Except.bind] at h
  repeat' split at h
  all_goals first
    | cases h
    | exact ⟨(C14_lengths ops _ _ _ _ _ _ _ a h).1, (C14_lengths ops _ _ _ _ _ _ _ a h).2.1⟩

/-- exactly one data group: that Array is returned, under the group's name -/
theorem C17_single (ops : NumOps) (shapeOf : String → List Nat) (f : Obj) (n : String) (g : Obj) (a : ArrayVal)
    (hg : legacyGroups f = [(n, g)]) (ha : importLegacyGroup ops shapeOf g = .ok a) :
    readLegacy ops shapeOf f = .ok (.single n a) := by
  simp [readLegacy, hg, List.foldlM, ha, bind, Except.bind, pure, Except.pure]

-- non-vacuity and the forced hypothesis, on concrete files
def exLegacyGroup (name : String) (tok : String) : String × Obj :=
  (name, .group [("emd_group_type", .int 1)]
    [("data", .dataset [] (.tok tok)),
     ("dim1", .dataset [("name", .str "x"), ("units", .str "nm")] (.nums [.int 0, .int 2, .int 5])),
     ("dim2", .dataset [("name", .str "y"), ("units", .str "s")] (.nums [.flt 0x3FF0000000000000, .flt 0x4000000000000000]))])

def exShape (_ : String) : List Nat := [3, 2]

example : (match readLegacy realOps exShape (.group [] [("sub", .group [] [exLegacyGroup "raw" "T1"])]) with
    | .ok (.single n a) => n == "raw" && a.dims == [[.int 0, .int 2, .int 5], [.flt 0x3FF0000000000000, .flt 0x4000000000000000]]
        && a.dimNames == ["x", "y"] && a.dimUnits == ["nm", "s"] && a.dataTok == "T1"
    | _ => false) = true := by decide +kernel

/-- two data groups with the same basename (in different parent groups) collapse to one child of the root -/
theorem C17_counterexample_same_name :
    (match readLegacy realOps exShape (.group [] [("a", .group [] [exLegacyGroup "raw" "T1"]), ("b", .group [] [exLegacyGroup "raw" "T2"])]) with
     | .ok (.many l) => l.length == 1
     | _ => false) = true := by decide +kernel

end EmdProps
