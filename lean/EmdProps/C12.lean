/-
C12 — Tree operations keep every node consistent with the tree it is in.

The heap model (EmdModel/Forest.lean) stores `_root` and `_treepath` in every node and updates them exactly where
node.py does.  `consistent r path n`: every node of the branch `n` records root `r` and the treepath it really has.
`C12_relabel` — the recursive refresh performed by add / graft / cut / force-add (`_update_branch`, the repaired
defect) makes a WHOLE branch of any shape consistent with its new position, for every depth and branching.
`C12_add` — `add_to_tree` keeps a consistent tree consistent and puts the child, with its internal shape intact, at
the right path.  `C12_remove` — cutting a branch out of a consistent tree leaves it consistent.
`C12_refused` — the operations the API forbids change nothing.  `C12_shape` — relabeling (hence graft / cut) keeps
the internal shape (names, ids, metadata, child structure) of the moved branch.
-/
import EmdProofs.ForestCons
import EmdProofs.ForestOps

set_option linter.unusedSimpArgs false

namespace EmdProps
open EmdModel

/-- C12 (core): after the recursive refresh (`_update_branch`) the whole branch is consistent with its new position -/
theorem C12_relabel (r : Option Nat) (n : RNode) (path : String) : consistent r path (relabel r path n) = true :=
  consistent_relabel r n path

/-- a moved branch arrives with its internal shape intact -/
theorem C12_shape (r : Option Nat) (n : RNode) (path : String) : shape (relabel r path n) = shape n := shape_relabel r n path

/-- C12, add: in a consistent tree, hanging a whole branch under the node with id `pid` keeps the tree consistent -/
theorem C12_add (r : Option Nat) (t : RNode) (path : String) (pid : Nat) (c : RNode) (h : consistent r path t = true) :
    consistent r path (updateIn pid (hangF c) t) = true := consistent_hang r t path pid c h

/-- C12, cut side: removing a branch from a consistent tree leaves a consistent tree -/
theorem C12_remove (r : Option Nat) (id : Nat) (t : RNode) (path : String) (h : consistent r path t = true) :
    consistent r path (removeIn id t) = true := consistent_remove r id t path h

/-- the operations the API forbids fail without changing anything: adding to an unrooted node -/
theorem C12_refused_unrooted_parent (h : Heap) (pid cid : Nat) (p c : RNode)
    (hp : h.find pid = some p) (hc : h.find cid = some c) (hr : p.root = none) :
    addToTree h pid cid = (h, .refused) := by
  simp [addToTree, hp, hc, hr]

/-- …adding a node that already has a root -/
theorem C12_refused_rooted_child (h : Heap) (pid cid : Nat) (p c : RNode) (x y : Nat)
    (hp : h.find pid = some p) (hc : h.find cid = some c) (hpr : p.root = some x) (hr : c.root = some y) :
    addToTree h pid cid = (h, .refused) := by
  simp [addToTree, hp, hc, hr, hpr]

/-- …grafting an unrooted node or onto an unrooted node -/
theorem C12_refused_graft_unrooted (h : Heap) (sid rid : Nat) (s r : RNode) (opt : MdOpt)
    (hs : h.find sid = some s) (hr : h.find rid = some r) (hn : s.root = none ∨ r.root = none) :
    graftInto h sid rid opt = (h, .refused) := by
  cases hn with
  | inl e => simp [graftInto, hs, hr, e]
  | inr e =>
    simp only [graftInto, hs, hr, e]
    cases s.root <;> rfl

/-! ## The whole-forest invariant over every history of tree operations -/

/-- the tree-building operations of the property's quantifier -/
inductive TOp where
  | mkRoot (name : String)
  | mkNode (name : String)
  | addMd (nid : Nat) (name content : String)
  | add (pid cid : Nat)
  | force (pid cid : Nat)
  | graft (recv scion : Nat) (opt : MdOpt)
  | cut (nid : Nat) (opt : MdOpt)
  deriving Repr

def applyOp (h : Heap) : TOp → Heap
  | .mkRoot n => mkRoot h n
  | .mkNode n => mkNode h n
  | .addMd i n c => addMd h i n c
  | .add p c => (addToTree h p c).1
  | .force p c => (forceAdd h p c).1
  | .graft r s o => (graft h r s o).1
  | .cut n o => (cut h n o).1

/-- the receiver is not inside the branch that moves -/
def noCycleB (h : Heap) (scionId recvId : Nat) : Bool :=
  match h.find scionId with
  | some s => !(idsK s).contains recvId
  | none => true

/-- the side conditions of the property's quantifier: ordinary nodes are distinctly named (a new node's name is fresh;
    Roots may be called anything, also what `cut` calls its new Root — Roots are never children), and a node is never
    grafted onto its own descendant -/
def legal (h : Heap) : TOp → Bool
  | .mkRoot _ => true
  | .mkNode n => !(namesL h.comps).contains n
  | .addMd _ _ _ => true
  | .add _ _ => true
  | .force p c => noCycleB h c p
  | .graft r s _ => noCycleB h s r
  | .cut _ _ => true

def legalSeq (h : Heap) : List TOp → Bool
  | [] => true
  | op :: ops => legal h op && legalSeq (applyOp h op) ops

theorem noCycle_of_B (h : Heap) (a b : Nat) (hb : noCycleB h a b = true) : noCycle h a b := by
  intro s hs
  simp only [noCycleB, hs, Bool.not_eq_true', List.contains_eq_mem, decide_eq_false_iff_not] at hb
  exact hb

/-- C12: every operation keeps the invariant -/
theorem C12_step (h : Heap) (op : TOp) (inv : Inv h) (hl : legal h op = true) : Inv (applyOp h op) := by
  cases op with
  | mkRoot n => exact (mkRoot_inv h n inv).1
  | mkNode n =>
    simp only [legal, Bool.not_eq_true', List.contains_eq_mem, decide_eq_false_iff_not] at hl
    exact (mkNode_inv h n inv hl).1
  | addMd i n c => exact (addMd_inv h i n c inv).1
  | add p c => exact (addToTree_inv h p c inv).1
  | force p c => exact (forceAdd_inv h p c inv (noCycle_of_B h c p hl)).1
  | graft r s o => exact (graftInto_inv h s r o inv (noCycle_of_B h s r hl)).1
  | cut n o => exact (cut_inv h n o inv).1

/-- C12: after ANY finite sequence of add, force-add, graft, cut (and object creation / metadata assignment) the forest
    is well formed -/
theorem C12_history (ops : List TOp) : ∀ (h : Heap), Inv h → legalSeq h ops = true → Inv (ops.foldl applyOp h) := by
  induction ops with
  | nil => intro h inv _; exact inv
  | cons op ops ih =>
    intro h inv hl
    simp only [legalSeq, Bool.and_eq_true] at hl
    exact ih (applyOp h op) (C12_step h op inv hl.1) hl.2

/-- …starting from nothing -/
theorem C12_history_from_empty (ops : List TOp) (hl : legalSeq {} ops = true) : Inv (ops.foldl applyOp {}) :=
  C12_history ops {} Inv_empty hl

/-- C12: no node is lost or duplicated — add, force-add and graft keep exactly the same (id, name) multiset; cut adds
    exactly the new Root -/
theorem C12_nodes_conserved (h : Heap) (op : TOp) (inv : Inv h) (hl : legal h op = true) :
    (keysL (applyOp h op).comps).Perm (keysL h.comps) ∨
    ∃ nm r, (keysL (applyOp h op).comps).Perm (keysL h.comps ++ [(h.nextNode, nm, r)]) := by
  cases op with
  | mkRoot n => exact Or.inr ⟨n, true, by rw [applyOp, (mkRoot_inv h n inv).2]⟩
  | mkNode n =>
    simp only [legal, Bool.not_eq_true', List.contains_eq_mem, decide_eq_false_iff_not] at hl
    exact Or.inr ⟨n, false, by rw [applyOp, (mkNode_inv h n inv hl).2]⟩
  | addMd i n c => exact Or.inl (by rw [applyOp, (addMd_inv h i n c inv).2])
  | add p c => exact Or.inl (addToTree_inv h p c inv).2
  | force p c => exact Or.inl (forceAdd_inv h p c inv (noCycle_of_B h c p hl)).2
  | graft r s o => exact Or.inl (graftInto_inv h s r o inv (noCycle_of_B h s r hl)).2
  | cut n o =>
    cases (cut_inv h n o inv).2 with
    | inl h1 => exact Or.inl h1
    | inr h1 => obtain ⟨nm, h2⟩ := h1; exact Or.inr ⟨nm, true, h2⟩

/-! ### what the invariant says about every node -/

/-- every node has exactly one place: object ids occur once in the whole forest -/
theorem C12_one_place (h : Heap) (inv : Inv h) : (idsL h.comps).Nodup := inv.ok.ids

/-- every node reachable from a Root reports that Root as its root -/
theorem C12_reports_root (h : Heap) (inv : Inv h) (c x : RNode) (id : Nat) (hc : c ∈ h.comps) (hr : c.isRoot = true)
    (hf : findIn id c = some x) : x.root = some c.id :=
  root_of_findIn _ id c x "" (inv.ok.roots c hc hr) hf

/-- a top-level object that is not a Root is a single unrooted node -/
theorem C12_unrooted_alone (h : Heap) (inv : Inv h) (c : RNode) (hc : c ∈ h.comps) (hr : c.isRoot = false) :
    c.root = none ∧ c.kids = [] := inv.ok.lone c hc hr (by simp)

/-- the treepath string of the node reached by the names `ps` from a node whose treepath is `path` -/
def pathFrom (path : String) (ps : List String) : String := ps.foldl (fun a n => a ++ "/" ++ n) path

theorem find?_name_head (k : RNode) (ks : List RNode) : (k :: ks).find? (fun x => x.name = k.name) = some k := by
  simp [List.find?]

theorem find?_name_skip (k : RNode) (ks : List RNode) (n : String) (h : k.name ≠ n) :
    (k :: ks).find? (fun x => x.name = n) = ks.find? (fun x => x.name = n) := by
  simp [List.find?, h]

theorem walkKids_cons_skip (k : RNode) (ks : List RNode) (n : String) (rest : List String) (h : k.name ≠ n) :
    walkKids (k :: ks) (n :: rest) = walkKids ks (n :: rest) := by
  cases rest with
  | nil => simp only [walkKids]; exact find?_name_skip k ks n h
  | cons r rs => simp only [walkKids, find?_name_skip k ks n h]

theorem namesK_eq (t : RNode) : namesK t = (if t.isRoot then [] else [t.name]) ++ namesL t.kids := by
  cases t with
  | mk i n r ro tp m ks =>
    simp only [namesK, namesL, namesOf, keys, RNode.isRoot, RNode.name, RNode.kids, List.filter_cons]
    cases r <;> simp

theorem name_mem_namesL {ks : List RNode} {k : RNode} (hk : k ∈ ks) (hr : k.isRoot = false) : k.name ∈ namesL ks := by
  simp only [namesL, namesOf, List.mem_map, List.mem_filter]
  exact ⟨(k.id, k.name, k.isRoot), ⟨mem_keysL_of_mem hk (self_mem_keys k), by simp [hr]⟩, rfl⟩

mutual
/-- every node found below a consistent branch sits at a position whose names, walked down the `_branch` dictionaries,
    lead to exactly that node, and the treepath it records is that path -/
theorem pos_of_findIn (r : Option Nat) (id : Nat) : ∀ (t x : RNode) (path : String), consistent r path t = true →
    (namesL t.kids).Nodup → plainL t.kids = true → t.id ≠ id → findIn id t = some x →
    ∃ n0 rest, (∃ k ∈ t.kids, k.name = n0) ∧ walkKids t.kids (n0 :: rest) = some x ∧
      x.treepath = some (pathFrom path (n0 :: rest))
  | .mk i n isR ro tp m ks, x, path, h, hn, hpl, hne, hf => by
    simp only [consistent, Bool.and_eq_true] at h
    simp only [RNode.id] at hne
    simp only [findIn, if_neg hne] at hf
    exact pos_of_findInList r id ks x path h.2 hn hpl hf
theorem pos_of_findInList (r : Option Nat) (id : Nat) : ∀ (ks : List RNode) (x : RNode) (path : String),
    consistentKids r path ks = true → (namesL ks).Nodup → plainL ks = true → findInList id ks = some x →
    ∃ n0 rest, (∃ k ∈ ks, k.name = n0) ∧ walkKids ks (n0 :: rest) = some x ∧ x.treepath = some (pathFrom path (n0 :: rest))
  | [], _, _, _, _, _, hf => by simp [findInList] at hf
  | k :: ks, x, path, h, hn, hpl, hf => by
    simp only [consistentKids, Bool.and_eq_true] at h
    simp only [namesL_cons] at hn
    have hnd := List.nodup_append.mp hn
    simp only [plainL, Bool.and_eq_true] at hpl
    have hkr : k.isRoot = false := plain_isRoot k hpl.1
    simp only [findInList] at hf
    split at hf
    · rename_i y hy
      cases hf
      by_cases hk : k.id = id
      · -- the child itself
        have hx : x = k := findIn_top_id id k x hk hy
        subst hx
        refine ⟨x.name, [], ⟨x, List.mem_cons_self, rfl⟩, ?_, ?_⟩
        · simp only [walkKids]; exact find?_name_head x ks
        · cases x with
          | mk i n isR ro tp m kk =>
            simp only [consistent, Bool.and_eq_true, beq_iff_eq, RNode.name] at h
            simp only [RNode.treepath, RNode.name, pathFrom, List.foldl_cons, List.foldl_nil]
            exact h.1.1.2
      · -- deeper, below this child
        have hkn : (namesL k.kids).Nodup := by
          have := hnd.1
          rw [namesK_eq] at this
          exact (List.nodup_append.mp this).2.1
        obtain ⟨n0, rest, ⟨k', hk', hk'n⟩, hw, htp⟩ := pos_of_findIn r id k x _ h.1 hkn (plain_kids k hpl.1) hk hy
        refine ⟨k.name, n0 :: rest, ⟨k, List.mem_cons_self, rfl⟩, ?_, ?_⟩
        · simp only [walkKids, find?_name_head k ks]
          exact hw
        · rw [htp]; simp [pathFrom]
    · obtain ⟨n0, rest, ⟨k', hk', hk'n⟩, hw, htp⟩ := pos_of_findInList r id ks x path h.2 hnd.2.1 hpl.2 hf
      refine ⟨n0, rest, ⟨k', List.mem_cons_of_mem _ hk', hk'n⟩, ?_, htp⟩
      have hne : k.name ≠ n0 := by
        intro e
        have h1 : k.name ∈ namesK k := by rw [namesK_eq, hkr]; simp
        have h2 : k'.name ∈ namesL ks := name_mem_namesL hk' (plain_isRoot k' (plainL_mem hpl.2 hk'))
        exact hnd.2.2 _ h1 _ h2 (e.trans hk'n.symm)
      rw [walkKids_cons_skip k ks n0 rest hne]
      exact hw
end

theorem nodup_names_of_mem {cs : List RNode} (hn : (namesL cs).Nodup) {c : RNode} (hc : c ∈ cs) : (namesK c).Nodup := by
  induction cs with
  | nil => cases hc
  | cons k ks ih =>
    simp only [namesL_cons] at hn
    have hnd := List.nodup_append.mp hn
    cases hc with
    | head => exact hnd.1
    | tail _ h' => exact ih hnd.2.1 h'

/-- with unique ids, what is found inside a top-level object is what `find` returns for the whole forest -/
theorem find_via_top {cs : List RNode} (hn : (idsL cs).Nodup) {c x : RNode} (id : Nat) (hc : c ∈ cs)
    (hf : findIn id c = some x) : findInList id cs = some x := by
  induction cs with
  | nil => cases hc
  | cons k ks ih =>
    simp only [idsL_cons] at hn
    have hnd := List.nodup_append.mp hn
    simp only [findInList]
    cases hc with
    | head => rw [hf]
    | tail _ hc' =>
      have hmem : id ∈ idsL ks := by
        obtain ⟨h1, h2⟩ := findIn_some id c x hf
        exact mem_idsL_of_mem hc' (List.mem_map.mpr ⟨(x.id, x.name, x.isRoot), h2 _ (self_mem_keys x), h1⟩)
      have : id ∉ idsK k := fun hk => hnd.2.2 _ hk _ hmem rfl
      rw [findIn_none_of_not_mem _ _ this]
      exact ih hnd.2.1 hc'

/-- C12: looking up a node's own path from its root returns that node.  For every node `x` below a Root `c` there are
    names `ps` such that the absolute lookup `x.get_from_tree('/' + '/'.join(ps))` returns `x` itself, the walk from the
    Root down the `_branch` dictionaries reaches `x`, and the treepath `x` records is exactly that path. -/
theorem C12_lookup_own_path (h : Heap) (inv : Inv h) (c x : RNode) (id : Nat) (hc : c ∈ h.comps) (hr : c.isRoot = true)
    (hne : c.id ≠ id) (hf : findIn id c = some x) :
    ∃ ps, ps ≠ [] ∧ walkKids c.kids ps = some x ∧ x.treepath = some (pathFrom "" ps) ∧
      getFromTree h x.id true ps = .node x.id := by
  have hnk : (namesL c.kids).Nodup := by
    have := nodup_names_of_mem inv.ok.names hc
    rw [namesK_eq] at this
    exact (List.nodup_append.mp this).2.1
  obtain ⟨n0, rest, _, hw, htp⟩ := pos_of_findIn _ id c x "" (inv.ok.roots c hc hr) hnk (inv.ok.plainKids c hc) hne hf
  refine ⟨n0 :: rest, by simp, hw, htp, ?_⟩
  have hxid : x.id = id := (findIn_some id c x hf).1
  have hfx : h.find x.id = some x := by rw [hxid]; exact find_via_top inv.ok.ids id hc hf
  have hroot : x.root = some c.id := root_of_findIn _ id c x "" (inv.ok.roots c hc hr) hf
  have hfc : h.find c.id = some c := findInList_top h.comps c inv.ok.ids hc
  simp only [getFromTree, hfx, hroot, Option.bind, hfc, List.isEmpty_cons, Bool.false_and, Bool.false_eq_true, if_false,
    if_true, hw]

-- non-vacuity of the history theorem: a history with adds, a force-add of a rooted node, grafts (from a node, from a Root)
-- and cuts, all legal; the final forest satisfies the invariant by `C12_history_from_empty`
def exHistory : List TOp :=
  [.mkRoot "r", .mkNode "a", .add 0 1, .mkNode "b", .add 1 2, .mkNode "c", .add 1 3, .addMd 0 "cal" "x",
   .mkRoot "q", .mkNode "d", .add 4 5, .graft 5 1 .copyover, .force 0 2, .cut 3 .yes, .graft 0 4 .overwrite, .add 5 0]

example : legalSeq {} exHistory = true := by decide +kernel
example : Inv (exHistory.foldl applyOp {}) := C12_history_from_empty exHistory (by decide +kernel)
-- cutting the same Root twice makes two Roots of one name: harmless, and inside the theorem
example : legalSeq {} [.mkRoot "r", .mkNode "a", .add 0 1, .cut 0 .yes, .mkNode "b", .add 0 3, .cut 0 .copy] = true := by decide +kernel
-- …and the side condition matters: grafting a node under its own descendant is not legal
example : legalSeq {} [.mkRoot "r", .mkNode "a", .add 0 1, .mkNode "b", .add 1 2, .graft 2 1 .yes] = false := by decide +kernel

-- non-vacuity: a concrete three-level branch moved under another tree is consistent there
def exBranch : RNode :=
  .mk 5 "a" false (some 0) (some "/a") [("m", 0)]
    [.mk 6 "b" false (some 0) (some "/a/b") [] [.mk 7 "c" false (some 0) (some "/a/b/c") [] []],
     .mk 8 "d" false (some 0) (some "/a/d") [] []]

example : consistent (some 0) "/a" exBranch = true := by decide
example : consistent (some 9) "/x/a" exBranch = false := by decide
example : consistent (some 9) "/x/a" (relabel (some 9) "/x/a" exBranch) = true := by decide

end EmdProps
