/-
C12 — Tree operations keep every node consistent with the tree it is in.

The heap model (EmdModel/Forest.lean) stores `_root` and `_treepath` in every node and updates them exactly where
node.py does.  `consistent r path n`: every node of the branch `n` records root `r` and the treepath it really has.
`C12_relabel` — the recursive refresh performed by add / graft / cut / force-add (`_update_branch`, the repaired
defect) makes a WHOLE branch of any shape consistent with its new position, for every depth and branching.
`C12_add` — `add_to_tree` keeps a consistent tree consistent and puts the child, with its internal shape intact, at
the right path.  `C12_remove` — cutting a branch out of a consistent tree leaves it consistent.
`C12_refused` — the operations the API forbids change nothing.  `C12_shape` — relabeling (hence graft / cut) keeps
the internal shape (names, ids, metadata, child structure) of the moved branch.
-/
import EmdModel

set_option linter.unusedSimpArgs false

namespace EmdProps
open EmdModel

mutual
/-- every node of the branch records root `r` and its actual treepath -/
def consistent (r : Option Nat) (path : String) : RNode → Bool
  | .mk _ _ _ ro tp _ ks => ro == r && tp == some path && consistentKids r path ks
def consistentKids (r : Option Nat) (path : String) : List RNode → Bool
  | [] => true
  | k :: ks => consistent r (path ++ "/" ++ k.name) k && consistentKids r path ks
end

mutual
/-- the shape of a branch: everything except the two cached fields -/
def shape : RNode → RNode
  | .mk i n isR _ _ m ks => .mk i n isR none none m (shapeKids ks)
def shapeKids : List RNode → List RNode
  | [] => []
  | k :: ks => shape k :: shapeKids ks
end

mutual
/-- C12 (core): after the recursive refresh the whole branch is consistent with its new position -/
theorem C12_relabel (r : Option Nat) : ∀ (n : RNode) (path : String), consistent r path (relabel r path n) = true
  | .mk i nm isR ro tp m ks, path => by
    simp only [relabel, consistent, beq_self_eq_true, Bool.true_and]
    exact C12_relabelKids r ks path
theorem C12_relabelKids (r : Option Nat) : ∀ (ks : List RNode) (path : String),
    consistentKids r path (relabelKids r path ks) = true
  | [], _ => rfl
  | k :: ks, path => by
    simp only [relabelKids, consistentKids, Bool.and_eq_true]
    refine ⟨?_, C12_relabelKids r ks path⟩
    have hn : (relabel r (path ++ "/" ++ k.name) k).name = k.name := by cases k; rfl
    rw [hn]
    exact C12_relabel r k _
end

mutual
/-- a moved branch arrives with its internal shape intact -/
theorem C12_shape (r : Option Nat) : ∀ (n : RNode) (path : String), shape (relabel r path n) = shape n
  | .mk i nm isR ro tp m ks, path => by
    simp only [relabel, shape]
    rw [C12_shapeKids r ks path]
theorem C12_shapeKids (r : Option Nat) : ∀ (ks : List RNode) (path : String),
    shapeKids (relabelKids r path ks) = shapeKids ks
  | [], _ => rfl
  | k :: ks, path => by
    simp only [relabelKids, shapeKids]
    rw [C12_shape r k _, C12_shapeKids r ks path]
end

theorem relabel_id (r : Option Nat) (path : String) (n : RNode) : (relabel r path n).id = n.id := by cases n; rfl
theorem relabel_name (r : Option Nat) (path : String) (n : RNode) : (relabel r path n).name = n.name := by cases n; rfl

/-- adding one consistent child (replacing a same-named one) keeps the children consistent -/
theorem consistentKids_setKid (r : Option Nat) (path : String) (c : RNode) : ∀ (ks : List RNode),
    consistentKids r path ks = true → consistent r (path ++ "/" ++ c.name) c = true →
    consistentKids r path (setKidR c ks) = true
  | [], _, hc => by simp [setKidR, consistentKids, hc]
  | k :: ks, h, hc => by
    simp only [consistentKids, Bool.and_eq_true] at h
    simp only [setKidR]
    split
    · simp only [consistentKids, Bool.and_eq_true]; exact ⟨hc, h.2⟩
    · simp only [consistentKids, Bool.and_eq_true]; exact ⟨h.1, consistentKids_setKid r path c ks h.2 hc⟩

mutual
/-- updating the node with a given id by a function that keeps consistency (at whatever position the node is)
    keeps the tree consistent -/
theorem consistent_update (r : Option Nat) (id : Nat) (f : RNode → RNode)
    (hf : ∀ q p, consistent r q p = true → consistent r q (f p) = true) (hname : ∀ p, (f p).name = p.name) :
    ∀ (t : RNode) (path : String), consistent r path t = true → consistent r path (updateIn id f t) = true
  | .mk i n isR ro tp m ks, path, h => by
    simp only [updateIn]
    split
    · exact hf path _ h
    · simp only [consistent, Bool.and_eq_true] at h ⊢
      exact ⟨h.1, consistentKids_update r id f hf hname ks path h.2⟩
theorem consistentKids_update (r : Option Nat) (id : Nat) (f : RNode → RNode)
    (hf : ∀ q p, consistent r q p = true → consistent r q (f p) = true) (hname : ∀ p, (f p).name = p.name) :
    ∀ (ks : List RNode) (path : String), consistentKids r path ks = true →
    consistentKids r path (updateInList id f ks) = true
  | [], _, _ => rfl
  | k :: ks, path, h => by
    simp only [consistentKids, Bool.and_eq_true] at h
    simp only [updateInList, consistentKids, Bool.and_eq_true]
    have hn : (updateIn id f k).name = k.name := by
      cases k with
      | mk i n isR ro tp m kk =>
        simp only [updateIn]
        split
        · rw [hname]
        · rfl
    rw [hn]
    exact ⟨consistent_update r id f hf hname k _ h.1, consistentKids_update r id f hf hname ks path h.2⟩
end

/-- C12, add: in a consistent tree, hanging a whole (relabelled) branch under the node `p` found at its recorded
    position keeps the tree consistent -/
theorem C12_add (r : Option Nat) (t : RNode) (path : String) (pid : Nat) (c : RNode)
    (h : consistent r path t = true) :
    consistent r path (updateIn pid (fun p => p.setKids (setKidR
        (relabel p.root ((p.treepath.getD "") ++ "/" ++ c.name) c) p.kids)) t) = true := by
  apply consistent_update r pid _ _ _ t path h
  · intro q p hp
    cases p with
    | mk i n isR ro tp m ks =>
      simp only [consistent, Bool.and_eq_true, beq_iff_eq] at hp
      obtain ⟨⟨hro, htp⟩, hk⟩ := hp
      simp only [RNode.setKids, RNode.root, RNode.treepath, RNode.kids, consistent, Bool.and_eq_true, beq_iff_eq]
      refine ⟨⟨hro, htp⟩, ?_⟩
      subst hro; subst htp
      simp only [Option.getD_some]
      apply consistentKids_setKid _ _ _ ks hk
      rw [relabel_name]
      exact C12_relabel _ c _
  · intro p; cases p; rfl

mutual
/-- C12, cut side: removing a branch from a consistent tree leaves a consistent tree -/
theorem C12_remove (r : Option Nat) (id : Nat) : ∀ (t : RNode) (path : String), consistent r path t = true →
    consistent r path (removeIn id t) = true
  | .mk i n isR ro tp m ks, path, h => by
    simp only [consistent, Bool.and_eq_true] at h
    simp only [removeIn, consistent, Bool.and_eq_true]
    exact ⟨h.1, C12_removeKids r id ks path h.2⟩
theorem C12_removeKids (r : Option Nat) (id : Nat) : ∀ (ks : List RNode) (path : String),
    consistentKids r path ks = true → consistentKids r path (removeInList id ks) = true
  | [], _, _ => rfl
  | k :: ks, path, h => by
    simp only [consistentKids, Bool.and_eq_true] at h
    simp only [removeInList]
    split
    · exact h.2
    · simp only [consistentKids, Bool.and_eq_true]
      have hn : (removeIn id k).name = k.name := by cases k; rfl
      rw [hn]
      exact ⟨C12_remove r id k _ h.1, C12_removeKids r id ks path h.2⟩
end

/-- the operations the API forbids fail without changing anything: adding to an unrooted node -/
theorem C12_refused_unrooted_parent (h : Heap) (pid cid : Nat) (p c : RNode)
    (hp : h.find pid = some p) (hc : h.find cid = some c) (hr : p.root = none) :
    addToTree h pid cid = (h, .refused) := by
  simp [addToTree, hp, hc, hr]

/-- …adding a node that already has a root -/
theorem C12_refused_rooted_child (h : Heap) (pid cid : Nat) (p c : RNode) (x y : Nat)
    (hp : h.find pid = some p) (hc : h.find cid = some c) (hpr : p.root = some x) (hr : c.root = some y) :
    addToTree h pid cid = (h, .refused) := by
  simp [addToTree, hp, hc, hr, hpr]

/-- …grafting an unrooted node or onto an unrooted node -/
theorem C12_refused_graft_unrooted (h : Heap) (sid rid : Nat) (s r : RNode) (opt : MdOpt)
    (hs : h.find sid = some s) (hr : h.find rid = some r) (hn : s.root = none ∨ r.root = none) :
    graftInto h sid rid opt = (h, .refused) := by
  cases hn with
  | inl e => simp [graftInto, hs, hr, e]
  | inr e =>
    simp only [graftInto, hs, hr, e]
    cases s.root <;> rfl

-- non-vacuity: a concrete three-level branch moved under another tree is consistent there
def exBranch : RNode :=
  .mk 5 "a" false (some 0) (some "/a") [("m", 0)]
    [.mk 6 "b" false (some 0) (some "/a/b") [] [.mk 7 "c" false (some 0) (some "/a/b/c") [] []],
     .mk 8 "d" false (some 0) (some "/a/d") [] []]

example : consistent (some 0) "/a" exBranch = true := by decide
example : consistent (some 9) "/x/a" exBranch = false := by decide
example : consistent (some 9) "/x/a" (relabel (some 9) "/x/a" exBranch) = true := by decide

end EmdProps
