/-
C09 — Append is a name-based union; append-over additionally replaces common nodes.

`C09_union`: for EVERY file containing the encoding of a well-formed tree F under the root name, and EVERY
well-formed runtime tree R with the same root name (disjoint, nested, overlapping, deeper on either side — no
restriction beyond `compatKids`, the explicit "common name space" condition), a whole-root append / append-over
rewrites exactly that root group into the encoding of a well-formed tree T' with, at every path (n :: p),

    info(T' at n::p) = combine mode (info(F at n::p)) (info(R at n::p))

i.e. file nodes unchanged (append) or replaced by the runtime node of the same path (append-over), runtime-only
nodes added at their runtime path with their whole branch, file-only nodes (also below replaced nodes) kept.
`C09_root_md`: the root's metadata entries follow the same rule per entry name.
`C09_existing_kept`, `C09_new_added`, `C09_replaced` are the clauses of the property as corollaries.
The engine is `appendKids_spec` / `appendOne_spec` (EmdProofs/AppendSpec.lean, mutual induction on the runtime tree).
-/
import EmdProofs.AppendSpec
import EmdProps.C08

set_option linter.unusedSimpArgs false

namespace EmdProps
open EmdModel

/-- what `_append_root_metadata` does to the body of the root group -/
def mdBody (over : Bool) (body : List (String × Obj)) (entries : List (String × Obj)) : R (List (String × Obj)) :=
  if entries.isEmpty then pure body
  else
    match alookup "metadatabundle" body with
    | none => do
      let es ← mdMergeEntries over [] [] entries
      pure (("metadatabundle", .group bundleAttrs es) :: body)
    | some b => do
      let existing := (b.kids.filter (fun kv => kv.2.gtype == some "metadata")).map (·.1)
      let es ← mdMergeEntries over existing b.kids entries
      pure (areplace "metadatabundle" (b.setKids es) body)

theorem areplace_append_left {β : Type} (n : String) (v : β) (l r : List (String × β)) (hn : n ∈ akeys l) :
    areplace n v (l ++ r) = areplace n v l ++ r := by
  induction l with
  | nil => simp [akeys] at hn
  | cons kv l ih =>
    obtain ⟨k, w⟩ := kv
    simp only [List.cons_append, areplace]
    by_cases hk : k = n
    · simp [hk]
    · simp only [hk, if_false, List.cons_append]
      simp only [akeys, List.map_cons, List.mem_cons] at hn
      rw [ih (by
        cases hn with
        | inl h => exact absurd h.symm hk
        | inr h => exact h)]

theorem appendRootMetadata_body (over : Bool) (a : Attrs) (body ks : List (String × Obj)) (r : NodeInfo)
    (hks : "metadatabundle" ∉ akeys ks) :
    appendRootMetadata (.group a (body ++ ks)) r over
      = (mdBody over body (mdEntries r)).map (fun b' => Obj.group a (b' ++ ks)) := by
  have hl : alookup "metadatabundle" (Obj.group a (body ++ ks)).kids = alookup "metadatabundle" body := by
    simp only [Obj.kids, alookup_append, alookup_none_of_not_mem _ _ hks]
    cases alookup "metadatabundle" body <;> rfl
  unfold appendRootMetadata mdBody
  by_cases he : (mdEntries r).isEmpty = true
  · simp [he, pure, Except.pure, Except.map]
  · simp only [he, Bool.false_eq_true, if_false, Obj.isGroup, Bool.not_true]
    rw [hl]
    cases hb : alookup "metadatabundle" body with
    | none =>
      simp only [bind, Except.bind, pure, Except.pure]
      generalize mdMergeEntries over [] [] (mdEntries r) = res
      cases res <;> simp [Except.map, Obj.setKids, Obj.kids]
    | some b =>
      have hin : "metadatabundle" ∈ akeys body := alookup_isSome_mem_akeys _ _ (by simp [hb])
      simp only [bind, Except.bind, pure, Except.pure]
      generalize mdMergeEntries over _ b.kids (mdEntries r) = res
      cases res with
      | error e => simp [Except.map]
      | ok es => simp [Except.map, Obj.setKids, Obj.kids, areplace_append_left _ _ _ _ hin]

theorem bundle_not_data : hasDataTag DT (.group bundleAttrs []) = false := by decide

theorem hasDataTag_attrs (a : Attrs) (k1 k2 : List (String × Obj)) :
    hasDataTag DT (.group a k1) = hasDataTag DT (.group a k2) := by
  simp [hasDataTag, Obj.gtype, Obj.attrs]

theorem all_areplace {β : Type} (P : String × β → Bool) (n : String) (v : β) (l : List (String × β))
    (hl : l.all P = true) (hv : ∀ w, alookup n l = some w → P (n, v) = true) : (areplace n v l).all P = true := by
  induction l with
  | nil => simp [areplace]
  | cons kv l ih =>
    obtain ⟨k, w⟩ := kv
    simp only [List.all_cons, Bool.and_eq_true] at hl
    simp only [areplace]
    by_cases hk : k = n
    · subst hk
      simp only [if_true, List.all_cons, Bool.and_eq_true]
      exact ⟨hv w (by simp [alookup]), hl.2⟩
    · simp only [hk, if_false, List.all_cons, Bool.and_eq_true]
      exact ⟨hl.1, ih hl.2 (fun w' hw' => hv w' (by simp [alookup, hk, hw']))⟩

/-- the merged body is still a legal body, and it has the old keys plus possibly `metadatabundle` -/
theorem mdBody_wf (over : Bool) (body body' : List (String × Obj)) (entries : List (String × Obj))
    (hb : body.all (fun kv => !hasDataTag DT kv.2) = true) (h : mdBody over body entries = .ok body') :
    body'.all (fun kv => !hasDataTag DT kv.2) = true ∧
    (∀ m, m ∈ akeys body' → m ∈ akeys body ∨ m = "metadatabundle") := by
  unfold mdBody at h
  by_cases he : entries.isEmpty = true
  · simp only [he, if_true, pure, Except.pure, Except.ok.injEq] at h
    subst h
    exact ⟨hb, fun m hm => Or.inl hm⟩
  · simp only [he, Bool.false_eq_true, if_false] at h
    cases hbm : alookup "metadatabundle" body with
    | none =>
      simp only [hbm, bind, Except.bind, pure, Except.pure] at h
      cases hm : mdMergeEntries over [] [] entries with
      | error e => simp [hm] at h
      | ok es =>
        simp only [hm, Except.ok.injEq] at h
        subst h
        refine ⟨?_, ?_⟩
        · simp only [List.all_cons, Bool.and_eq_true, Bool.not_eq_true']
          refine ⟨?_, hb⟩
          rw [hasDataTag_attrs bundleAttrs es []]; exact bundle_not_data
        · intro m hm
          simp only [akeys, List.map_cons, List.mem_cons] at hm
          cases hm with
          | inl h => exact Or.inr h
          | inr h => exact Or.inl h
    | some b =>
      simp only [hbm, bind, Except.bind, pure, Except.pure] at h
      cases hm : mdMergeEntries over ((b.kids.filter (fun kv => kv.2.gtype == some "metadata")).map (·.1))
          b.kids entries with
      | error e => simp [hm] at h
      | ok es =>
        simp only [hm, Except.ok.injEq] at h
        subst h
        refine ⟨?_, ?_⟩
        · apply all_areplace _ _ _ _ hb
          intro w _
          have hmem : ("metadatabundle", b) ∈ body := alookup_mem _ _ _ hbm
          have := (List.all_eq_true.mp hb) _ hmem
          cases b with
          | group a k => simpa [Obj.setKids, hasDataTag_attrs a es k] using this
          | dataset a v => simpa [Obj.setKids] using this
        · intro m hm
          rw [akeys_areplace] at hm
          exact Or.inl hm

/-- C09, main statement (whole-root append, both modes) -/
theorem C09_union (over : Bool) (f : Obj) (F Rt : Tree) (body' : List (String × Obj))
    (hF : F.rootedWF CT DT = true) (hR : Rt.rootedWF CT DT = true) (hname : Rt.name = F.name)
    (hf : alookup F.name f.kids = some (encode F)) (hroot : (rootGroups f).contains F.name = true)
    (hmdname : "metadatabundle" ∉ names F.kids)
    (hmd : mdBody over F.info.body (mdEntries Rt.info) = .ok body')
    (hcompat : compatKids over { F.info with body := body' } F.kids
        (akeys body' ++ names F.kids ++ names Rt.kids) Rt.kids = true) :
    ∃ T', T'.rootedWF CT DT = true ∧ T'.info = { F.info with body := body' } ∧
      appendInto DT f Rt [] over .yes none = .ok (f.setKids (areplace F.name (encode T') f.kids)) ∧
      ∀ n p, cK T'.kids n p = combine over (cK F.kids n p) (cK Rt.kids n p) := by
  cases F with
  | mk i fk =>
  cases Rt with
  | mk ri rk =>
  simp only [Tree.name_mk] at hname hf hroot
  simp only [Tree.info_mk, Tree.kids_mk] at hmd hcompat hmdname
  simp only [Tree.rootedWF, Bool.and_eq_true, beq_iff_eq, Tree.info_mk] at hF hR
  obtain ⟨⟨hFw, hFc⟩, hFg⟩ := hF
  obtain ⟨⟨hRw, _⟩, _⟩ := hR
  have hFw' := hFw
  simp only [Tree.wf, Bool.and_eq_true] at hFw
  obtain ⟨hi, hk⟩ := hFw
  have hib := hi
  simp only [infoWF, Bool.and_eq_true] at hib
  obtain ⟨hbw, hbkeys⟩ := mdBody_wf over i.body body' _ hib.2 hmd
  -- the root node with its merged body is well-formed
  let i2 : NodeInfo := { i with body := body' }
  have hi2 : infoWF CT DT i2 = true := by
    simp only [infoWF, Bool.and_eq_true, i2]
    exact ⟨hib.1, hbw⟩
  have hk2 : kidsWF CT DT (akeys body') fk = true := by
    apply kidsWF_retake' fk _ _ hk
    intro k hkm hmem
    cases hbkeys _ hmem with
    | inl h => exact kidsWF_names_not_taken fk _ hk k.name (List.mem_map_of_mem hkm) h
    | inr h => exact hmdname (h ▸ List.mem_map_of_mem hkm)
  have hF2 : (Tree.mk i2 fk).wf CT DT = true := by
    simp only [Tree.wf, Bool.and_eq_true]; exact ⟨hi2, hk2⟩
  obtain ⟨fk', hwf', heq', _, _, hspec'⟩ :=
    appendKids_spec (ct := CT) (dt := DT) over rk i2 fk (taggedKeys (encode (.mk i2 fk)))
      (akeys body' ++ names fk ++ names rk) (akeys ri.body) hF2 (Tree.wf_kids hRw) hcompat
      (fun m hm => by
        simp only [List.mem_append]
        cases hm with
        | inl h => exact Or.inl (Or.inl h)
        | inr h => exact Or.inl (Or.inr h))
      (fun m hm => by simp only [List.mem_append]; exact Or.inr hm)
      (fun d' hd' => by
        simp only [encode]
        exact taggedKeys_contains _ _ _ _ (compatKids_not_body over i2 fk _ rk hcompat d' hd'))
  refine ⟨.mk i2 fk', ?_, rfl, ?_, hspec'⟩
  · simp only [Tree.rootedWF, Bool.and_eq_true, beq_iff_eq, Tree.info_mk]
    exact ⟨⟨hwf', hFc⟩, hFg⟩
  · have hmdk : "metadatabundle" ∉ akeys (encodeKids fk) := by rw [akeys_encodeKids]; exact hmdname
    have hrm : appendRootMetadata (encode (.mk i fk)) ri over = .ok (encode (.mk i2 fk)) := by
      simp only [encode]
      rw [appendRootMetadata_body over _ _ _ ri hmdk, hmd]
      rfl
    simp only [appendInto, appendCore, Tree.at, Tree.name_mk, Tree.info_mk, hname, hroot, List.isEmpty_nil, hf, hrm,
      bind, Except.bind, pure, Except.pure, if_true, beq_self_eq_true, Bool.not_true, Bool.false_and,
      Bool.false_eq_true, if_false]
    simp only [appendBranch, appendNode, Tree.kids_mk, heq']

/-- per-name union of metadata entries -/
def combineO (over : Bool) : Option Obj → Option Obj → Option Obj
  | some f, some r => some (if over then r else f)
  | some f, none => some f
  | none, r => r

theorem mdMerge_spec (over : Bool) (existing : List String) :
    ∀ (re fe : List (String × Obj)), (∀ kv ∈ re, validName kv.1 = true) → (re.map (·.1)).Nodup →
    (∀ k ∈ re.map (·.1), existing.contains k = (alookup k fe).isSome) →
    ∃ es, mdMergeEntries over existing fe re = .ok es ∧
      ∀ k, alookup k es = combineO over (alookup k fe) (alookup k re)
  | [], fe, _, _, _ => by
    refine ⟨fe, by simp [mdMergeEntries, pure, Except.pure], fun k => ?_⟩
    cases alookup k fe <;> rfl
  | (k, v) :: rest, fe, hv, hnd, hex => by
    simp only [List.map_cons, List.nodup_cons] at hnd
    have hk := hex k (by simp)
    have hrest_ne : ∀ x ∈ rest.map (·.1), x ≠ k := fun x hx e => hnd.1 (e ▸ hx)
    have hnone : alookup k rest = none := alookup_none_of_not_mem k rest hnd.1
    by_cases hc : existing.contains k = true
    · -- present in the file
      have hsome : (alookup k fe).isSome = true := by rw [← hk]; exact hc
      obtain ⟨es, hes, hspec⟩ := mdMerge_spec over existing rest (if over then areplace k v fe else fe)
        (fun kv h => hv kv (List.mem_cons_of_mem _ h)) hnd.2 (fun x hx => by
          rw [hex x (List.mem_cons_of_mem _ hx)]
          split
          · rw [alookup_areplace_other _ _ _ _ (hrest_ne x hx)]
          · rfl)
      refine ⟨es, by simp only [mdMergeEntries, hc, if_true, hes], fun x => ?_⟩
      rw [hspec x]
      by_cases hx : x = k
      · subst hx
        simp only [hnone, alookup, if_true]
        cases over
        · simp only [Bool.false_eq_true, if_false]
          cases hf : alookup x fe with
          | none => simp [hf] at hsome
          | some w => rfl
        · simp only [if_true, alookup_areplace_same _ _ _ hsome]
          cases hf : alookup x fe with
          | none => simp [hf] at hsome
          | some w => rfl
      · have : k ≠ x := fun e => hx e.symm
        simp only [alookup, this, if_false]
        split
        · rw [alookup_areplace_other _ _ _ _ hx]
        · rfl
    · -- new entry
      have hcf : existing.contains k = false := by simpa using hc
      have hnf : alookup k fe = none := by
        rw [hcf] at hk
        cases h : alookup k fe with
        | none => rfl
        | some w => simp [h] at hk
      have hvk := hv (k, v) (by simp)
      obtain ⟨es, hes, hspec⟩ := mdMerge_spec over existing rest (fe ++ [(k, v)])
        (fun kv h => hv kv (List.mem_cons_of_mem _ h)) hnd.2 (fun x hx => by
          rw [hex x (List.mem_cons_of_mem _ hx), alookup_append]
          cases alookup x fe with
          | some w => rfl
          | none => simp [alookup, Ne.symm (hrest_ne x hx)])
      have hc' : ¬ k ∈ existing := by simpa using hc
      refine ⟨es, by simp [mdMergeEntries, hc', hvk, hnf, hes], fun x => ?_⟩
      rw [hspec x, alookup_append]
      by_cases hx : x = k
      · subst hx
        simp [hnf, hnone, alookup, combineO]
      · have : k ≠ x := fun e => hx e.symm
        simp only [alookup, this, if_false]
        cases alookup x fe <;> rfl

/-- root metadata follow the same rule per entry name (file bundle present: all its entries tagged `metadata`) -/
theorem C09_root_md (over : Bool) (b : Obj) (re : List (String × Obj))
    (hb : b.kids.all (fun kv => kv.2.gtype == some "metadata") = true)
    (hv : ∀ kv ∈ re, validName kv.1 = true) (hnd : (re.map (·.1)).Nodup) :
    ∃ es, mdMergeEntries over ((b.kids.filter (fun kv => kv.2.gtype == some "metadata")).map (·.1)) b.kids re = .ok es ∧
      ∀ k, alookup k es = combineO over (alookup k b.kids) (alookup k re) := by
  apply mdMerge_spec over _ re b.kids hv hnd
  intro k _
  have hfil : b.kids.filter (fun kv => kv.2.gtype == some "metadata") = b.kids := by
    rw [List.filter_eq_self]; intro x hx; exact (List.all_eq_true.mp hb) x hx
  rw [hfil]
  cases h : alookup k b.kids with
  | none =>
    simp only [Option.isSome_none, List.contains_eq_mem, decide_eq_false_iff_not]
    intro hm
    have := alookup_isSome_of_mem_akeys k b.kids (by simpa [akeys] using hm)
    simp [h] at this
  | some w =>
    have := alookup_isSome_mem_akeys k b.kids (by simp [h])
    simpa [akeys] using this

/-- root metadata when the file root had no bundle: exactly the runtime entries -/
theorem C09_root_md_fresh (over : Bool) (re : List (String × Obj))
    (hv : ∀ kv ∈ re, validName kv.1 = true) (hnd : (re.map (·.1)).Nodup) :
    ∃ es, mdMergeEntries over [] [] re = .ok es ∧ ∀ k, alookup k es = alookup k re := by
  obtain ⟨es, h1, h2⟩ := mdMerge_spec over [] re [] hv hnd (fun k _ => by simp [alookup])
  refine ⟨es, h1, fun k => ?_⟩
  rw [h2 k]; simp [alookup, combineO]

/-- every node already in the file is still there, unchanged in append mode -/
theorem C09_existing_kept (over : Bool) (F Rt T' : List Tree)
    (hspec : ∀ n p, cK T' n p = combine over (cK F n p) (cK Rt n p))
    (n : String) (p : List String) (x : NodeInfo) (hx : cK F n p = some x) :
    ∃ y, cK T' n p = some y ∧ (over = false → y = x) ∧ (cK Rt n p = none → y = x) := by
  rw [hspec n p, hx]
  cases hr : cK Rt n p with
  | none => exact ⟨x, rfl, fun _ => rfl, fun _ => rfl⟩
  | some r =>
    refine ⟨if over then r else x, rfl, ?_, ?_⟩
    · intro ho; simp [ho]
    · intro h; cases h

/-- exactly the runtime nodes the file lacks are added, at their runtime path, with their runtime content -/
theorem C09_new_added (over : Bool) (F Rt T' : List Tree)
    (hspec : ∀ n p, cK T' n p = combine over (cK F n p) (cK Rt n p))
    (n : String) (p : List String) (hx : cK F n p = none) : cK T' n p = cK Rt n p := by
  rw [hspec n p, hx]; rfl

/-- append-over replaces the content of every node present in both -/
theorem C09_replaced (F Rt T' : List Tree)
    (hspec : ∀ n p, cK T' n p = combine true (cK F n p) (cK Rt n p))
    (n : String) (p : List String) (x r : NodeInfo) (hx : cK F n p = some x) (hr : cK Rt n p = some r) :
    cK T' n p = some r := by
  rw [hspec n p, hx, hr]; rfl

/-- nothing else appears: a path in the result comes from the file or from the runtime tree -/
theorem C09_nothing_else (over : Bool) (F Rt T' : List Tree)
    (hspec : ∀ n p, cK T' n p = combine over (cK F n p) (cK Rt n p))
    (n : String) (p : List String) (h1 : cK F n p = none) (h2 : cK Rt n p = none) : cK T' n p = none := by
  rw [hspec n p, h1, h2]; rfl

/-- other trees in the file and the file header are untouched by an append into one root (C10 frame) -/
theorem C09_other_roots (f : Obj) (name other : String) (g : Obj) (h : other ≠ name) :
    alookup other (f.setKids (areplace name g f.kids)).kids = alookup other f.kids ∧
    (f.setKids (areplace name g f.kids)).attrs = f.attrs := by
  cases f with
  | group a k => exact ⟨by simp [Obj.setKids, Obj.kids, alookup_areplace_other _ _ _ _ h], rfl⟩
  | dataset a v => exact ⟨rfl, rfl⟩

/-- C09 through the public entry point: `save(path, R, mode)` with an append / append-over spelling on an
    existing EMD file that holds F under the same root name -/
theorem C09_save (sess : Session) (uuid path mode : String) (fs : FS) (over : Bool) (f : Obj) (F Rt : Tree)
    (body' : List (String × Obj))
    (hmode : classifyMode (effectiveMode mode none) = some (if over then .appendover else .append))
    (hfs : fsLookup fs path = some (.h5 f)) (hemd : isEMDFile f = true)
    (hF : F.rootedWF CT DT = true) (hR : Rt.rootedWF CT DT = true) (hname : Rt.name = F.name)
    (hf : alookup F.name f.kids = some (encode F)) (hroot : (rootGroups f).contains F.name = true)
    (hmdname : "metadatabundle" ∉ names F.kids)
    (hmd : mdBody over F.info.body (mdEntries Rt.info) = .ok body')
    (hcompat : compatKids over { F.info with body := body' } F.kids
        (akeys body' ++ names F.kids ++ names Rt.kids) Rt.kids = true) :
    ∃ T', T'.rootedWF CT DT = true ∧ T'.info = { F.info with body := body' } ∧
      save sess uuid fs path (.rooted Rt []) mode .yes none
        = .ok (fsSet fs path (.h5 (f.setKids (areplace F.name (encode T') f.kids)))) ∧
      ∀ n p, cK T'.kids n p = combine over (cK F.kids n p) (cK Rt.kids n p) := by
  obtain ⟨T', h1, h2, h3, h4⟩ := C09_union over f F Rt body' hF hR hname hf hroot hmdname hmd hcompat
  refine ⟨T', h1, h2, ?_, h4⟩
  cases over
  · simp only [Bool.false_eq_true, if_false] at hmode
    simp only [save, hmode, saveClass, hfs, saveAppend, hemd, Src.resolve, h3, Bool.not_true, Bool.false_eq_true,
      if_false, bind, Except.bind, pure, Except.pure]
  · simp only [if_true] at hmode
    simp only [save, hmode, saveClass, hfs, saveAppend, hemd, Src.resolve, h3, Bool.not_true, Bool.false_eq_true,
      if_false, bind, Except.bind, pure, Except.pure]

-- ---------------------------------------------------------------------------------------------
-- non-vacuity: a concrete overlapping pair (file deeper on one side, runtime deeper on the other,
-- conflicting root metadata) satisfies every hypothesis of C09_union, in both modes
-- ---------------------------------------------------------------------------------------------

def mdE (v : String) : Obj := .group [("emd_group_type", .str "metadata"), ("python_class", .str "Metadata")]
  [("x", .dataset [("type", .str "string")] (.bytes v))]

def exF : Tree :=
  .mk { name := "r", cls := "Root", gtype := "root",
        body := [("metadatabundle", .group bundleAttrs [("m", mdE "file"), ("onlyF", mdE "f")])] }
    [ .mk { name := "a", cls := "Array", gtype := "array", body := exBody }
        [ .mk { name := "deepF", cls := "Node", gtype := "node", body := [] } [] ],
      .mk { name := "onlyfile", cls := "Node", gtype := "node", body := [] } [] ]

def exR : Tree :=
  .mk { name := "r", cls := "Root", gtype := "root",
        body := [("metadatabundle", .group bundleAttrs [("m", mdE "runtime"), ("onlyR", mdE "r")])] }
    [ .mk { name := "a", cls := "Node", gtype := "node", body := [] }
        [ .mk { name := "new", cls := "PointList", gtype := "pointlist", body := [] }
            [ .mk { name := "newdeep", cls := "Node", gtype := "node", body := [] } [] ] ],
      .mk { name := "onlyrt", cls := "Node", gtype := "node", body := [] } [] ]

example : exF.rootedWF CT DT = true ∧ exR.rootedWF CT DT = true ∧ "metadatabundle" ∉ names exF.kids := by decide

example : ∀ over : Bool, (match mdBody over exF.info.body (mdEntries exR.info) with
    | .ok body' => compatKids over { exF.info with body := body' } exF.kids
        (akeys body' ++ names exF.kids ++ names exR.kids) exR.kids
    | .error _ => false) = true := by decide

/-- the model run end to end on the example: append keeps `a` an Array, append-over makes it a Node;
    `deepF`, `onlyfile` survive in both; `new/newdeep` and `onlyrt` arrive in both -/
example : (match appendInto DT (fileOf {} "u" exF) exR [] false .yes none with
    | .ok f => (f.at ["r", "a"]).bind Obj.pyClass == some "Array" && (f.at ["r", "a", "deepF"]).isSome &&
               (f.at ["r", "a", "new", "newdeep"]).isSome && (f.at ["r", "onlyrt"]).isSome && (f.at ["r", "onlyfile"]).isSome
    | .error _ => false) = true := by decide
example : (match appendInto DT (fileOf {} "u" exF) exR [] true .yes none with
    | .ok f => (f.at ["r", "a"]).bind Obj.pyClass == some "Node" && (f.at ["r", "a", "deepF"]).isSome &&
               (f.at ["r", "a", "new", "newdeep"]).isSome && (f.at ["r", "onlyrt"]).isSome && (f.at ["r", "onlyfile"]).isSome
    | .error _ => false) = true := by decide

end EmdProps
