/-
C09 — Append is a name-based union; append-over additionally replaces common nodes.

`C09_union`: for EVERY file containing the encoding of a well-formed tree F under the root name, and EVERY
well-formed runtime tree R with the same root name (disjoint, nested, overlapping, deeper on either side — no
restriction beyond `compatKids`, the explicit "common name space" condition), a whole-root append / append-over
rewrites exactly that root group into the encoding of a well-formed tree T' with, at every path (n :: p),

    info(T' at n::p) = combine mode (info(F at n::p)) (info(R at n::p))

i.e. file nodes unchanged (append) or replaced by the runtime node of the same path (append-over), runtime-only
nodes added at their runtime path with their whole branch, file-only nodes (also below replaced nodes) kept.
`C09_root_md`: the root's metadata entries follow the same rule per entry name.
`C09_existing_kept`, `C09_new_added`, `C09_replaced` are the clauses of the property as corollaries.
The engine is `appendKids_spec` / `appendOne_spec` (EmdProofs/AppendSpec.lean, mutual induction on the runtime tree).
-/
import EmdProofs.AppendSpec
import EmdProofs.Zipper
import EmdProofs.ParsePath
import EmdProps.C08
import EmdProps.C01

set_option linter.unusedSimpArgs false
set_option linter.unusedVariables false

namespace EmdProps
open EmdModel

/-- what `_append_root_metadata` does to the body of the root group -/
def mdBody (over : Bool) (body : List (String × Obj)) (entries : List (String × Obj)) : R (List (String × Obj)) :=
  if entries.isEmpty then pure body
  else
    match alookup "metadatabundle" body with
    | none => do
      let es ← mdMergeEntries over [] [] entries
      pure (("metadatabundle", .group bundleAttrs es) :: body)
    | some b => do
      let existing := (b.kids.filter (fun kv => kv.2.gtype == some "metadata")).map (·.1)
      let es ← mdMergeEntries over existing b.kids entries
      pure (areplace "metadatabundle" (b.setKids es) body)

theorem areplace_append_left {β : Type} (n : String) (v : β) (l r : List (String × β)) (hn : n ∈ akeys l) :
    areplace n v (l ++ r) = areplace n v l ++ r := by
  induction l with
  | nil => simp [akeys] at hn
  | cons kv l ih =>
    obtain ⟨k, w⟩ := kv
    simp only [List.cons_append, areplace]
    by_cases hk : k = n
    · simp [hk]
    · simp only [hk, if_false, List.cons_append]
      simp only [akeys, List.map_cons, List.mem_cons] at hn
      rw [ih (by
        cases hn with
        | inl h => exact absurd h.symm hk
        | inr h => exact h)]

theorem appendRootMetadata_body (over : Bool) (a : Attrs) (body ks : List (String × Obj)) (r : NodeInfo)
    (hks : "metadatabundle" ∉ akeys ks) :
    appendRootMetadata (.group a (body ++ ks)) r over
      = (mdBody over body (mdEntries r)).map (fun b' => Obj.group a (b' ++ ks)) := by
  have hl : alookup "metadatabundle" (Obj.group a (body ++ ks)).kids = alookup "metadatabundle" body := by
    simp only [Obj.kids, alookup_append, alookup_none_of_not_mem _ _ hks]
    cases alookup "metadatabundle" body <;> rfl
  unfold appendRootMetadata mdBody
  by_cases he : (mdEntries r).isEmpty = true
  · simp [he, pure, Except.pure, Except.map]
  · simp only [he, Bool.false_eq_true, if_false, Obj.isGroup, Bool.not_true]
    rw [hl]
    cases hb : alookup "metadatabundle" body with
    | none =>
      simp only [bind, Except.bind, pure, Except.pure]
      generalize mdMergeEntries over [] [] (mdEntries r) = res
      cases res <;> simp [Except.map, Obj.setKids, Obj.kids]
    | some b =>
      have hin : "metadatabundle" ∈ akeys body := alookup_isSome_mem_akeys _ _ (by simp [hb])
      simp only [bind, Except.bind, pure, Except.pure]
      generalize mdMergeEntries over _ b.kids (mdEntries r) = res
      cases res with
      | error e => simp [Except.map]
      | ok es => simp [Except.map, Obj.setKids, Obj.kids, areplace_append_left _ _ _ _ hin]

theorem bundle_not_data : hasDataTag DT (.group bundleAttrs []) = false := by decide

theorem hasDataTag_attrs (a : Attrs) (k1 k2 : List (String × Obj)) :
    hasDataTag DT (.group a k1) = hasDataTag DT (.group a k2) := by
  simp [hasDataTag, Obj.gtype, Obj.attrs]

theorem all_areplace {β : Type} (P : String × β → Bool) (n : String) (v : β) (l : List (String × β))
    (hl : l.all P = true) (hv : ∀ w, alookup n l = some w → P (n, v) = true) : (areplace n v l).all P = true := by
  induction l with
  | nil => simp [areplace]
  | cons kv l ih =>
    obtain ⟨k, w⟩ := kv
    simp only [List.all_cons, Bool.and_eq_true] at hl
    simp only [areplace]
    by_cases hk : k = n
    · subst hk
      simp only [if_true, List.all_cons, Bool.and_eq_true]
      exact ⟨hv w (by simp [alookup]), hl.2⟩
    · simp only [hk, if_false, List.all_cons, Bool.and_eq_true]
      exact ⟨hl.1, ih hl.2 (fun w' hw' => hv w' (by simp [alookup, hk, hw']))⟩

/-- the merged body is still a legal body, and it has the old keys plus possibly `metadatabundle` -/
theorem mdBody_wf (over : Bool) (body body' : List (String × Obj)) (entries : List (String × Obj))
    (hb : body.all (fun kv => !hasDataTag DT kv.2) = true) (h : mdBody over body entries = .ok body') :
    body'.all (fun kv => !hasDataTag DT kv.2) = true ∧
    (∀ m, m ∈ akeys body' → m ∈ akeys body ∨ m = "metadatabundle") := by
  unfold mdBody at h
  by_cases he : entries.isEmpty = true
  · simp only [he, if_true, pure, Except.pure, Except.ok.injEq] at h
    subst h
    exact ⟨hb, fun m hm => Or.inl hm⟩
  · simp only [he, Bool.false_eq_true, if_false] at h
    cases hbm : alookup "metadatabundle" body with
    | none =>
      simp only [hbm, bind, Except.bind, pure, Except.pure] at h
      cases hm : mdMergeEntries over [] [] entries with
      | error e => simp [hm] at h
      | ok es =>
        simp only [hm, Except.ok.injEq] at h
        subst h
        refine ⟨?_, ?_⟩
        · simp only [List.all_cons, Bool.and_eq_true, Bool.not_eq_true']
          refine ⟨?_, hb⟩
          rw [hasDataTag_attrs bundleAttrs es []]; exact bundle_not_data
        · intro m hm
          simp only [akeys, List.map_cons, List.mem_cons] at hm
          cases hm with
          | inl h => exact Or.inr h
          | inr h => exact Or.inl h
    | some b =>
      simp only [hbm, bind, Except.bind, pure, Except.pure] at h
      cases hm : mdMergeEntries over ((b.kids.filter (fun kv => kv.2.gtype == some "metadata")).map (·.1))
          b.kids entries with
      | error e => simp [hm] at h
      | ok es =>
        simp only [hm, Except.ok.injEq] at h
        subst h
        refine ⟨?_, ?_⟩
        · apply all_areplace _ _ _ _ hb
          intro w _
          have hmem : ("metadatabundle", b) ∈ body := alookup_mem _ _ _ hbm
          have := (List.all_eq_true.mp hb) _ hmem
          cases b with
          | group a k => simpa [Obj.setKids, hasDataTag_attrs a es k] using this
          | dataset a v => simpa [Obj.setKids] using this
        · intro m hm
          rw [akeys_areplace] at hm
          exact Or.inl hm

/-- C09, main statement (whole-root append, both modes) -/
theorem C09_union (over : Bool) (f : Obj) (F Rt : Tree) (body' : List (String × Obj))
    (hF : F.rootedWF CT DT = true) (hR : Rt.rootedWF CT DT = true) (hname : Rt.name = F.name)
    (hf : alookup F.name f.kids = some (encode F)) (hroot : (rootGroups f).contains F.name = true)
    (hmdname : "metadatabundle" ∉ names F.kids)
    (hmd : mdBody over F.info.body (mdEntries Rt.info) = .ok body')
    (hcompat : compatKids over { F.info with body := body' } F.kids
        (akeys body' ++ names F.kids ++ names Rt.kids) Rt.kids = true) :
    ∃ T', T'.rootedWF CT DT = true ∧ T'.info = { F.info with body := body' } ∧
      appendInto DT f Rt [] over .yes none = .ok (f.setKids (areplace F.name (encode T') f.kids)) ∧
      ∀ n p, cK T'.kids n p = combine over (cK F.kids n p) (cK Rt.kids n p) := by
  cases F with
  | mk i fk =>
  cases Rt with
  | mk ri rk =>
  simp only [Tree.name_mk] at hname hf hroot
  simp only [Tree.info_mk, Tree.kids_mk] at hmd hcompat hmdname
  simp only [Tree.rootedWF, Bool.and_eq_true, beq_iff_eq, Tree.info_mk] at hF hR
  obtain ⟨⟨hFw, hFc⟩, hFg⟩ := hF
  obtain ⟨⟨hRw, _⟩, _⟩ := hR
  have hFw' := hFw
  simp only [Tree.wf, Bool.and_eq_true] at hFw
  obtain ⟨hi, hk⟩ := hFw
  have hib := hi
  simp only [infoWF, Bool.and_eq_true] at hib
  obtain ⟨hbw, hbkeys⟩ := mdBody_wf over i.body body' _ hib.2 hmd
  -- the root node with its merged body is well-formed
  let i2 : NodeInfo := { i with body := body' }
  have hi2 : infoWF CT DT i2 = true := by
    simp only [infoWF, Bool.and_eq_true, i2]
    exact ⟨hib.1, hbw⟩
  have hk2 : kidsWF CT DT (akeys body') fk = true := by
    apply kidsWF_retake' fk _ _ hk
    intro k hkm hmem
    cases hbkeys _ hmem with
    | inl h => exact kidsWF_names_not_taken fk _ hk k.name (List.mem_map_of_mem hkm) h
    | inr h => exact hmdname (h ▸ List.mem_map_of_mem hkm)
  have hF2 : (Tree.mk i2 fk).wf CT DT = true := by
    simp only [Tree.wf, Bool.and_eq_true]; exact ⟨hi2, hk2⟩
  obtain ⟨fk', hwf', heq', _, _, hspec'⟩ :=
    appendKids_spec (ct := CT) (dt := DT) over rk i2 fk (taggedKeys (encode (.mk i2 fk)))
      (akeys body' ++ names fk ++ names rk) (akeys ri.body) hF2 (Tree.wf_kids hRw) hcompat
      (fun m hm => by
        simp only [List.mem_append]
        cases hm with
        | inl h => exact Or.inl (Or.inl h)
        | inr h => exact Or.inl (Or.inr h))
      (fun m hm => by simp only [List.mem_append]; exact Or.inr hm)
      (fun d' hd' => by
        simp only [encode]
        exact taggedKeys_contains _ _ _ _ (compatKids_not_body over i2 fk _ rk hcompat d' hd'))
  refine ⟨.mk i2 fk', ?_, rfl, ?_, hspec'⟩
  · simp only [Tree.rootedWF, Bool.and_eq_true, beq_iff_eq, Tree.info_mk]
    exact ⟨⟨hwf', hFc⟩, hFg⟩
  · have hmdk : "metadatabundle" ∉ akeys (encodeKids fk) := by rw [akeys_encodeKids]; exact hmdname
    have hrm : appendRootMetadata (encode (.mk i fk)) ri over = .ok (encode (.mk i2 fk)) := by
      simp only [encode]
      rw [appendRootMetadata_body over _ _ _ ri hmdk, hmd]
      rfl
    simp only [appendInto, appendCore, Tree.at, Tree.name_mk, Tree.info_mk, hname, hroot, List.isEmpty_nil, hf, hrm,
      bind, Except.bind, pure, Except.pure, if_true, beq_self_eq_true, Bool.not_true, Bool.false_and,
      Bool.false_eq_true, if_false]
    simp only [appendBranch, appendNode, Tree.kids_mk, heq']

/-- per-name union of metadata entries -/
def combineO (over : Bool) : Option Obj → Option Obj → Option Obj
  | some f, some r => some (if over then r else f)
  | some f, none => some f
  | none, r => r

theorem mdMerge_spec (over : Bool) (existing : List String) :
    ∀ (re fe : List (String × Obj)), (∀ kv ∈ re, validName kv.1 = true) → (re.map (·.1)).Nodup →
    (∀ k ∈ re.map (·.1), existing.contains k = (alookup k fe).isSome) →
    ∃ es, mdMergeEntries over existing fe re = .ok es ∧
      ∀ k, alookup k es = combineO over (alookup k fe) (alookup k re)
  | [], fe, _, _, _ => by
    refine ⟨fe, by simp [mdMergeEntries, pure, Except.pure], fun k => ?_⟩
    cases alookup k fe <;> rfl
  | (k, v) :: rest, fe, hv, hnd, hex => by
    simp only [List.map_cons, List.nodup_cons] at hnd
    have hk := hex k (by simp)
    have hrest_ne : ∀ x ∈ rest.map (·.1), x ≠ k := fun x hx e => hnd.1 (e ▸ hx)
    have hnone : alookup k rest = none := alookup_none_of_not_mem k rest hnd.1
    by_cases hc : existing.contains k = true
    · -- present in the file
      have hsome : (alookup k fe).isSome = true := by rw [← hk]; exact hc
      obtain ⟨es, hes, hspec⟩ := mdMerge_spec over existing rest (if over then areplace k v fe else fe)
        (fun kv h => hv kv (List.mem_cons_of_mem _ h)) hnd.2 (fun x hx => by
          rw [hex x (List.mem_cons_of_mem _ hx)]
          split
          · rw [alookup_areplace_other _ _ _ _ (hrest_ne x hx)]
          · rfl)
      refine ⟨es, by simp only [mdMergeEntries, hc, if_true, hes], fun x => ?_⟩
      rw [hspec x]
      by_cases hx : x = k
      · subst hx
        simp only [hnone, alookup, if_true]
        cases over
        · simp only [Bool.false_eq_true, if_false]
          cases hf : alookup x fe with
          | none => simp [hf] at hsome
          | some w => rfl
        · simp only [if_true, alookup_areplace_same _ _ _ hsome]
          cases hf : alookup x fe with
          | none => simp [hf] at hsome
          | some w => rfl
      · have : k ≠ x := fun e => hx e.symm
        simp only [alookup, this, if_false]
        split
        · rw [alookup_areplace_other _ _ _ _ hx]
        · rfl
    · -- new entry
      have hcf : existing.contains k = false := by simpa using hc
      have hnf : alookup k fe = none := by
        rw [hcf] at hk
        cases h : alookup k fe with
        | none => rfl
        | some w => simp [h] at hk
      have hvk := hv (k, v) (by simp)
      obtain ⟨es, hes, hspec⟩ := mdMerge_spec over existing rest (fe ++ [(k, v)])
        (fun kv h => hv kv (List.mem_cons_of_mem _ h)) hnd.2 (fun x hx => by
          rw [hex x (List.mem_cons_of_mem _ hx), alookup_append]
          cases alookup x fe with
          | some w => rfl
          | none => simp [alookup, Ne.symm (hrest_ne x hx)])
      have hc' : ¬ k ∈ existing := by simpa using hc
      refine ⟨es, by simp [mdMergeEntries, hc', hvk, hnf, hes], fun x => ?_⟩
      rw [hspec x, alookup_append]
      by_cases hx : x = k
      · subst hx
        simp [hnf, hnone, alookup, combineO]
      · have : k ≠ x := fun e => hx e.symm
        simp only [alookup, this, if_false]
        cases alookup x fe <;> rfl

/-- root metadata follow the same rule per entry name (file bundle present: all its entries tagged `metadata`) -/
theorem C09_root_md (over : Bool) (b : Obj) (re : List (String × Obj))
    (hb : b.kids.all (fun kv => kv.2.gtype == some "metadata") = true)
    (hv : ∀ kv ∈ re, validName kv.1 = true) (hnd : (re.map (·.1)).Nodup) :
    ∃ es, mdMergeEntries over ((b.kids.filter (fun kv => kv.2.gtype == some "metadata")).map (·.1)) b.kids re = .ok es ∧
      ∀ k, alookup k es = combineO over (alookup k b.kids) (alookup k re) := by
  apply mdMerge_spec over _ re b.kids hv hnd
  intro k _
  have hfil : b.kids.filter (fun kv => kv.2.gtype == some "metadata") = b.kids := by
    rw [List.filter_eq_self]; intro x hx; exact (List.all_eq_true.mp hb) x hx
  rw [hfil]
  cases h : alookup k b.kids with
  | none =>
    simp only [Option.isSome_none, List.contains_eq_mem, decide_eq_false_iff_not]
    intro hm
    have := alookup_isSome_of_mem_akeys k b.kids (by simpa [akeys] using hm)
    simp [h] at this
  | some w =>
    have := alookup_isSome_mem_akeys k b.kids (by simp [h])
    simpa [akeys] using this

/-- root metadata when the file root had no bundle: exactly the runtime entries -/
theorem C09_root_md_fresh (over : Bool) (re : List (String × Obj))
    (hv : ∀ kv ∈ re, validName kv.1 = true) (hnd : (re.map (·.1)).Nodup) :
    ∃ es, mdMergeEntries over [] [] re = .ok es ∧ ∀ k, alookup k es = alookup k re := by
  obtain ⟨es, h1, h2⟩ := mdMerge_spec over [] re [] hv hnd (fun k _ => by simp [alookup])
  refine ⟨es, h1, fun k => ?_⟩
  rw [h2 k]; simp [alookup, combineO]

/-- every node already in the file is still there, unchanged in append mode -/
theorem C09_existing_kept (over : Bool) (F Rt T' : List Tree)
    (hspec : ∀ n p, cK T' n p = combine over (cK F n p) (cK Rt n p))
    (n : String) (p : List String) (x : NodeInfo) (hx : cK F n p = some x) :
    ∃ y, cK T' n p = some y ∧ (over = false → y = x) ∧ (cK Rt n p = none → y = x) := by
  rw [hspec n p, hx]
  cases hr : cK Rt n p with
  | none => exact ⟨x, rfl, fun _ => rfl, fun _ => rfl⟩
  | some r =>
    refine ⟨if over then r else x, rfl, ?_, ?_⟩
    · intro ho; simp [ho]
    · intro h; cases h

/-- exactly the runtime nodes the file lacks are added, at their runtime path, with their runtime content -/
theorem C09_new_added (over : Bool) (F Rt T' : List Tree)
    (hspec : ∀ n p, cK T' n p = combine over (cK F n p) (cK Rt n p))
    (n : String) (p : List String) (hx : cK F n p = none) : cK T' n p = cK Rt n p := by
  rw [hspec n p, hx]; rfl

/-- append-over replaces the content of every node present in both -/
theorem C09_replaced (F Rt T' : List Tree)
    (hspec : ∀ n p, cK T' n p = combine true (cK F n p) (cK Rt n p))
    (n : String) (p : List String) (x r : NodeInfo) (hx : cK F n p = some x) (hr : cK Rt n p = some r) :
    cK T' n p = some r := by
  rw [hspec n p, hx, hr]; rfl

/-- nothing else appears: a path in the result comes from the file or from the runtime tree -/
theorem C09_nothing_else (over : Bool) (F Rt T' : List Tree)
    (hspec : ∀ n p, cK T' n p = combine over (cK F n p) (cK Rt n p))
    (n : String) (p : List String) (h1 : cK F n p = none) (h2 : cK Rt n p = none) : cK T' n p = none := by
  rw [hspec n p, h1, h2]; rfl

/-- other trees in the file and the file header are untouched by an append into one root (C10 frame) -/
theorem C09_other_roots (f : Obj) (name other : String) (g : Obj) (h : other ≠ name) :
    alookup other (f.setKids (areplace name g f.kids)).kids = alookup other f.kids ∧
    (f.setKids (areplace name g f.kids)).attrs = f.attrs := by
  cases f with
  | group a k => exact ⟨by simp [Obj.setKids, Obj.kids, alookup_areplace_other _ _ _ _ h], rfl⟩
  | dataset a v => exact ⟨rfl, rfl⟩

/-- C09 through the public entry point: `save(path, R, mode)` with an append / append-over spelling on an
    existing EMD file that holds F under the same root name -/
theorem C09_save (sess : Session) (uuid path mode : String) (fs : FS) (over : Bool) (f : Obj) (F Rt : Tree)
    (body' : List (String × Obj))
    (hmode : classifyMode (effectiveMode mode none) = some (if over then .appendover else .append))
    (hfs : fsLookup fs path = some (.h5 f)) (hemd : isEMDFile f = true)
    (hF : F.rootedWF CT DT = true) (hR : Rt.rootedWF CT DT = true) (hname : Rt.name = F.name)
    (hf : alookup F.name f.kids = some (encode F)) (hroot : (rootGroups f).contains F.name = true)
    (hmdname : "metadatabundle" ∉ names F.kids)
    (hmd : mdBody over F.info.body (mdEntries Rt.info) = .ok body')
    (hcompat : compatKids over { F.info with body := body' } F.kids
        (akeys body' ++ names F.kids ++ names Rt.kids) Rt.kids = true) :
    ∃ T', T'.rootedWF CT DT = true ∧ T'.info = { F.info with body := body' } ∧
      save sess uuid fs path (.rooted Rt []) mode .yes none
        = .ok (fsSet fs path (.h5 (f.setKids (areplace F.name (encode T') f.kids)))) ∧
      ∀ n p, cK T'.kids n p = combine over (cK F.kids n p) (cK Rt.kids n p) := by
  obtain ⟨T', h1, h2, h3, h4⟩ := C09_union over f F Rt body' hF hR hname hf hroot hmdname hmd hcompat
  refine ⟨T', h1, h2, ?_, h4⟩
  cases over
  · simp only [Bool.false_eq_true, if_false] at hmode
    simp only [save, hmode, saveClass, hfs, saveAppend, hemd, Src.resolve, h3, Bool.not_true, Bool.false_eq_true,
      if_false, bind, Except.bind, pure, Except.pure]
  · simp only [if_true] at hmode
    simp only [save, hmode, saveClass, hfs, saveAppend, hemd, Src.resolve, h3, Bool.not_true, Bool.false_eq_true,
      if_false, bind, Except.bind, pure, Except.pure]

-- ---------------------------------------------------------------------------------------------
-- non-vacuity: a concrete overlapping pair (file deeper on one side, runtime deeper on the other,
-- conflicting root metadata) satisfies every hypothesis of C09_union, in both modes
-- ---------------------------------------------------------------------------------------------

def mdE (v : String) : Obj := .group [("emd_group_type", .str "metadata"), ("python_class", .str "Metadata")]
  [("x", .dataset [("type", .str "string")] (.bytes v))]

def exF : Tree :=
  .mk { name := "r", cls := "Root", gtype := "root",
        body := [("metadatabundle", .group bundleAttrs [("m", mdE "file"), ("onlyF", mdE "f")])] }
    [ .mk { name := "a", cls := "Array", gtype := "array", body := exBody }
        [ .mk { name := "deepF", cls := "Node", gtype := "node", body := [] } [] ],
      .mk { name := "onlyfile", cls := "Node", gtype := "node", body := [] } [] ]

def exR : Tree :=
  .mk { name := "r", cls := "Root", gtype := "root",
        body := [("metadatabundle", .group bundleAttrs [("m", mdE "runtime"), ("onlyR", mdE "r")])] }
    [ .mk { name := "a", cls := "Node", gtype := "node", body := [] }
        [ .mk { name := "new", cls := "PointList", gtype := "pointlist", body := [] }
            [ .mk { name := "newdeep", cls := "Node", gtype := "node", body := [] } [] ] ],
      .mk { name := "onlyrt", cls := "Node", gtype := "node", body := [] } [] ]

example : exF.rootedWF CT DT = true ∧ exR.rootedWF CT DT = true ∧ "metadatabundle" ∉ names exF.kids := by decide

example : ∀ over : Bool, (match mdBody over exF.info.body (mdEntries exR.info) with
    | .ok body' => compatKids over { exF.info with body := body' } exF.kids
        (akeys body' ++ names exF.kids ++ names exR.kids) exR.kids
    | .error _ => false) = true := by decide

/-- the model run end to end on the example: append keeps `a` an Array, append-over makes it a Node;
    `deepF`, `onlyfile` survive in both; `new/newdeep` and `onlyrt` arrive in both -/
example : (match appendInto DT (fileOf {} "u" exF) exR [] false .yes none with
    | .ok f => (f.at ["r", "a"]).bind Obj.pyClass == some "Array" && (f.at ["r", "a", "deepF"]).isSome &&
               (f.at ["r", "a", "new", "newdeep"]).isSome && (f.at ["r", "onlyrt"]).isSome && (f.at ["r", "onlyfile"]).isSome
    | .error _ => false) = true := by decide
example : (match appendInto DT (fileOf {} "u" exF) exR [] true .yes none with
    | .ok f => (f.at ["r", "a"]).bind Obj.pyClass == some "Node" && (f.at ["r", "a", "deepF"]).isSome &&
               (f.at ["r", "a", "new", "newdeep"]).isSome && (f.at ["r", "onlyrt"]).isSome && (f.at ["r", "onlyfile"]).isSome
    | .error _ => false) = true := by decide

/-! ## Targeted appends: exactly the selection, exactly there -/

/-- the file's root after `_append_root_metadata`: same tree, root body with the merged bundle -/
def withBody (F : Tree) (body' : List (String × Obj)) : Tree := .mk { F.info with body := body' } F.kids

theorem withBody_at (F : Tree) (body' : List (String × Obj)) (n : String) (p : List String) :
    (withBody F body').at (n :: p) = F.at (n :: p) := by
  cases F; rfl

/-- the root-metadata step on an encoded tree (factored out of `C09_union`) -/
theorem rootMd_encode (over : Bool) (F : Tree) (ri : NodeInfo) (body' : List (String × Obj))
    (hFw : F.wf CT DT = true) (hmdname : "metadatabundle" ∉ names F.kids)
    (hmd : mdBody over F.info.body (mdEntries ri) = .ok body') :
    (withBody F body').wf CT DT = true ∧ appendRootMetadata (encode F) ri over = .ok (encode (withBody F body')) := by
  cases F with
  | mk i fk =>
  simp only [Tree.info_mk, Tree.kids_mk] at hmd hmdname
  have hFw' := hFw
  simp only [Tree.wf, Bool.and_eq_true] at hFw
  obtain ⟨hi, hk⟩ := hFw
  have hib := hi
  simp only [infoWF, Bool.and_eq_true] at hib
  obtain ⟨hbw, hbkeys⟩ := mdBody_wf over i.body body' _ hib.2 hmd
  have hi2 : infoWF CT DT { i with body := body' } = true := by
    simp only [infoWF, Bool.and_eq_true]
    exact ⟨hib.1, hbw⟩
  have hk2 : kidsWF CT DT (akeys body') fk = true := by
    apply kidsWF_retake' fk _ _ hk
    intro k hkm hmem
    cases hbkeys _ hmem with
    | inl h => exact kidsWF_names_not_taken fk _ hk k.name (List.mem_map_of_mem hkm) h
    | inr h => exact hmdname (h ▸ List.mem_map_of_mem hkm)
  refine ⟨by simp only [withBody, Tree.info_mk, Tree.kids_mk, Tree.wf, Bool.and_eq_true]; exact ⟨hi2, hk2⟩, ?_⟩
  have hmdk : "metadatabundle" ∉ akeys (encodeKids fk) := by rw [akeys_encodeKids]; exact hmdname
  simp only [encode, withBody, Tree.info_mk, Tree.kids_mk]
  rw [appendRootMetadata_body over _ _ _ ri hmdk, hmd]
  rfl

theorem encode_addKid (P D : Tree) : encode (P.addKid D) = (encode P).setKids ((encode P).kids ++ [(D.name, encode D)]) := by
  cases P with
  | mk i kids => simp only [Tree.addKid, Tree.info_mk, Tree.kids_mk, encode, Obj.setKids, Obj.kids, encodeKids_append, List.append_assoc]

theorem alookup_encode_none (P : Tree) (m : String) (h1 : m ∉ akeys P.info.body) (h2 : m ∉ names P.kids) :
    alookup m (encode P).kids = none := by
  cases P with
  | mk i kids =>
    simp only [Tree.info_mk, Tree.kids_mk] at h1 h2
    simp only [encode, Obj.kids]
    rw [alookup_body_kids m i.body kids h1, (findKid_none_iff m kids).mpr h2]; rfl

/-- writing a node with its branch (`tree=True`) into the encoded group of a node that has nothing of that name -/
theorem writeBranch_into (P D : Tree) (hD : D.wf CT DT = true) (h1 : D.name ∉ akeys P.info.body) (h2 : D.name ∉ names P.kids) :
    (do let c ← writeNodeFull D; createIn (encode P) D.name c) = .ok (encode (P.addKid D)) := by
  have hv : validName D.name = true := infoWF_validName (Tree.wf_info hD)
  have hnone := alookup_encode_none P D.name h1 h2
  rw [writeNodeFull_ok (ct := CT) (dt := DT) D hD]
  simp only [bind, Except.bind]
  rw [encode_addKid]
  cases P with
  | mk i kids =>
    simp only [encode, Obj.kids] at hnone ⊢
    rw [createIn_fresh _ _ _ _ hv hnone]
    rfl

/-- writing a node alone (`tree=False`) -/
theorem writeSingle_into (P : Tree) (di : NodeInfo) (hv : validName di.name = true) (h1 : di.name ∉ akeys P.info.body)
    (h2 : di.name ∉ names P.kids) : writeSingleNode (encode P) di = .ok (encode (P.addKid (.mk di []))) := by
  have hnone := alookup_encode_none P di.name h1 h2
  rw [encode_addKid]
  have henc : encode (.mk di []) = nodeGroup di := by simp [encode, encodeKids, nodeGroup]
  simp only [writeSingleNode, Tree.name_mk, henc]
  cases P with
  | mk i kids =>
    simp only [encode, Obj.kids] at hnone ⊢
    rw [createIn_fresh _ _ _ _ hv hnone]
    rfl

/-- C09, targeted append of a NEW BRANCH (`save(path, node, mode='a'/'ao', tree=True)` for a runtime node whose parent
    path `q` is in the file and which itself is not): the file's tree becomes the old tree (root metadata merged) with
    exactly that node and its whole branch added as a new last child of the node at `q` — and nothing else: every path
    that does not pass through `q` keeps its content (`info_replaceAt_frame`), the node at `q` keeps its own content and
    its old children. -/
theorem C09_target_new_branch (over : Bool) (f : Obj) (F Rt P D : Tree) (body' : List (String × Obj))
    (q : List String) (m : String)
    (hF : F.rootedWF CT DT = true) (hR : Rt.rootedWF CT DT = true) (hname : Rt.name = F.name)
    (hf : alookup F.name f.kids = some (encode F)) (hroot : (rootGroups f).contains F.name = true)
    (hmdname : "metadatabundle" ∉ names F.kids)
    (hmd : mdBody over F.info.body (mdEntries Rt.info) = .ok body')
    (hP : (withBody F body').at q = some P) (hD : Rt.at (q ++ [m]) = some D)
    (hnew : m ∉ names P.kids) (hbody : m ∉ akeys P.info.body) :
    appendInto DT f Rt (q ++ [m]) over .yes none
      = .ok (f.setKids (areplace F.name (encode ((withBody F body').replaceAt q (P.addKid D))) f.kids)) ∧
    ((withBody F body').replaceAt q (P.addKid D)).wf CT DT = true := by
  simp only [Tree.rootedWF, Bool.and_eq_true, beq_iff_eq] at hF hR
  obtain ⟨hF1w, hrm⟩ := rootMd_encode over F Rt.info body' hF.1.1 hmdname hmd
  obtain ⟨hDw, hDd⟩ := wf_at (q ++ [m]) Rt D hR.1.1 hD
  have hDn : D.name = m := by
    cases hq : q ++ [m] with
    | nil => simp at hq
    | cons a b =>
      rw [hq] at hD
      have := at_name b Rt D a hD
      rw [this]
      simp only [← hq]; simp
  have hval := validate_beyond (ct := CT) (dt := DT) q (withBody F body') P m hF1w hP (alookup_encode_none P m hbody hnew)
  have hwrite := writeBranch_into P D hDw (hDn ▸ hbody) (hDn ▸ hnew)
  have hzip := atPath_encode (ct := CT) (dt := DT)
    (fun g => do let c ← writeNodeFull D; createIn g D.name c) q (withBody F body') P (P.addKid D) hF1w hP hwrite rfl
  have hne : (q ++ [m]).isEmpty = false := by cases q <;> rfl
  simp only [bind, Except.bind] at hzip
  refine ⟨?_, ?_⟩
  · simp only [appendInto, appendCore, hname, hroot, hD, hf, hrm, hval, hne, bind, Except.bind, pure, Except.pure,
      Bool.not_true, Bool.false_and, Bool.false_eq_true, if_false, hzip]
  · have hPw := (wf_at q (withBody F body') P hF1w hP)
    apply replaceAt_wf q (withBody F body') P (P.addKid D) hF1w hP _ rfl
    · intro hq; exact hPw.2 hq
    · -- the parent with the new child is well formed
      have := hPw.1
      cases P with
      | mk pi pk =>
        simp only [Tree.info_mk, Tree.kids_mk] at hnew hbody
        simp only [Tree.addKid, Tree.info_mk, Tree.kids_mk, Tree.wf, Bool.and_eq_true] at this ⊢
        refine ⟨this.1, kidsWF_append D pk _ this.2 (hDn ▸ hbody) (hDn ▸ hnew) hDw (hDd (by cases q <;> simp))⟩

/-- C09, targeted append of a SINGLE NEW NODE (`tree=False`): only the node itself is added there, without its branch -/
theorem C09_target_new_single (over : Bool) (f : Obj) (F Rt P D : Tree) (body' : List (String × Obj))
    (q : List String) (m : String)
    (hF : F.rootedWF CT DT = true) (hR : Rt.rootedWF CT DT = true) (hname : Rt.name = F.name)
    (hf : alookup F.name f.kids = some (encode F)) (hroot : (rootGroups f).contains F.name = true)
    (hmdname : "metadatabundle" ∉ names F.kids)
    (hmd : mdBody over F.info.body (mdEntries Rt.info) = .ok body')
    (hP : (withBody F body').at q = some P) (hD : Rt.at (q ++ [m]) = some D)
    (hnew : m ∉ names P.kids) (hbody : m ∉ akeys P.info.body) :
    appendInto DT f Rt (q ++ [m]) over .no none
      = .ok (f.setKids (areplace F.name (encode ((withBody F body').replaceAt q (P.addKid (.mk D.info [])))) f.kids)) := by
  simp only [Tree.rootedWF, Bool.and_eq_true, beq_iff_eq] at hF hR
  obtain ⟨hF1w, hrm⟩ := rootMd_encode over F Rt.info body' hF.1.1 hmdname hmd
  obtain ⟨hDw, hDd⟩ := wf_at (q ++ [m]) Rt D hR.1.1 hD
  have hDn : D.name = m := by
    cases hq : q ++ [m] with
    | nil => simp at hq
    | cons a b =>
      rw [hq] at hD
      have := at_name b Rt D a hD
      rw [this]
      simp only [← hq]; simp
  have hval := validate_beyond (ct := CT) (dt := DT) q (withBody F body') P m hF1w hP (alookup_encode_none P m hbody hnew)
  have hv : validName D.info.name = true := infoWF_validName (Tree.wf_info hDw)
  have hwrite := writeSingle_into P D.info hv (by rw [show D.info.name = D.name from rfl, hDn]; exact hbody)
    (by rw [show D.info.name = D.name from rfl, hDn]; exact hnew)
  have hzip := atPath_encode (ct := CT) (dt := DT)
    (fun g => writeSingleNode g D.info) q (withBody F body') P (P.addKid (.mk D.info [])) hF1w hP hwrite rfl
  have hne : (q ++ [m]).isEmpty = false := by cases q <;> rfl
  simp only [appendInto, appendCore, hname, hroot, hD, hf, hrm, hval, hne, bind, Except.bind, pure, Except.pure,
    Bool.not_true, Bool.false_and, Bool.false_eq_true, if_false, hzip]

/-- C09, targeted append BELOW an existing node (`save(path, node, mode, tree=None)` for a runtime node present in the
    file at the same path): the children of that node — and only they — are merged by the name-based union rule; the
    node itself, everything above it and everything beside it keep their content (root metadata merged as always). -/
theorem C09_target_below (over : Bool) (f : Obj) (F Rt S D : Tree) (body' : List (String × Obj))
    (n0 : String) (p0 : List String)
    (hF : F.rootedWF CT DT = true) (hR : Rt.rootedWF CT DT = true) (hname : Rt.name = F.name)
    (hf : alookup F.name f.kids = some (encode F)) (hroot : (rootGroups f).contains F.name = true)
    (hmdname : "metadatabundle" ∉ names F.kids)
    (hmd : mdBody over F.info.body (mdEntries Rt.info) = .ok body')
    (hS : F.at (n0 :: p0) = some S) (hD : Rt.at (n0 :: p0) = some D)
    (hcompat : compatKids over S.info S.kids (akeys S.info.body ++ names S.kids ++ names D.kids) D.kids = true) :
    ∃ S', S'.wf CT DT = true ∧ S'.info = S.info ∧
      appendInto DT f Rt (n0 :: p0) over .below none
        = .ok (f.setKids (areplace F.name (encode ((withBody F body').replaceAt (n0 :: p0) S')) f.kids)) ∧
      (∀ n r, cK S'.kids n r = combine over (cK S.kids n r) (cK D.kids n r)) ∧
      ((withBody F body').replaceAt (n0 :: p0) S').wf CT DT = true := by
  simp only [Tree.rootedWF, Bool.and_eq_true, beq_iff_eq] at hF hR
  obtain ⟨hF1w, hrm⟩ := rootMd_encode over F Rt.info body' hF.1.1 hmdname hmd
  have hS1 : (withBody F body').at (n0 :: p0) = some S := by rw [withBody_at]; exact hS
  obtain ⟨hSw, hSd⟩ := wf_at (n0 :: p0) (withBody F body') S hF1w hS1
  obtain ⟨hDw, _⟩ := wf_at (n0 :: p0) Rt D hR.1.1 hD
  cases S with
  | mk si sk =>
  simp only [Tree.info_mk, Tree.kids_mk] at hcompat
  obtain ⟨sk', hwf', heq', _, _, hspec'⟩ :=
    appendKids_spec (ct := CT) (dt := DT) over D.kids si sk (taggedKeys (encode (.mk si sk)))
      (akeys si.body ++ names sk ++ names D.kids) (akeys D.info.body) hSw (Tree.wf_kids hDw) hcompat
      (fun m hm => by
        simp only [List.mem_append]
        cases hm with
        | inl h => exact Or.inl (Or.inl h)
        | inr h => exact Or.inl (Or.inr h))
      (fun m hm => by simp only [List.mem_append]; exact Or.inr hm)
      (fun d' hd' => by
        simp only [encode]
        exact taggedKeys_contains _ _ _ _ (compatKids_not_body over si sk _ D.kids hcompat d' hd'))
  have hval := validate_inside (ct := CT) (dt := DT) (n0 :: p0) (withBody F body') (.mk si sk) hF1w hS1
  have hzip := atPath_encode (ct := CT) (dt := DT) (fun g => appendBranch DT over g D) (n0 :: p0) (withBody F body')
    (.mk si sk) (.mk si sk') hF1w hS1 (by simp only [appendBranch, appendNode]; exact heq') rfl
  refine ⟨.mk si sk', hwf', rfl, ?_, hspec', ?_⟩
  · simp only [appendInto, appendCore, hname, hroot, hD, hf, hrm, hval, List.isEmpty_cons, bind, Except.bind, pure,
      Except.pure, Bool.not_true, Bool.false_and, Bool.false_eq_true, if_false, hzip]
  · exact replaceAt_wf (n0 :: p0) (withBody F body') (.mk si sk) (.mk si sk') hF1w hS1 hwf' rfl (fun h => hSd h)

/-- C09, targeted plain APPEND of a node present in both with `tree=True`: in append mode the node itself is never
    overwritten, so this is the merge of its children — the same result as `tree=None` (`C09_target_below`) -/
theorem C09_target_yes_append (f : Obj) (F Rt S D : Tree) (body' : List (String × Obj))
    (n0 : String) (p0 : List String)
    (hF : F.rootedWF CT DT = true) (hR : Rt.rootedWF CT DT = true) (hname : Rt.name = F.name)
    (hf : alookup F.name f.kids = some (encode F)) (hroot : (rootGroups f).contains F.name = true)
    (hmdname : "metadatabundle" ∉ names F.kids)
    (hmd : mdBody false F.info.body (mdEntries Rt.info) = .ok body')
    (hS : F.at (n0 :: p0) = some S) (hD : Rt.at (n0 :: p0) = some D) :
    appendInto DT f Rt (n0 :: p0) false .yes none = appendInto DT f Rt (n0 :: p0) false .below none := by
  simp only [Tree.rootedWF, Bool.and_eq_true, beq_iff_eq] at hF hR
  obtain ⟨hF1w, hrm⟩ := rootMd_encode false F Rt.info body' hF.1.1 hmdname hmd
  have hS1 : (withBody F body').at (n0 :: p0) = some S := by rw [withBody_at]; exact hS
  have hval := validate_inside (ct := CT) (dt := DT) (n0 :: p0) (withBody F body') S hF1w hS1
  simp only [appendInto, appendCore, hname, hroot, hD, hf, hrm, hval, List.isEmpty_cons, bind, Except.bind, pure,
    Except.pure, Bool.not_true, Bool.false_and, Bool.false_eq_true, if_false, overThenAppend, Bool.and_false,
    beq_self_eq_true, Bool.true_or, if_true]

/-- C09, targeted plain APPEND of a node present in both with `tree=False`: nothing is written for the node (it is in
    the file already and append never overwrites); only the root metadata are merged -/
theorem C09_target_no_append (f : Obj) (F Rt S D : Tree) (body' : List (String × Obj))
    (n0 : String) (p0 : List String)
    (hF : F.rootedWF CT DT = true) (hR : Rt.rootedWF CT DT = true) (hname : Rt.name = F.name)
    (hf : alookup F.name f.kids = some (encode F)) (hroot : (rootGroups f).contains F.name = true)
    (hmdname : "metadatabundle" ∉ names F.kids)
    (hmd : mdBody false F.info.body (mdEntries Rt.info) = .ok body')
    (hS : F.at (n0 :: p0) = some S) (hD : Rt.at (n0 :: p0) = some D) :
    appendInto DT f Rt (n0 :: p0) false .no none
      = .ok (f.setKids (areplace F.name (encode (withBody F body')) f.kids)) := by
  simp only [Tree.rootedWF, Bool.and_eq_true, beq_iff_eq] at hF hR
  obtain ⟨hF1w, hrm⟩ := rootMd_encode false F Rt.info body' hF.1.1 hmdname hmd
  have hS1 : (withBody F body').at (n0 :: p0) = some S := by rw [withBody_at]; exact hS
  have hval := validate_inside (ct := CT) (dt := DT) (n0 :: p0) (withBody F body') S hF1w hS1
  simp only [appendInto, appendCore, hname, hroot, hD, hf, hrm, hval, List.isEmpty_cons, bind, Except.bind, pure,
    Except.pure, Bool.not_true, Bool.false_and, Bool.false_eq_true, if_false, overThenAppend, Bool.and_false]
  rfl

theorem tree_at_append : ∀ (p : List String) (t s : Tree) (n : String) (c : Tree), t.at p = some s → findKid n s.kids = some c →
    t.at (p ++ [n]) = some c
  | [], t, s, n, c, h, hc => by
    simp only [Tree.at, Option.some.injEq] at h; subst h
    simp [Tree.at, hc]
  | m :: p, t, s, n, c, h, hc => by
    simp only [Tree.at] at h
    simp only [List.cons_append, Tree.at]
    cases hk : findKid m t.kids with
    | none => simp [hk] at h
    | some k => simp only [hk] at h ⊢; exact tree_at_append p k s n c h hc

/-- a successful `_append_branch` step for a child that is in the file, in append-over mode, is the overwrite of that
    child followed by the merge below it -/
theorem appendOne_as_two_writes (dt : List String) (keys0 : List String) (pg X : Obj) (D : Tree)
    (hk : keys0.contains D.name = true) (h : appendOne dt true keys0 pg D = .ok X) :
    (overwriteSingleNode dt pg D.info).bind (fun g' => updateAt (fun g => appendBranch dt true g D) g' [D.name]) = .ok X := by
  cases D with
  | mk di dk =>
    simp only [Tree.name_mk, Tree.info_mk] at hk ⊢
    rw [appendOne] at h
    simp only [hk, Bool.not_true, Bool.false_eq_true, if_false, if_true, bind, Except.bind] at h ⊢
    cases ho : overwriteSingleNode dt pg di with
    | error e => simp [ho] at h
    | ok g' =>
      simp only [ho] at h ⊢
      simp only [updateAt]
      cases hl : alookup di.name g'.kids with
      | none => simp [hl] at h
      | some sub =>
        simp only [hl] at h ⊢
        simp only [appendBranch, appendNode, Tree.kids_mk, bind, Except.bind]
        cases ha : appendKids dt true (taggedKeys sub) sub dk with
        | error e => simp [ha] at h
        | ok sub' => simp only [ha] at h ⊢; exact h

/-- C09, targeted APPEND-OVER of a node present in both with `tree=True`: the node's content and metadata are replaced by
    the runtime node's, its file-only children are kept, its runtime children are merged in by the replace-union rule —
    exactly what the whole-root append-over does to that node (`appendOne_spec`), and nothing else in the tree changes -/
theorem C09_target_over_branch (f : Obj) (F Rt P D : Tree) (body' : List (String × Obj)) (q : List String)
    (hF : F.rootedWF CT DT = true) (hR : Rt.rootedWF CT DT = true) (hname : Rt.name = F.name)
    (hf : alookup F.name f.kids = some (encode F)) (hroot : (rootGroups f).contains F.name = true)
    (hmdname : "metadatabundle" ∉ names F.kids)
    (hmd : mdBody true F.info.body (mdEntries Rt.info) = .ok body')
    (hP : (withBody F body').at q = some P) (hD : Rt.at (q ++ [D.name]) = some D)
    (hin : (findKid D.name P.kids).isSome = true)
    (hcompat : compatOne true P.info P.kids (akeys P.info.body ++ names P.kids ++ [D.name]) D = true) :
    ∃ pk1, (Tree.mk P.info pk1).wf CT DT = true ∧
      appendInto DT f Rt (q ++ [D.name]) true .yes none
        = .ok (f.setKids (areplace F.name (encode ((withBody F body').replaceAt q (.mk P.info pk1))) f.kids)) ∧
      (∀ m, m ≠ D.name → findKid m pk1 = findKid m P.kids) ∧
      (∀ p, cK pk1 D.name p = combine true (cK P.kids D.name p) ((D.at p).map Tree.info)) := by
  simp only [Tree.rootedWF, Bool.and_eq_true, beq_iff_eq] at hF hR
  obtain ⟨hF1w, hrm⟩ := rootMd_encode true F Rt.info body' hF.1.1 hmdname hmd
  obtain ⟨hPw, _⟩ := wf_at q (withBody F body') P hF1w hP
  obtain ⟨hDw, hDd⟩ := wf_at (q ++ [D.name]) Rt D hR.1.1 hD
  obtain ⟨S, hS⟩ := Option.isSome_iff_exists.mp hin
  cases P with
  | mk pi pk =>
  simp only [Tree.info_mk, Tree.kids_mk] at hcompat hin hS
  have hkeys : ([D.name] : List String).contains D.name = (findKid D.name pk).isSome := by simp [hin]
  obtain ⟨pk1, hwf1, heq1, hframe1, _, hspec1⟩ := appendOne_spec (ct := CT) (dt := DT) true D pi pk [D.name]
    (akeys pi.body ++ names pk ++ [D.name]) hPw hDw (hDd (by cases q <;> simp)) hcompat
    (fun m hm => by
      simp only [List.mem_append]
      cases hm with
      | inl h => exact Or.inl (Or.inl h)
      | inr h => exact Or.inl (Or.inr h)) hkeys
  refine ⟨pk1, hwf1, ?_, hframe1, hspec1⟩
  -- the two writes of `overThenAppend` are one write of the composed function at the parent
  have hG := appendOne_as_two_writes DT [D.name] (encode (.mk pi pk)) _ D (by simp) heq1
  have hzip := atPath_encode (ct := CT) (dt := DT)
    (fun pg => (overwriteSingleNode DT pg D.info).bind (fun g' => updateAt (fun g => appendBranch DT true g D) g' [D.name]))
    q (withBody F body') (.mk pi pk) (.mk pi pk1) hF1w hP hG rfl
  have hcomp : (updateAt (fun pg => overwriteSingleNode DT pg D.info) (encode (withBody F body')) q).bind
      (fun rg1 => updateAt (fun g => appendBranch DT true g D) rg1 (q ++ [D.name]))
      = .ok (encode ((withBody F body').replaceAt q (.mk pi pk1))) := by
    have h1 : (fun rg1 => updateAt (fun g => appendBranch DT true g D) rg1 (q ++ [D.name]))
        = (fun rg1 => updateAt (fun x => updateAt (fun g => appendBranch DT true g D) x [D.name]) rg1 q) := by
      funext rg1; exact updateAt_append _ q [D.name] rg1
    rw [h1, updateAt_bind]
    exact hzip
  have hS1 : (withBody F body').at (q ++ [D.name]) = some S := tree_at_append q _ _ _ S hP hS
  have hval := validate_inside (ct := CT) (dt := DT) (q ++ [D.name]) (withBody F body') S hF1w hS1
  have hne : (q ++ [D.name]).isEmpty = false := by cases q <;> rfl
  simp only [bind, Except.bind] at hcomp
  simp only [appendInto, appendCore, hname, hroot, hD, hf, hrm, hval, hne, bind, Except.bind, pure, Except.pure,
    Bool.not_true, Bool.false_and, Bool.false_eq_true, if_false, overThenAppend, Bool.true_and, beq_self_eq_true,
    Bool.true_or, if_true, List.getLast?_append, List.getLast?_singleton, Option.some_or, List.dropLast_concat, atPath,
    bne_self_eq_false]
  simp only [List.dropLast_append_of_ne_nil, List.dropLast_singleton, List.append_nil, ne_eq, List.cons_ne_self,
    not_false_eq_true, hcomp, Tree.info_mk]

theorem areplace_same_value {β : Type} (k : String) (v : β) : ∀ (l : List (String × β)), alookup k l = some v → areplace k v l = l
  | [], h => by simp [alookup] at h
  | (k', x) :: r, h => by
    simp only [alookup] at h
    simp only [areplace]
    split at h
    · next e => cases h; simp [e]
    · next hne => simp [hne, areplace_same_value k v r h]

/-- the `_append_branch` step for a runtime child WITHOUT children that is in the file, in append-over mode, is just the
    overwrite of that node -/
theorem appendOne_nokids (dt : List String) (keys0 : List String) (pg X : Obj) (di : NodeInfo)
    (hk : keys0.contains di.name = true) (h : appendOne dt true keys0 pg (.mk di []) = .ok X) :
    overwriteSingleNode dt pg di = .ok X := by
  rw [appendOne] at h
  simp only [hk, Bool.not_true, Bool.false_eq_true, if_false, if_true, bind, Except.bind] at h
  cases ho : overwriteSingleNode dt pg di with
  | error e => simp [ho] at h
  | ok g' =>
    simp only [ho] at h
    cases hl : alookup di.name g'.kids with
    | none => simp [hl] at h
    | some sub =>
      simp only [hl, appendKids, pure, Except.pure, Except.ok.injEq] at h
      rw [← h, areplace_same_value di.name sub g'.kids hl]
      cases g' with
      | group a k => rfl
      | dataset a v => simp [Obj.kids, alookup] at hl

/-- C09, targeted APPEND-OVER of a node present in both with `tree=False`: the node's own content and metadata are
    replaced by the runtime node's, ALL its children in the file are kept (they are re-linked into the new group), and
    nothing else in the tree changes -/
theorem C09_target_over_single (f : Obj) (F Rt P D : Tree) (body' : List (String × Obj)) (q : List String)
    (hF : F.rootedWF CT DT = true) (hR : Rt.rootedWF CT DT = true) (hname : Rt.name = F.name)
    (hf : alookup F.name f.kids = some (encode F)) (hroot : (rootGroups f).contains F.name = true)
    (hmdname : "metadatabundle" ∉ names F.kids)
    (hmd : mdBody true F.info.body (mdEntries Rt.info) = .ok body')
    (hP : (withBody F body').at q = some P) (hD : Rt.at (q ++ [D.name]) = some D)
    (hin : (findKid D.name P.kids).isSome = true)
    (hcompat : compatOne true P.info P.kids (akeys P.info.body ++ names P.kids ++ [D.name]) (.mk D.info []) = true) :
    ∃ pk1, (Tree.mk P.info pk1).wf CT DT = true ∧
      appendInto DT f Rt (q ++ [D.name]) true .no none
        = .ok (f.setKids (areplace F.name (encode ((withBody F body').replaceAt q (.mk P.info pk1))) f.kids)) ∧
      (∀ m, m ≠ D.name → findKid m pk1 = findKid m P.kids) ∧
      (∀ p, cK pk1 D.name p = combine true (cK P.kids D.name p) (((Tree.mk D.info []).at p).map Tree.info)) := by
  simp only [Tree.rootedWF, Bool.and_eq_true, beq_iff_eq] at hF hR
  obtain ⟨hF1w, hrm⟩ := rootMd_encode true F Rt.info body' hF.1.1 hmdname hmd
  obtain ⟨hPw, _⟩ := wf_at q (withBody F body') P hF1w hP
  obtain ⟨hDw, hDd⟩ := wf_at (q ++ [D.name]) Rt D hR.1.1 hD
  obtain ⟨S, hS⟩ := Option.isSome_iff_exists.mp hin
  have hD0w : (Tree.mk D.info []).wf CT DT = true := by
    simp only [Tree.wf, Bool.and_eq_true]; exact ⟨Tree.wf_info hDw, by simp [kidsWF]⟩
  cases P with
  | mk pi pk =>
  simp only [Tree.info_mk, Tree.kids_mk] at hcompat hin hS
  have hkeys : ([D.name] : List String).contains (Tree.mk D.info []).name = (findKid (Tree.mk D.info []).name pk).isSome := by
    simp [Tree.name, hin] at hin ⊢
  obtain ⟨pk1, hwf1, heq1, hframe1, _, hspec1⟩ := appendOne_spec (ct := CT) (dt := DT) true (.mk D.info []) pi pk [D.name]
    (akeys pi.body ++ names pk ++ [D.name]) hPw hD0w (hDd (by cases q <;> simp)) hcompat
    (fun m hm => by
      simp only [List.mem_append]
      cases hm with
      | inl h => exact Or.inl (Or.inl h)
      | inr h => exact Or.inl (Or.inr h)) hkeys
  refine ⟨pk1, hwf1, ?_, hframe1, hspec1⟩
  have hG := appendOne_nokids DT [D.name] (encode (.mk pi pk)) _ D.info (by simp [Tree.name]) heq1
  have hzip := atPath_encode (ct := CT) (dt := DT) (fun pg => overwriteSingleNode DT pg D.info)
    q (withBody F body') (.mk pi pk) (.mk pi pk1) hF1w hP hG rfl
  have hS1 : (withBody F body').at (q ++ [D.name]) = some S := tree_at_append q _ _ _ S hP hS
  have hval := validate_inside (ct := CT) (dt := DT) (q ++ [D.name]) (withBody F body') S hF1w hS1
  have hne : (q ++ [D.name]).isEmpty = false := by cases q <;> rfl
  simp only [atPath] at hzip
  simp only [appendInto, appendCore, hname, hroot, hD, hf, hrm, hval, hne, bind, Except.bind, pure, Except.pure,
    Bool.not_true, Bool.false_and, Bool.false_eq_true, if_false, overThenAppend, Bool.true_and, beq_self_eq_true,
    Bool.or_true, if_true, List.getLast?_append, List.getLast?_singleton, Option.some_or, atPath,
    bne_self_eq_false]
  simp only [List.dropLast_append_of_ne_nil, List.dropLast_singleton, List.append_nil, ne_eq, List.cons_ne_self,
    not_false_eq_true, hzip, Tree.info_mk]
  rfl

theorem encodeKids_append_list : ∀ (a b : List Tree), encodeKids (a ++ b) = encodeKids a ++ encodeKids b
  | [], b => by simp [encodeKids]
  | x :: xs, b => by simp [encodeKids, encodeKids_append_list xs b]

/-- C09, targeted append of a runtime node that is NOT in the file with `tree=None` ("the branch below it"): the node
    itself is skipped and its children, each with its whole branch, become new children of the file node at the parent
    path -/
theorem C09_target_new_below (over : Bool) (f : Obj) (F Rt P D : Tree) (body' : List (String × Obj))
    (q : List String) (m : String)
    (hF : F.rootedWF CT DT = true) (hR : Rt.rootedWF CT DT = true) (hname : Rt.name = F.name)
    (hf : alookup F.name f.kids = some (encode F)) (hroot : (rootGroups f).contains F.name = true)
    (hmdname : "metadatabundle" ∉ names F.kids)
    (hmd : mdBody over F.info.body (mdEntries Rt.info) = .ok body')
    (hP : (withBody F body').at q = some P) (hD : Rt.at (q ++ [m]) = some D)
    (hnew : m ∉ names P.kids) (hbody : m ∉ akeys P.info.body)
    (hfresh : ∀ k ∈ D.kids, k.name ∉ akeys P.info.body ++ names P.kids) :
    appendInto DT f Rt (q ++ [m]) over .below none
      = .ok (f.setKids (areplace F.name (encode ((withBody F body').replaceAt q (.mk P.info (P.kids ++ D.kids)))) f.kids)) := by
  simp only [Tree.rootedWF, Bool.and_eq_true, beq_iff_eq] at hF hR
  obtain ⟨hF1w, hrm⟩ := rootMd_encode over F Rt.info body' hF.1.1 hmdname hmd
  obtain ⟨hDw, _⟩ := wf_at (q ++ [m]) Rt D hR.1.1 hD
  have hval := validate_beyond (ct := CT) (dt := DT) q (withBody F body') P m hF1w hP (alookup_encode_none P m hbody hnew)
  have hDk : kidsWF CT DT (akeys P.info.body ++ names P.kids) D.kids = true :=
    kidsWF_retake' D.kids _ _ (Tree.wf_kids hDw) hfresh
  have hwrite : writeTree (encode P) D = .ok (encode (.mk P.info (P.kids ++ D.kids))) := by
    cases P with
    | mk pi pk =>
      simp only [Tree.info_mk, Tree.kids_mk] at hDk
      simp only [writeTree, encode, Tree.info_mk, Tree.kids_mk]
      rw [writeKids_ok (ct := CT) (dt := DT) D.kids (nodeAttrs pi) (pi.body ++ encodeKids pk) (akeys pi.body ++ names pk)
        (fun n hn => by
          have := alookup_isSome_mem_akeys n _ hn
          rw [akeys_append, akeys_encodeKids] at this
          exact this) hDk]
      rw [encodeKids_append_list, List.append_assoc]
  have hzip := atPath_encode (ct := CT) (dt := DT) (fun g => writeTree g D) q (withBody F body') P
    (.mk P.info (P.kids ++ D.kids)) hF1w hP hwrite rfl
  have hne : (q ++ [m]).isEmpty = false := by cases q <;> rfl
  simp only [appendInto, appendCore, hname, hroot, hD, hf, hrm, hval, hne, bind, Except.bind, pure, Except.pure,
    Bool.not_true, Bool.false_and, Bool.false_eq_true, if_false, hzip]

/-- C09, emdpath naming the ROOT of a tree that is in the file, for a runtime node of that tree which the file lacks,
    `tree=False` (this is how `save(path, [node, ...])` writes a rooted list item): the node alone becomes a new child of
    the root -/
theorem C09_emdpath_root_new_single (over : Bool) (f : Obj) (F Rt D : Tree) (body' : List (String × Obj)) (m : String)
    (hF : F.rootedWF CT DT = true) (hR : Rt.rootedWF CT DT = true) (hname : Rt.name = F.name)
    (hf : alookup F.name f.kids = some (encode F)) (hroot : (rootGroups f).contains F.name = true)
    (hmdname : "metadatabundle" ∉ names F.kids)
    (hmd : mdBody over F.info.body (mdEntries Rt.info) = .ok body')
    (hD : Rt.at [m] = some D) (hnew : m ∉ names F.kids) (hbody : m ∉ akeys body') :
    appendInto DT f Rt [m] over .no (some F.name)
      = .ok (f.setKids (areplace F.name (encode ((withBody F body').addKid (.mk D.info []))) f.kids)) := by
  simp only [Tree.rootedWF, Bool.and_eq_true, beq_iff_eq] at hF hR
  obtain ⟨hF1w, hrm⟩ := rootMd_encode over F Rt.info body' hF.1.1 hmdname hmd
  obtain ⟨hDw, _⟩ := wf_at [m] Rt D hR.1.1 hD
  have hDn : D.name = m := by simpa using at_name [] Rt D m hD
  have hparse := parse_rootname F.name (infoWF_validName (Tree.wf_info hF.1.1))
  have hv0 : validateTreepath (encode F) [] = some ([], true) := by simp [validateTreepath, validateTreepath.go]
  have hP : (withBody F body').at [] = some (withBody F body') := rfl
  have hnew' : m ∉ names (withBody F body').kids := by cases F; exact hnew
  have hbody' : m ∉ akeys (withBody F body').info.body := by cases F; exact hbody
  have hval := validate_beyond (ct := CT) (dt := DT) [] (withBody F body') (withBody F body') m hF1w hP
    (alookup_encode_none _ m hbody' hnew')
  have hv : validName D.info.name = true := infoWF_validName (Tree.wf_info hDw)
  have hwrite := writeSingle_into (withBody F body') D.info hv
    (by rw [show D.info.name = D.name from rfl, hDn]; exact hbody')
    (by rw [show D.info.name = D.name from rfl, hDn]; exact hnew')
  simp only [List.nil_append] at hval
  simp only [appendInto, appendCore, hname, hroot, hD, hf, hrm, hparse, hv0, hval, List.isEmpty_cons, bind, Except.bind, pure,
    Except.pure, Bool.not_true, Bool.false_and, Bool.false_eq_true, if_false, Option.isNone_some, Bool.and_false,
    beq_self_eq_true, if_true, atPath, updateAt, hwrite]

theorem path_names_valid : ∀ (p : List String) (t s : Tree), t.wf CT DT = true → t.at p = some s → ∀ n ∈ p, validName n = true
  | [], _, _, _, _, n, hn => by cases hn
  | m :: q, .mk i kids, s, hw, hat, n, hn => by
    simp only [Tree.wf, Bool.and_eq_true] at hw
    simp only [Tree.at, Tree.kids_mk] at hat
    cases hk : findKid m kids with
    | none => simp [hk] at hat
    | some c =>
      simp only [hk] at hat
      obtain ⟨hcw, _, _⟩ := kidsWF_find (ct := CT) (dt := DT) kids _ c hw.2 hk
      cases hn with
      | head =>
        have := infoWF_validName (Tree.wf_info hcw)
        rw [show c.info.name = c.name from rfl, findKid_name' m kids c hk] at this
        exact this
      | tail _ hn' => exact path_names_valid q c s hcw hat n hn'

/-- C09, an emdpath that names the very node being appended (`emdpath='root/a/b'` for the runtime node a/b, which is in
    the file) changes nothing: the result is that of the same append without emdpath, for every tree option and both modes —
    so `C09_target_below`, `C09_target_yes_append`, `C09_target_no_append`, `C09_target_over_branch`, `C09_target_over_single`
    also describe these six leaves of the emdpath branch of the dispatch -/
theorem C09_emdpath_self (over : Bool) (opt : TreeOpt) (f : Obj) (F Rt S D : Tree) (body' : List (String × Obj))
    (n0 : String) (p0 : List String)
    (hF : F.rootedWF CT DT = true) (hR : Rt.rootedWF CT DT = true) (hname : Rt.name = F.name)
    (hf : alookup F.name f.kids = some (encode F)) (hroot : (rootGroups f).contains F.name = true)
    (hmdname : "metadatabundle" ∉ names F.kids)
    (hmd : mdBody over F.info.body (mdEntries Rt.info) = .ok body')
    (hS : F.at (n0 :: p0) = some S) (hD : Rt.at (n0 :: p0) = some D) :
    appendInto DT f Rt (n0 :: p0) over opt (some (joinPath (F.name :: n0 :: p0)))
      = appendInto DT f Rt (n0 :: p0) over opt none := by
  simp only [Tree.rootedWF, Bool.and_eq_true, beq_iff_eq] at hF hR
  obtain ⟨hF1w, hrm⟩ := rootMd_encode over F Rt.info body' hF.1.1 hmdname hmd
  have hS1 : (withBody F body').at (n0 :: p0) = some S := by rw [withBody_at]; exact hS
  have hval0 := validate_inside (ct := CT) (dt := DT) (n0 :: p0) F S hF.1.1 hS
  have hval := validate_inside (ct := CT) (dt := DT) (n0 :: p0) (withBody F body') S hF1w hS1
  have hparse := parse_path F.name (n0 :: p0) (by
    intro n hn
    cases hn with
    | head => exact infoWF_validName (Tree.wf_info hF.1.1)
    | tail _ hn' => exact path_names_valid (n0 :: p0) F S hF.1.1 hS n hn')
  have e1 : (TreeOpt.below == TreeOpt.yes) = false := by decide
  have e2 : (TreeOpt.below == TreeOpt.no) = false := by decide
  have e3 : (TreeOpt.below == TreeOpt.below) = true := by decide
  cases opt <;>
  simp only [e1, e2, e3, appendInto, appendCore, hname, hroot, hD, hf, hrm, hparse, hval0, hval, List.isEmpty_cons, bind, Except.bind, pure,
    Except.pure, Bool.not_true, Bool.false_and, Bool.false_eq_true, if_false, Option.isNone_some, Option.isNone_none,
    Bool.and_false, Bool.and_true, beq_self_eq_true, if_true, overThenAppend, Bool.or_self, Bool.or_true, Bool.true_or,
    Bool.or_false, Bool.false_or, reduceCtorEq, decide_false, decide_true] <;> rfl

/-- C09, the ROOT saved with an emdpath (`save(path, root, mode, tree, emdpath='root/a/b')`, the runtime tree and the
    file tree both having a node at a/b): the dispatch walks the runtime tree down to a/b and the result is exactly the
    append of THAT node without emdpath, for every tree option and both modes — three more pairs of leaves of the emdpath
    branch by equivalence with the proved ones -/
theorem C09_emdpath_from_root (over : Bool) (opt : TreeOpt) (f : Obj) (F Rt S D : Tree) (body' : List (String × Obj))
    (n0 : String) (p0 : List String)
    (hF : F.rootedWF CT DT = true) (hR : Rt.rootedWF CT DT = true) (hname : Rt.name = F.name)
    (hf : alookup F.name f.kids = some (encode F)) (hroot : (rootGroups f).contains F.name = true)
    (hmdname : "metadatabundle" ∉ names F.kids)
    (hmd : mdBody over F.info.body (mdEntries Rt.info) = .ok body')
    (hS : F.at (n0 :: p0) = some S) (hD : Rt.at (n0 :: p0) = some D) :
    appendInto DT f Rt [] over opt (some (joinPath (F.name :: n0 :: p0)))
      = appendInto DT f Rt (n0 :: p0) over opt none := by
  simp only [Tree.rootedWF, Bool.and_eq_true, beq_iff_eq] at hF hR
  obtain ⟨hF1w, hrm⟩ := rootMd_encode over F Rt.info body' hF.1.1 hmdname hmd
  have hS1 : (withBody F body').at (n0 :: p0) = some S := by rw [withBody_at]; exact hS
  have hval0 := validate_inside (ct := CT) (dt := DT) (n0 :: p0) F S hF.1.1 hS
  have hval := validate_inside (ct := CT) (dt := DT) (n0 :: p0) (withBody F body') S hF1w hS1
  have hparse := parse_path F.name (n0 :: p0) (by
    intro n hn
    cases hn with
    | head => exact infoWF_validName (Tree.wf_info hF.1.1)
    | tail _ hn' => exact path_names_valid (n0 :: p0) F S hF.1.1 hS n hn')
  have hRt : Rt.at [] = some Rt := by cases Rt; rfl
  have e1 : (TreeOpt.below == TreeOpt.yes) = false := by decide
  have e2 : (TreeOpt.below == TreeOpt.no) = false := by decide
  have e3 : (TreeOpt.below == TreeOpt.below) = true := by decide
  cases opt <;>
  simp only [e1, e2, e3, appendInto, appendCore, hname, hroot, hD, hRt, hf, hrm, hparse, hval0, hval, List.isEmpty_cons,
    List.isEmpty_nil, bind, Except.bind, pure,
    Except.pure, Bool.not_true, Bool.false_and, Bool.false_eq_true, if_false, Option.isNone_some, Option.isNone_none,
    Bool.and_false, Bool.and_true, beq_self_eq_true, if_true, overThenAppend, Bool.or_self, Bool.or_true, Bool.true_or,
    Bool.or_false, Bool.false_or, reduceCtorEq, decide_false, decide_true] <;> rfl

theorem withBody_at_kids (F : Tree) (body' : List (String × Obj)) (q : List String) (P : Tree) (h : F.at q = some P) :
    ∃ P1, (withBody F body').at q = some P1 ∧ P1.kids = P.kids := by
  cases q with
  | nil =>
    cases F with
    | mk i k =>
      simp only [Tree.at, Option.some.injEq] at h; subst h
      exact ⟨_, rfl, rfl⟩
  | cons n p => exact ⟨P, by rw [withBody_at]; exact h, rfl⟩

/-- C09, an emdpath that names the PARENT of the node being appended (`emdpath='root/a'` for the runtime node a/b, a/b
    being in the file): the dispatch finds the node's name among the target's children and appends in place — exactly
    the append without emdpath, for every tree option and both modes -/
theorem C09_emdpath_parent (over : Bool) (opt : TreeOpt) (f : Obj) (F Rt P S D : Tree) (body' : List (String × Obj))
    (q : List String) (b : String)
    (hF : F.rootedWF CT DT = true) (hR : Rt.rootedWF CT DT = true) (hname : Rt.name = F.name)
    (hf : alookup F.name f.kids = some (encode F)) (hroot : (rootGroups f).contains F.name = true)
    (hmdname : "metadatabundle" ∉ names F.kids)
    (hmd : mdBody over F.info.body (mdEntries Rt.info) = .ok body')
    (hP : F.at q = some P) (hS : findKid b P.kids = some S) (hD : Rt.at (q ++ [b]) = some D) :
    appendInto DT f Rt (q ++ [b]) over opt (some (joinPath (F.name :: q)))
      = appendInto DT f Rt (q ++ [b]) over opt none := by
  simp only [Tree.rootedWF, Bool.and_eq_true, beq_iff_eq] at hF hR
  obtain ⟨hF1w, hrm⟩ := rootMd_encode over F Rt.info body' hF.1.1 hmdname hmd
  have hSat : F.at (q ++ [b]) = some S := tree_at_append q F P b S hP hS
  obtain ⟨P1, hP1, hP1k⟩ := withBody_at_kids F body' q P hP
  have hS1 : (withBody F body').at (q ++ [b]) = some S := tree_at_append q _ P1 b S hP1 (by rw [hP1k]; exact hS)
  have hval0 := validate_inside (ct := CT) (dt := DT) q F P hF.1.1 hP
  have hval := validate_inside (ct := CT) (dt := DT) (q ++ [b]) (withBody F body') S hF1w hS1
  have hparse := parse_path F.name q (by
    intro n hn
    cases hn with
    | head => exact infoWF_validName (Tree.wf_info hF.1.1)
    | tail _ hn' => exact path_names_valid q F P hF.1.1 hP n hn')
  have hne : (q ++ [b] == q) = false := by
    apply beq_false_of_ne
    intro e
    have := congrArg List.length e
    simp at this
  have hempty : (q ++ [b]).isEmpty = false := by cases q <;> rfl
  have hlast : (q ++ [b]).getLast? = some b := by simp
  have hat := C01_node_at q (withBody F body') P1 hF1w hP1
  have hkeys : (akeys (encode P1).kids).contains b = true := by
    cases P1 with
    | mk i k =>
      simp only [Tree.kids_mk] at hP1k
      simp only [encode, Obj.kids, akeys_append, akeys_encodeKids, List.contains_eq_mem, List.mem_append, decide_eq_true_eq]
      right
      rw [hP1k]
      exact Classical.byContradiction (fun hc => by
        rw [← findKid_none_iff] at hc
        rw [hc] at hS; cases hS)
  have e1 : (TreeOpt.below == TreeOpt.yes) = false := by decide
  have e2 : (TreeOpt.below == TreeOpt.no) = false := by decide
  have e3 : (TreeOpt.below == TreeOpt.below) = true := by decide
  cases opt <;>
  simp only [e1, e2, e3, appendInto, appendCore, hname, hroot, hD, hf, hrm, hparse, hval0, hval, hempty, hne, hlast, hat, hkeys,
    bind, Except.bind, pure,
    Except.pure, Bool.not_true, Bool.false_and, Bool.false_eq_true, if_false, Option.isNone_some, Option.isNone_none,
    Bool.and_false, Bool.and_true, beq_self_eq_true, if_true, overThenAppend, Bool.or_self, Bool.or_true, Bool.true_or,
    Bool.or_false, Bool.false_or, reduceCtorEq, decide_false, decide_true] <;> rfl

theorem tree_at_app : ∀ (p q : List String) (t s : Tree), t.at p = some s → t.at (p ++ q) = s.at q
  | [], q, t, s, h => by
    simp only [Tree.at, Option.some.injEq] at h; subst h; rfl
  | m :: p, q, t, s, h => by
    simp only [Tree.at] at h
    simp only [List.cons_append, Tree.at]
    cases hk : findKid m t.kids with
    | none => simp [hk] at h
    | some k => simp only [hk] at h ⊢; exact tree_at_app p q k s h

theorem isPrefixOf'_append : ∀ (p q : List String), isPrefixOf' p (p ++ q) = some q
  | [], q => by cases q <;> rfl
  | a :: p, q => by simp only [List.cons_append, isPrefixOf', if_true]; exact isPrefixOf'_append p q

/-- C09, an emdpath that names a node DOWNSTREAM of the node being saved (`emdpath='root/a/b/c'` for the runtime node a,
    both a and a/b/c being in the file, and no child of a/b/c being named like `a`): the dispatch walks the runtime
    branch down to b/c and the result is exactly the append of THAT descendant without emdpath, for every tree option
    and both modes -/
theorem C09_emdpath_downstream (over : Bool) (opt : TreeOpt) (f : Obj) (F Rt S T D D' : Tree) (body' : List (String × Obj))
    (n0 : String) (p0 : List String) (r0 : String) (rs : List String) (b : String)
    (hF : F.rootedWF CT DT = true) (hR : Rt.rootedWF CT DT = true) (hname : Rt.name = F.name)
    (hf : alookup F.name f.kids = some (encode F)) (hroot : (rootGroups f).contains F.name = true)
    (hmdname : "metadatabundle" ∉ names F.kids)
    (hmd : mdBody over F.info.body (mdEntries Rt.info) = .ok body')
    (hS : F.at (n0 :: p0) = some S) (hT : F.at ((n0 :: p0) ++ (r0 :: rs)) = some T)
    (hD : Rt.at (n0 :: p0) = some D) (hD' : D.at (r0 :: rs) = some D')
    (hb : (n0 :: p0).getLast? = some b) (hnot : b ∉ akeys T.info.body ∧ b ∉ names T.kids) :
    appendInto DT f Rt (n0 :: p0) over opt (some (joinPath (F.name :: ((n0 :: p0) ++ (r0 :: rs)))))
      = appendInto DT f Rt ((n0 :: p0) ++ (r0 :: rs)) over opt none := by
  simp only [Tree.rootedWF, Bool.and_eq_true, beq_iff_eq] at hF hR
  obtain ⟨hF1w, hrm⟩ := rootMd_encode over F Rt.info body' hF.1.1 hmdname hmd
  have hS1 : (withBody F body').at (n0 :: p0) = some S := by rw [withBody_at]; exact hS
  have hT1 : (withBody F body').at ((n0 :: p0) ++ (r0 :: rs)) = some T := by
    rw [List.cons_append, withBody_at]; exact hT
  have hDT : Rt.at ((n0 :: p0) ++ (r0 :: rs)) = some D' := by rw [tree_at_app _ _ Rt D hD]; exact hD'
  have hval0 := validate_inside (ct := CT) (dt := DT) _ F T hF.1.1 hT
  have hvalS := validate_inside (ct := CT) (dt := DT) (n0 :: p0) (withBody F body') S hF1w hS1
  have hvalT := validate_inside (ct := CT) (dt := DT) _ (withBody F body') T hF1w hT1
  have hparse := parse_path F.name ((n0 :: p0) ++ (r0 :: rs)) (by
    intro n hn
    cases hn with
    | head => exact infoWF_validName (Tree.wf_info hF.1.1)
    | tail _ hn' => exact path_names_valid _ F T hF.1.1 hT n hn')
  have hne : ((n0 :: p0) == ((n0 :: p0) ++ (r0 :: rs))) = false := by
    apply beq_false_of_ne
    intro e
    have := congrArg List.length e
    simp at this
  have hat := C01_node_at _ (withBody F body') T hF1w hT1
  have hkeys : (akeys (encode T).kids).contains b = false := by
    cases T with
    | mk i k =>
      simp only [Tree.kids_mk, Tree.info_mk] at hnot
      simp only [encode, Obj.kids, akeys_append, akeys_encodeKids, List.contains_eq_mem, List.mem_append, decide_eq_false_iff_not,
        not_or]
      exact hnot
  have hpre := isPrefixOf'_append (n0 :: p0) (r0 :: rs)
  have e1 : (TreeOpt.below == TreeOpt.yes) = false := by decide
  have e2 : (TreeOpt.below == TreeOpt.no) = false := by decide
  have e3 : (TreeOpt.below == TreeOpt.below) = true := by decide
  simp only [List.cons_append] at *
  cases opt <;>
  simp only [e1, e2, e3, appendInto, appendCore, hname, hroot, hD, hD', hDT, hf, hrm, hparse, hval0, hvalS, hvalT, hne, hb, hat, hkeys, hpre,
    List.isEmpty_cons, bind, Except.bind, pure,
    Except.pure, Bool.not_true, Bool.false_and, Bool.false_eq_true, if_false, Option.isNone_some, Option.isNone_none,
    Bool.and_false, Bool.and_true, beq_self_eq_true, if_true, overThenAppend, Bool.or_self, Bool.or_true, Bool.true_or,
    Bool.or_false, Bool.false_or, reduceCtorEq, decide_false, decide_true] <;> rfl

/-- C09, an emdpath that names the parent of a node the file does NOT hold yet (`emdpath='root/a'` for the runtime node
    a/m, a being in the file and a/m not): with `tree=True` or `tree=False` the result is exactly the append without
    emdpath (`C09_target_new_branch`, `C09_target_new_single`).  (`tree=None` differs on purpose: with the emdpath the
    node's children are MERGED into the parent, without it they are written as new.) -/
theorem C09_emdpath_parent_new (over : Bool) (opt : TreeOpt) (hopt : opt ≠ .below) (f : Obj) (F Rt P D : Tree)
    (body' : List (String × Obj)) (q : List String) (m : String)
    (hF : F.rootedWF CT DT = true) (hR : Rt.rootedWF CT DT = true) (hname : Rt.name = F.name)
    (hf : alookup F.name f.kids = some (encode F)) (hroot : (rootGroups f).contains F.name = true)
    (hmdname : "metadatabundle" ∉ names F.kids)
    (hmd : mdBody over F.info.body (mdEntries Rt.info) = .ok body')
    (hP : F.at q = some P) (hD : Rt.at (q ++ [m]) = some D)
    (hnew : m ∉ names P.kids) (hbody : m ∉ akeys P.info.body)
    (hbody' : q = [] → m ∉ akeys body') :
    appendInto DT f Rt (q ++ [m]) over opt (some (joinPath (F.name :: q)))
      = appendInto DT f Rt (q ++ [m]) over opt none := by
  simp only [Tree.rootedWF, Bool.and_eq_true, beq_iff_eq] at hF hR
  obtain ⟨hF1w, hrm⟩ := rootMd_encode over F Rt.info body' hF.1.1 hmdname hmd
  have hP1 : ∃ P1, (withBody F body').at q = some P1 ∧ m ∉ names P1.kids ∧ m ∉ akeys P1.info.body := by
    cases q with
    | nil =>
      cases F with
      | mk i k =>
        simp only [Tree.at, Option.some.injEq] at hP; subst hP
        exact ⟨_, rfl, hnew, hbody' rfl⟩
    | cons n p => exact ⟨P, by rw [withBody_at]; exact hP, hnew, hbody⟩
  obtain ⟨P1, hP1, hnew1, hbody1⟩ := hP1
  have hval0 := validate_inside (ct := CT) (dt := DT) q F P hF.1.1 hP
  have hval := validate_beyond (ct := CT) (dt := DT) q (withBody F body') P1 m hF1w hP1 (alookup_encode_none P1 m hbody1 hnew1)
  have hparse := parse_path F.name q (by
    intro n hn
    cases hn with
    | head => exact infoWF_validName (Tree.wf_info hF.1.1)
    | tail _ hn' => exact path_names_valid q F P hF.1.1 hP n hn')
  have hempty : (q ++ [m]).isEmpty = false := by cases q <;> rfl
  cases opt with
  | below => exact absurd rfl hopt
  | yes =>
    simp only [appendInto, appendCore, hname, hroot, hD, hf, hrm, hparse, hval0, hval, hempty,
      bind, Except.bind, pure, Except.pure, Bool.not_true, Bool.false_and, Bool.false_eq_true, if_false, Option.isNone_some,
      Option.isNone_none, Bool.and_false, Bool.and_true, beq_self_eq_true, if_true]
  | no =>
    simp only [appendInto, appendCore, hname, hroot, hD, hf, hrm, hparse, hval0, hval, hempty,
      bind, Except.bind, pure, Except.pure, Bool.not_true, Bool.false_and, Bool.false_eq_true, if_false, Option.isNone_some,
      Option.isNone_none, Bool.and_false, Bool.and_true, beq_self_eq_true, if_true]

/-- C09, a node the file LACKS, saved with `tree=None` under the emdpath of its PARENT (`save(path, node, mode, tree=None,
    emdpath='root/a')` for the runtime node a/m, a being in the file and m not): the node itself is not written; its
    children — and only they — are merged into the PARENT's children by the name-based union rule (this is where the
    emdpath form differs on purpose from the form without emdpath, `C09_target_new_below`, which only adds). -/
theorem C09_emdpath_parent_new_below (over : Bool) (f : Obj) (F Rt P D : Tree)
    (body' : List (String × Obj)) (q : List String) (m : String)
    (hF : F.rootedWF CT DT = true) (hR : Rt.rootedWF CT DT = true) (hname : Rt.name = F.name)
    (hf : alookup F.name f.kids = some (encode F)) (hroot : (rootGroups f).contains F.name = true)
    (hmdname : "metadatabundle" ∉ names F.kids)
    (hmd : mdBody over F.info.body (mdEntries Rt.info) = .ok body')
    (hP : F.at q = some P) (hD : Rt.at (q ++ [m]) = some D)
    (hnew : m ∉ names P.kids) (hbody : m ∉ akeys P.info.body)
    (hbody' : q = [] → m ∉ akeys body')
    (hcompat : ∀ P1, (withBody F body').at q = some P1 →
      compatKids over P1.info P1.kids (akeys P1.info.body ++ names P1.kids ++ names D.kids) D.kids = true) :
    ∃ P1 P', (withBody F body').at q = some P1 ∧ P1.kids = P.kids ∧ P'.wf CT DT = true ∧ P'.info = P1.info ∧
      appendInto DT f Rt (q ++ [m]) over .below (some (joinPath (F.name :: q)))
        = .ok (f.setKids (areplace F.name (encode ((withBody F body').replaceAt q P')) f.kids)) ∧
      (∀ n r, cK P'.kids n r = combine over (cK P.kids n r) (cK D.kids n r)) ∧
      ((withBody F body').replaceAt q P').wf CT DT = true := by
  simp only [Tree.rootedWF, Bool.and_eq_true, beq_iff_eq] at hF hR
  obtain ⟨hF1w, hrm⟩ := rootMd_encode over F Rt.info body' hF.1.1 hmdname hmd
  have hP1 : ∃ P1, (withBody F body').at q = some P1 ∧ P1.kids = P.kids ∧ m ∉ names P1.kids ∧ m ∉ akeys P1.info.body := by
    cases q with
    | nil =>
      cases F with
      | mk i k =>
        simp only [Tree.at, Option.some.injEq] at hP; subst hP
        exact ⟨_, rfl, rfl, hnew, hbody' rfl⟩
    | cons n p => exact ⟨P, by rw [withBody_at]; exact hP, rfl, hnew, hbody⟩
  obtain ⟨P1, hP1, hkids1, hnew1, hbody1⟩ := hP1
  have hc := hcompat P1 hP1
  obtain ⟨hPw, hPd⟩ := wf_at q (withBody F body') P1 hF1w hP1
  obtain ⟨hDw, _⟩ := wf_at (q ++ [m]) Rt D hR.1.1 hD
  have hval0 := validate_inside (ct := CT) (dt := DT) q F P hF.1.1 hP
  have hval := validate_beyond (ct := CT) (dt := DT) q (withBody F body') P1 m hF1w hP1 (alookup_encode_none P1 m hbody1 hnew1)
  have hparse := parse_path F.name q (by
    intro n hn
    cases hn with
    | head => exact infoWF_validName (Tree.wf_info hF.1.1)
    | tail _ hn' => exact path_names_valid q F P hF.1.1 hP n hn')
  have hempty : (q ++ [m]).isEmpty = false := by cases q <;> rfl
  cases P1 with
  | mk si sk =>
  simp only [Tree.info_mk, Tree.kids_mk] at hc hkids1
  obtain ⟨sk', hwf', heq', _, _, hspec'⟩ :=
    appendKids_spec (ct := CT) (dt := DT) over D.kids si sk (taggedKeys (encode (.mk si sk)))
      (akeys si.body ++ names sk ++ names D.kids) (akeys D.info.body) hPw (Tree.wf_kids hDw) hc
      (fun m hm => by
        simp only [List.mem_append]
        cases hm with
        | inl h => exact Or.inl (Or.inl h)
        | inr h => exact Or.inl (Or.inr h))
      (fun m hm => by simp only [List.mem_append]; exact Or.inr hm)
      (fun d' hd' => by
        simp only [encode]
        exact taggedKeys_contains _ _ _ _ (compatKids_not_body over si sk _ D.kids hc d' hd'))
  have hzip := atPath_encode (ct := CT) (dt := DT) (fun g => appendBranch DT over g D) q (withBody F body')
    (.mk si sk) (.mk si sk') hF1w hP1 (by simp only [appendBranch, appendNode]; exact heq') rfl
  refine ⟨.mk si sk, .mk si sk', hP1, hkids1, hwf', rfl, ?_, ?_, ?_⟩
  · simp only [appendInto, appendCore, hname, hroot, hD, hf, hrm, hparse, hval0, hval, hempty,
      bind, Except.bind, pure, Except.pure, Bool.not_true, Bool.false_and, Bool.false_eq_true, if_false, Option.isNone_some,
      Option.isNone_none, Bool.and_false, Bool.and_true, beq_self_eq_true, if_true, hzip]
  · subst hkids1; exact hspec'
  · exact replaceAt_wf q (withBody F body') (.mk si sk) (.mk si sk') hF1w hP1 hwf' rfl (fun h => hPd h)

theorem isPrefixOf'_none_of_not_prefix : ∀ (p t : List String), ¬ p <+: t → isPrefixOf' p t = none
  | [], t, h => absurd (List.nil_prefix) h
  | _ :: _, [], _ => rfl
  | a :: p, b :: t, h => by
    simp only [isPrefixOf']
    split
    · next e =>
      subst e
      exact isPrefixOf'_none_of_not_prefix p t (fun hp => h (by simpa using hp))
    · rfl

/-- C09, an emdpath that names a node UNRELATED to the node being saved (both in the file; the emdpath node is not the
    node itself, has no child called like it, and does not lie below it — e.g. a SIBLING, however similar its name: `scan`
    under the emdpath of `scan2`): the save is refused and, a failing save returning no file, nothing is written -/
theorem C09_emdpath_unrelated_refused (over : Bool) (opt : TreeOpt) (f : Obj) (F Rt S T D : Tree) (body' : List (String × Obj))
    (n0 : String) (p0 : List String) (tp : List String) (b : String)
    (hF : F.rootedWF CT DT = true) (hR : Rt.rootedWF CT DT = true) (hname : Rt.name = F.name)
    (hf : alookup F.name f.kids = some (encode F)) (hroot : (rootGroups f).contains F.name = true)
    (hmdname : "metadatabundle" ∉ names F.kids)
    (hmd : mdBody over F.info.body (mdEntries Rt.info) = .ok body')
    (hS : F.at (n0 :: p0) = some S) (hT : F.at tp = some T) (hD : Rt.at (n0 :: p0) = some D)
    (hne : (n0 :: p0) ≠ tp) (hnp : ¬ (n0 :: p0) <+: tp)
    (hb : (n0 :: p0).getLast? = some b) (hnot : b ∉ akeys T.info.body ∧ b ∉ names T.kids)
    (htp : tp ≠ []) :
    appendInto DT f Rt (n0 :: p0) over opt (some (joinPath (F.name :: tp)))
      = .error (.error "target not downstream of source") := by
  simp only [Tree.rootedWF, Bool.and_eq_true, beq_iff_eq] at hF hR
  obtain ⟨hF1w, hrm⟩ := rootMd_encode over F Rt.info body' hF.1.1 hmdname hmd
  have hS1 : (withBody F body').at (n0 :: p0) = some S := by rw [withBody_at]; exact hS
  obtain ⟨t0, ts, rfl⟩ : ∃ t0 ts, tp = t0 :: ts := by
    cases tp with
    | nil => exact absurd rfl htp
    | cons a l => exact ⟨a, l, rfl⟩
  have hT1 : (withBody F body').at (t0 :: ts) = some T := by rw [withBody_at]; exact hT
  have hval0 := validate_inside (ct := CT) (dt := DT) _ F T hF.1.1 hT
  have hvalS := validate_inside (ct := CT) (dt := DT) (n0 :: p0) (withBody F body') S hF1w hS1
  have hparse := parse_path F.name (t0 :: ts) (by
    intro n hn
    cases hn with
    | head => exact infoWF_validName (Tree.wf_info hF.1.1)
    | tail _ hn' => exact path_names_valid _ F T hF.1.1 hT n hn')
  have hneb : ((n0 :: p0) == (t0 :: ts)) = false := beq_false_of_ne hne
  have hat := C01_node_at _ (withBody F body') T hF1w hT1
  have hkeys : (akeys (encode T).kids).contains b = false := by
    cases T with
    | mk i k =>
      simp only [Tree.kids_mk, Tree.info_mk] at hnot
      simp only [encode, Obj.kids, akeys_append, akeys_encodeKids, List.contains_eq_mem, List.mem_append, decide_eq_false_iff_not,
        not_or]
      exact hnot
  have hpre := isPrefixOf'_none_of_not_prefix (n0 :: p0) (t0 :: ts) hnp
  simp only [appendInto, appendCore, hname, hroot, hD, hf, hrm, hparse, hval0, hvalS, hneb, hb, hat, hkeys, hpre,
    List.isEmpty_cons, bind, Except.bind, pure, Except.pure, Bool.not_true, Bool.false_and, Bool.false_eq_true, if_false,
    Option.isNone_some, Bool.and_false, throw, throwThe, MonadExceptOf.throw]

/-- C09, an emdpath whose target merely HAS A CHILD NAMED LIKE the saved node without being its parent (`emdpath='r/x'`
    for the runtime node a/b while the file holds both a/b and x/b): the dispatch finds the node's name among the target's
    children, takes that for "the node is already there", and appends IN PLACE at the node's own treepath — exactly the
    append without emdpath, for every tree option and both modes; the namesake x/b is not touched. -/
theorem C09_emdpath_namesake (over : Bool) (opt : TreeOpt) (f : Obj) (F Rt S T D : Tree) (body' : List (String × Obj))
    (n0 : String) (p0 : List String) (tp : List String) (b : String)
    (hF : F.rootedWF CT DT = true) (hR : Rt.rootedWF CT DT = true) (hname : Rt.name = F.name)
    (hf : alookup F.name f.kids = some (encode F)) (hroot : (rootGroups f).contains F.name = true)
    (hmdname : "metadatabundle" ∉ names F.kids)
    (hmd : mdBody over F.info.body (mdEntries Rt.info) = .ok body')
    (hS : F.at (n0 :: p0) = some S) (hT : F.at tp = some T) (hD : Rt.at (n0 :: p0) = some D)
    (hne : (n0 :: p0) ≠ tp) (hb : (n0 :: p0).getLast? = some b) (hkid : b ∈ names T.kids) :
    appendInto DT f Rt (n0 :: p0) over opt (some (joinPath (F.name :: tp)))
      = appendInto DT f Rt (n0 :: p0) over opt none := by
  simp only [Tree.rootedWF, Bool.and_eq_true, beq_iff_eq] at hF hR
  obtain ⟨hF1w, hrm⟩ := rootMd_encode over F Rt.info body' hF.1.1 hmdname hmd
  have hS1 : (withBody F body').at (n0 :: p0) = some S := by rw [withBody_at]; exact hS
  obtain ⟨T1, hT1, hT1k⟩ := withBody_at_kids F body' tp T hT
  have hval0 := validate_inside (ct := CT) (dt := DT) tp F T hF.1.1 hT
  have hval := validate_inside (ct := CT) (dt := DT) (n0 :: p0) (withBody F body') S hF1w hS1
  have hparse := parse_path F.name tp (by
    intro n hn
    cases hn with
    | head => exact infoWF_validName (Tree.wf_info hF.1.1)
    | tail _ hn' => exact path_names_valid tp F T hF.1.1 hT n hn')
  have hneb : ((n0 :: p0) == tp) = false := beq_false_of_ne hne
  have hat := C01_node_at tp (withBody F body') T1 hF1w hT1
  have hkeys : (akeys (encode T1).kids).contains b = true := by
    cases T1 with
    | mk i k =>
      simp only [Tree.kids_mk] at hT1k
      simp only [encode, Obj.kids, akeys_append, akeys_encodeKids, List.contains_eq_mem, List.mem_append, decide_eq_true_eq]
      right
      rw [hT1k]
      exact hkid
  have e1 : (TreeOpt.below == TreeOpt.yes) = false := by decide
  have e2 : (TreeOpt.below == TreeOpt.no) = false := by decide
  have e3 : (TreeOpt.below == TreeOpt.below) = true := by decide
  cases opt <;>
  simp only [e1, e2, e3, appendInto, appendCore, hname, hroot, hD, hf, hrm, hparse, hval0, hval, hneb, hb, hat, hkeys,
    List.isEmpty_cons, bind, Except.bind, pure,
    Except.pure, Bool.not_true, Bool.false_and, Bool.false_eq_true, if_false, Option.isNone_some, Option.isNone_none,
    Bool.and_false, Bool.and_true, beq_self_eq_true, if_true, overThenAppend, Bool.or_self, Bool.or_true, Bool.true_or,
    Bool.or_false, Bool.false_or, reduceCtorEq, decide_false, decide_true] <;> rfl

/-- what "exactly there, and nothing else" means for all three targeted theorems: after replacing the subtree at `p`,
    the new subtree is what is read at `p` (and below), and the content of every node whose path does not pass through
    `p` is what it was -/
theorem C09_target_frame (F S S' : Tree) (p : List String) (hS : F.at p = some S) (hn : S'.name = S.name) :
    (∀ r, (F.replaceAt p S').at (p ++ r) = S'.at r) ∧
    (∀ q, ¬ p <+: q → ((F.replaceAt p S').at q).map Tree.info = (F.at q).map Tree.info) :=
  ⟨fun r => at_replaceAt_below p r F S S' hS hn, fun q hq => info_replaceAt_frame p q F S S' hS hn hq⟩

/-- C09, FOREIGN NODE under an emdpath (`save(path, node_of_another_tree, mode, tree=True, emdpath='R/a/b')`, the
    other tree's root name not being in the file): the node with its whole branch becomes a new last child of the node
    the emdpath names; the foreign root's metadata are not involved -/
theorem C09_foreign_branch (over : Bool) (f : Obj) (F X P D : Tree) (ep : String) (q : List String)
    (t0 : String) (ts : List String)
    (hF : F.wf CT DT = true) (hX : X.wf CT DT = true)
    (hXnot : (rootGroups f).contains X.name = false)
    (hparse : parseEmdpathWrite ep = some (F.name, q))
    (hf : alookup F.name f.kids = some (encode F))
    (hP : F.at q = some P) (hD : X.at (t0 :: ts) = some D)
    (hnew : D.name ∉ names P.kids) (hbody : D.name ∉ akeys P.info.body) :
    appendInto DT f X (t0 :: ts) over .yes (some ep)
      = .ok (f.setKids (areplace F.name (encode (F.replaceAt q (P.addKid D))) f.kids)) := by
  obtain ⟨hDw, _⟩ := wf_at (t0 :: ts) X D hX hD
  have hval := validate_inside (ct := CT) (dt := DT) q F P hF hP
  have hwrite := writeBranch_into P D hDw hbody hnew
  have hzip := atPath_encode (ct := CT) (dt := DT)
    (fun g => do let c ← writeNodeFull D; createIn g D.name c) q F P (P.addKid D) hF hP hwrite rfl
  simp only [bind, Except.bind] at hzip
  simp only [appendInto, appendCore, hXnot, hD, hparse, hf, hval, List.isEmpty_cons, Option.isNone_some, bind, Except.bind,
    pure, Except.pure, Bool.not_false, Bool.and_false, Bool.false_and, Bool.false_eq_true, if_false, hzip]

/-- writing the branch BELOW a node into a group: the node's children, each whole, become new last children -/
theorem writeTree_into (P D : Tree) (hDw : D.wf CT DT = true)
    (hfresh : ∀ k ∈ D.kids, k.name ∉ akeys P.info.body ++ names P.kids) :
    writeTree (encode P) D = .ok (encode (.mk P.info (P.kids ++ D.kids))) := by
  have hDk : kidsWF CT DT (akeys P.info.body ++ names P.kids) D.kids = true :=
    kidsWF_retake' D.kids _ _ (Tree.wf_kids hDw) hfresh
  cases P with
  | mk pi pk =>
    simp only [Tree.info_mk, Tree.kids_mk] at hDk
    simp only [writeTree, encode, Tree.info_mk, Tree.kids_mk]
    rw [writeKids_ok (ct := CT) (dt := DT) D.kids (nodeAttrs pi) (pi.body ++ encodeKids pk) (akeys pi.body ++ names pk)
      (fun n hn => by
        have := alookup_isSome_mem_akeys n _ hn
        rw [akeys_append, akeys_encodeKids] at this
        exact this) hDk]
    rw [encodeKids_append_list, List.append_assoc]

/-- C09, FOREIGN ROOT under an emdpath (`save(path, other_root, mode, tree=True or None, emdpath='R/a/b')`, the other
    root's name not being in the file): the root itself is NOT written — its children, each with its whole branch,
    become new last children of the node the emdpath names; its metadata are dropped -/
theorem C09_foreign_root (over : Bool) (opt : TreeOpt) (hopt : opt ≠ .no) (f : Obj) (F X P : Tree) (ep : String)
    (q : List String)
    (hF : F.wf CT DT = true) (hX : X.wf CT DT = true)
    (hXnot : (rootGroups f).contains X.name = false)
    (hparse : parseEmdpathWrite ep = some (F.name, q))
    (hf : alookup F.name f.kids = some (encode F))
    (hP : F.at q = some P)
    (hfresh : ∀ k ∈ X.kids, k.name ∉ akeys P.info.body ++ names P.kids) :
    appendInto DT f X [] over opt (some ep)
      = .ok (f.setKids (areplace F.name (encode (F.replaceAt q (.mk P.info (P.kids ++ X.kids)))) f.kids)) := by
  have hval := validate_inside (ct := CT) (dt := DT) q F P hF hP
  have hwrite := writeTree_into P X hX hfresh
  have hzip := atPath_encode (ct := CT) (dt := DT) (fun g => writeTree g X) q F P (.mk P.info (P.kids ++ X.kids)) hF hP hwrite rfl
  have hXat : X.at [] = some X := by cases X; rfl
  cases opt with
  | no => exact absurd rfl hopt
  | yes =>
    simp only [appendInto, appendCore, hXnot, hXat, hparse, hf, hval, List.isEmpty_nil, Option.isNone_some, bind, Except.bind,
      pure, Except.pure, Bool.not_false, Bool.and_false, Bool.false_and, Bool.true_and, Bool.false_eq_true, if_false, hzip,
      show (TreeOpt.yes == TreeOpt.no) = false from by decide, if_true]
  | below =>
    simp only [appendInto, appendCore, hXnot, hXat, hparse, hf, hval, List.isEmpty_nil, Option.isNone_some, bind, Except.bind,
      pure, Except.pure, Bool.not_false, Bool.and_false, Bool.false_and, Bool.true_and, Bool.false_eq_true, if_false, hzip,
      show (TreeOpt.below == TreeOpt.no) = false from by decide, if_true]

/-- …and a foreign Root with `tree=False` under an emdpath is refused (there is no node to write): nothing changes -/
theorem C09_foreign_root_alone_refused (over : Bool) (f : Obj) (F X P : Tree) (ep : String) (q : List String)
    (hF : F.wf CT DT = true)
    (hXnot : (rootGroups f).contains X.name = false)
    (hparse : parseEmdpathWrite ep = some (F.name, q))
    (hf : alookup F.name f.kids = some (encode F))
    (hP : F.at q = some P) :
    appendInto DT f X [] over .no (some ep) = .error (.error "incompatible inputs") := by
  have hval := validate_inside (ct := CT) (dt := DT) q F P hF hP
  have hXat : X.at [] = some X := by cases X; rfl
  simp only [appendInto, appendCore, hXnot, hXat, hparse, hf, hval, List.isEmpty_nil, Option.isNone_some, bind, Except.bind,
    pure, Except.pure, Bool.not_false, Bool.and_false, Bool.false_and, Bool.true_and, Bool.false_eq_true, if_false,
    show (TreeOpt.no == TreeOpt.no) = true from by decide, if_true, throw, throwThe, MonadExceptOf.throw]

/-- C09, FOREIGN NODE under an emdpath with `tree=None`: the node is skipped and its children, each whole, become new
    last children of the node the emdpath names -/
theorem C09_foreign_below (over : Bool) (f : Obj) (F X P D : Tree) (ep : String) (q : List String)
    (t0 : String) (ts : List String)
    (hF : F.wf CT DT = true) (hX : X.wf CT DT = true)
    (hXnot : (rootGroups f).contains X.name = false)
    (hparse : parseEmdpathWrite ep = some (F.name, q))
    (hf : alookup F.name f.kids = some (encode F))
    (hP : F.at q = some P) (hD : X.at (t0 :: ts) = some D)
    (hfresh : ∀ k ∈ D.kids, k.name ∉ akeys P.info.body ++ names P.kids) :
    appendInto DT f X (t0 :: ts) over .below (some ep)
      = .ok (f.setKids (areplace F.name (encode (F.replaceAt q (.mk P.info (P.kids ++ D.kids)))) f.kids)) := by
  obtain ⟨hDw, _⟩ := wf_at (t0 :: ts) X D hX hD
  have hval := validate_inside (ct := CT) (dt := DT) q F P hF hP
  have hwrite := writeTree_into P D hDw hfresh
  have hzip := atPath_encode (ct := CT) (dt := DT) (fun g => writeTree g D) q F P (.mk P.info (P.kids ++ D.kids)) hF hP hwrite rfl
  simp only [appendInto, appendCore, hXnot, hD, hparse, hf, hval, List.isEmpty_cons, Option.isNone_some, bind, Except.bind,
    pure, Except.pure, Bool.not_false, Bool.and_false, Bool.false_and, Bool.false_eq_true, if_false, hzip]

/-- …and the same node alone (`tree=False`) -/
theorem C09_foreign_single (over : Bool) (f : Obj) (F X P D : Tree) (ep : String) (q : List String)
    (t0 : String) (ts : List String)
    (hF : F.wf CT DT = true) (hX : X.wf CT DT = true)
    (hXnot : (rootGroups f).contains X.name = false)
    (hparse : parseEmdpathWrite ep = some (F.name, q))
    (hf : alookup F.name f.kids = some (encode F))
    (hP : F.at q = some P) (hD : X.at (t0 :: ts) = some D)
    (hnew : D.name ∉ names P.kids) (hbody : D.name ∉ akeys P.info.body) :
    appendInto DT f X (t0 :: ts) over .no (some ep)
      = .ok (f.setKids (areplace F.name (encode (F.replaceAt q (P.addKid (.mk D.info [])))) f.kids)) := by
  obtain ⟨hDw, _⟩ := wf_at (t0 :: ts) X D hX hD
  have hval := validate_inside (ct := CT) (dt := DT) q F P hF hP
  have hv : validName D.info.name = true := infoWF_validName (Tree.wf_info hDw)
  have hwrite := writeSingle_into P D.info hv hbody hnew
  have hzip := atPath_encode (ct := CT) (dt := DT)
    (fun g => writeSingleNode g D.info) q F P (P.addKid (.mk D.info [])) hF hP hwrite rfl
  simp only [appendInto, appendCore, hXnot, hD, hparse, hf, hval, List.isEmpty_cons, Option.isNone_some, bind, Except.bind,
    pure, Except.pure, Bool.not_false, Bool.and_false, Bool.false_and, Bool.false_eq_true, if_false, hzip]

/-- the emdpath syntax: 'root/a/b' and '/root/a/b' name the node a/b of the tree `root` -/
example : parseEmdpathWrite "r/a/b" = some ("r", ["a", "b"]) ∧ parseEmdpathWrite "/r/a/b" = some ("r", ["a", "b"]) ∧
    parseEmdpathWrite "r" = some ("r", []) := by decide

theorem rootGroups_areplace (a : Attrs) (roots : List (String × Obj)) (n : String) (o old : Obj)
    (hold : alookup n roots = some old) (h : o.gtype = old.gtype) :
    rootGroups (.group a (areplace n o roots)) = rootGroups (.group a roots) := by
  simp only [rootGroups, Obj.kids]
  induction roots with
  | nil => rfl
  | cons kv l ih =>
    obtain ⟨k, w⟩ := kv
    simp only [areplace]
    by_cases hk : k = n
    · subst hk
      simp only [alookup, if_true, Option.some.injEq] at hold
      subst hold
      simp only [if_true, List.filter_cons, h]
      split <;> simp
    · simp only [hk, if_false, List.filter_cons]
      simp only [alookup, hk, if_false] at hold
      split <;> simp [ih hold]

/-- CLOSURE, the step that makes every theorem above apply again after any append (sequences of appends): when the root
    group `F.name` of the file is rewritten into the encoding of a tree `T'` of the same name that is still a root, the
    file holds `encode T'` under that name, has the same set of root groups and the same header -/
theorem C09_closed (f : Obj) (F T' : Tree) (hg : f.isGroup = true) (hf : alookup F.name f.kids = some (encode F))
    (hn : T'.name = F.name) (hgt : T'.info.gtype = F.info.gtype) :
    alookup T'.name (f.setKids (areplace F.name (encode T') f.kids)).kids = some (encode T') ∧
    rootGroups (f.setKids (areplace F.name (encode T') f.kids)) = rootGroups f ∧
    (f.setKids (areplace F.name (encode T') f.kids)).attrs = f.attrs := by
  cases f with
  | dataset a v => simp [Obj.isGroup] at hg
  | group a k =>
    simp only [Obj.kids] at hf
    refine ⟨?_, ?_, rfl⟩
    · simp only [Obj.setKids, Obj.kids, hn]
      exact alookup_areplace_same _ _ _ (by simp [hf])
    · simp only [Obj.setKids, Obj.kids]
      apply rootGroups_areplace a k F.name (encode T') (encode F) hf
      cases T'; cases F
      simp only [Tree.info_mk] at hgt
      simp [encode, Obj.gtype, Obj.attrs, nodeAttrs, alookup, hgt]

/-- two whole-root appends in sequence are the union of the three trees, path by path -/
theorem C09_twice (over : Bool) (f : Obj) (F R1 R2 : Tree) (b1 b2 : List (String × Obj)) (hg : f.isGroup = true)
    (hF : F.rootedWF CT DT = true) (hR1 : R1.rootedWF CT DT = true) (hR2 : R2.rootedWF CT DT = true)
    (hn1 : R1.name = F.name) (hn2 : R2.name = F.name)
    (hf : alookup F.name f.kids = some (encode F)) (hroot : (rootGroups f).contains F.name = true)
    (hmdname : "metadatabundle" ∉ names F.kids) (hmdname1 : "metadatabundle" ∉ names R1.kids)
    (hmd1 : mdBody over F.info.body (mdEntries R1.info) = .ok b1)
    (hc1 : compatKids over { F.info with body := b1 } F.kids (akeys b1 ++ names F.kids ++ names R1.kids) R1.kids = true)
    (hmd2 : mdBody over b1 (mdEntries R2.info) = .ok b2)
    (hc2 : ∀ T1 : Tree, T1.info = { F.info with body := b1 } →
        (∀ n p, cK T1.kids n p = combine over (cK F.kids n p) (cK R1.kids n p)) →
        compatKids over { T1.info with body := b2 } T1.kids (akeys b2 ++ names T1.kids ++ names R2.kids) R2.kids = true) :
    ∃ f1 f2 T2, appendInto DT f R1 [] over .yes none = .ok f1 ∧ appendInto DT f1 R2 [] over .yes none = .ok f2 ∧
      alookup F.name f2.kids = some (encode T2) ∧ T2.rootedWF CT DT = true ∧ rootGroups f2 = rootGroups f ∧ f2.attrs = f.attrs ∧
      ∀ n p, cK T2.kids n p = combine over (combine over (cK F.kids n p) (cK R1.kids n p)) (cK R2.kids n p) := by
  obtain ⟨T1, hT1w, hT1i, hap1, hspec1⟩ := C09_union over f F R1 b1 hF hR1 hn1 hf hroot hmdname hmd1 hc1
  have hT1n : T1.name = F.name := by simp [Tree.name, hT1i]
  have hT1g : T1.info.gtype = F.info.gtype := by simp [hT1i]
  obtain ⟨hc_look, hc_roots, hc_attrs⟩ := C09_closed f F T1 hg hf hT1n hT1g
  -- the second append sees a file that holds `encode T1`
  have hmdname' : "metadatabundle" ∉ names T1.kids := by
    intro hm
    -- a child named metadatabundle in T1 would come from F or R1
    have hsome : (findKid "metadatabundle" T1.kids).isSome = true := by
      cases hfk : findKid "metadatabundle" T1.kids with
      | some c => rfl
      | none => exact absurd hm ((findKid_none_iff _ _).mp hfk)
    have := hspec1 "metadatabundle" []
    simp only [cK, Tree.at] at this
    rw [(findKid_none_iff _ _).mpr hmdname, (findKid_none_iff _ _).mpr hmdname1] at this
    cases hfk : findKid "metadatabundle" T1.kids with
    | some c => simp [hfk, combine] at this
    | none => simp [hfk] at hsome
  have hmd2' : mdBody over T1.info.body (mdEntries R2.info) = .ok b2 := by rw [hT1i]; exact hmd2
  have hg1 : (f.setKids (areplace F.name (encode T1) f.kids)).isGroup = true := by cases f <;> simp_all [Obj.setKids, Obj.isGroup]
  generalize hf1 : f.setKids (areplace F.name (encode T1) f.kids) = f1 at hap1 hc_look hc_roots hc_attrs hg1
  obtain ⟨T2, hT2w, hT2i, hap2, hspec2⟩ := C09_union over f1 T1 R2 b2 hT1w hR2 (hn2.trans hT1n.symm)
    (by rw [hT1n] at hc_look ⊢; exact hc_look) (by rw [hc_roots, hT1n]; exact hroot) hmdname' hmd2' (hc2 T1 hT1i hspec1)
  have hT2n : T2.name = T1.name := by simp [Tree.name, hT2i]
  obtain ⟨hd_look, hd_roots, hd_attrs⟩ := C09_closed f1 T1 T2 hg1 (by rw [hT1n] at hc_look ⊢; exact hc_look) hT2n (by simp [hT2i])
  refine ⟨f1, f1.setKids (areplace T1.name (encode T2) f1.kids), T2, hap1, hap2, ?_, hT2w, ?_, ?_, ?_⟩
  · rw [hT2n] at hd_look; rw [← hT1n]; exact hd_look
  · rw [hd_roots, hc_roots]
  · rw [hd_attrs, hc_attrs]
  · intro n p; rw [hspec2 n p, hspec1 n p]

-- …and the name-space condition of the append-over theorems holds for that pair at the node `a` (file: an Array with a
-- file-only child, runtime: a Node with a new branch)
example : (match exR.at ["a"] with
    | some D => compatOne true exF.info exF.kids (akeys exF.info.body ++ names exF.kids ++ [D.name]) D
                && compatOne true exF.info exF.kids (akeys exF.info.body ++ names exF.kids ++ [D.name]) (.mk D.info [])
    | none => false) = true := by decide

-- non-vacuity of the targeted theorems' hypotheses on the example pair above: `a` is in both trees (target of
-- C09_target_below), `a/new` is in the runtime tree only and `new` is neither a child nor a body object of the file's `a`
example : (exF.at ["a"]).isSome = true ∧ (exR.at ["a"]).isSome = true ∧ (exR.at (["a"] ++ ["new"])).isSome = true ∧
    (match exF.at ["a"] with
     | some P => !(names P.kids).contains "new" && !(akeys P.info.body).contains "new"
     | none => false) = true := by decide

-- non-vacuity of `C09_emdpath_parent_new_below` on the same pair: the runtime node `a/new` (not in the file) saved with
-- tree=None under the emdpath of its parent `r/a`; the name-space condition holds for the parent and the children of `new`,
-- and the model run puts `newdeep` directly below `a`, does not write `new`, and keeps `deepF`
example : ∀ over : Bool, (match mdBody over exF.info.body (mdEntries exR.info), exR.at (["a"] ++ ["new"]) with
    | .ok body', some D => (match (withBody exF body').at ["a"] with
        | some P1 => compatKids over P1.info P1.kids (akeys P1.info.body ++ names P1.kids ++ names D.kids) D.kids
        | none => false)
    | _, _ => false) = true := by decide
example : (match appendInto DT (fileOf {} "u" exF) exR (["a"] ++ ["new"]) false .below (some (joinPath ("r" :: ["a"]))) with
    | .ok f => (f.at ["r", "a", "newdeep"]).isSome && (f.at ["r", "a", "new"]).isNone && (f.at ["r", "a", "deepF"]).isSome &&
               (f.at ["r", "a"]).bind Obj.pyClass == some "Array"
    | .error _ => false) = true := by decide

-- non-vacuity of `C09_emdpath_namesake`: file r/{a/b, x/b}, runtime r/a/b with a new child: saving a/b under the emdpath of x
-- (which has a child called b without being a/b's parent) appends at a/b; x/b is not touched
def exNF : Tree :=
  .mk { name := "r", cls := "Root", gtype := "root", body := [] }
    [ .mk { name := "a", cls := "Node", gtype := "node", body := [] }
        [ .mk { name := "b", cls := "Node", gtype := "node", body := [] } [] ],
      .mk { name := "x", cls := "Node", gtype := "node", body := [] }
        [ .mk { name := "b", cls := "Node", gtype := "node", body := [] } [] ] ]
def exNR : Tree :=
  .mk { name := "r", cls := "Root", gtype := "root", body := [] }
    [ .mk { name := "a", cls := "Node", gtype := "node", body := [] }
        [ .mk { name := "b", cls := "Node", gtype := "node", body := [] }
            [ .mk { name := "fresh", cls := "Node", gtype := "node", body := [] } [] ] ] ]
example : exNF.rootedWF CT DT = true ∧ exNR.rootedWF CT DT = true ∧ (exNF.at ["a", "b"]).isSome = true ∧
    (exNR.at ["a", "b"]).isSome = true ∧ ["a", "b"] ≠ ["x"] ∧ ["a", "b"].getLast? = some "b" ∧
    (match exNF.at ["x"] with | some T => (names T.kids).contains "b" | none => false) = true := by decide
example : (match appendInto DT (fileOf {} "u" exNF) exNR ["a", "b"] false .yes (some (joinPath ("r" :: ["x"]))) with
    | .ok f => (f.at ["r", "a", "b", "fresh"]).isSome && (f.at ["r", "x", "b", "fresh"]).isNone && (f.at ["r", "x", "b"]).isSome
    | .error _ => false) = true := by decide

end EmdProps
