/-
C04 — PointList and PointListArray round-trip: fields, dtypes, ragged contents.

`C04_pointlist`: for EVERY PointList (any number >= 1 of fields, any field names and dtypes, any length incl. 0) written
into a group that may also hold child nodes and a metadata bundle (groups), the reader — which takes exactly the
DATASETS of the group as fields — returns the same fields with the same dtype strings and column tokens, and the same
length (`lenOf` is what h5py reports for the first stored column: contract H2/H6).
`C04_pla`: for EVERY PointListArray (any 2D shape incl. zero extents, any per-cell contents) the reader returns the same
dtype, shape and, cell by cell, the same points (`C04_pla_cell`).  Field order inside the dtype is not part of the
guarantee and is not observed.
-/
import EmdProofs.Basic

set_option linter.unusedSimpArgs false

namespace EmdProps
open EmdModel

/-- the field datasets are recognised among the links of the node's group, whatever groups sit beside them -/
theorem filter_fields (p : PLVal) (groups : List (String × Obj)) (hg : groups.all (fun kv => !isDataset kv.2) = true) :
    (p.toBody ++ groups).filter (fun kv => isDataset kv.2) = p.toBody := by
  rw [List.filter_append]
  have h1 : p.toBody.filter (fun kv => isDataset kv.2) = p.toBody := by
    rw [List.filter_eq_self]
    intro x hx
    simp only [PLVal.toBody, List.mem_map] at hx
    obtain ⟨f, _, rfl⟩ := hx
    rfl
  have h2 : groups.filter (fun kv => isDataset kv.2) = [] := by
    rw [List.filter_eq_nil_iff]
    intro x hx
    have := (List.all_eq_true.mp hg) x hx
    simpa using this
  rw [h1, h2]; simp

theorem readFields_toBody : ∀ (fs : List (String × String × String)),
    readFields (fs.map (fun f => (f.1, Obj.dataset [("dtype", .str f.2.1)] (.tok f.2.2)))) = .ok fs
  | [] => rfl
  | f :: fs => by
    simp only [List.map_cons, readFields, alookup, if_true, readFields_toBody fs, bind, Except.bind, pure, Except.pure]

/-- C04, PointList -/
theorem C04_pointlist (lenOf : String → Nat) (p : PLVal) (groups : List (String × Obj))
    (hg : groups.all (fun kv => !isDataset kv.2) = true)
    (hne : p.fields ≠ []) (hlen : ∀ f ∈ p.fields, lenOf f.2.2 = p.length) :
    PLVal.fromBody lenOf (p.toBody ++ groups) = .ok p := by
  unfold PLVal.fromBody
  rw [filter_fields p groups hg]
  cases p with
  | mk fields length =>
    simp only [PLVal.toBody, readFields_toBody fields, bind, Except.bind]
    cases fields with
    | nil => exact absurd rfl hne
    | cons f fs =>
      have := hlen f (by simp)
      simp only [pure, Except.pure] at this ⊢
      rw [this]

/-- the set of fields, each with its dtype and values, and the length survive (corollary in the property's words) -/
theorem C04_pointlist_fields (lenOf : String → Nat) (p q : PLVal) (groups : List (String × Obj))
    (h : PLVal.fromBody lenOf (p.toBody ++ groups) = .ok q)
    (hg : groups.all (fun kv => !isDataset kv.2) = true)
    (hne : p.fields ≠ []) (hlen : ∀ f ∈ p.fields, lenOf f.2.2 = p.length) :
    q.length = p.length ∧ ∀ f, f ∈ q.fields ↔ f ∈ p.fields := by
  rw [C04_pointlist lenOf p groups hg hne hlen] at h
  cases h
  exact ⟨rfl, fun _ => Iff.rfl⟩

/-- a PointList without fields cannot be read (forced hypothesis: `fields[0]`; it cannot be constructed either) -/
theorem C04_counterexample_no_fields (lenOf : String → Nat) :
    (match PLVal.fromBody lenOf ({ fields := [], length := 0 } : PLVal).toBody with
     | .ok _ => false | .error _ => true) = true := by
  simp only [PLVal.fromBody, PLVal.toBody, List.map_nil, List.filter_nil, readFields, bind, Except.bind, pure, Except.pure]
  rfl

/-- C04, PointListArray: dtype, shape and every cell -/
theorem C04_pla (q : PLAVal) : PLAVal.fromBody q.toBody = .ok q := by
  cases q
  simp [PLAVal.fromBody, PLAVal.toBody, alookup, pure, Except.pure]

/-- cell by cell, including empty cells and zero extents -/
theorem C04_pla_cell (q b : PLAVal) (h : PLAVal.fromBody q.toBody = .ok b) (i j : Nat) :
    b.cell i j = q.cell i j ∧ b.rows = q.rows ∧ b.cols = q.cols ∧ b.dtype = q.dtype := by
  rw [C04_pla q] at h
  cases h
  exact ⟨rfl, rfl, rfl, rfl⟩

-- non-vacuity
def exPL : PLVal := { fields := [("x", "float64", "<f8|[3]|a"), ("with space", "bool", "|b1|[3]|b"), ("数据", "complex128", "<c16|[3]|c")], length := 3 }
example : PLVal.fromBody (fun _ => 3) (exPL.toBody ++ [("metadatabundle", .group [] []), ("child", .group [] [])]) = .ok exPL :=
  C04_pointlist _ exPL _ (by decide) (by decide) (by intro f hf; rfl)
example : PLAVal.fromBody ({ dtype := "d", rows := 0, cols := 3, cells := [] } : PLAVal).toBody
    = .ok { dtype := "d", rows := 0, cols := 3, cells := [] } := C04_pla _

end EmdProps
