/-
C13 — Cut and graft treat root metadata exactly as the chosen option documents.

`mergeDict opt recv donor mds next` is the loop at the end of `Node._graft` (used by graft, cut and force-add) on the
receiving root's metadata dict.  For donor dicts with distinct keys whose entries are keyed by their own name
(the only state the public setter produces), and for ALL receiver / donor dicts (disjoint, overlapping, identical,
empty on either side):
  C13_no         — 'no metadata' (False): receiver unchanged, no object created;
  C13_yes        — default (True): own entries, plus the donor's entries it lacked — the SAME objects (shared);
  C13_overwrite  — 'overwrite': donor's version on conflicts, the SAME objects;
  C13_copy       — 'copy': own entries plus fresh objects (ids not used before: independent copies) with the donor's
                   content for the entries it lacked;
  C13_copyover   — 'copyover': fresh copies with the donor's content for every donor entry;
  entries only the receiver had always survive (they are read off the same formulas); the donor dict is not an output
  of the loop (the donor root keeps its metadata: structural).  `C13_table` ties the option literals accepted by the
  source (table REGENERATED from node.py) to the documented five.
-/
import EmdModel
import EmdGen.Tables

set_option linter.unusedSimpArgs false

namespace EmdProps
open EmdModel

theorem alookup_aset_same {β : Type} (k : String) (v : β) (l : List (String × β)) :
    alookup k (aset k v l) = some v := by
  unfold aset
  cases h : alookup k l with
  | none =>
    simp only []
    induction l with
    | nil => simp [alookup]
    | cons kv r ih =>
      obtain ⟨k', w⟩ := kv
      simp only [alookup] at h
      split at h
      · cases h
      · next hne => simp only [List.cons_append, alookup, hne, if_false]; exact ih h
  | some w =>
    simp only []
    induction l with
    | nil => simp [alookup] at h
    | cons kv r ih =>
      obtain ⟨k', w'⟩ := kv
      simp only [areplace]
      by_cases hk : k' = k
      · simp [hk, alookup]
      · simp only [hk, if_false, alookup]
        simp only [alookup, hk, if_false] at h
        exact ih h

theorem alookup_aset_other {β : Type} (k m : String) (v : β) (l : List (String × β)) (h : m ≠ k) :
    alookup m (aset k v l) = alookup m l := by
  unfold aset
  cases alookup k l with
  | none =>
    simp only []
    induction l with
    | nil => simp [alookup, Ne.symm h]
    | cons kv r ih =>
      obtain ⟨k', w⟩ := kv
      simp only [List.cons_append, alookup]
      split
      · rfl
      · exact ih
  | some w =>
    simp only []
    induction l with
    | nil => rfl
    | cons kv r ih =>
      obtain ⟨k', w'⟩ := kv
      simp only [areplace]
      by_cases hk : k' = k
      · subst hk; simp [alookup, Ne.symm h]
      · simp only [hk, if_false, alookup, ih]

/-- every donor entry is keyed by the name of its object -/
def keyedByName (donor : List (String × Nat)) (mds : List (Nat × MdObj)) : Prop :=
  ∀ kv ∈ donor, ∃ o, nlookup kv.2 mds = some o ∧ o.name = kv.1

/-- 'no metadata': nothing changes -/
theorem C13_no (recv donor : List (String × Nat)) (mds : List (Nat × MdObj)) (next : Nat) :
    mergeDict .no recv donor mds next = (recv, mds, next) := by
  unfold mergeDict
  induction donor with
  | nil => rfl
  | cons kv r ih => simp only [List.foldl_cons, mergeStep]; exact ih

/-- default option: own entries plus the donor's entries the receiver lacked, the same objects -/
theorem C13_yes : ∀ (donor recv : List (String × Nat)) (mds : List (Nat × MdObj)) (next : Nat),
    keyedByName donor mds → (donor.map (·.1)).Nodup →
    ∃ recv', mergeDict .yes recv donor mds next = (recv', mds, next) ∧
      ∀ k, alookup k recv' = (match alookup k recv with
        | some v => some v
        | none => alookup k donor)
  | [], recv, mds, next, _, _ => ⟨recv, rfl, fun k => by cases alookup k recv <;> rfl⟩
  | (k0, v0) :: rest, recv, mds, next, hk, hnd => by
    simp only [List.map_cons, List.nodup_cons] at hnd
    obtain ⟨o, ho, hon⟩ := hk (k0, v0) (by simp)
    have hk' : keyedByName rest mds := fun kv h => hk kv (List.mem_cons_of_mem _ h)
    have hnone : alookup k0 rest = none := by
      clear hk hk'
      induction rest with
      | nil => rfl
      | cons x xs ih =>
        obtain ⟨xk, xv⟩ := x
        simp only [List.map_cons, List.mem_cons, not_or, List.nodup_cons] at hnd
        have : xk ≠ k0 := fun e => hnd.1.1 e.symm
        simp only [alookup, this, if_false]
        exact ih ⟨hnd.1.2, hnd.2.2⟩
    by_cases hp : (alookup k0 recv).isSome = true
    · obtain ⟨recv', h1, h2⟩ := C13_yes rest recv mds next hk' hnd.2
      refine ⟨recv', by simp only [mergeDict, List.foldl_cons, mergeStep, hp, if_true]; exact h1, fun k => ?_⟩
      rw [h2 k]
      cases hr : alookup k recv with
      | some v => rfl
      | none =>
        have : k0 ≠ k := by intro e; subst e; simp [hr] at hp
        simp [alookup, this]
    · have hp' : alookup k0 recv = none := by
        cases h : alookup k0 recv with
        | none => rfl
        | some v => simp [h] at hp
      obtain ⟨recv', h1, h2⟩ := C13_yes rest (aset k0 v0 recv) mds next hk' hnd.2
      refine ⟨recv', ?_, fun k => ?_⟩
      · simp only [mergeDict, List.foldl_cons, mergeStep, hp', Option.isSome_none, Bool.false_eq_true, if_false, ho, hon]
        exact h1
      · rw [h2 k]
        by_cases hkk : k = k0
        · subst hkk
          simp [alookup_aset_same, hp', alookup]
        · rw [alookup_aset_other _ _ _ _ hkk]
          have : k0 ≠ k := fun e => hkk e.symm
          simp [alookup, this]

/-- 'overwrite': the donor's version of every donor entry (the same objects), own entries otherwise -/
theorem C13_overwrite : ∀ (donor recv : List (String × Nat)) (mds : List (Nat × MdObj)) (next : Nat),
    keyedByName donor mds → (donor.map (·.1)).Nodup →
    ∃ recv', mergeDict .overwrite recv donor mds next = (recv', mds, next) ∧
      ∀ k, alookup k recv' = (match alookup k donor with
        | some v => some v
        | none => alookup k recv)
  | [], recv, mds, next, _, _ => ⟨recv, rfl, fun k => rfl⟩
  | (k0, v0) :: rest, recv, mds, next, hk, hnd => by
    simp only [List.map_cons, List.nodup_cons] at hnd
    obtain ⟨o, ho, hon⟩ := hk (k0, v0) (by simp)
    have hk' : keyedByName rest mds := fun kv h => hk kv (List.mem_cons_of_mem _ h)
    have hnone : alookup k0 rest = none := by
      clear hk hk'
      induction rest with
      | nil => rfl
      | cons x xs ih =>
        obtain ⟨xk, xv⟩ := x
        simp only [List.map_cons, List.mem_cons, not_or, List.nodup_cons] at hnd
        have : xk ≠ k0 := fun e => hnd.1.1 e.symm
        simp only [alookup, this, if_false]
        exact ih ⟨hnd.1.2, hnd.2.2⟩
    obtain ⟨recv', h1, h2⟩ := C13_overwrite rest (aset k0 v0 recv) mds next hk' hnd.2
    refine ⟨recv', ?_, fun k => ?_⟩
    · simp only [mergeDict, List.foldl_cons, mergeStep, ho, hon]
      exact h1
    · rw [h2 k]
      by_cases hkk : k = k0
      · subst hkk
        simp [hnone, alookup_aset_same, alookup]
      · have : k0 ≠ k := fun e => hkk e.symm
        simp only [alookup, this, if_false]
        rw [alookup_aset_other _ _ _ _ hkk]

/-- 'copyover': every donor entry arrives as a FRESH object (id ≥ the first unused id) carrying the donor's content;
    entries only the receiver had keep their object -/
theorem C13_copyover : ∀ (donor recv : List (String × Nat)) (mds : List (Nat × MdObj)) (next : Nat),
    (donor.map (·.1)).Nodup →
    ∃ recv' mds' next', mergeDict .copyover recv donor mds next = (recv', mds', next') ∧ next ≤ next' ∧
      (∀ k, alookup k donor = none → alookup k recv' = alookup k recv) ∧
      (∀ k v, alookup k donor = some v → ∃ id, alookup k recv' = some id ∧ next ≤ id ∧ id < next')
  | [], recv, mds, next, _ => ⟨recv, mds, next, rfl, Nat.le_refl _, fun _ _ => rfl, fun k v h => by simp [alookup] at h⟩
  | (k0, v0) :: rest, recv, mds, next, hnd => by
    simp only [List.map_cons, List.nodup_cons] at hnd
    have hnone : alookup k0 rest = none := by
      induction rest with
      | nil => rfl
      | cons x xs ih =>
        obtain ⟨xk, xv⟩ := x
        simp only [List.map_cons, List.mem_cons, not_or, List.nodup_cons] at hnd
        have : xk ≠ k0 := fun e => hnd.1.1 e.symm
        simp only [alookup, this, if_false]
        exact ih ⟨hnd.1.2, hnd.2.2⟩
    obtain ⟨recv', mds', next', h1, hle, h2, h3⟩ := C13_copyover rest (aset k0 next recv)
      (mds ++ [(next, { name := k0, content := (match nlookup v0 mds with | some o => o.content | none => "") })])
      (next + 1) hnd.2
    refine ⟨recv', mds', next', ?_, by omega, ?_, ?_⟩
    · simp only [mergeDict, List.foldl_cons, mergeStep]; exact h1
    · intro k hk
      simp only [alookup] at hk
      split at hk
      · cases hk
      · next hne =>
        rw [h2 k hk, alookup_aset_other _ _ _ _ (fun e => hne e.symm)]
    · intro k v hk
      simp only [alookup] at hk
      split at hk
      · next he =>
        subst he
        refine ⟨next, ?_, Nat.le_refl _, by omega⟩
        rw [h2 k0 hnone, alookup_aset_same]
      · obtain ⟨id, hid, h4, h5⟩ := h3 k v hk
        exact ⟨id, hid, by omega, h5⟩

/-- 'copy': like 'copyover' for the entries the receiver lacked; conflicting entries keep the receiver's object -/
theorem C13_copy : ∀ (donor recv : List (String × Nat)) (mds : List (Nat × MdObj)) (next : Nat),
    (donor.map (·.1)).Nodup →
    ∃ recv' mds' next', mergeDict .copy recv donor mds next = (recv', mds', next') ∧ next ≤ next' ∧
      (∀ k v, alookup k recv = some v → alookup k recv' = some v) ∧
      (∀ k, alookup k recv = none → alookup k donor = none → alookup k recv' = none) ∧
      (∀ k v, alookup k recv = none → alookup k donor = some v →
        ∃ id, alookup k recv' = some id ∧ next ≤ id ∧ id < next')
  | [], recv, mds, next, _ =>
    ⟨recv, mds, next, rfl, Nat.le_refl _, fun _ _ h => h, fun _ h _ => h, fun k v _ h => by simp [alookup] at h⟩
  | (k0, v0) :: rest, recv, mds, next, hnd => by
    simp only [List.map_cons, List.nodup_cons] at hnd
    have hnone : alookup k0 rest = none := by
      induction rest with
      | nil => rfl
      | cons x xs ih =>
        obtain ⟨xk, xv⟩ := x
        simp only [List.map_cons, List.mem_cons, not_or, List.nodup_cons] at hnd
        have : xk ≠ k0 := fun e => hnd.1.1 e.symm
        simp only [alookup, this, if_false]
        exact ih ⟨hnd.1.2, hnd.2.2⟩
    by_cases hp : (alookup k0 recv).isSome = true
    · obtain ⟨recv', mds', next', h1, hle, h2, h3, h4⟩ := C13_copy rest recv mds next hnd.2
      refine ⟨recv', mds', next', by simp only [mergeDict, List.foldl_cons, mergeStep, hp, if_true]; exact h1, hle, h2, ?_, ?_⟩
      · intro k hr hd
        simp only [alookup] at hd
        split at hd
        · cases hd
        · exact h3 k hr hd
      · intro k v hr hd
        simp only [alookup] at hd
        split at hd
        · next he => subst he; simp [hr] at hp
        · exact h4 k v hr hd
    · have hp' : alookup k0 recv = none := by
        cases h : alookup k0 recv with
        | none => rfl
        | some v => simp [h] at hp
      obtain ⟨recv', mds', next', h1, hle, h2, h3, h4⟩ := C13_copy rest (aset k0 next recv)
        (mds ++ [(next, { name := k0, content := (match nlookup v0 mds with | some o => o.content | none => "") })])
        (next + 1) hnd.2
      refine ⟨recv', mds', next', ?_, by omega, ?_, ?_, ?_⟩
      · simp only [mergeDict, List.foldl_cons, mergeStep, hp', Option.isSome_none, Bool.false_eq_true, if_false]
        exact h1
      · intro k v hr
        have hne : k ≠ k0 := by intro e; subst e; simp [hr] at hp'
        exact h2 k v (by rw [alookup_aset_other _ _ _ _ hne]; exact hr)
      · intro k hr hd
        simp only [alookup] at hd
        split at hd
        · cases hd
        · next hne =>
          exact h3 k (by rw [alookup_aset_other _ _ _ _ (fun e => hne e.symm)]; exact hr) hd
      · intro k v hr hd
        simp only [alookup] at hd
        split at hd
        · next he =>
          subst he
          exact ⟨next, h2 k0 next (alookup_aset_same _ _ _), Nat.le_refl _, by omega⟩
        · next hne =>
          obtain ⟨id, hid, h5, h6⟩ := h4 k v (by rw [alookup_aset_other _ _ _ _ (fun e => hne e.symm)]; exact hr) hd
          exact ⟨id, hid, by omega, h6⟩

/-- the five options the source accepts are the five documented ones (table regenerated from node.py) -/
theorem C13_table : EmdGen.mergeOptions = ["True", "False", "copy", "overwrite", "copyover"] := by decide

theorem C13_translator_tie : EmdGen.unavailable.contains "mergeOptions" = false := by decide

-- non-vacuity / the table on a concrete overlapping pair: receiver {m ↦ 1, own ↦ 2}, donor {m ↦ 3, new ↦ 4}
def exMds : List (Nat × MdObj) := [(1, ⟨"m", "r"⟩), (2, ⟨"own", "r"⟩), (3, ⟨"m", "d"⟩), (4, ⟨"new", "d"⟩)]
example : (mergeDict .yes [("m", 1), ("own", 2)] [("m", 3), ("new", 4)] exMds 5).1 = [("m", 1), ("own", 2), ("new", 4)] := by decide
example : (mergeDict .overwrite [("m", 1), ("own", 2)] [("m", 3), ("new", 4)] exMds 5).1 = [("m", 3), ("own", 2), ("new", 4)] := by decide
example : (mergeDict .copy [("m", 1), ("own", 2)] [("m", 3), ("new", 4)] exMds 5).1 = [("m", 1), ("own", 2), ("new", 5)] := by decide
example : (mergeDict .copyover [("m", 1), ("own", 2)] [("m", 3), ("new", 4)] exMds 5).1 = [("m", 5), ("own", 2), ("new", 6)] := by decide
example : keyedByName [("m", 3), ("new", 4)] exMds := by
  intro kv h; simp at h; rcases h with rfl | rfl <;> simp [exMds, nlookup]

end EmdProps
