/-
C13 — Cut and graft treat root metadata exactly as the chosen option documents.

`mergeDict opt recv donor mds next` is the loop at the end of `Node._graft` (used by graft, cut and force-add) on the
receiving root's metadata dict.  For donor dicts with distinct keys whose entries are keyed by their own name
(the only state the public setter produces), and for ALL receiver / donor dicts (disjoint, overlapping, identical,
empty on either side):
  C13_no         — 'no metadata' (False): receiver unchanged, no object created;
  C13_yes        — default (True): own entries, plus the donor's entries it lacked — the SAME objects (shared);
  C13_overwrite  — 'overwrite': donor's version on conflicts, the SAME objects;
  C13_copy       — 'copy': own entries plus fresh objects (ids not used before: independent copies) with the donor's
                   content for the entries it lacked;
  C13_copyover   — 'copyover': fresh copies with the donor's content for every donor entry;
  entries only the receiver had always survive (they are read off the same formulas); the donor dict is not an output
  of the loop (the donor root keeps its metadata: structural).  `C13_table` ties the option literals accepted by the
  source (table REGENERATED from node.py) to the documented five.
-/
import EmdModel
import EmdGen.Tables

set_option linter.unusedSimpArgs false

namespace EmdProps
open EmdModel

theorem alookup_aset_same {β : Type} (k : String) (v : β) (l : List (String × β)) :
    alookup k (aset k v l) = some v := by
  unfold aset
  cases h : alookup k l with
  | none =>
    simp only []
    induction l with
    | nil => simp [alookup]
    | cons kv r ih =>
      obtain ⟨k', w⟩ := kv
      simp only [alookup] at h
      split at h
      · cases h
      · next hne => simp only [List.cons_append, alookup, hne, if_false]; exact ih h
  | some w =>
    simp only []
    induction l with
    | nil => simp [alookup] at h
    | cons kv r ih =>
      obtain ⟨k', w'⟩ := kv
      simp only [areplace]
      by_cases hk : k' = k
      · simp [hk, alookup]
      · simp only [hk, if_false, alookup]
        simp only [alookup, hk, if_false] at h
        exact ih h

theorem alookup_aset_other {β : Type} (k m : String) (v : β) (l : List (String × β)) (h : m ≠ k) :
    alookup m (aset k v l) = alookup m l := by
  unfold aset
  cases alookup k l with
  | none =>
    simp only []
    induction l with
    | nil => simp [alookup, Ne.symm h]
    | cons kv r ih =>
      obtain ⟨k', w⟩ := kv
      simp only [List.cons_append, alookup]
      split
      · rfl
      · exact ih
  | some w =>
    simp only []
    induction l with
    | nil => rfl
    | cons kv r ih =>
      obtain ⟨k', w'⟩ := kv
      simp only [areplace]
      by_cases hk : k' = k
      · subst hk; simp [alookup, Ne.symm h]
      · simp only [hk, if_false, alookup, ih]

/-- every donor entry is keyed by the name of its object -/
def keyedByName (donor : List (String × Nat)) (mds : List (Nat × MdObj)) : Prop :=
  ∀ kv ∈ donor, ∃ o, nlookup kv.2 mds = some o ∧ o.name = kv.1

/-- 'no metadata': nothing changes -/
theorem C13_no (recv donor : List (String × Nat)) (mds : List (Nat × MdObj)) (next : Nat) :
    mergeDict .no recv donor mds next = (recv, mds, next) := by
  unfold mergeDict
  induction donor with
  | nil => rfl
  | cons kv r ih => simp only [List.foldl_cons, mergeStep]; exact ih

/-- default option: own entries plus the donor's entries the receiver lacked, the same objects -/
theorem C13_yes : ∀ (donor recv : List (String × Nat)) (mds : List (Nat × MdObj)) (next : Nat),
    keyedByName donor mds → (donor.map (·.1)).Nodup →
    ∃ recv', mergeDict .yes recv donor mds next = (recv', mds, next) ∧
      ∀ k, alookup k recv' = (match alookup k recv with
        | some v => some v
        | none => alookup k donor)
  | [], recv, mds, next, _, _ => ⟨recv, rfl, fun k => by cases alookup k recv <;> rfl⟩
  | (k0, v0) :: rest, recv, mds, next, hk, hnd => by
    simp only [List.map_cons, List.nodup_cons] at hnd
    obtain ⟨o, ho, hon⟩ := hk (k0, v0) (by simp)
    have hk' : keyedByName rest mds := fun kv h => hk kv (List.mem_cons_of_mem _ h)
    have hnone : alookup k0 rest = none := by
      clear hk hk'
      induction rest with
      | nil => rfl
      | cons x xs ih =>
        obtain ⟨xk, xv⟩ := x
        simp only [List.map_cons, List.mem_cons, not_or, List.nodup_cons] at hnd
        have : xk ≠ k0 := fun e => hnd.1.1 e.symm
        simp only [alookup, this, if_false]
        exact ih ⟨hnd.1.2, hnd.2.2⟩
    by_cases hp : (alookup k0 recv).isSome = true
    · obtain ⟨recv', h1, h2⟩ := C13_yes rest recv mds next hk' hnd.2
      refine ⟨recv', by simp only [mergeDict, List.foldl_cons, mergeStep, hp, if_true]; exact h1, fun k => ?_⟩
      rw [h2 k]
      cases hr : alookup k recv with
      | some v => rfl
      | none =>
        have : k0 ≠ k := by intro e; subst e; simp [hr] at hp
        simp [alookup, this]
    · have hp' : alookup k0 recv = none := by
        cases h : alookup k0 recv with
        | none => rfl
        | some v => simp [h] at hp
      obtain ⟨recv', h1, h2⟩ := C13_yes rest (aset k0 v0 recv) mds next hk' hnd.2
      refine ⟨recv', ?_, fun k => ?_⟩
      · simp only [mergeDict, List.foldl_cons, mergeStep, hp', Option.isSome_none, Bool.false_eq_true, if_false, ho, hon]
        exact h1
      · rw [h2 k]
        by_cases hkk : k = k0
        · subst hkk
          simp [alookup_aset_same, hp', alookup]
        · rw [alookup_aset_other _ _ _ _ hkk]
          have : k0 ≠ k := fun e => hkk e.symm
          simp [alookup, this]

/-- 'overwrite': the donor's version of every donor entry (the same objects), own entries otherwise -/
theorem C13_overwrite : ∀ (donor recv : List (String × Nat)) (mds : List (Nat × MdObj)) (next : Nat),
    keyedByName donor mds → (donor.map (·.1)).Nodup →
    ∃ recv', mergeDict .overwrite recv donor mds next = (recv', mds, next) ∧
      ∀ k, alookup k recv' = (match alookup k donor with
        | some v => some v
        | none => alookup k recv)
  | [], recv, mds, next, _, _ => ⟨recv, rfl, fun k => rfl⟩
  | (k0, v0) :: rest, recv, mds, next, hk, hnd => by
    simp only [List.map_cons, List.nodup_cons] at hnd
    obtain ⟨o, ho, hon⟩ := hk (k0, v0) (by simp)
    have hk' : keyedByName rest mds := fun kv h => hk kv (List.mem_cons_of_mem _ h)
    have hnone : alookup k0 rest = none := by
      clear hk hk'
      induction rest with
      | nil => rfl
      | cons x xs ih =>
        obtain ⟨xk, xv⟩ := x
        simp only [List.map_cons, List.mem_cons, not_or, List.nodup_cons] at hnd
        have : xk ≠ k0 := fun e => hnd.1.1 e.symm
        simp only [alookup, this, if_false]
        exact ih ⟨hnd.1.2, hnd.2.2⟩
    obtain ⟨recv', h1, h2⟩ := C13_overwrite rest (aset k0 v0 recv) mds next hk' hnd.2
    refine ⟨recv', ?_, fun k => ?_⟩
    · simp only [mergeDict, List.foldl_cons, mergeStep, ho, hon]
      exact h1
    · rw [h2 k]
      by_cases hkk : k = k0
      · subst hkk
        simp [hnone, alookup_aset_same, alookup]
      · have : k0 ≠ k := fun e => hkk e.symm
        simp only [alookup, this, if_false]
        rw [alookup_aset_other _ _ _ _ hkk]

/-- 'copyover': every donor entry arrives as a FRESH object (id ≥ the first unused id) carrying the donor's content;
    entries only the receiver had keep their object -/
theorem C13_copyover : ∀ (donor recv : List (String × Nat)) (mds : List (Nat × MdObj)) (next : Nat),
    (donor.map (·.1)).Nodup →
    ∃ recv' mds' next', mergeDict .copyover recv donor mds next = (recv', mds', next') ∧ next ≤ next' ∧
      (∀ k, alookup k donor = none → alookup k recv' = alookup k recv) ∧
      (∀ k v, alookup k donor = some v → ∃ id, alookup k recv' = some id ∧ next ≤ id ∧ id < next')
  | [], recv, mds, next, _ => ⟨recv, mds, next, rfl, Nat.le_refl _, fun _ _ => rfl, fun k v h => by simp [alookup] at h⟩
  | (k0, v0) :: rest, recv, mds, next, hnd => by
    simp only [List.map_cons, List.nodup_cons] at hnd
    have hnone : alookup k0 rest = none := by
      induction rest with
      | nil => rfl
      | cons x xs ih =>
        obtain ⟨xk, xv⟩ := x
        simp only [List.map_cons, List.mem_cons, not_or, List.nodup_cons] at hnd
        have : xk ≠ k0 := fun e => hnd.1.1 e.symm
        simp only [alookup, this, if_false]
        exact ih ⟨hnd.1.2, hnd.2.2⟩
    obtain ⟨recv', mds', next', h1, hle, h2, h3⟩ := C13_copyover rest (aset k0 next recv)
      (mds ++ [(next, { name := k0, content := (match nlookup v0 mds with | some o => o.content | none => "") })])
      (next + 1) hnd.2
    refine ⟨recv', mds', next', ?_, by omega, ?_, ?_⟩
    · simp only [mergeDict, List.foldl_cons, mergeStep]; exact h1
    · intro k hk
      simp only [alookup] at hk
      split at hk
      · cases hk
      · next hne =>
        rw [h2 k hk, alookup_aset_other _ _ _ _ (fun e => hne e.symm)]
    · intro k v hk
      simp only [alookup] at hk
      split at hk
      · next he =>
        subst he
        refine ⟨next, ?_, Nat.le_refl _, by omega⟩
        rw [h2 k0 hnone, alookup_aset_same]
      · obtain ⟨id, hid, h4, h5⟩ := h3 k v hk
        exact ⟨id, hid, by omega, h5⟩

/-- 'copy': like 'copyover' for the entries the receiver lacked; conflicting entries keep the receiver's object -/
theorem C13_copy : ∀ (donor recv : List (String × Nat)) (mds : List (Nat × MdObj)) (next : Nat),
    (donor.map (·.1)).Nodup →
    ∃ recv' mds' next', mergeDict .copy recv donor mds next = (recv', mds', next') ∧ next ≤ next' ∧
      (∀ k v, alookup k recv = some v → alookup k recv' = some v) ∧
      (∀ k, alookup k recv = none → alookup k donor = none → alookup k recv' = none) ∧
      (∀ k v, alookup k recv = none → alookup k donor = some v →
        ∃ id, alookup k recv' = some id ∧ next ≤ id ∧ id < next')
  | [], recv, mds, next, _ =>
    ⟨recv, mds, next, rfl, Nat.le_refl _, fun _ _ h => h, fun _ h _ => h, fun k v _ h => by simp [alookup] at h⟩
  | (k0, v0) :: rest, recv, mds, next, hnd => by
    simp only [List.map_cons, List.nodup_cons] at hnd
    have hnone : alookup k0 rest = none := by
      induction rest with
      | nil => rfl
      | cons x xs ih =>
        obtain ⟨xk, xv⟩ := x
        simp only [List.map_cons, List.mem_cons, not_or, List.nodup_cons] at hnd
        have : xk ≠ k0 := fun e => hnd.1.1 e.symm
        simp only [alookup, this, if_false]
        exact ih ⟨hnd.1.2, hnd.2.2⟩
    by_cases hp : (alookup k0 recv).isSome = true
    · obtain ⟨recv', mds', next', h1, hle, h2, h3, h4⟩ := C13_copy rest recv mds next hnd.2
      refine ⟨recv', mds', next', by simp only [mergeDict, List.foldl_cons, mergeStep, hp, if_true]; exact h1, hle, h2, ?_, ?_⟩
      · intro k hr hd
        simp only [alookup] at hd
        split at hd
        · cases hd
        · exact h3 k hr hd
      · intro k v hr hd
        simp only [alookup] at hd
        split at hd
        · next he => subst he; simp [hr] at hp
        · exact h4 k v hr hd
    · have hp' : alookup k0 recv = none := by
        cases h : alookup k0 recv with
        | none => rfl
        | some v => simp [h] at hp
      obtain ⟨recv', mds', next', h1, hle, h2, h3, h4⟩ := C13_copy rest (aset k0 next recv)
        (mds ++ [(next, { name := k0, content := (match nlookup v0 mds with | some o => o.content | none => "") })])
        (next + 1) hnd.2
      refine ⟨recv', mds', next', ?_, by omega, ?_, ?_, ?_⟩
      · simp only [mergeDict, List.foldl_cons, mergeStep, hp', Option.isSome_none, Bool.false_eq_true, if_false]
        exact h1
      · intro k v hr
        have hne : k ≠ k0 := by intro e; subst e; simp [hr] at hp'
        exact h2 k v (by rw [alookup_aset_other _ _ _ _ hne]; exact hr)
      · intro k hr hd
        simp only [alookup] at hd
        split at hd
        · cases hd
        · next hne =>
          exact h3 k (by rw [alookup_aset_other _ _ _ _ (fun e => hne e.symm)]; exact hr) hd
      · intro k v hr hd
        simp only [alookup] at hd
        split at hd
        · next he =>
          subst he
          exact ⟨next, h2 k0 next (alookup_aset_same _ _ _), Nat.le_refl _, by omega⟩
        · next hne =>
          obtain ⟨id, hid, h5, h6⟩ := h4 k v (by rw [alookup_aset_other _ _ _ _ (fun e => hne e.symm)]; exact hr) hd
          exact ⟨id, hid, by omega, h6⟩

/-- content of the Metadata object with this id -/
def contentOf (v : Nat) (mds : List (Nat × MdObj)) : String :=
  match nlookup v mds with
  | some o => o.content
  | none => ""

theorem contentOf_congr (v : Nat) (a b : List (Nat × MdObj)) (h : nlookup v a = nlookup v b) : contentOf v a = contentOf v b := by
  unfold contentOf; rw [h]

theorem alookup_mem' {β : Type} (k : String) (v : β) : ∀ (l : List (String × β)), alookup k l = some v → (k, v) ∈ l
  | [], h => by simp [alookup] at h
  | (k', w) :: r, h => by
    simp only [alookup] at h
    split at h
    · next e => cases h; subst e; exact List.mem_cons_self
    · exact List.mem_cons_of_mem _ (alookup_mem' k v r h)

/-- an entry of the merged dict is an entry the dict had before the loop, or a copy allocated during the loop -/
theorem key_of_new_id (opt : MdOpt) (hopt : opt = .copy ∨ opt = .copyover) :
    ∀ (donor recv : List (String × Nat)) (mds : List (Nat × MdObj)) (next : Nat) (k : String) (id : Nat),
    alookup k (mergeDict opt recv donor mds next).1 = some id → alookup k recv = some id ∨ next ≤ id
  | [], recv, mds, next, k, id, h => Or.inl h
  | (k0, v0) :: rest, recv, mds, next, k, id, h => by
    by_cases hskip : opt = .copy ∧ (alookup k0 recv).isSome = true
    · have hstep : mergeDict opt recv ((k0, v0) :: rest) mds next = mergeDict opt recv rest mds next := by
        simp only [mergeDict, List.foldl_cons, mergeStep, hskip.1, hskip.2, if_true]
      rw [hstep] at h
      exact key_of_new_id opt hopt rest recv mds next k id h
    · have hstep : ∃ c, mergeDict opt recv ((k0, v0) :: rest) mds next =
          mergeDict opt (aset k0 next recv) rest (mds ++ [(next, { name := k0, content := c })]) (next + 1) := by
        cases hopt with
        | inl e =>
          subst e
          have : (alookup k0 recv).isSome = false := by
            cases h : (alookup k0 recv).isSome with
            | false => rfl
            | true => exact absurd ⟨rfl, h⟩ hskip
          exact ⟨contentOf v0 mds, by simp only [mergeDict, List.foldl_cons, mergeStep, this, Bool.false_eq_true, if_false]; rfl⟩
        | inr e => subst e; exact ⟨contentOf v0 mds, by simp only [mergeDict, List.foldl_cons, mergeStep]; rfl⟩
      obtain ⟨c, hc⟩ := hstep
      rw [hc] at h
      cases key_of_new_id opt hopt rest _ _ _ k id h with
      | inr h1 => exact Or.inr (by omega)
      | inl h1 =>
        by_cases hk : k = k0
        · subst hk; rw [alookup_aset_same] at h1; cases h1; exact Or.inr (Nat.le_refl _)
        · rw [alookup_aset_other _ _ _ _ hk] at h1; exact Or.inl h1

theorem nlookup_append {β : Type} (i : Nat) (a b : List (Nat × β)) :
    nlookup i (a ++ b) = match nlookup i a with
      | some v => some v
      | none => nlookup i b := by
  induction a with
  | nil => simp [nlookup]
  | cons kv r ih =>
    obtain ⟨k, v⟩ := kv
    simp only [List.cons_append, nlookup]
    split
    · rfl
    · exact ih

/-- C13, the two copy options hand over INDEPENDENT COPIES WITH EQUAL CONTENT: every Metadata object that existed
    before is untouched (the donor root keeps its own objects, with their content), and every entry of the receiver that
    refers to a new object refers to one named by its key whose content is the content of the donor's object under that
    key.  (`hfresh`: object ids are allocated from `next` upwards.) -/
theorem C13_copies_content (opt : MdOpt) (hopt : opt = .copy ∨ opt = .copyover) :
    ∀ (donor recv : List (String × Nat)) (mds : List (Nat × MdObj)) (next : Nat),
    (donor.map (·.1)).Nodup → (∀ i, next ≤ i → nlookup i mds = none) →
    (∀ kv ∈ donor, (nlookup kv.2 mds).isSome = true) → (∀ k id, alookup k recv = some id → id < next) →
    (∀ i o, nlookup i mds = some o → nlookup i (mergeDict opt recv donor mds next).2.1 = some o) ∧
    (∀ k id, alookup k (mergeDict opt recv donor mds next).1 = some id → next ≤ id →
      ∃ v, alookup k donor = some v ∧
        nlookup id (mergeDict opt recv donor mds next).2.1 = some { name := k, content := contentOf v mds })
  | [], recv, mds, next, _, _, _, hold => by
    refine ⟨fun i o h => h, fun k id h hle => ?_⟩
    simp only [mergeDict, List.foldl_nil] at h
    exact absurd (hold k id h) (by omega)
  | (k0, v0) :: rest, recv, mds, next, hnd, hfresh, hdon, hold => by
    simp only [List.map_cons, List.nodup_cons] at hnd
    have hnone : alookup k0 rest = none := by
      cases h : alookup k0 rest with
      | none => rfl
      | some w =>
        exfalso
        apply hnd.1
        clear hdon
        induction rest with
        | nil => simp [alookup] at h
        | cons x xs ih =>
          obtain ⟨xk, xv⟩ := x
          simp only [alookup] at h
          simp only [List.map_cons, List.mem_cons]
          split at h
          · next e => exact Or.inl e.symm
          · simp only [List.map_cons, List.mem_cons, not_or, List.nodup_cons] at hnd
            exact Or.inr (ih ⟨hnd.1.2, hnd.2.2⟩ h)
    -- does this step create a copy?
    by_cases hskip : opt = .copy ∧ (alookup k0 recv).isSome = true
    · -- conflict under 'copy': skipped
      have hstep : mergeDict opt recv ((k0, v0) :: rest) mds next = mergeDict opt recv rest mds next := by
        simp only [mergeDict, List.foldl_cons, mergeStep, hskip.1, hskip.2, if_true]
      rw [hstep]
      obtain ⟨ha, hb⟩ := C13_copies_content opt hopt rest recv mds next hnd.2 hfresh
        (fun kv h => hdon kv (List.mem_cons_of_mem _ h)) hold
      refine ⟨ha, fun k id h hle => ?_⟩
      obtain ⟨v, hv, hn⟩ := hb k id h hle
      refine ⟨v, ?_, hn⟩
      simp only [alookup]
      split
      · next e => subst e; rw [hnone] at hv; cases hv
      · exact hv
    · -- a copy is made
      have hstep : mergeDict opt recv ((k0, v0) :: rest) mds next =
          mergeDict opt (aset k0 next recv) rest (mds ++ [(next, { name := k0, content := contentOf v0 mds })]) (next + 1) := by
        cases hopt with
        | inl e =>
          subst e
          have : (alookup k0 recv).isSome = false := by
            cases h : (alookup k0 recv).isSome with
            | false => rfl
            | true => exact absurd ⟨rfl, h⟩ hskip
          simp only [mergeDict, List.foldl_cons, mergeStep, this, Bool.false_eq_true, if_false]; rfl
        | inr e =>
          subst e
          simp only [mergeDict, List.foldl_cons, mergeStep]; rfl
      rw [hstep]
      have hfresh' : ∀ i, next + 1 ≤ i → nlookup i (mds ++ [(next, { name := k0, content := contentOf v0 mds })]) = none := by
        intro i hi
        rw [nlookup_append, hfresh i (by omega)]
        simp only [nlookup]
        have : next ≠ i := by omega
        simp [this]
      have hstable : ∀ i o, nlookup i mds = some o →
          nlookup i (mds ++ [(next, { name := k0, content := contentOf v0 mds })]) = some o := by
        intro i o h; rw [nlookup_append, h]
      obtain ⟨ha, hb⟩ := C13_copies_content opt hopt rest (aset k0 next recv)
        (mds ++ [(next, { name := k0, content := contentOf v0 mds })]) (next + 1) hnd.2 hfresh'
        (fun kv h => by
          obtain ⟨o, ho⟩ := Option.isSome_iff_exists.mp (hdon kv (List.mem_cons_of_mem _ h))
          rw [hstable _ o ho]; rfl)
        (fun k id h => by
          by_cases hk : k = k0
          · subst hk; rw [alookup_aset_same] at h; cases h; omega
          · rw [alookup_aset_other _ _ _ _ hk] at h
            exact Nat.lt_succ_of_lt (hold k id h))
      refine ⟨fun i o h => ha i o (hstable i o h), fun k id h hle => ?_⟩
      by_cases hid : next + 1 ≤ id
      · obtain ⟨v, hv, hn⟩ := hb k id h hid
        have hkne : k ≠ k0 := by intro e; subst e; rw [hnone] at hv; cases hv
        refine ⟨v, by simp only [alookup, Ne.symm hkne, if_false]; exact hv, ?_⟩
        -- the content of the donor's object is the same in the extended store
        obtain ⟨o, ho⟩ := Option.isSome_iff_exists.mp (hdon (k, v) (List.mem_cons_of_mem _ (alookup_mem' k v rest hv)))
        have ho' : nlookup v mds = some o := ho
        have : contentOf v (mds ++ [(next, { name := k0, content := contentOf v0 mds })]) = contentOf v mds :=
          contentOf_congr v _ _ ((hstable v o ho').trans ho'.symm)
        rw [← this]; exact hn
      · -- id = next: the copy made in this step, which later steps leave alone
        have hidn : id = next := by omega
        subst hidn
        have hnew : nlookup id (mds ++ [(id, { name := k0, content := contentOf v0 mds })]) =
            some { name := k0, content := contentOf v0 mds } := by
          rw [nlookup_append, hfresh id (Nat.le_refl _)]; simp [nlookup]
        have hkept := ha id _ hnew
        -- which key refers to it?  only k0 can: later copies have larger ids, older entries smaller ones
        have hk : k = k0 := by
          apply Classical.byContradiction
          intro hk
          -- the entry for k after the remaining steps is either an older entry of recv (id < next) or a later copy (id > next)
          have := key_of_new_id opt hopt rest (aset k0 id recv)
            (mds ++ [(id, { name := k0, content := contentOf v0 mds })]) (id + 1) k id h
          cases this with
          | inl h1 => rw [alookup_aset_other _ _ _ _ hk] at h1; exact absurd (hold k id h1) (by omega)
          | inr h1 => omega
        subst hk
        exact ⟨v0, by simp [alookup], hkept⟩

/-! ### from the loop to the heap: where the merged dict ends up -/

theorem ForestFind.findIn_self' (t : RNode) : findIn t.id t = some t := by cases t; simp [findIn, RNode.id]


mutual
theorem findIn_updateIn_same (id : Nat) (f : RNode → RNode) (hf : ∀ p, (f p).id = p.id) : ∀ (t : RNode),
    findIn id (updateIn id f t) = (findIn id t).map f
  | .mk i n r ro tp m ks => by
    by_cases hi : i = id
    · have h1 : updateIn id f (.mk i n r ro tp m ks) = f (.mk i n r ro tp m ks) := by simp [updateIn, hi]
      have h2 : findIn id (.mk i n r ro tp m ks) = some (.mk i n r ro tp m ks) := by simp [findIn, hi]
      rw [h1, h2]
      have := hf (.mk i n r ro tp m ks)
      have hid : (f (.mk i n r ro tp m ks)).id = id := by rw [this]; exact hi
      rw [← hid]
      simp only [Option.map_some]
      exact ForestFind.findIn_self' _
    · simp only [updateIn, findIn, if_neg hi]
      exact findInList_updateInList_same id f hf ks
theorem findInList_updateInList_same (id : Nat) (f : RNode → RNode) (hf : ∀ p, (f p).id = p.id) : ∀ (ks : List RNode),
    findInList id (updateInList id f ks) = (findInList id ks).map f
  | [] => by simp [updateInList, findInList]
  | k :: ks => by
    simp only [updateInList, findInList, findIn_updateIn_same id f hf k]
    cases findIn id k with
    | some x => rfl
    | none => exact findInList_updateInList_same id f hf ks
end

theorem setMd_md (x : RNode) (m : List (String × Nat)) : (x.setMd m).md = m := by cases x; rfl
theorem setMd_id (x : RNode) (m : List (String × Nat)) : (x.setMd m).id = x.id := by cases x; rfl

/-- C13 at the level of the heap: after the metadata step of a graft / cut / force-add, the metadata dict of the
    receiving root IS the dict the loop computed from the receiving root's and the donor root's dicts (so `C13_yes`,
    `C13_overwrite`, `C13_copy`, `C13_copyover`, `C13_no`, `C13_copies_content` describe the receiving root) -/
theorem C13_receiver_gets_merged (h : Heap) (opt : MdOpt) (oldRootId newRootId : Nat) (oldR newR : RNode)
    (ho : h.find oldRootId = some oldR) (hn : h.find newRootId = some newR) :
    ((mergeMd h opt oldRootId newRootId).find newRootId).map RNode.md
      = some (mergeDict opt newR.md oldR.md h.mds h.nextMd).1 ∧
    (mergeMd h opt oldRootId newRootId).mds = (mergeDict opt newR.md oldR.md h.mds h.nextMd).2.1 := by
  simp only [Heap.find] at ho hn
  simp only [mergeMd, Heap.find, ho, hn, and_true]
  rw [findInList_updateInList_same newRootId _ (fun p => setMd_id p _), hn]
  simp [setMd_md]

/-- the five options the source accepts are the five documented ones (table regenerated from node.py) -/
theorem C13_table : EmdGen.mergeOptions = ["True", "False", "copy", "overwrite", "copyover"] := by decide

-- non-vacuity / the table on a concrete overlapping pair: receiver {m ↦ 1, own ↦ 2}, donor {m ↦ 3, new ↦ 4}
def exMds : List (Nat × MdObj) := [(1, ⟨"m", "r"⟩), (2, ⟨"own", "r"⟩), (3, ⟨"m", "d"⟩), (4, ⟨"new", "d"⟩)]
example : (mergeDict .yes [("m", 1), ("own", 2)] [("m", 3), ("new", 4)] exMds 5).1 = [("m", 1), ("own", 2), ("new", 4)] := by decide
example : (mergeDict .overwrite [("m", 1), ("own", 2)] [("m", 3), ("new", 4)] exMds 5).1 = [("m", 3), ("own", 2), ("new", 4)] := by decide
example : (mergeDict .copy [("m", 1), ("own", 2)] [("m", 3), ("new", 4)] exMds 5).1 = [("m", 1), ("own", 2), ("new", 5)] := by decide
example : (mergeDict .copyover [("m", 1), ("own", 2)] [("m", 3), ("new", 4)] exMds 5).1 = [("m", 5), ("own", 2), ("new", 6)] := by decide
example : keyedByName [("m", 3), ("new", 4)] exMds := by
  intro kv h; simp at h; rcases h with rfl | rfl <;> simp [exMds, nlookup]

end EmdProps
