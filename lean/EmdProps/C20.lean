/-
C20 — Version comparison is exactly lexicographic ordering.

The theorem is about `EmdGen.versionIsGeq`, which is REGENERATED from
`/repo/src/emdfile/utils.py::_version_is_geq` by tools/py2lean.py on every run.
Python ints are unbounded, so `Int` is exact.  A fall-through (`None`) counts as
"not at least": the property speaks of what the helper *reports*, and `None` is falsy.
-/
import EmdGen.Version

namespace EmdProps

/-- Lexicographic `≥` on triples, written out (the specification). -/
def lexGe (c0 c1 c2 m0 m1 m2 : Int) : Prop :=
  c0 > m0 ∨ (c0 = m0 ∧ (c1 > m1 ∨ (c1 = m1 ∧ c2 ≥ m2)))

/-- C20, first clause, for ALL integer triples (in particular all non-negative ones). -/
theorem C20_lex (c0 c1 c2 m0 m1 m2 : Int) :
    EmdGen.versionIsGeq c0 c1 c2 m0 m1 m2 = true ↔ lexGe c0 c1 c2 m0 m1 m2 := by
  unfold EmdGen.versionIsGeq lexGe
  repeat' split
  all_goals simp_all
  all_goals omega

/-- `lexGe` really is the lexicographic order of `Prod.Lex`-style comparison: it is
    total and antisymmetric exactly as a linear order on triples must be
    (sanity lemmas so that the specification itself is not mis-stated). -/
theorem C20_spec_total (c0 c1 c2 m0 m1 m2 : Int) :
    lexGe c0 c1 c2 m0 m1 m2 ∨ lexGe m0 m1 m2 c0 c1 c2 := by
  unfold lexGe; omega

theorem C20_spec_antisymm (c0 c1 c2 m0 m1 m2 : Int)
    (h1 : lexGe c0 c1 c2 m0 m1 m2) (h2 : lexGe m0 m1 m2 c0 c1 c2) :
    c0 = m0 ∧ c1 = m1 ∧ c2 = m2 := by
  unfold lexGe at *; omega

theorem C20_spec_trans (a0 a1 a2 b0 b1 b2 c0 c1 c2 : Int)
    (h1 : lexGe a0 a1 a2 b0 b1 b2) (h2 : lexGe b0 b1 b2 c0 c1 c2) :
    lexGe a0 a1 a2 c0 c1 c2 := by
  unfold lexGe at *; omega

/-- The version the package writes is (1,0,·): it satisfies the helper against (1,0,0)
    whatever the release number (absent release is read as 0). -/
theorem C20_written_geq (r : Int) (hr : 0 ≤ r) : EmdGen.versionIsGeq 1 0 r 1 0 0 = true := by
  rw [C20_lex]; unfold lexGe; omega

-- non-vacuity / sanity instances
example : EmdGen.versionIsGeq 1 0 0 1 0 0 = true := by decide
example : EmdGen.versionIsGeq 0 9 9 1 0 0 = false := by decide
example : EmdGen.versionIsGeq 1 0 0 0 9 9 = true := by decide
example : EmdGen.versionIsGeq 1 2 3 1 2 4 = false := by decide

end EmdProps
