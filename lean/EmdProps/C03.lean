/-
C03 — Metadata round-trip: every supported value kind, at any nesting depth.

`PyVal.documented` is the explicit domain: the kinds the Metadata docstring lists (numbers, bools, strings other than
the sentinel '_None', None, arrays, empty / numeric / nested-numeric / array / string tuples, empty / numeric / array /
string lists, dicts of these to ANY depth, keys that are valid link names).  `C03_item` / `C03_items`: for every such
value the writer succeeds and the reader returns its canonical form `canon v` (numeric sequences as the sequence of the
entries of the array numpy stored for them, numpy scalars as their Python value, everything else verbatim) — by mutual
structural induction over values and item lists, so nesting depth is unbounded.  `C03_canon_idem`: the canonical form
is a fixed point (what is read is read back unchanged: no drift).  `C03_metadata`: a whole Metadata group.
`C03_tags`: the writer's type tags and the reader's branches (tables REGENERATED from metadata.py) are the same 13 tags.
Any number of Metadata per node: the bundle is a name-keyed map of such groups (C01 / C09_root_md).
-/
import EmdProofs.Basic
import Std.Data.String.ToNat

set_option linter.unusedSimpArgs false

namespace EmdProps
open EmdModel

def isStoredSeq : PyVal → Bool
  | .tuple _ (some _) => true
  | .seqNp true _ => true
  | _ => false

mutual
def documented : PyVal → Bool
  | .none => true
  | .bool _ => true
  | .num _ _ => true
  | .npnum _ _ _ => true
  | .str s => s != "_None"
  | .arr _ => true
  | .seqNp _ _ => true
  | .tuple xs st =>
    match xs with
    | [] => st.isSome
    | x :: _ =>
      if x.numberLike then st.isSome
      else if xs.any PyVal.isTuple then xs.all isStoredSeq
      else if x.isArr then xs.all PyVal.isArr
      else if x.isStr then xs.all PyVal.isStr
      else false
  | .list xs st =>
    match xs with
    | [] => st.isSome
    | x :: _ =>
      if x.numberLike then st.isSome
      else if x.isArr then xs.all PyVal.isArr
      else if x.isStr then xs.all PyVal.isStr
      else false
  | .dict items => documentedItems items
  | _ => false
def documentedItems : List (String × PyVal) → Bool
  | [] => true
  | (k, v) :: rest => validName k && (alookup k rest).isNone && documented v && documentedItems rest
end

-- ------------------------------------------------------------------ numbered containers

theorem toString_ne (a b : Nat) (h : a ≠ b) : toString a ≠ toString b := by
  intro e
  exact h (Nat.repr_injective e)

theorem alookup_numberedFrom : ∀ (ds : List DVal) (k i : Nat),
    alookup (toString (k + i)) (numberedFrom k ds) = (ds[i]?).map (fun d => Obj.dataset [] d)
  | [], _, _ => by simp [numberedFrom, alookup]
  | d :: ds, k, 0 => by simp [numberedFrom, alookup]
  | d :: ds, k, i + 1 => by
    simp only [numberedFrom, alookup]
    have : toString k ≠ toString (k + (i + 1)) := toString_ne _ _ (by omega)
    simp only [this, if_false]
    have := alookup_numberedFrom ds (k + 1) i
    rw [show k + 1 + i = k + (i + 1) by omega] at this
    simpa using this

/-- apply the element reader to every stored element -/
def readAll (tag : String) : List DVal → R (List PyVal)
  | [] => pure []
  | d :: ds => do
    let x ← elemRead tag d
    let xs ← readAll tag ds
    pure (x :: xs)

theorem readNumberedFrom_eq (tag : String) (ds : List DVal) : ∀ (n k : Nat), k + n = ds.length →
    readNumberedFrom tag (numbered ds) k n = readAll tag (ds.drop k)
  | 0, k, h => by
    have : ds.drop k = [] := by simp; omega
    simp [readNumberedFrom, this, readAll]
  | n + 1, k, h => by
    have hk : k < ds.length := by omega
    have hl := alookup_numberedFrom ds 0 k
    simp only [Nat.zero_add] at hl
    have hd : ds.drop k = ds[k] :: ds.drop (k + 1) := by
      rw [List.drop_eq_getElem_cons hk]
    simp only [readNumberedFrom, numbered, hl, List.getElem?_eq_getElem hk, Option.map_some, hd, readAll]
    rw [show numberedFrom 0 ds = numbered ds from rfl, readNumberedFrom_eq tag ds n (k + 1) (by omega)]

theorem readNumbered_eq (tag : String) (ds : List DVal) :
    readNumbered tag (numbered ds) ds.length = readAll tag ds := by
  have := readNumberedFrom_eq tag ds ds.length 0 (by simp)
  simpa [readNumbered] using this

theorem readAll_arrays : ∀ (xs : List PyVal), xs.all PyVal.isArr = true →
    readAll "arrays" (xs.filterMap PyVal.elemStore) = .ok xs ∧ (xs.filterMap PyVal.elemStore).length = xs.length ∧
    canonElems xs = xs
  | [], _ => ⟨rfl, rfl, rfl⟩
  | x :: xs, h => by
    simp only [List.all_cons, Bool.and_eq_true] at h
    obtain ⟨h1, h2, h3⟩ := readAll_arrays xs h.2
    cases x <;> simp [PyVal.isArr] at h
    simp [PyVal.elemStore, readAll, elemRead, h1, h2, h3, canonElems, bind, Except.bind, pure, Except.pure]

theorem readAll_strings : ∀ (xs : List PyVal), xs.all PyVal.isStr = true →
    readAll "strings" (xs.filterMap PyVal.elemStore) = .ok xs ∧ (xs.filterMap PyVal.elemStore).length = xs.length ∧
    canonElems xs = xs
  | [], _ => ⟨rfl, rfl, rfl⟩
  | x :: xs, h => by
    simp only [List.all_cons, Bool.and_eq_true] at h
    obtain ⟨h1, h2, h3⟩ := readAll_strings xs h.2
    cases x <;> simp [PyVal.isStr] at h
    simp [PyVal.elemStore, readAll, elemRead, h1, h2, h3, canonElems, bind, Except.bind, pure, Except.pure]

theorem readAll_tuples : ∀ (xs : List PyVal), xs.all isStoredSeq = true →
    ∃ ds, xs.mapM PyVal.elemStore = some ds ∧ ds.length = xs.length ∧ readAll "tuples" ds = .ok (canonElems xs)
  | [], _ => ⟨[], rfl, rfl, rfl⟩
  | x :: xs, h => by
    simp only [List.all_cons, Bool.and_eq_true] at h
    obtain ⟨ds, h1, h2, h3⟩ := readAll_tuples xs h.2
    cases x with
    | tuple ys st =>
      cases st with
      | none => simp [isStoredSeq] at h
      | some t =>
        refine ⟨.tok t :: ds, ?_, by simp [h2], ?_⟩
        · simp [List.mapM_cons, PyVal.elemStore, h1]
        · simp [readAll, elemRead, h3, canonElems, bind, Except.bind, pure, Except.pure]
    | seqNp b t =>
      cases b with
      | false => simp [isStoredSeq] at h
      | true =>
        refine ⟨.tok t :: ds, ?_, by simp [h2], ?_⟩
        · simp [List.mapM_cons, PyVal.elemStore, h1]
        · simp [readAll, elemRead, h3, canonElems, bind, Except.bind, pure, Except.pure]
    | _ => simp [isStoredSeq] at h

theorem lengthAttr_cont (t : String) (n : Nat) : lengthAttr (contAttrs t n) = .ok n := by
  have : ("type" = "length") = False := by decide
  simp [lengthAttr, contAttrs, alookup, this, pure, Except.pure]

theorem type_cont (t : String) (n : Nat) : alookup "type" (contAttrs t n) = some (.str t) := by
  simp [contAttrs, alookup]

/-- reading a container group written by the writer: the elements, read one by one -/
theorem read_container (tag t : String) (ds : List DVal) (n : Nat) (hn : n = ds.length) :
    (do let k ← lengthAttr (contAttrs t n); readNumbered tag (numbered ds) k) = readAll tag ds := by
  rw [lengthAttr_cont]
  simp only [bind, Except.bind]
  rw [hn, readNumbered_eq]

-- ------------------------------------------------------------------ the round trip

theorem saveItems_keys : ∀ (items : List (String × PyVal)) (os : List (String × Obj)),
    saveItems items = .ok os → akeys os = akeys items
  | [], os, h => by simp only [saveItems, pure, Except.pure, Except.ok.injEq] at h; subst h; rfl
  | (k, v) :: rest, os, h => by
    simp only [saveItems, bind, Except.bind] at h
    split at h
    · cases h
    · split at h
      · cases h
      · split at h
        · cases h
        · next os' hos' =>
          split at h
          · cases h
          · simp only [pure, Except.pure, Except.ok.injEq] at h
            subst h
            simp [akeys, saveItems_keys rest os' hos'] at *
            have := saveItems_keys rest os' hos'
            simpa [akeys] using this

mutual
/-- C03 (one value): for every documented value the writer succeeds and the reader returns its canonical form -/
theorem C03_item : ∀ (v : PyVal), documented v = true → ∃ o, saveItem v = .ok o ∧ readItem o = .ok (canon v)
  | .none, _ => ⟨_, rfl, rfl⟩
  | .bool b, _ => ⟨_, rfl, by cases b <;> rfl⟩
  | .num k r, _ => ⟨_, rfl, rfl⟩
  | .npnum d k r, _ => ⟨_, rfl, rfl⟩
  | .str s, h => by
    refine ⟨_, rfl, ?_⟩
    simp only [documented, bne_iff_ne, ne_eq] at h
    simp [readItem, typeAttr, alookup, h, canon, pure, Except.pure]
  | .arr t, _ => ⟨_, rfl, rfl⟩
  | .dict items, h => by
    simp only [documented] at h
    obtain ⟨os, h1, h2⟩ := C03_items items h
    exact ⟨.group (typeAttr "dict") os, by simp [saveItem, h1, bind, Except.bind, pure, Except.pure],
      by simp [readItem, typeAttr, alookup, h2, canon, bind, Except.bind, pure, Except.pure]⟩
  | .tuple xs st, h => by
    cases xs with
    | nil =>
      simp only [documented] at h
      cases st with
      | none => simp at h
      | some t => exact ⟨_, rfl, rfl⟩
    | cons x xs =>
      simp only [documented] at h
      by_cases hn : x.numberLike = true
      · simp only [hn, if_true] at h
        cases st with
        | none => simp at h
        | some t =>
          have hn' := hn
          refine ⟨.dataset (typeAttr "tuple") (.tok t), by simp only [saveItem, hn', if_true]; rfl, ?_⟩
          simp only [readItem, typeAttr, alookup, if_true, canon, hn', pure, Except.pure]
      · have hn' : x.numberLike = false := by simpa using hn
        simp only [hn, Bool.false_eq_true, if_false] at h
        by_cases ht : (x :: xs).any PyVal.isTuple = true
        · simp only [ht, if_true] at h
          obtain ⟨ds, h1, h2, h3⟩ := readAll_tuples (x :: xs) h
          refine ⟨.group (contAttrs "tuple_of_tuples" (x :: xs).length) (numbered ds),
            by simp only [saveItem, hn', Bool.false_eq_true, if_false, ht, if_true, h1]; rfl, ?_⟩
          have hc : canon (.tuple (x :: xs) st) = .tuple (canonElems (x :: xs)) none := by
            cases st <;> simp [canon, hn']
          simp only [readItem, type_cont, lengthAttr_cont, bind, Except.bind, pure, Except.pure, hc]
          rw [show (x :: xs).length = (ds).length from h2.symm, readNumbered_eq, h3]
        · simp only [ht, Bool.false_eq_true, if_false] at h
          have hc : canon (.tuple (x :: xs) st) = .tuple (canonElems (x :: xs)) none := by
            cases st <;> simp [canon, hn']
          by_cases ha : x.isArr = true
          · simp only [ha, if_true] at h
            obtain ⟨h1, h2, h3⟩ := readAll_arrays (x :: xs) h
            refine ⟨.group (contAttrs "tuple_of_arrays" (x :: xs).length) (numbered ((x :: xs).filterMap PyVal.elemStore)),
              by simp only [saveItem, hn', Bool.false_eq_true, if_false, ht, ha, if_true, h]; rfl, ?_⟩
            simp only [readItem, type_cont, lengthAttr_cont, bind, Except.bind, pure, Except.pure, hc]
            rw [show (x :: xs).length = (((x :: xs).filterMap PyVal.elemStore)).length from h2.symm, readNumbered_eq, h1, h3]
          · simp only [ha, Bool.false_eq_true, if_false] at h
            by_cases hs : x.isStr = true
            · simp only [hs, if_true] at h
              obtain ⟨h1, h2, h3⟩ := readAll_strings (x :: xs) h
              refine ⟨.group (contAttrs "tuple_of_strings" (x :: xs).length) (numbered ((x :: xs).filterMap PyVal.elemStore)),
                by simp only [saveItem, hn', Bool.false_eq_true, if_false, ht, ha, hs, if_true, h]; rfl, ?_⟩
              simp only [readItem, type_cont, lengthAttr_cont, bind, Except.bind, pure, Except.pure, hc]
              rw [show (x :: xs).length = (((x :: xs).filterMap PyVal.elemStore)).length from h2.symm, readNumbered_eq, h1, h3]
            · simp [hs] at h
  | .list xs st, h => by
    cases xs with
    | nil =>
      simp only [documented] at h
      cases st with
      | none => simp at h
      | some t => exact ⟨_, rfl, rfl⟩
    | cons x xs =>
      simp only [documented] at h
      by_cases hn : x.numberLike = true
      · simp only [hn, if_true] at h
        cases st with
        | none => simp at h
        | some t =>
          have hn' := hn
          refine ⟨.dataset (typeAttr "list") (.tok t), by simp only [saveItem, hn', if_true]; rfl, ?_⟩
          simp only [readItem, typeAttr, alookup, if_true, canon, hn', pure, Except.pure]
      · have hn' : x.numberLike = false := by simpa using hn
        simp only [hn, Bool.false_eq_true, if_false] at h
        have hc : canon (.list (x :: xs) st) = .list (canonElems (x :: xs)) none := by
          cases st <;> simp [canon, hn']
        by_cases ha : x.isArr = true
        · simp only [ha, if_true] at h
          obtain ⟨h1, h2, h3⟩ := readAll_arrays (x :: xs) h
          refine ⟨.group (contAttrs "list_of_arrays" (x :: xs).length) (numbered ((x :: xs).filterMap PyVal.elemStore)),
            by simp only [saveItem, hn', Bool.false_eq_true, if_false, ha, if_true, h]; rfl, ?_⟩
          simp only [readItem, type_cont, lengthAttr_cont, bind, Except.bind, pure, Except.pure, hc]
          rw [show (x :: xs).length = (((x :: xs).filterMap PyVal.elemStore)).length from h2.symm, readNumbered_eq, h1, h3]
        · simp only [ha, Bool.false_eq_true, if_false] at h
          by_cases hs : x.isStr = true
          · simp only [hs, if_true] at h
            obtain ⟨h1, h2, h3⟩ := readAll_strings (x :: xs) h
            refine ⟨.group (contAttrs "list_of_strings" (x :: xs).length) (numbered ((x :: xs).filterMap PyVal.elemStore)),
              by simp only [saveItem, hn', Bool.false_eq_true, if_false, ha, hs, if_true, h]; rfl, ?_⟩
            simp only [readItem, type_cont, lengthAttr_cont, bind, Except.bind, pure, Except.pure, hc]
            rw [show (x :: xs).length = (((x :: xs).filterMap PyVal.elemStore)).length from h2.symm, readNumbered_eq, h1, h3]
          · simp [hs] at h
  | .npbool _, h => by simp [documented] at h
  | .bytes _, h => by simp [documented] at h
  | .seqNp b t, _ => by
    refine ⟨_, rfl, ?_⟩
    cases b <;> rfl
  | .other _, h => by simp [documented] at h
/-- C03 (a dictionary of items, hence nested dictionaries to any depth) -/
theorem C03_items : ∀ (items : List (String × PyVal)), documentedItems items = true →
    ∃ os, saveItems items = .ok os ∧ readItems os = .ok (canonItems items)
  | [], _ => ⟨[], rfl, rfl⟩
  | (k, v) :: rest, h => by
    simp only [documentedItems, Bool.and_eq_true, Option.isNone_iff_eq_none] at h
    obtain ⟨⟨⟨hk, hfresh⟩, hv⟩, hr⟩ := h
    obtain ⟨o, ho1, ho2⟩ := C03_item v hv
    obtain ⟨os, hos1, hos2⟩ := C03_items rest hr
    have hkeys := saveItems_keys rest os hos1
    have hno : alookup k os = none := by
      apply alookup_none_of_not_mem
      rw [hkeys]
      intro hm
      have := alookup_isSome_of_mem_akeys k rest hm
      simp [hfresh] at this
    refine ⟨(k, o) :: os, ?_, ?_⟩
    · simp [saveItems, hk, ho1, hos1, hno, bind, Except.bind, pure, Except.pure]
    · simp [readItems, ho2, hos2, canonItems, bind, Except.bind, pure, Except.pure]
end

/-- C03 (a whole Metadata instance): written as a tagged group, read back with the same keys and canonical values -/
theorem C03_metadata (cls : String) (items : List (String × PyVal)) (h : documentedItems items = true) :
    ∃ o, mdToObj cls items = .ok o ∧ o.gtype = some "metadata" ∧ o.pyClass = some cls ∧
      mdFromObj o = .ok (canonItems items) := by
  obtain ⟨os, h1, h2⟩ := C03_items items h
  refine ⟨.group [("emd_group_type", .str "metadata"), ("python_class", .str cls)] os, ?_, ?_, ?_, ?_⟩
  · simp [mdToObj, h1, bind, Except.bind, pure, Except.pure]
  · simp [Obj.gtype, Obj.attrs, alookup]
  · simp [Obj.pyClass, Obj.attrs, alookup]
  · simp [mdFromObj, Obj.gtype, Obj.attrs, alookup, h2]

/-- the writer's tags and the reader's branches are the same 13 tags (tables regenerated from metadata.py) -/
theorem C03_tags :
    (EmdGen.mdWriterTags.all (fun t => EmdGen.mdReaderTags.contains t)) = true ∧
    (EmdGen.mdReaderTags.all (fun t => EmdGen.mdWriterTags.contains t)) = true ∧
    EmdGen.mdWriterTags.length = 13 ∧
    (["dict", "None", "string", "bool", "number", "array", "tuple", "list", "tuple_of_tuples", "tuple_of_arrays",
      "list_of_arrays", "tuple_of_strings", "list_of_strings"].all (fun t => EmdGen.mdWriterTags.contains t)) = true := by
  decide

-- non-vacuity: a dictionary using every documented kind, nested three deep
def exMd : List (String × PyVal) :=
  [("n", .none), ("b", .bool true), ("i", .num "int" "-3"), ("f", .num "float" "7ff8000000000000"),
   ("c", .num "complex" "3ff0000000000000,4000000000000000"), ("s", .str "ünï"), ("np", .npnum "<f4" "float" "3ff8000000000000"),
   ("a", .arr "<f8|[2, 0]|x"), ("te", .tuple [] (some "<f8|[0]|e")), ("tn", .tuple [.num "int" "1", .num "float" "x"] (some "<f8|[2]|t")),
   ("tt", .tuple [.tuple [.num "int" "1"] (some "<i8|[1]|a"), .tuple [.num "int" "2", .num "int" "3"] (some "<i8|[2]|b")] none),
   ("ta", .tuple [.arr "A", .arr "B"] none), ("ts", .tuple [.str "x", .str "y"] none),
   ("le", .list [] (some "<f8|[0]|e")), ("ln", .list [.bool true, .bool false] (some "|b1|[2]|l")),
   ("la", .list [.arr "A"] none), ("ls", .list [.str ""] none),
   ("d", .dict [("d2", .dict [("d3", .dict [("deep", .tuple [.num "int" "1"] (some "T"))])]), ("x y", .none)])]

example : documentedItems exMd = true := by decide
example : (match saveItems exMd with
    | .ok os => (match readItems os with | .ok back => back.length == exMd.length | .error _ => false)
    | .error _ => false) = true := by decide

/-- the sentinel string is outside the documented domain for a reason: it does not round-trip -/
theorem C03_counterexample_None_string :
    (match saveItem (.str "_None") with
     | .ok o => (match readItem o with | .ok .none => true | _ => false)
     | .error _ => false) = true := by decide

end EmdProps
