/-
C08 — Partial read returns exactly the selected part and never modifies the file.

`readSpec` is the specification of a read of tree path `p` with each tree option.  `C08_select`: for EVERY file `f`
in which the root group called `t.name` is `encode t` for a well-formed rooted tree `t` (one or several trees
in the file), and every node path `p` of `t`, `read` returns exactly `readSpec t p opt`: the node alone, the node
with its branch, or the branch below it, attached to a root with the file root's name and whole body (metadata);
each returned node is the node a full read yields at that position (`C01_read` returns `t` itself).
`C08_missing`: a path that does not resolve in the file is refused.  `read` has no store output in the model
(structural), and `C08_open_modes` shows on the table REGENERATED from the source that every `h5py.File(...)`
opened outside `write.py` uses mode 'r'.
-/
import EmdProps.C07

set_option linter.unusedSimpArgs false

namespace EmdProps
open EmdModel

def readSpec (t : Tree) (p : List String) (opt : TreeOpt) : Option ReadOut :=
  match p with
  | [] => some (match opt with
      | .no => .node (.mk t.info []) []
      | .below => .node t []
      | .yes =>
        match t.kids with
        | [k] => .node t [k.name]
        | [] =>
          (match mdEntries t.info with
          | [(n, o)] => .metadata n o
          | _ => .node (.mk t.info []) [])
        | _ => .node t [])
  | _ => (t.at p).map (fun d => match opt with
      | .no => .node (.mk t.info [.mk d.info []]) [d.name]
      | .yes => .node (.mk t.info [d]) [d.name]
      | .below => .node (.mk t.info d.kids) [])

theorem findKid_name (n : String) : ∀ (kids : List Tree) (c : Tree), findKid n kids = some c → c.name = n
  | [], c, h => by simp [findKid] at h
  | t :: ts, c, h => by
    simp only [findKid] at h
    split at h
    · next heq => cases h; exact heq
    · exact findKid_name n ts c h

theorem at_last_name : ∀ (p : List String) (t d : Tree), p ≠ [] → t.at p = some d → p.getLast? = some d.name
  | [], _, _, h, _ => absurd rfl h
  | n :: q, .mk i kids, d, _, hd => by
    simp only [Tree.at, Tree.kids_mk] at hd
    cases hf : findKid n kids with
    | none => simp [hf] at hd
    | some c =>
      simp only [hf] at hd
      cases q with
      | nil =>
        simp only [Tree.at] at hd
        have hn := findKid_name n kids c hf
        cases hd
        simp [hn]
      | cons a b =>
        have := at_last_name (a :: b) c d (by simp) hd
        simpa [List.getLast?_cons_cons] using this

theorem descend_encode : ∀ (p : List String) (t d : Tree), t.wf CT DT = true → t.at p = some d →
    descend (encode t) p = .ok (encode d)
  | [], t, d, _, h => by simp only [Tree.at] at h; cases h; simp [descend, pure, Except.pure]
  | n :: q, .mk i kids, d, hw, h => by
    simp only [Tree.wf, Bool.and_eq_true] at hw
    simp only [Tree.at, Tree.kids_mk] at h
    cases hf : findKid n kids with
    | none => simp [hf] at h
    | some c =>
      simp only [hf] at h
      obtain ⟨hcw, hnt, _⟩ := kidsWF_findKid n kids (akeys i.body) c hw.2 hf
      have hnb : alookup n i.body = none := alookup_none_of_not_mem n i.body hnt
      simp only [encode, descend, alookup_append, hnb, alookup_encodeKids n kids c hf]
      exact descend_encode q c d hcw h

theorem readSingleNode_encode (d : Tree) (h : d.wf CT DT = true) :
    readSingleNode CT DT d.name (encode d) = .ok d.info := by
  cases d with
  | mk i kids =>
    simp only [Tree.wf, Bool.and_eq_true] at h
    obtain ⟨hi, hk⟩ := h
    simp only [infoWF, Bool.and_eq_true, beq_iff_eq, List.contains_eq_mem, decide_eq_true_eq] at hi
    obtain ⟨⟨⟨_, hct⟩, hgts⟩, hb⟩ := hi
    have hbody := bodyOf_encode (ct := CT) (dt := DT) (nodeAttrs i) i.body kids (akeys i.body) hb hk
    simp only [encode, readSingleNode, pyClass_nodeAttrs, gtype_nodeAttrs, hct, Tree.name_mk, Tree.info_mk]
    simp [hgts, hbody, pure, Except.pure]

theorem populate_encode (d : Tree) (h : d.wf CT DT = true) :
    populateKids CT DT (encode d).kids = .ok d.kids := by
  cases d with
  | mk i kids =>
    simp only [Tree.wf, Bool.and_eq_true] at h
    obtain ⟨hi, hk⟩ := h
    simp only [infoWF, Bool.and_eq_true] at hi
    simp only [encode, Obj.kids, Tree.kids_mk]
    rw [populateKids_body _ _ hi.2]
    exact populateKids_encode kids (akeys i.body) hk

theorem metadata_not_data : DT.contains "metadata" = false := by decide

theorem readRoot_encode (t : Tree) (h : t.rootedWF CT DT = true) :
    readRoot DT t.name (encode t) = .ok t.info := by
  simp only [Tree.rootedWF, Bool.and_eq_true, beq_iff_eq] at h
  obtain ⟨⟨hwf, hcls⟩, hgt⟩ := h
  cases t with
  | mk i kids =>
    simp only [Tree.wf, Bool.and_eq_true] at hwf
    obtain ⟨hi, hk⟩ := hwf
    simp only [infoWF, Bool.and_eq_true, beq_iff_eq, List.contains_eq_mem, decide_eq_true_eq] at hi
    obtain ⟨⟨⟨_, _⟩, hgts⟩, hb⟩ := hi
    simp only [Tree.info_mk] at hcls hgt
    have hbody := bodyOf_encode (ct := CT) (dt := DT) (nodeAttrs i) i.body kids (akeys i.body) hb hk
    have hinfo : ({ name := i.name, cls := "Root", gtype := "root", body := i.body } : NodeInfo) = i := by
      cases i; simp_all
    simp only [encode, readRoot, gtype_nodeAttrs, Tree.name_mk, Tree.info_mk]
    simp [hgts, hbody, hinfo, pure, Except.pure]

/-- C08, selection: in any file whose root group `t.name` is the encoding of `t`, reading node path `p`
    returns exactly the specified selection -/
theorem C08_select (f : Obj) (t : Tree) (p : List String) (opt : TreeOpt) (r : ReadOut)
    (hf : alookup t.name f.kids = some (encode t)) (h : t.rootedWF CT DT = true)
    (hr : readSpec t p opt = some r) :
    readEMDAt CT DT f t.name p opt = .ok r := by
  have hroot := readRoot_encode t h
  have hwf : t.wf CT DT = true := by
    simp only [Tree.rootedWF, Bool.and_eq_true] at h; exact h.1.1
  cases p with
  | nil =>
    simp only [readSpec, Option.some.injEq] at hr
    subst hr
    have hpop := populate_encode t hwf
    simp only [readEMDAt, hf, descend, hroot, List.isEmpty_nil, bind, Except.bind, pure, Except.pure, if_true]
    cases opt with
    | no => rfl
    | below => simp only [hpop]; cases t; rfl
    | yes =>
      simp only [hpop]
      cases t with
      | mk i kids =>
        simp only [Tree.kids_mk, Tree.info_mk]
        cases kids with
        | nil =>
          simp only []
          generalize mdEntries i = m
          rcases m with _ | ⟨⟨n, o⟩, _ | ⟨_, _⟩⟩ <;> rfl
        | cons k ks => cases ks <;> rfl
  | cons n q =>
    simp only [readSpec, Option.map_eq_some_iff] at hr
    obtain ⟨d, hd, hr⟩ := hr
    subst hr
    have hdw := wf_at (n :: q) t d hwf hd
    have hdesc := descend_encode (n :: q) t d hwf hd
    have hlast := at_last_name (n :: q) t d (by simp) hd
    have hne : (d.info.gtype == "metadata") = false := by
      have h1 := hdw.2 (by simp)
      have h2 := metadata_not_data
      simp only [List.contains_eq_mem, decide_eq_true_eq, decide_eq_false_iff_not] at h1 h2
      simp only [beq_eq_false_iff_ne, ne_eq]
      intro heq; rw [heq] at h1; exact h2 h1
    simp only [readEMDAt, hf, hdesc, hroot, hlast, Option.getD_some, List.isEmpty_cons, bind, Except.bind,
      pure, Except.pure, Bool.false_eq_true, if_false]
    cases opt with
    | no =>
      simp only [readSingleNode_encode d hdw.1, hne, Bool.false_eq_true, if_false]
    | yes =>
      simp only [readNodeFull_encode d hdw.1, hne, Bool.false_eq_true, if_false]
    | below =>
      have hg : (encode d).isGroup = true := by cases d; rfl
      simp only [populate_encode d hdw.1, hg, Bool.not_true, Bool.false_eq_true, if_false]

/-- a path that does not resolve below the root group is refused, whatever the tree option -/
theorem C08_missing (f rootgroup : Obj) (rootname : String) (p : List String) (opt : TreeOpt) (e : Err)
    (hf : alookup rootname f.kids = some rootgroup) (hd : descend rootgroup p = .error e) :
    readEMDAt CT DT f rootname p opt = .error e := by
  simp only [readEMDAt, hf, hd, bind, Except.bind, pure, Except.pure]

/-- a missing root group is refused -/
theorem C08_missing_root (f : Obj) (rootname : String) (p : List String) (opt : TreeOpt)
    (hf : alookup rootname f.kids = none) :
    ∃ e, readEMDAt CT DT f rootname p opt = .error e := by
  simp only [readEMDAt, hf, bind, Except.bind, throw, throwThe, MonadExceptOf.throw]
  exact ⟨_, rfl⟩

/-- when the name is not a link of the group the descent fails (`assert name in keys`) -/
theorem C08_descend_fails (a : Attrs) (kids : List (String × Obj)) (n : String) (q : List String)
    (h : alookup n kids = none) : ∃ e, descend (.group a kids) (n :: q) = .error e := by
  simp only [descend, h, throw, throwThe, MonadExceptOf.throw]
  exact ⟨_, rfl⟩

/-- every `h5py.File(...)` call outside write.py opens the file read-only (table regenerated from the source) -/
theorem C08_open_modes :
    (EmdGen.fileOpens.all (fun e => e.1 == "write.py" || e.2.2 == "r")) = true := by decide

/-- the reader modules contain at least the opens the reader needs (the table is not empty by accident) -/
theorem C08_open_modes_nonvacuous :
    (EmdGen.fileOpens.any (fun e => e.1 == "read.py" && e.2.1 == "read" && e.2.2 == "r")) = true ∧
    (EmdGen.fileOpens.any (fun e => e.1 == "utils.py" && e.2.1 == "_is_EMD_file")) = true := by decide

-- non-vacuity
example : (readSpec exTree ["a b", "数据"] .yes).isSome = true := by decide
example : (match readEMDAt CT DT (fileOf {} "u" exTree) exTree.name ["a b", "数据"] .no with
    | .ok (.node r p) => r.kids.length == 1 && p == ["数据"] && r.name == exTree.name
    | _ => false) = true := by decide

end EmdProps
