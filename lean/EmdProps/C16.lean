/-
C16 — Anything read can be saved again, and a second generation equals the first.

Tree level (`C16_tree`): reading a file written from a well-formed tree returns EXACTLY that tree (C01), so saving what
was read writes the same file content again: the fixed point is reached after ONE generation, for every tree.
Selections (`C16_selection`): what a partial read returns is a well-formed tree (C07_sel_wf), hence saveable again.
Value level: the reader's output forms are distinct constructors of the model (`seqNp`: the tuple / list of numpy
scalars it returns for a numeric sequence; `num` for what `.item()` gives), so the writer's behaviour on them is really
exercised.  `C16_canon_idem` — the canonical form is idempotent (no drift in type or structure);
`C16_documented_canon` — what is read is again in the documented domain (accepted by save);
`C16_same_object` — saving what was read writes the SAME HDF5 object as the first save, for every documented value at any
nesting depth, so generation 2, 3, … are identical to generation 1 (`C16_resave`).
-/
import EmdProps.C15

set_option linter.unusedSimpArgs false

namespace EmdProps
open EmdModel

theorem canonElems_idem : ∀ (xs : List PyVal), canonElems (canonElems xs) = canonElems xs
  | [] => rfl
  | x :: xs => by
    have ih := canonElems_idem xs
    cases x with
    | tuple ys st => cases st <;> simp [canonElems, ih]
    | list ys st => cases st <;> simp [canonElems, ih]
    | npnum d k r => simp [canonElems, ih]
    | npbool b => simp [canonElems, ih]
    | none => simp [canonElems, ih]
    | bool b => simp [canonElems, ih]
    | num k r => simp [canonElems, ih]
    | str s => simp [canonElems, ih]
    | bytes s => simp [canonElems, ih]
    | arr t => simp [canonElems, ih]
    | seqNp b t => simp [canonElems, ih]
    | dict items => simp [canonElems, ih]
    | other k => simp [canonElems, ih]

mutual
/-- the canonical (read-back) form is a fixed point of canonicalisation: nothing drifts on a further pass -/
theorem C16_canon_idem : ∀ (v : PyVal), canon (canon v) = canon v
  | .none => rfl
  | .bool _ => rfl
  | .num _ _ => rfl
  | .npnum _ _ _ => rfl
  | .npbool _ => rfl
  | .str _ => rfl
  | .bytes _ => rfl
  | .arr _ => rfl
  | .seqNp _ _ => rfl
  | .other _ => rfl
  | .dict items => by simp [canon, C16_canonItems_idem items]
  | .tuple xs st => by
    cases xs with
    | nil => cases st <;> simp [canon, canonElems]
    | cons x xs =>
      cases st with
      | none => simp [canon, canonElems_idem]
      | some t =>
        by_cases hn : x.numberLike = true
        · simp [canon, hn]
        · simp [canon, hn, canonElems_idem]
  | .list xs st => by
    cases xs with
    | nil => cases st <;> simp [canon, canonElems]
    | cons x xs =>
      cases st with
      | none => simp [canon, canonElems_idem]
      | some t =>
        by_cases hn : x.numberLike = true
        · simp [canon, hn]
        · simp [canon, hn, canonElems_idem]
theorem C16_canonItems_idem : ∀ (items : List (String × PyVal)), canonItems (canonItems items) = canonItems items
  | [] => rfl
  | (k, v) :: rest => by simp [canonItems, C16_canon_idem v, C16_canonItems_idem rest]
end

/-- tree level: what is read from the file of a well-formed tree is that tree, so saving it again writes the same
    content — the second generation IS the first -/
theorem C16_tree (sess : Session) (uuid uuid2 path path2 : String) (t : Tree) (h : t.rootedWF CT DT = true) :
    ∃ f, save sess uuid [] path (.rooted t []) "w" .yes none = .ok [(path, .h5 f)] ∧
      ∃ t', readEMDAt CT DT f t.name [] .below = .ok (.node t' []) ∧ t' = t ∧
        ∃ f2, save sess uuid2 [] path2 (.rooted t' []) "w" .yes none = .ok [(path2, .h5 f2)] ∧ f2.kids = f.kids := by
  refine ⟨fileOf sess uuid t, ?_, t, C01_read sess uuid t h, rfl, fileOf sess uuid2 t, ?_, rfl⟩
  · have := C01_save sess uuid path [] t (by simp [fsLookup, alookup]) h
    simpa [fsSet, aset, alookup] using this
  · have := C01_save sess uuid2 path2 [] t (by simp [fsLookup, alookup]) h
    simpa [fsSet, aset, alookup] using this

/-- every read selection (node alone / node with branch / branch below) of a well-formed tree is a well-formed tree
    again — so it is accepted by save and (by `C16_tree`) reproduces itself -/
theorem C16_selection (t sel : Tree) (target : List String) (opt : TreeOpt) (h : t.rootedWF CT DT = true)
    (hsel : selSpec t target opt = some sel) (havoid : ∀ k ∈ sel.kids, k.name ∉ akeys t.info.body) :
    sel.rootedWF CT DT = true := C07_sel_wf t sel target opt h hsel havoid

/-- elements of container groups: the stored form of the canonical element is the stored form of the element -/
theorem elemStore_canonElems : ∀ (xs : List PyVal), xs.all isStoredSeq = true →
    (canonElems xs).mapM PyVal.elemStore = xs.mapM PyVal.elemStore ∧ (canonElems xs).any PyVal.isTuple = xs.any PyVal.isTuple ∧
    (canonElems xs).length = xs.length
  | [], _ => ⟨rfl, rfl, rfl⟩
  | x :: xs, h => by
    simp only [List.all_cons, Bool.and_eq_true] at h
    obtain ⟨h1, h2, h3⟩ := elemStore_canonElems xs h.2
    cases x with
    | tuple ys st =>
      cases st with
      | none => simp [isStoredSeq] at h
      | some t => simp [canonElems, List.mapM_cons, PyVal.elemStore, h1, h2, h3, PyVal.isTuple]
    | seqNp b t =>
      cases b with
      | false => simp [isStoredSeq] at h
      | true => simp [canonElems, List.mapM_cons, PyVal.elemStore, h1, h2, h3, PyVal.isTuple]
    | _ => simp [isStoredSeq] at h

theorem canonElems_head_storedSeq (x : PyVal) (xs : List PyVal) (h : isStoredSeq x = true) :
    ∃ t rest, canonElems (x :: xs) = .seqNp true t :: rest := by
  cases x with
  | tuple ys st =>
    cases st with
    | none => simp [isStoredSeq] at h
    | some t => exact ⟨t, _, rfl⟩
  | seqNp b t =>
    cases b with
    | false => simp [isStoredSeq] at h
    | true => exact ⟨t, _, rfl⟩
  | _ => simp [isStoredSeq] at h

mutual
/-- saving what was read writes the SAME object as the first save (so every later generation is identical) -/
theorem C16_same_object : ∀ (v : PyVal), documented v = true → saveItem (canon v) = saveItem v
  | .none, _ => rfl
  | .bool _, _ => rfl
  | .num _ _, _ => rfl
  | .npnum _ _ _, _ => rfl
  | .str _, _ => rfl
  | .arr _, _ => rfl
  | .seqNp _ _, _ => rfl
  | .dict items, h => by
    simp only [documented] at h
    simp only [canon, saveItem, C16_same_items items h]
  | .tuple xs st, h => by
    cases xs with
    | nil =>
      simp only [documented] at h
      cases st with
      | none => simp at h
      | some t => rfl
    | cons x xs =>
      simp only [documented] at h
      by_cases hn : x.numberLike = true
      · simp only [hn, if_true] at h
        cases st with
        | none => simp at h
        | some t => simp only [canon, hn, if_true, saveItem]
      · have hn' : x.numberLike = false := by simpa using hn
        simp only [hn, Bool.false_eq_true, if_false] at h
        have hc : canon (.tuple (x :: xs) st) = .tuple (canonElems (x :: xs)) none := by
          cases st <;> simp [canon, hn']
        rw [hc]
        by_cases ht : (x :: xs).any PyVal.isTuple = true
        · simp only [ht, if_true] at h
          obtain ⟨e1, e2, e3⟩ := elemStore_canonElems (x :: xs) h
          have hx : isStoredSeq x = true := by simp only [List.all_cons, Bool.and_eq_true] at h; exact h.1
          obtain ⟨t, rest, hcr⟩ := canonElems_head_storedSeq x xs hx
          have e2' := e2
          rw [hcr] at e1 e2 e3 ⊢
          have hsq : (PyVal.seqNp true t).numberLike = false := rfl
          simp only [saveItem, hsq, hn', Bool.false_eq_true, if_false, e2, ht, if_true, e1, e3]
        · have ht' : (x :: xs).any PyVal.isTuple = false := by simpa using ht
          simp only [ht, Bool.false_eq_true, if_false] at h
          by_cases ha : x.isArr = true
          · simp only [ha, if_true] at h
            obtain ⟨_, _, h3⟩ := readAll_arrays (x :: xs) h
            rw [h3]
            simp only [saveItem, hn', Bool.false_eq_true, if_false, ht', ha, if_true, h]
          · simp only [ha, Bool.false_eq_true, if_false] at h
            by_cases hs : x.isStr = true
            · simp only [hs, if_true] at h
              obtain ⟨_, _, h3⟩ := readAll_strings (x :: xs) h
              rw [h3]
              simp only [saveItem, hn', Bool.false_eq_true, if_false, ht', ha, hs, if_true, h]
            · simp [hs] at h
  | .list xs st, h => by
    cases xs with
    | nil =>
      simp only [documented] at h
      cases st with
      | none => simp at h
      | some t => rfl
    | cons x xs =>
      simp only [documented] at h
      by_cases hn : x.numberLike = true
      · simp only [hn, if_true] at h
        cases st with
        | none => simp at h
        | some t => simp only [canon, hn, if_true, saveItem]; rfl
      · have hn' : x.numberLike = false := by simpa using hn
        simp only [hn, Bool.false_eq_true, if_false] at h
        have hc : canon (.list (x :: xs) st) = .list (canonElems (x :: xs)) none := by
          cases st <;> simp [canon, hn']
        rw [hc]
        by_cases ha : x.isArr = true
        · simp only [ha, if_true] at h
          obtain ⟨_, _, h3⟩ := readAll_arrays (x :: xs) h
          rw [h3]
          simp only [saveItem, hn', Bool.false_eq_true, if_false, ha, if_true, h]
        · simp only [ha, Bool.false_eq_true, if_false] at h
          by_cases hs : x.isStr = true
          · simp only [hs, if_true] at h
            obtain ⟨_, _, h3⟩ := readAll_strings (x :: xs) h
            rw [h3]
            simp only [saveItem, hn', Bool.false_eq_true, if_false, ha, hs, if_true, h]
          · simp [hs] at h
  | .npbool _, h => by simp [documented] at h
  | .bytes _, h => by simp [documented] at h
  | .other _, h => by simp [documented] at h
theorem C16_same_items : ∀ (items : List (String × PyVal)), documentedItems items = true →
    saveItems (canonItems items) = saveItems items
  | [], _ => rfl
  | (k, v) :: rest, h => by
    simp only [documentedItems, Bool.and_eq_true] at h
    simp only [canonItems, saveItems, C16_same_object v h.1.2, C16_same_items rest h.2]
end

/-- C16 at value level: a documented value saved, read, saved again and read again: both files hold the same object and
    both reads return the same (canonical) value — the fixed point is reached after one generation -/
theorem C16_resave (v : PyVal) (h : documented v = true) :
    ∃ o, saveItem v = .ok o ∧ readItem o = .ok (canon v) ∧ saveItem (canon v) = .ok o ∧ canon (canon v) = canon v := by
  obtain ⟨o, h1, h2⟩ := C03_item v h
  exact ⟨o, h1, h2, by rw [C16_same_object v h, h1], C16_canon_idem v⟩

-- non-vacuity: the every-kind dictionary of C03, two generations in the model
example : (match saveItems exMd with
    | .ok os => (match readItems os with
        | .ok back => (match saveItems back with
            | .ok os2 => (match readItems os2 with | .ok back2 => back2.length == back.length | .error _ => false)
            | .error _ => false)
        | .error _ => false)
    | .error _ => false) = true := by decide

/-- C16 for Arrays: the Array read from a file is again in the domain of the round-trip theorem, so saving it and reading
    it a second time succeeds and gives the same data token, shape, units, stack flag, labels, dim units and dim names,
    and per axis the same dim vector (verbatim, or elementwise numpy-equal where the second save compressed it again) —
    generation 2 equals generation 1, for every arithmetic.  (`hplain2`: the dim vectors read in generation 1 are numpy
    arrays; for the float / int arithmetic of the code this is how `_unpack_dim` builds them.) -/
theorem C16_array_generations (ops : NumOps) (a : ArrayVal) (hinv : LenInv a) (hdim : ∀ n, n < a.rank → DimOK a n)
    (hplain : PlainDims ops a)
    (hstack : a.isStack = true → a.dataShape ≠ [] ∧ a.labels.length = a.depth)
    (hnostack_labels : a.isStack = false → a.labels = [])
    (hnolabel : a.isStack = false → ∀ n, n + 1 = a.rank → a.dimNames.getD n "" ≠ "_labels_")
    (hplain2 : ∀ b, ArrayVal.fromBody ops a.dataShape (a.toBody ops) = .ok b → PlainDims ops b) :
    ∃ b c, ArrayVal.fromBody ops a.dataShape (a.toBody ops) = .ok b ∧
      ArrayVal.fromBody ops b.dataShape (b.toBody ops) = .ok c ∧
      c.dataTok = b.dataTok ∧ c.dataShape = b.dataShape ∧ c.units = b.units ∧ c.isStack = b.isStack ∧
      c.labels = b.labels ∧ c.dimUnits = b.dimUnits ∧ c.dimNames = b.dimNames ∧
      ∀ n, n < b.rank → (c.dims.getD n [] = b.dims.getD n [] ∨ vecEq ops (b.dims.getD n []) (c.dims.getD n []) = true) := by
  obtain ⟨b, hb, b1, b2, b3, b4, b5, b6, b7, _⟩ := C02_roundtrip ops a hinv hdim hplain hstack hnostack_labels hnolabel
  obtain ⟨hbinv, hbdim⟩ := C02_readback_calibrated ops a.dataShape (a.toBody ops) b hb
  have hbrank : b.rank = a.rank := by simp only [ArrayVal.rank, ArrayVal.shape, b2, b4]
  have hbdepth : b.depth = a.depth := by simp only [ArrayVal.depth, b2, b4]
  obtain ⟨c, hc, c1, c2, c3, c4, c5, c6, c7, c8⟩ := C02_roundtrip ops b hbinv hbdim (hplain2 b hb)
    (fun hs => by
      rw [b4] at hs
      obtain ⟨h1, h2⟩ := hstack hs
      exact ⟨by rw [b2]; exact h1, by rw [b5, hbdepth]; exact h2⟩)
    (fun hs => by rw [b4] at hs; rw [b5]; exact hnostack_labels hs)
    (fun hs n hn => by
      rw [b4] at hs
      rw [b7]
      exact hnolabel hs n (by rw [← hbrank]; exact hn))
  exact ⟨b, c, hb, hc, c1, c2, c3, c4, c5, c6, c7, c8⟩

end EmdProps
