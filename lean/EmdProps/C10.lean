/-
C10 — Several trees in one file stay separate and individually readable.

`C10_frame`: EVERY save into an existing file (whole-root append, append-over, any targeted append with any tree
option and emdpath — the whole dispatch of write.py) either adds one new top-level group or rewrites exactly one
root group; every other top-level tree and the file header (incl. UUID) are literally unchanged.
`C10_new_tree`: appending a tree whose root name is not in the file adds exactly `encode t` under that name.
`C10_roots_*`: the set of root names afterwards.  `C10_read_list`: a read without a path on a file with >= 2 roots
reports exactly the root names.  `C10_list_roots`: a list of roots with distinct names saved into a fresh path gives
exactly one top-level tree per root, each the encoding of its source (so each is readable by `C08_select` and equal
to its source by `C01_read`).
-/
import EmdProps.C09

set_option linter.unusedSimpArgs false

namespace EmdProps
open EmdModel

theorem createIn_frame (f f' : Obj) (n : String) (o : Obj) (h : createIn f n o = .ok f') :
    f'.attrs = f.attrs ∧ ∀ other, other ≠ n → alookup other f'.kids = alookup other f.kids := by
  unfold createIn at h
  split at h
  · cases h
  · split at h
    · cases h
    · split at h
      · cases h
      · simp only [pure, Except.pure, Except.ok.injEq] at h
        subst h
        refine ⟨by cases f <;> rfl, fun other ho => ?_⟩
        cases f with
        | group a k =>
          simp only [Obj.setKids, Obj.kids, alookup_append, alookup_single]
          cases alookup other k with
          | some v => rfl
          | none => simp [Ne.symm ho]
        | dataset a v => rfl

/-- any append into an existing file touches at most one top-level link and never the header -/
theorem C10_frame (f f' : Obj) (root : Tree) (target : List String) (over : Bool) (opt : TreeOpt)
    (ep : Option String) (h : appendInto DT f root target over opt ep = .ok f') :
    f'.attrs = f.attrs ∧ ∃ touched, ∀ other, other ≠ touched → alookup other f'.kids = alookup other f.kids := by
  unfold appendInto at h
  split at h
  · -- a new tree: `_write_from_root` ends with one `create_group` in the file
    unfold writeFromRoot at h
    simp only [bind, Except.bind] at h
    split at h
    · cases h
    · next filled _ =>
      have := createIn_frame f f' root.name filled h
      exact ⟨this.1, root.name, this.2⟩
  · simp only [bind, Except.bind] at h
    split at h
    · cases h
    · next res _ =>
      simp only [pure, Except.pure, Except.ok.injEq] at h
      subst h
      refine ⟨by cases f <;> rfl, res.1, fun other ho => ?_⟩
      cases f with
      | group a k => simp only [Obj.setKids, Obj.kids, alookup_areplace_other _ _ _ _ ho]
      | dataset a v => rfl

/-- the same through `save`: whatever is saved into an existing EMD file, all other paths of the file system, the
    header and all but one top-level tree of the file are unchanged -/
theorem C10_frame_save (fs fs' : FS) (path : String) (f : Obj) (root : Tree) (target : List String)
    (over : Bool) (opt : TreeOpt) (ep : Option String)
    (h : saveAppend fs path (.h5 f) root target over opt ep = .ok fs') :
    ∃ f', fs' = fsSet fs path (.h5 f') ∧ f'.attrs = f.attrs ∧
      ∃ touched, ∀ other, other ≠ touched → alookup other f'.kids = alookup other f.kids := by
  unfold saveAppend at h
  simp only at h
  split at h
  · cases h
  · simp only [bind, Except.bind] at h
    split at h
    · cases h
    · next f' hf' =>
      simp only [pure, Except.pure, Except.ok.injEq] at h
      exact ⟨f', h.symm, C10_frame f f' root target over opt ep hf'⟩

/-- appending a well-formed tree whose root name is not in the file adds exactly its encoding -/
theorem C10_new_tree (a : Attrs) (roots : List (String × Obj)) (t : Tree) (over : Bool)
    (h : t.rootedWF CT DT = true) (hfresh : alookup t.name roots = none)
    (hnot : (rootGroups (.group a roots)).contains t.name = false) :
    appendInto DT (.group a roots) t [] over .yes none = .ok (.group a (roots ++ [(t.name, encode t)])) := by
  simp only [Tree.rootedWF, Bool.and_eq_true, beq_iff_eq] at h
  obtain ⟨⟨hwf, _⟩, hgt⟩ := h
  have hv : validName t.name = true := infoWF_validName (Tree.wf_info hwf)
  have hw := writeNodeFull_ok (ct := CT) (dt := DT) t hwf
  cases t with
  | mk i k =>
    simp only [Tree.info_mk] at hgt
    simp only [writeNodeFull] at hw
    simp only [Tree.name_mk] at hv hfresh hnot
    unfold appendInto
    simp only [Tree.name_mk, hnot, Bool.not_false, Option.isNone_none, Bool.and_self, if_true]
    unfold writeFromRoot rootFilled
    simp only [Tree.info_mk, rootgroup_eq i hgt, writeTree, Tree.kids_mk, hw, bind, Except.bind, Tree.name_mk]
    rw [createIn_fresh _ _ _ _ hv hfresh]

theorem rootGroups_append (a : Attrs) (roots : List (String × Obj)) (n : String) (o : Obj)
    (h : o.gtype = some "root") :
    rootGroups (.group a (roots ++ [(n, o)])) = rootGroups (.group a roots) ++ [n] := by
  simp [rootGroups, Obj.kids, List.filter_append, h]

/-- after `C10_new_tree` the file has exactly one more root, the new one -/
theorem C10_roots_new (a : Attrs) (roots : List (String × Obj)) (t : Tree) (h : t.info.gtype = "root") :
    rootGroups (.group a (roots ++ [(t.name, encode t)])) = rootGroups (.group a roots) ++ [t.name] := by
  apply rootGroups_append
  cases t with
  | mk i k => simp only [Tree.info_mk] at h; simp [encode, h]

/-- after `C09_union` (append into an existing root) the set of roots is unchanged -/
theorem C10_roots_same (a : Attrs) (roots : List (String × Obj)) (F T' : Tree)
    (hold : alookup F.name roots = some (encode F)) (hg : T'.info.gtype = F.info.gtype) :
    rootGroups (.group a (areplace F.name (encode T') roots)) = rootGroups (.group a roots) := by
  apply rootGroups_areplace a roots F.name (encode T') (encode F) hold
  cases F; cases T'; simp_all [encode]

/-- a read without a path on a file holding several trees reports exactly their root names -/
theorem C10_read_list (f : Obj) (opt : TreeOpt) (r1 r2 : String) (rest : List String)
    (h : rootGroups f = r1 :: r2 :: rest) :
    readEMD CT DT f none opt = .ok (.rootnames (r1 :: r2 :: rest)) := by
  simp [readEMD, h, pure, Except.pure]

/-- the top-level groups written by saving a list of trees one after the other -/
def encodeRoots : List Tree → List (String × Obj)
  | [] => []
  | t :: ts => (t.name, encode t) :: encodeRoots ts

/-- distinct root names, all well-formed -/
def rootsWF : List String → List Tree → Bool
  | _, [] => true
  | taken, t :: ts => !taken.contains t.name && t.rootedWF CT DT && rootsWF (t.name :: taken) ts

theorem rootGroups_encodeRoots (a : Attrs) : ∀ (ts : List Tree) (taken : List String), rootsWF taken ts = true →
    rootGroups (.group a (encodeRoots ts)) = ts.map Tree.name
  | [], _, _ => rfl
  | t :: ts, taken, h => by
    simp only [rootsWF, Bool.and_eq_true] at h
    have hg : (encode t).gtype = some "root" := by
      have := h.1.2
      simp only [Tree.rootedWF, Bool.and_eq_true, beq_iff_eq] at this
      cases t with
      | mk i k => simp only [Tree.info_mk] at this; simp [encode, this.2]
    have ih := rootGroups_encodeRoots a ts _ h.2
    simp only [rootGroups, Obj.kids] at ih ⊢
    simp [encodeRoots, List.filter_cons, hg, ih]

theorem alookup_encodeRoots_none : ∀ (ts : List Tree) (n : String), n ∉ ts.map Tree.name →
    alookup n (encodeRoots ts) = none
  | [], _, _ => rfl
  | t :: ts, n, h => by
    simp only [List.map_cons, List.mem_cons, not_or] at h
    have : t.name ≠ n := fun e => h.1 e.symm
    simp only [encodeRoots, alookup, this, if_false]
    exact alookup_encodeRoots_none ts n h.2

theorem rootsWF_names_not_taken : ∀ (ts : List Tree) (taken : List String), rootsWF taken ts = true →
    ∀ n, n ∈ ts.map Tree.name → n ∉ taken
  | [], _, _, n, hn => by simp at hn
  | t :: ts, taken, h, n, hn => by
    simp only [rootsWF, Bool.and_eq_true, Bool.not_eq_true', List.contains_eq_mem, decide_eq_false_iff_not] at h
    simp only [List.map_cons, List.mem_cons] at hn
    cases hn with
    | inl e => rw [e]; exact h.1.1
    | inr e =>
      have := rootsWF_names_not_taken ts _ h.2 n e
      exact fun hm => this (List.mem_cons_of_mem _ hm)

/-- saving well-formed trees with distinct root names one after the other by whole-root appends into a file that
    already holds the encodings `done` gives the encodings of all of them, in order: exactly one top-level tree
    per root, each equal to the encoding of its source -/
theorem C10_append_all (a : Attrs) (over : Bool) : ∀ (ts done : List Tree) (taken : List String),
    rootsWF taken ts = true → (∀ n, n ∈ done.map Tree.name → n ∈ taken) → rootsWF [] done = true →
    ts.foldlM (fun f t => appendInto DT f t [] over .yes none) (.group a (encodeRoots done))
      = .ok (.group a (encodeRoots (done ++ ts)))
  | [], done, _, _, _, _ => by simp [List.foldlM, pure, Except.pure]
  | t :: ts, done, taken, h, hd, hdone => by
    simp only [rootsWF, Bool.and_eq_true, Bool.not_eq_true', List.contains_eq_mem, decide_eq_false_iff_not] at h
    obtain ⟨⟨hfresh, htw⟩, hrest⟩ := h
    have hnotin : t.name ∉ done.map Tree.name := fun hm => hfresh (hd _ hm)
    have hlook := alookup_encodeRoots_none done t.name hnotin
    have hrg : (rootGroups (.group a (encodeRoots done))).contains t.name = false := by
      rw [rootGroups_encodeRoots a done [] hdone]
      simpa using hnotin
    have hstep := C10_new_tree a (encodeRoots done) t over htw hlook hrg
    have henc : encodeRoots done ++ [(t.name, encode t)] = encodeRoots (done ++ [t]) := by
      clear hstep hrg hlook hnotin hdone hd
      induction done with
      | nil => rfl
      | cons x xs ih => simp [encodeRoots, ih]
    simp only [List.foldlM, hstep, bind, Except.bind, henc]
    have hdone' : rootsWF [] (done ++ [t]) = true := by
      clear hstep hrg hlook henc
      have key : ∀ (ds : List Tree) (tk : List String), rootsWF tk ds = true → t.name ∉ tk →
          t.name ∉ ds.map Tree.name → rootsWF tk (ds ++ [t]) = true := by
        intro ds
        induction ds with
        | nil => intro tk _ h1 _; simp [rootsWF, h1, htw]
        | cons x xs ih =>
          intro tk hx h1 h2
          simp only [rootsWF, Bool.and_eq_true] at hx
          simp only [List.map_cons, List.mem_cons, not_or] at h2
          simp only [List.cons_append, rootsWF, Bool.and_eq_true]
          refine ⟨hx.1, ih _ hx.2 ?_ h2.2⟩
          simp only [List.mem_cons, not_or]
          exact ⟨h2.1, h1⟩
      exact key done [] hdone (by simp) hnotin
    have := C10_append_all a over ts (done ++ [t]) (t.name :: taken) hrest (fun n hn => by
      simp only [List.map_append, List.mem_append, List.map_cons, List.map_nil, List.mem_singleton] at hn
      cases hn with
      | inl e => exact List.mem_cons_of_mem _ (hd n e)
      | inr e => simp [e]) hdone'
    simpa [List.append_assoc] using this

/-- every tree of such a file is individually readable and equal to its source -/
theorem C10_each_readable (a : Attrs) (ts : List Tree) (t : Tree) (h : rootsWF [] ts = true) (ht : t ∈ ts) :
    readEMDAt CT DT (.group a (encodeRoots ts)) t.name [] .below = .ok (.node t []) := by
  have key : ∀ (l : List Tree) (tk : List String), rootsWF tk l = true → t ∈ l →
      alookup t.name (encodeRoots l) = some (encode t) ∧ t.rootedWF CT DT = true := by
    intro l
    induction l with
    | nil => intro _ _ hm; simp at hm
    | cons x xs ih =>
      intro tk hx hm
      simp only [rootsWF, Bool.and_eq_true, Bool.not_eq_true', List.contains_eq_mem, decide_eq_false_iff_not] at hx
      simp only [List.mem_cons] at hm
      by_cases hxt : x.name = t.name
      · cases hm with
        | inl e => subst e; exact ⟨by simp [encodeRoots, alookup], hx.1.2⟩
        | inr e =>
          exfalso
          have := rootsWF_names_not_taken xs _ hx.2 t.name (List.mem_map_of_mem e)
          exact this (by simp [hxt])
      · cases hm with
        | inl e => exact absurd (e ▸ rfl) hxt
        | inr e =>
          have := ih _ hx.2 e
          exact ⟨by simp [encodeRoots, alookup, hxt, this.1], this.2⟩
  obtain ⟨hl, hw⟩ := key ts [] h ht
  exact C08_select (.group a (encodeRoots ts)) t [] .below (.node t []) hl hw (by simp [readSpec])

/-! ## Lists through the public entry point -/

theorem classify_a : classifyMode (effectiveMode "a" none) = some .append := by decide

theorem alookup_aset_same' {β : Type} (k : String) (v : β) (l : List (String × β)) : alookup k (aset k v l) = some v := by
  unfold aset
  cases h : alookup k l with
  | none => simp only []; rw [alookup_append, h]; simp [alookup]
  | some w => simp only []; exact alookup_areplace_same k v l (by simp [h])

theorem areplace_areplace {β : Type} (k : String) (v w : β) : ∀ (l : List (String × β)),
    areplace k v (areplace k w l) = areplace k v l
  | [] => rfl
  | (k', x) :: r => by
    simp only [areplace]
    by_cases hk : k' = k
    · simp [hk, areplace]
    · simp [hk, areplace, areplace_areplace k v w r]

theorem areplace_append_new {β : Type} (k : String) (v w : β) : ∀ (l : List (String × β)), alookup k l = none →
    areplace k v (l ++ [(k, w)]) = l ++ [(k, v)]
  | [], _ => by simp [areplace]
  | (k', x) :: r, h => by
    simp only [alookup] at h
    split at h
    · cases h
    · next hne => simp [areplace, hne, areplace_append_new k v w r h]

theorem aset_aset {β : Type} (k : String) (v w : β) (l : List (String × β)) : aset k v (aset k w l) = aset k v l := by
  have h1 := alookup_aset_same' k w l
  unfold aset at h1 ⊢
  cases h : alookup k l with
  | none =>
    simp only [h] at h1 ⊢
    simp only [h1]
    exact areplace_append_new k v w l h
  | some x =>
    simp only [h] at h1 ⊢
    simp only [h1]
    exact areplace_areplace k v w l

theorem fsLookup_fsSet (fs : FS) (p : String) (x : FileState) : fsLookup (fsSet fs p x) p = some x :=
  alookup_aset_same' p x fs

theorem fsSet_fsSet (fs : FS) (p : String) (x y : FileState) : fsSet (fsSet fs p x) p y = fsSet fs p y := aset_aset p y x fs

theorem areplace_self {β : Type} (k : String) (v : β) : ∀ (l : List (String × β)), alookup k l = some v → areplace k v l = l
  | [], h => by simp [alookup] at h
  | (k', x) :: r, h => by
    simp only [alookup] at h
    simp only [areplace]
    split at h
    · next e => cases h; simp [e]
    · next hne => simp [hne, areplace_self k v r h]

theorem rootsWF_append : ∀ (done : List Tree) (tk : List String) (t : Tree), rootsWF tk done = true →
    t.rootedWF CT DT = true → t.name ∉ tk → t.name ∉ done.map Tree.name → rootsWF tk (done ++ [t]) = true
  | [], tk, t, _, hw, h1, _ => by
    simp only [List.nil_append, rootsWF, Bool.and_eq_true, Bool.not_eq_true', List.contains_eq_mem, decide_eq_false_iff_not]
    exact ⟨⟨h1, hw⟩, trivial⟩
  | x :: xs, tk, t, h, hw, h1, h2 => by
    simp only [rootsWF, Bool.and_eq_true, Bool.not_eq_true', List.contains_eq_mem, decide_eq_false_iff_not] at h
    simp only [List.map_cons, List.mem_cons, not_or] at h2
    simp only [List.cons_append, rootsWF, Bool.and_eq_true, Bool.not_eq_true', List.contains_eq_mem, decide_eq_false_iff_not]
    refine ⟨h.1, rootsWF_append xs (x.name :: tk) t h.2 hw ?_ h2.2⟩
    simp only [List.mem_cons, not_or]
    exact ⟨h2.1, h1⟩

/-- the first tree of a list creates the file (mode 'a' on a path that does not exist) -/
theorem save_first (sess : Session) (uuid path : String) (fs : FS) (t : Tree) (hfree : fsLookup fs path = none)
    (h : t.rootedWF CT DT = true) :
    save sess uuid fs path (.rooted t []) "a" .yes none
      = .ok (fsSet fs path (.h5 (.group (headerAttrs sess uuid) (encodeRoots [t])))) := by
  simp only [save, classify_a, saveClass, hfree, Src.resolve, saveNewFile, writeFromRoot_whole _ t h, encodeRoots,
    bind, Except.bind, pure, Except.pure]

/-- every further tree with a new root name is appended as one more top-level group -/
theorem save_next (sess : Session) (uuid u0 path : String) (fs : FS) (done : List Tree) (t : Tree) (taken : List String)
    (hdone : rootsWF [] done = true) (hne : done ≠ []) (ht : rootsWF taken [t] = true)
    (htk : ∀ n, n ∈ done.map Tree.name → n ∈ taken)
    (hfile : fsLookup fs path = some (.h5 (.group (headerAttrs sess u0) (encodeRoots done)))) :
    save sess uuid fs path (.rooted t []) "a" .yes none
      = .ok (fsSet fs path (.h5 (.group (headerAttrs sess u0) (encodeRoots (done ++ [t]))))) := by
  have hrg := rootGroups_encodeRoots (headerAttrs sess u0) done [] hdone
  have h1 : alookup "emd_group_type" (headerAttrs sess u0) = some (.str "file") := by simp [headerAttrs, alookup]
  have h2 : alookup "version_major" (headerAttrs sess u0) = some (.int 1) := by simp [headerAttrs, alookup]
  have h3 : alookup "version_minor" (headerAttrs sess u0) = some (.int 0) := by simp [headerAttrs, alookup]
  have hemd : isEMDFile (.group (headerAttrs sess u0) (encodeRoots done)) = true := by
    simp only [isEMDFile, hrg, Obj.attrs, h1, h2, h3, beq_self_eq_true, Bool.true_and, Bool.not_eq_true',
      List.isEmpty_eq_false_iff, ne_eq, List.map_eq_nil_iff]
    exact hne
  have happ := C10_append_all (headerAttrs sess u0) false [t] done taken ht htk hdone
  simp only [List.foldlM, bind, Except.bind, pure, Except.pure] at happ
  have happ' : appendInto DT (.group (headerAttrs sess u0) (encodeRoots done)) t [] false .yes none
      = .ok (.group (headerAttrs sess u0) (encodeRoots (done ++ [t]))) := by
    cases hx : appendInto DT (.group (headerAttrs sess u0) (encodeRoots done)) t [] false .yes none with
    | error e => simp [hx] at happ
    | ok v => simp only [hx] at happ; exact happ
  simp only [save, classify_a, saveClass, hfile, Src.resolve, saveAppend, hemd, happ', bind, Except.bind, pure, Except.pure,
    Bool.not_true, Bool.false_eq_true, if_false]

/-- the loop over the whole roots of a list, once the file exists -/
theorem save_rest (sess : Session) (uuid u0 path : String) : ∀ (ts done : List Tree) (taken : List String) (fs : FS),
    rootsWF [] done = true → done ≠ [] → rootsWF taken ts = true → (∀ n, n ∈ done.map Tree.name → n ∈ taken) →
    fsLookup fs path = some (.h5 (.group (headerAttrs sess u0) (encodeRoots done))) →
    ts.foldlM (fun fs r => save sess uuid fs path (.rooted r []) "a" .yes none) fs
      = .ok (fsSet fs path (.h5 (.group (headerAttrs sess u0) (encodeRoots (done ++ ts)))))
  | [], done, _, fs, _, _, _, _, hfile => by
    simp only [List.foldlM, pure, Except.pure, List.append_nil]
    -- nothing to do: the file is what it is
    congr 1
    unfold fsLookup at hfile
    unfold fsSet aset
    rw [hfile]
    exact (areplace_self path _ fs hfile).symm
  | t :: ts, done, taken, fs, hdone, hne, hts, htk, hfile => by
    simp only [rootsWF, Bool.and_eq_true, Bool.not_eq_true', List.contains_eq_mem, decide_eq_false_iff_not] at hts
    obtain ⟨⟨hfresh, htw⟩, hrest⟩ := hts
    have ht1 : rootsWF taken [t] = true := by
      simp only [rootsWF, Bool.and_eq_true, Bool.not_eq_true', List.contains_eq_mem, decide_eq_false_iff_not]
      exact ⟨⟨hfresh, htw⟩, trivial⟩
    have h1 := save_next sess uuid u0 path fs done t taken hdone hne ht1 htk hfile
    have hdone' : rootsWF [] (done ++ [t]) = true := rootsWF_append done [] t hdone htw (by simp) (fun hm => hfresh (htk _ hm))
    have ih := save_rest sess uuid u0 path ts (done ++ [t]) (t.name :: taken) (fsSet fs path (.h5 (.group (headerAttrs sess u0) (encodeRoots (done ++ [t])))))
      hdone' (by simp) hrest (fun n hn => by
        simp only [List.map_append, List.mem_append, List.map_cons, List.map_nil, List.mem_singleton] at hn
        cases hn with
        | inl e => exact List.mem_cons_of_mem _ (htk n e)
        | inr e => simp [e]) (fsLookup_fsSet _ _ _)
    simp only [List.foldlM, h1, bind, Except.bind]
    rw [ih, fsSet_fsSet, List.append_assoc]
    rfl

/-- list items that are not nodes of other trees: Roots, unrooted nodes, arrays, dicts -/
def plainItem : Item → Bool
  | .rooted _ _ _ => false
  | .other => false
  | _ => true

theorem rootedRoots_plain : ∀ (items : List Item) (acc : List (String × Nat × Tree)), items.all plainItem = true →
    items.foldlM rootedStep acc = some acc
  | [], acc, _ => rfl
  | x :: xs, acc, h => by
    simp only [List.all_cons, Bool.and_eq_true] at h
    cases x with
    | rooted a b c => simp [plainItem] at h
    | root t => simp only [List.foldlM, rootedStep]; exact rootedRoots_plain xs acc h.2
    | unrooted n => simp only [List.foldlM, rootedStep]; exact rootedRoots_plain xs acc h.2
    | array b => simp only [List.foldlM, rootedStep]; exact rootedRoots_plain xs acc h.2
    | dict e => simp only [List.foldlM, rootedStep]; exact rootedRoots_plain xs acc h.2
    | other => simp only [List.foldlM, rootedStep]; exact rootedRoots_plain xs acc h.2

theorem no_rooted_plain : ∀ (items : List Item), items.all plainItem = true →
    items.filterMap Item.asRooted = []
  | [], _ => rfl
  | x :: xs, h => by
    simp only [List.all_cons, Bool.and_eq_true] at h
    cases x with
    | rooted a b c => simp [plainItem] at h
    | root t => simp only [List.filterMap_cons, Item.asRooted]; exact no_rooted_plain xs h.2
    | unrooted n => simp only [List.filterMap_cons, Item.asRooted]; exact no_rooted_plain xs h.2
    | array b => simp only [List.filterMap_cons, Item.asRooted]; exact no_rooted_plain xs h.2
    | dict e => simp only [List.filterMap_cons, Item.asRooted]; exact no_rooted_plain xs h.2
    | other => simp only [List.filterMap_cons, Item.asRooted]; exact no_rooted_plain xs h.2

theorem no_other_plain : ∀ (items : List Item), items.all plainItem = true →
    items.any Item.isOther = false
  | [], _ => rfl
  | x :: xs, h => by
    simp only [List.all_cons, Bool.and_eq_true] at h
    cases x with
    | other => simp [plainItem] at h
    | rooted a b c => simp [plainItem] at h
    | root t => simp only [List.any_cons, Item.isOther, Bool.false_or]; exact no_other_plain xs h.2
    | unrooted n => simp only [List.any_cons, Item.isOther, Bool.false_or]; exact no_other_plain xs h.2
    | array b => simp only [List.any_cons, Item.isOther, Bool.false_or]; exact no_other_plain xs h.2
    | dict e => simp only [List.any_cons, Item.isOther, Bool.false_or]; exact no_other_plain xs h.2

/-- C10, lists through `emdfile.save(path, [...])`: a list of Roots, unrooted nodes, arrays and dicts saved to a fresh
    path produces a file with the header and exactly one top-level tree per root — the shared root of the unrooted items
    first, then the given Roots whole, each the encoding of its source (so each is individually readable and equal to it,
    `C10_each_readable`, and a read without a path reports exactly these names, `C10_read_list`) -/
theorem C10_save_list (sess : Session) (uuid path : String) (fs : FS) (items : List Item)
    (hplain : items.all plainItem = true) (hfree : fsLookup fs path = none)
    (hwf : rootsWF [] (listRoots items) = true) (hne : listRoots items ≠ []) :
    saveInput sess uuid fs path (.list items) "w" .yes none
      = .ok (fsSet fs path (.h5 (.group (headerAttrs sess uuid) (encodeRoots (listRoots items))))) := by
  have hfold : ∀ (roots : List Tree), rootsWF [] roots = true → roots ≠ [] →
      roots.foldlM (fun fs r => save sess uuid fs path (.rooted r []) "a" .yes none) fs
        = .ok (fsSet fs path (.h5 (.group (headerAttrs sess uuid) (encodeRoots roots)))) := by
    intro roots hw hn
    cases roots with
    | nil => exact absurd rfl hn
    | cons t ts =>
      simp only [rootsWF, Bool.and_eq_true] at hw
      have h1 := save_first sess uuid path fs t hfree hw.1.2
      have hd : rootsWF [] [t] = true := by
        simp only [rootsWF, Bool.and_eq_true]; exact ⟨⟨by simp, hw.1.2⟩, trivial⟩
      have h2 := save_rest sess uuid uuid path ts [t] [t.name] _ hd (by simp) hw.2 (by simp) (fsLookup_fsSet fs path _)
      simp only [List.foldlM, h1, bind, Except.bind]
      rw [h2, fsSet_fsSet]
      rfl
  have hf := hfold (listRoots items) hwf hne
  simp only [saveInput, classify_w, hfree, Option.isSome_none, Bool.and_false, Bool.false_eq_true, if_false, saveList,
    no_other_plain items hplain, rootedRoots, rootedRoots_plain items [] hplain, no_rooted_plain items hplain, List.foldlM,
    bind, Except.bind, pure, Except.pure, hf]

theorem classify_ao_ep (ep : String) : classifyMode (effectiveMode "ao" (some ep)) = some .appendover := by
  have h1 : effectiveMode "ao" (some ep) = "ao" := by
    have : EmdGen.appendOverModes.contains "ao" = true := by decide
    simp only [effectiveMode, Option.isSome_some, this, Bool.not_true, Bool.and_false, Bool.false_eq_true, if_false]
  rw [h1]; decide

/-- C10, a rooted list item: the third phase of `save(path, [..., node, ...])` writes each rooted node ALONE under the
    copy of its root, by `save(node, mode='ao', tree=False, emdpath=<root name>)`.  Through the public entry point: the
    root group of that name gains exactly the node (without its branch) as a new last child; everything else in the file
    and in the file system is untouched. -/
theorem C10_rooted_item (sess : Session) (uuid path : String) (fs : FS) (f : Obj) (F Rt D : Tree)
    (body' : List (String × Obj)) (m : String)
    (hfs : fsLookup fs path = some (.h5 f)) (hemd : isEMDFile f = true)
    (hF : F.rootedWF CT DT = true) (hR : Rt.rootedWF CT DT = true) (hname : Rt.name = F.name)
    (hf : alookup F.name f.kids = some (encode F)) (hroot : (rootGroups f).contains F.name = true)
    (hmdname : "metadatabundle" ∉ names F.kids)
    (hmd : mdBody true F.info.body (mdEntries Rt.info) = .ok body')
    (hD : Rt.at [m] = some D) (hnew : m ∉ names F.kids) (hbody : m ∉ akeys body') :
    save sess uuid fs path (.rooted Rt [m]) "ao" .no (some Rt.name)
      = .ok (fsSet fs path (.h5 (f.setKids (areplace F.name (encode ((withBody F body').addKid (.mk D.info []))) f.kids)))) := by
  have h := C09_emdpath_root_new_single true f F Rt D body' m hF hR hname hf hroot hmdname hmd hD hnew hbody
  rw [hname]
  simp only [save, classify_ao_ep, saveClass, hfs, Src.resolve, saveAppend, hemd, h, bind, Except.bind, pure, Except.pure,
    Bool.not_true, Bool.false_eq_true, if_false]

theorem mdMergeEntries_self (existing : List String) (fe : List (String × Obj)) : ∀ (re : List (String × Obj)),
    (∀ kv ∈ re, existing.contains kv.1 = true ∧ alookup kv.1 fe = some kv.2) → mdMergeEntries true existing fe re = .ok fe
  | [], _ => by simp [mdMergeEntries, pure, Except.pure]
  | (k, v) :: rest, h => by
    obtain ⟨h1, h2⟩ := h (k, v) List.mem_cons_self
    simp only [mdMergeEntries, h1, if_true, areplace_same_value k v fe h2]
    exact mdMergeEntries_self existing fe rest (fun kv hkv => h kv (List.mem_cons_of_mem _ hkv))

theorem alookup_of_mem_nodup {β : Type} : ∀ (l : List (String × β)) (k : String) (v : β), (akeys l).Nodup → (k, v) ∈ l →
    alookup k l = some v
  | [], _, _, _, h => by cases h
  | (k', w) :: r, k, v, hn, h => by
    simp only [akeys, List.map_cons, List.nodup_cons] at hn
    simp only [alookup]
    cases h with
    | head => simp
    | tail _ h' =>
      have hne : k' ≠ k := by
        intro e; subst e
        exact hn.1 (List.mem_map.mpr ⟨(k', v), h', rfl⟩)
      simp only [hne, if_false]
      exact alookup_of_mem_nodup r k v hn.2 h'

/-- merging a root's own metadata entries into a root that already holds exactly those entries changes nothing: the copy
    of a root written for rooted list items, and every later item of the same root, see the same body -/
theorem mdBody_self (body : List (String × Obj)) (i : NodeInfo) (hi : i.body = body)
    (hsane : ∀ b, alookup "metadatabundle" body = some b →
      b.isGroup = true ∧ (akeys b.kids).Nodup ∧ b.kids.all (fun kv => kv.2.gtype == some "metadata") = true) :
    mdBody true body (mdEntries i) = .ok body := by
  unfold mdBody mdEntries
  rw [hi]
  cases hb : alookup "metadatabundle" body with
  | none => simp [pure, Except.pure]
  | some b =>
    obtain ⟨hg, hnd, hall⟩ := hsane b hb
    by_cases he : b.kids.isEmpty = true
    · simp [he, pure, Except.pure]
    · simp only [he, Bool.false_eq_true, if_false]
      have hfil : b.kids.filter (fun kv => kv.2.gtype == some "metadata") = b.kids := by
        rw [List.filter_eq_self]; intro x hx; exact (List.all_eq_true.mp hall) x hx
      have hself := mdMergeEntries_self (b.kids.map (·.1)) b.kids b.kids (fun kv hkv => by
        refine ⟨?_, alookup_of_mem_nodup b.kids kv.1 kv.2 hnd hkv⟩
        simp only [List.contains_eq_mem, decide_eq_true_eq]
        exact List.mem_map.mpr ⟨kv, hkv, rfl⟩)
      rw [hfil]
      simp only [hself, bind, Except.bind, pure, Except.pure]
      have hbb : b.setKids b.kids = b := by cases b <;> rfl
      rw [hbb, areplace_same_value "metadatabundle" b body hb]

/-! ### the third phase of a list save: all rooted items of one root, one after the other -/

theorem isEMD_encodeRoots (sess : Session) (u0 : String) (Rs : List Tree) (hw : rootsWF [] Rs = true) (hne : Rs ≠ []) :
    isEMDFile (.group (headerAttrs sess u0) (encodeRoots Rs)) = true := by
  have hrg := rootGroups_encodeRoots (headerAttrs sess u0) Rs [] hw
  have h1 : alookup "emd_group_type" (headerAttrs sess u0) = some (.str "file") := by simp [headerAttrs, alookup]
  have h2 : alookup "version_major" (headerAttrs sess u0) = some (.int 1) := by simp [headerAttrs, alookup]
  have h3 : alookup "version_minor" (headerAttrs sess u0) = some (.int 0) := by simp [headerAttrs, alookup]
  simp only [isEMDFile, hrg, Obj.attrs, h1, h2, h3, beq_self_eq_true, Bool.true_and, Bool.not_eq_true',
    List.isEmpty_eq_false_iff, ne_eq, List.map_eq_nil_iff]
  exact hne

theorem encodeRoots_append (a b : List Tree) : encodeRoots (a ++ b) = encodeRoots a ++ encodeRoots b := by
  induction a with
  | nil => rfl
  | cons x xs ih => simp [encodeRoots, ih]

theorem alookup_encodeRoots_last (L : List Tree) (C : Tree) (h : C.name ∉ L.map Tree.name) :
    alookup C.name (encodeRoots (L ++ [C])) = some (encode C) := by
  rw [encodeRoots_append, alookup_append, alookup_encodeRoots_none L C.name h]
  simp [encodeRoots, alookup]

theorem areplace_encodeRoots_last (L : List Tree) (C C' : Tree) (hn : C'.name = C.name) (h : C.name ∉ L.map Tree.name) :
    areplace C.name (encode C') (encodeRoots (L ++ [C])) = encodeRoots (L ++ [C']) := by
  rw [encodeRoots_append, encodeRoots_append]
  have hk : C.name ∉ akeys (encodeRoots L) := by
    intro hm
    have := alookup_isSome_of_mem_akeys C.name (encodeRoots L) hm
    rw [alookup_encodeRoots_none L C.name h] at this
    cases this
  rw [areplace_append_right C.name _ _ _ hk]
  simp [encodeRoots, areplace, hn]

theorem rootsWF_replace_last : ∀ (L : List Tree) (C C' : Tree), rootsWF [] (L ++ [C]) = true → C'.rootedWF CT DT = true →
    C'.name = C.name → rootsWF [] (L ++ [C']) = true := by
  intro L C C' h hC' hn
  have key : ∀ (l : List Tree) (tk : List String), rootsWF tk (l ++ [C]) = true → rootsWF tk (l ++ [C']) = true := by
    intro l
    induction l with
    | nil =>
      intro tk hx
      simp only [List.nil_append, rootsWF, Bool.and_eq_true] at hx ⊢
      rw [hn]
      exact ⟨⟨hx.1.1, hC'⟩, trivial⟩
    | cons x xs ihx =>
      intro tk hx
      simp only [List.cons_append, rootsWF, Bool.and_eq_true] at hx ⊢
      exact ⟨hx.1, ihx _ hx.2⟩
  exact key L [] h

/-- the node alone (without its branch) that a rooted list item `r/m` is written as -/
def aloneOf (r : Tree) (m : String) : Tree :=
  match r.at [m] with
  | some D => .mk D.info []
  | none => .mk (rootInfoFor m) []

/-- C10, the third phase for the rooted items of ONE root `r` (direct children `ms` of `r`, distinct names): starting from
    a file whose last tree is the copy of `r` (its info, the children written so far), the saves
    `save(node, 'ao', tree=False, emdpath=r.name)` one after the other leave the file holding, under `r.name`, the copy with
    exactly the nodes `ms` ALONE appended in list order — every other tree and the header untouched -/
theorem C10_rooted_items_fold (sess : Session) (uuid u0 path : String) (L : List Tree) (r : Tree)
    (hr : r.rootedWF CT DT = true)
    (hsane : ∀ b, alookup "metadatabundle" r.info.body = some b →
      b.isGroup = true ∧ (akeys b.kids).Nodup ∧ b.kids.all (fun kv => kv.2.gtype == some "metadata") = true) :
    ∀ (ms : List String) (done : List Tree) (fs : FS),
    rootsWF [] (L ++ [.mk r.info done]) = true → r.name ∉ L.map Tree.name →
    (∀ m ∈ ms, (findKid m r.kids).isSome = true ∧ m ≠ "metadatabundle") →
    ms.Nodup → (∀ m ∈ ms, m ∉ names done) → "metadatabundle" ∉ names done →
    fsLookup fs path = some (.h5 (.group (headerAttrs sess u0) (encodeRoots (L ++ [.mk r.info done])))) →
    (ms.map (fun m => (r, [m]))).foldlM (fun fs (rt : Tree × List String) =>
        save sess uuid fs path (.rooted rt.1 rt.2) "ao" .no (some rt.1.name)) fs
      = .ok (fsSet fs path (.h5 (.group (headerAttrs sess u0)
          (encodeRoots (L ++ [.mk r.info (done ++ ms.map (aloneOf r))]))))) := by
  intro ms
  induction ms with
  | nil =>
    intro done fs _ _ _ _ _ _ hfile
    simp only [List.map_nil, List.foldlM, pure, Except.pure, List.append_nil]
    congr 1
    unfold fsLookup at hfile
    unfold fsSet aset
    rw [hfile]
    exact (areplace_self path _ fs hfile).symm
  | cons m ms ih =>
    intro done fs hwf hrL hms hnd hfresh hmdn hfile
    simp only [List.nodup_cons] at hnd
    obtain ⟨hkid, hmmd⟩ := hms m List.mem_cons_self
    obtain ⟨D, hD⟩ := Option.isSome_iff_exists.mp hkid
    have hat : r.at [m] = some D := by simp [Tree.at, hD]
    -- the copy so far
    have hCin : Tree.mk r.info done ∈ L ++ [Tree.mk r.info done] := by simp
    have hCw : (Tree.mk r.info done).rootedWF CT DT = true := by
      have key : ∀ (l : List Tree) (tk : List String), rootsWF tk l = true → ∀ t ∈ l, t.rootedWF CT DT = true := by
        intro l
        induction l with
        | nil => intro _ _ t ht; cases ht
        | cons x xs ihx =>
          intro tk hx t ht
          simp only [rootsWF, Bool.and_eq_true] at hx
          cases ht with
          | head => exact hx.1.2
          | tail _ h' => exact ihx _ hx.2 t h'
      exact key _ [] hwf _ hCin
    have hCname : (Tree.mk r.info done).name = r.name := rfl
    have hlook : alookup (Tree.mk r.info done).name (Obj.group (headerAttrs sess u0) (encodeRoots (L ++ [.mk r.info done]))).kids
        = some (encode (.mk r.info done)) := alookup_encodeRoots_last L _ hrL
    have hrg : (rootGroups (Obj.group (headerAttrs sess u0) (encodeRoots (L ++ [.mk r.info done])))).contains
        (Tree.mk r.info done).name = true := by
      rw [rootGroups_encodeRoots _ _ [] hwf]
      simp
    have hemd := isEMD_encodeRoots sess u0 (L ++ [.mk r.info done]) hwf (by simp)
    have hself := mdBody_self r.info.body r.info rfl hsane
    have hnewbody : m ∉ akeys r.info.body := by
      simp only [Tree.rootedWF, Bool.and_eq_true] at hr
      have := kidsWF_find (ct := CT) (dt := DT) r.kids _ D (Tree.wf_kids hr.1.1) hD
      exact this.2.1
    have hstep := C10_rooted_item sess uuid path fs _ (.mk r.info done) r D r.info.body m hfile hemd hCw hr rfl hlook hrg
      hmdn hself hat (hfresh m List.mem_cons_self) hnewbody
    -- the new copy
    have hC' : (withBody (.mk r.info done) r.info.body).addKid (.mk D.info []) = .mk r.info (done ++ [aloneOf r m]) := by
      simp [withBody, Tree.addKid, aloneOf, hat]
    rw [hC'] at hstep
    have hfile' : ∀ fs', fs' = fsSet fs path (.h5 ((Obj.group (headerAttrs sess u0) (encodeRoots (L ++ [.mk r.info done]))).setKids
        (areplace (Tree.mk r.info done).name (encode (.mk r.info (done ++ [aloneOf r m])))
          (Obj.group (headerAttrs sess u0) (encodeRoots (L ++ [.mk r.info done]))).kids))) →
        fsLookup fs' path = some (.h5 (.group (headerAttrs sess u0) (encodeRoots (L ++ [.mk r.info (done ++ [aloneOf r m])])))) := by
      intro fs' e
      rw [e, fsLookup_fsSet]
      simp only [Obj.setKids, Obj.kids]
      rw [areplace_encodeRoots_last L (.mk r.info done) (.mk r.info (done ++ [aloneOf r m])) rfl hrL]
    -- well-formedness of the list with the new copy
    have hwf' : rootsWF [] (L ++ [.mk r.info (done ++ [aloneOf r m])]) = true := by
      have hDw := wf_at [m] r D (by simp only [Tree.rootedWF, Bool.and_eq_true] at hr; exact hr.1.1) hat
      have hal : (aloneOf r m).wf CT DT = true := by
        simp only [aloneOf, hat, Tree.wf, Bool.and_eq_true]
        exact ⟨Tree.wf_info hDw.1, by simp [kidsWF]⟩
      have haln : (aloneOf r m).name = m := by
        simp only [aloneOf, hat]
        have := at_name [] r D m hat
        simpa [Tree.name] using this
      have hCw2 : (Tree.mk r.info (done ++ [aloneOf r m])).rootedWF CT DT = true := by
        simp only [Tree.rootedWF, Bool.and_eq_true, beq_iff_eq, Tree.info_mk] at hCw ⊢
        refine ⟨⟨?_, hCw.1.2⟩, hCw.2⟩
        have hw := hCw.1.1
        simp only [Tree.wf, Bool.and_eq_true] at hw ⊢
        refine ⟨hw.1, kidsWF_append (aloneOf r m) done _ hw.2 (by rw [haln]; exact hnewbody)
          (by rw [haln]; exact hfresh m List.mem_cons_self) hal ?_⟩
        simp only [aloneOf, hat, Tree.info_mk]
        exact hDw.2 (by simp)
      exact rootsWF_replace_last L (.mk r.info done) _ hwf hCw2 rfl
    have hnext := ih (done ++ [aloneOf r m])
      (fsSet fs path (.h5 ((Obj.group (headerAttrs sess u0) (encodeRoots (L ++ [.mk r.info done]))).setKids
        (areplace (Tree.mk r.info done).name (encode (.mk r.info (done ++ [aloneOf r m])))
          (Obj.group (headerAttrs sess u0) (encodeRoots (L ++ [.mk r.info done]))).kids))))
      hwf' hrL (fun x hx => hms x (List.mem_cons_of_mem _ hx)) hnd.2
      (fun x hx => by
        simp only [names, List.map_append, List.mem_append, List.map_cons, List.map_nil, List.mem_singleton, not_or]
        refine ⟨by simpa [names] using hfresh x (List.mem_cons_of_mem _ hx), ?_⟩
        have haln : (aloneOf r m).name = m := by
          simp only [aloneOf, hat]
          have := at_name [] r D m hat
          simpa [Tree.name] using this
        rw [haln]
        intro e; subst e; exact hnd.1 hx)
      (by
        simp only [names, List.map_append, List.mem_append, List.map_cons, List.map_nil, List.mem_singleton, not_or]
        refine ⟨by simpa [names] using hmdn, ?_⟩
        have haln : (aloneOf r m).name = m := by
          simp only [aloneOf, hat]
          have := at_name [] r D m hat
          simpa [Tree.name] using this
        rw [haln]; exact fun e => hmmd e.symm)
      (hfile' _ rfl)
    simp only [List.map_cons, List.foldlM, hstep, bind, Except.bind]
    rw [hnext, fsSet_fsSet]
    simp [List.append_assoc]

/-! ### a whole list with plain items and the rooted items of one root, through `save(path, [...])` -/

/-- every item is plain, or a direct child `m` of the one root `r` (object identity `rid`) -/
def oneRootList (rid : Nat) (r : Tree) (items : List Item) : Prop :=
  ∀ x ∈ items, plainItem x = true ∨ ∃ m, x = .rooted rid r [m]

/-- the names of the rooted items, in list order -/
def rootedNames : List Item → List String
  | [] => []
  | .rooted _ _ [m] :: rest => m :: rootedNames rest
  | _ :: rest => rootedNames rest

theorem oneRoot_tail {rid : Nat} {r : Tree} {x : Item} {xs : List Item} (h : oneRootList rid r (x :: xs)) : oneRootList rid r xs :=
  fun y hy => h y (List.mem_cons_of_mem _ hy)

theorem rootedRoots_oneRoot (rid : Nat) (r : Tree) : ∀ (items : List Item), oneRootList rid r items →
    (items.foldlM rootedStep [(r.name, rid, r)] = some [(r.name, rid, r)]) ∧
    (items.foldlM rootedStep [] = some (if rootedNames items = [] then [] else [(r.name, rid, r)]))
  | [], _ => by simp [List.foldlM, rootedNames]
  | x :: xs, h => by
    obtain ⟨ih1, ih2⟩ := rootedRoots_oneRoot rid r xs (oneRoot_tail h)
    cases h x List.mem_cons_self with
    | inl hp =>
      cases x with
      | rooted a b c => simp [plainItem] at hp
      | root t => simp only [List.foldlM, rootedStep, rootedNames]; exact ⟨ih1, ih2⟩
      | unrooted n => simp only [List.foldlM, rootedStep, rootedNames]; exact ⟨ih1, ih2⟩
      | array b => simp only [List.foldlM, rootedStep, rootedNames]; exact ⟨ih1, ih2⟩
      | dict e => simp only [List.foldlM, rootedStep, rootedNames]; exact ⟨ih1, ih2⟩
      | other => simp [plainItem] at hp
    | inr hm =>
      obtain ⟨m, rfl⟩ := hm
      constructor
      · simp only [List.foldlM, rootedStep, alookup, if_true]
        exact ih1
      · simp only [List.foldlM, rootedStep, alookup, List.nil_append, rootedNames]
        simp only [reduceCtorEq, if_false]
        exact ih1

theorem asRooted_oneRoot (rid : Nat) (r : Tree) : ∀ (items : List Item), oneRootList rid r items →
    items.filterMap Item.asRooted = (rootedNames items).map (fun m => (r, [m]))
  | [], _ => rfl
  | x :: xs, h => by
    have ih := asRooted_oneRoot rid r xs (oneRoot_tail h)
    cases h x List.mem_cons_self with
    | inl hp =>
      cases x with
      | rooted a b c => simp [plainItem] at hp
      | root t => simp only [List.filterMap_cons, Item.asRooted, rootedNames]; exact ih
      | unrooted n => simp only [List.filterMap_cons, Item.asRooted, rootedNames]; exact ih
      | array b => simp only [List.filterMap_cons, Item.asRooted, rootedNames]; exact ih
      | dict e => simp only [List.filterMap_cons, Item.asRooted, rootedNames]; exact ih
      | other => simp [plainItem] at hp
    | inr hm =>
      obtain ⟨m, rfl⟩ := hm
      simp only [List.filterMap_cons, Item.asRooted, rootedNames, List.map_cons, ih]

theorem isOther_oneRoot (rid : Nat) (r : Tree) : ∀ (items : List Item), oneRootList rid r items → items.any Item.isOther = false
  | [], _ => rfl
  | x :: xs, h => by
    have ih := isOther_oneRoot rid r xs (oneRoot_tail h)
    cases h x List.mem_cons_self with
    | inl hp =>
      cases x with
      | other => simp [plainItem] at hp
      | rooted a b c => simp [plainItem] at hp
      | root t => simp only [List.any_cons, Item.isOther, Bool.false_or]; exact ih
      | unrooted n => simp only [List.any_cons, Item.isOther, Bool.false_or]; exact ih
      | array b => simp only [List.any_cons, Item.isOther, Bool.false_or]; exact ih
      | dict e => simp only [List.any_cons, Item.isOther, Bool.false_or]; exact ih
    | inr hm =>
      obtain ⟨m, rfl⟩ := hm
      simp only [List.any_cons, Item.isOther, Bool.false_or]; exact ih

theorem copy_is_info (r : Tree) (hr : r.rootedWF CT DT = true) :
    ({ rootInfoFor r.name with body := r.info.body } : NodeInfo) = r.info := by
  simp only [Tree.rootedWF, Bool.and_eq_true, beq_iff_eq] at hr
  cases r with
  | mk i k =>
    cases i with
    | mk n c g b =>
      simp only [Tree.info_mk] at hr
      simp [rootInfoFor, Tree.name, Tree.info, hr.1.2, hr.2]

/-- C10, a MIXED LIST through `save(path, [...])`: Roots, unrooted nodes, arrays, dicts and any number of rooted nodes that
    are direct children of one root `r`, saved to a fresh path.  The file holds the header and exactly: the shared root of
    the unrooted items (if any), the given Roots whole, then a copy of `r` (its name and metadata) holding exactly the
    rooted nodes ALONE, in list order -/
theorem C10_save_list_rooted (sess : Session) (uuid path : String) (fs : FS) (items : List Item) (rid : Nat) (r : Tree)
    (hone : oneRootList rid r items) (hsome : rootedNames items ≠ []) (hfree : fsLookup fs path = none)
    (hr : r.rootedWF CT DT = true)
    (hsane : ∀ b, alookup "metadatabundle" r.info.body = some b →
      b.isGroup = true ∧ (akeys b.kids).Nodup ∧ b.kids.all (fun kv => kv.2.gtype == some "metadata") = true)
    (hwf : rootsWF [] (listRoots items ++ [.mk r.info []]) = true)
    (hms : ∀ m ∈ rootedNames items, (findKid m r.kids).isSome = true ∧ m ≠ "metadatabundle")
    (hnd : (rootedNames items).Nodup) :
    saveInput sess uuid fs path (.list items) "w" .yes none
      = .ok (fsSet fs path (.h5 (.group (headerAttrs sess uuid)
          (encodeRoots (listRoots items ++ [.mk r.info ((rootedNames items).map (aloneOf r))]))))) := by
  -- phases 1 and 2: the whole roots, then the copy of r
  have hrL : r.name ∉ (listRoots items).map Tree.name := by
    have key : ∀ (l : List Tree) (tk : List String), rootsWF tk (l ++ [Tree.mk r.info []]) = true → r.name ∉ l.map Tree.name := by
      intro l
      induction l with
      | nil => intro _ _; simp
      | cons x xs ihx =>
        intro tk hx
        simp only [List.cons_append, rootsWF, Bool.and_eq_true, Bool.not_eq_true', List.contains_eq_mem,
          decide_eq_false_iff_not] at hx
        simp only [List.map_cons, List.mem_cons, not_or]
        refine ⟨?_, ihx _ hx.2⟩
        intro e
        have := rootsWF_names_not_taken (xs ++ [Tree.mk r.info []]) _ hx.2 r.name (by simp [Tree.name])
        exact this (by simp [e])
    exact key _ [] hwf
  have hphase12 : ∃ fs1, (listRoots items).foldlM (fun fs t => save sess uuid fs path (.rooted t []) "a" .yes none) fs = .ok fs1 ∧
      save sess uuid fs1 path (.rooted (.mk r.info []) []) "a" .yes none
        = .ok (fsSet fs path (.h5 (.group (headerAttrs sess uuid) (encodeRoots (listRoots items ++ [.mk r.info []]))))) := by
    have hC : (Tree.mk r.info []).rootedWF CT DT = true := by
      have key : ∀ (l : List Tree) (tk : List String), rootsWF tk l = true → ∀ t ∈ l, t.rootedWF CT DT = true := by
        intro l
        induction l with
        | nil => intro _ _ t ht; cases ht
        | cons x xs ihx =>
          intro tk hx t ht
          simp only [rootsWF, Bool.and_eq_true] at hx
          cases ht with
          | head => exact hx.1.2
          | tail _ h' => exact ihx _ hx.2 t h'
      exact key _ [] hwf _ (by simp)
    cases hL : listRoots items with
    | nil =>
      refine ⟨fs, by simp [List.foldlM, pure, Except.pure], ?_⟩
      simpa [encodeRoots] using save_first sess uuid path fs (.mk r.info []) hfree hC
    | cons t ts =>
      rw [hL] at hwf hrL
      have hwL : rootsWF [] (t :: ts) = true := by
        have key : ∀ (l : List Tree) (tk : List String), rootsWF tk (l ++ [Tree.mk r.info []]) = true → rootsWF tk l = true := by
          intro l
          induction l with
          | nil => intro _ _; rfl
          | cons x xs ihx =>
            intro tk hx
            simp only [List.cons_append, rootsWF, Bool.and_eq_true] at hx ⊢
            exact ⟨hx.1, ihx _ hx.2⟩
        exact key _ [] hwf
      have hw' := hwL
      simp only [rootsWF, Bool.and_eq_true] at hw'
      have h1 := save_first sess uuid path fs t hfree hw'.1.2
      have hd : rootsWF [] [t] = true := by
        simp only [rootsWF, Bool.and_eq_true]; exact ⟨⟨by simp, hw'.1.2⟩, trivial⟩
      have h2 := save_rest sess uuid uuid path ts [t] [t.name] _ hd (by simp) hw'.2 (by simp) (fsLookup_fsSet fs path _)
      refine ⟨fsSet fs path (.h5 (.group (headerAttrs sess uuid) (encodeRoots (t :: ts)))), ?_, ?_⟩
      · simp only [List.foldlM, h1, bind, Except.bind]
        rw [h2, fsSet_fsSet]; rfl
      · have hCt : rootsWF (List.map Tree.name (t :: ts)) [Tree.mk r.info []] = true := by
          simp only [rootsWF, Bool.and_eq_true, Bool.not_eq_true', List.contains_eq_mem, decide_eq_false_iff_not]
          exact ⟨⟨hrL, hC⟩, trivial⟩
        have := save_next sess uuid uuid path (fsSet fs path (.h5 (.group (headerAttrs sess uuid) (encodeRoots (t :: ts)))))
          (t :: ts) (.mk r.info []) ((t :: ts).map Tree.name) hwL (by simp) hCt (fun n hn => hn) (fsLookup_fsSet _ _ _)
        rw [this, fsSet_fsSet]
  obtain ⟨fs1, hp1, hp2⟩ := hphase12
  -- phase 3
  have hfold := C10_rooted_items_fold sess uuid uuid path (listRoots items) r hr hsane (rootedNames items) []
    (fsSet fs path (.h5 (.group (headerAttrs sess uuid) (encodeRoots (listRoots items ++ [.mk r.info []])))))
    hwf hrL hms hnd (fun m _ => by simp [names]) (by simp [names]) (fsLookup_fsSet _ _ _)
  have hrr := (rootedRoots_oneRoot rid r items hone).2
  simp only [hsome, if_false] at hrr
  simp only [saveInput, classify_w, hfree, Option.isSome_none, Bool.and_false, Bool.false_eq_true, if_false, saveList,
    isOther_oneRoot rid r items hone, rootedRoots, hrr, asRooted_oneRoot rid r items hone, bind, Except.bind, pure,
    Except.pure, hp1, List.foldlM, copy_is_info r hr, hp2, hfold, fsSet_fsSet, List.nil_append]

-- non-vacuity of `C10_rooted_items_fold`: the rooted items `a` and `onlyrt` of the example runtime tree `exR` (whose root
-- carries a two-entry metadata bundle), written after another tree, meet every hypothesis
example : rootsWF [] ([exTree] ++ [.mk exR.info []]) = true ∧ exR.rootedWF CT DT = true ∧
    (exR.name ∉ [exTree].map Tree.name) ∧
    (["a", "onlyrt"].all (fun m => (findKid m exR.kids).isSome && m != "metadatabundle")) = true ∧
    (match alookup "metadatabundle" exR.info.body with
     | some b => b.isGroup && decide ((akeys b.kids).Nodup) && b.kids.all (fun kv => kv.2.gtype == some "metadata")
     | none => true) = true ∧
    (["a", "onlyrt"].map (aloneOf exR)).map Tree.name = ["a", "onlyrt"] := by decide

-- non-vacuity of `C10_save_list`: a mixed list (two Roots, an unrooted node, an array, a dict) meets its hypotheses;
-- the file then holds root_savedlist (node, array_0, dictionary_0), then the two given trees
def exItems : List Item :=
  [.root exF, .array [("data", .dataset [("units", .str "")] (.tok "t"))], .unrooted ⟨"loose", "Node", "node", []⟩,
   .dict (.group [("emd_group_type", .str "metadata"), ("python_class", .str "Metadata")] []), .root exTree]
example : exItems.all plainItem = true ∧ rootsWF [] (listRoots exItems) = true ∧
    (listRoots exItems).map Tree.name = ["root_savedlist", "r", "wurzel é"] ∧
    ((listRoots exItems).headD exF).kids.map Tree.name = ["loose", "array_0"] := by decide

-- non-vacuity of `C10_save_list_rooted`: a Root, a rooted child of `exR`, an array, an unrooted node and another rooted
-- child of `exR` meet every hypothesis; the file then holds root_savedlist, the given Root, and the copy of `exR`
def exMixed : List Item :=
  [.root exTree, .rooted 7 exR ["a"], .array [("data", .dataset [("units", .str "")] (.tok "t"))],
   .unrooted ⟨"loose", "Node", "node", []⟩, .rooted 7 exR ["onlyrt"]]
example : oneRootList 7 exR exMixed := by
  intro x hx
  simp only [exMixed, List.mem_cons, List.not_mem_nil, or_false] at hx
  rcases hx with rfl | rfl | rfl | rfl | rfl
  · left; rfl
  · right; exact ⟨_, rfl⟩
  · left; rfl
  · left; rfl
  · right; exact ⟨_, rfl⟩
example : rootedNames exMixed = ["a", "onlyrt"] ∧ rootsWF [] (listRoots exMixed ++ [.mk exR.info []]) = true ∧
    (listRoots exMixed).map Tree.name = ["root_savedlist", "wurzel é"] ∧ exR.rootedWF CT DT = true := by decide

-- non-vacuity
example : rootsWF [] [exF, exTree] = true := by decide

end EmdProps
