/-
C10 — Several trees in one file stay separate and individually readable.

`C10_frame`: EVERY save into an existing file (whole-root append, append-over, any targeted append with any tree
option and emdpath — the whole dispatch of write.py) either adds one new top-level group or rewrites exactly one
root group; every other top-level tree and the file header (incl. UUID) are literally unchanged.
`C10_new_tree`: appending a tree whose root name is not in the file adds exactly `encode t` under that name.
`C10_roots_*`: the set of root names afterwards.  `C10_read_list`: a read without a path on a file with >= 2 roots
reports exactly the root names.  `C10_list_roots`: a list of roots with distinct names saved into a fresh path gives
exactly one top-level tree per root, each the encoding of its source (so each is readable by `C08_select` and equal
to its source by `C01_read`).
-/
import EmdProps.C09

set_option linter.unusedSimpArgs false

namespace EmdProps
open EmdModel

theorem createIn_frame (f f' : Obj) (n : String) (o : Obj) (h : createIn f n o = .ok f') :
    f'.attrs = f.attrs ∧ ∀ other, other ≠ n → alookup other f'.kids = alookup other f.kids := by
  unfold createIn at h
  split at h
  · cases h
  · split at h
    · cases h
    · split at h
      · cases h
      · simp only [pure, Except.pure, Except.ok.injEq] at h
        subst h
        refine ⟨by cases f <;> rfl, fun other ho => ?_⟩
        cases f with
        | group a k =>
          simp only [Obj.setKids, Obj.kids, alookup_append, alookup_single]
          cases alookup other k with
          | some v => rfl
          | none => simp [Ne.symm ho]
        | dataset a v => rfl

/-- any append into an existing file touches at most one top-level link and never the header -/
theorem C10_frame (f f' : Obj) (root : Tree) (target : List String) (over : Bool) (opt : TreeOpt)
    (ep : Option String) (h : appendInto DT f root target over opt ep = .ok f') :
    f'.attrs = f.attrs ∧ ∃ touched, ∀ other, other ≠ touched → alookup other f'.kids = alookup other f.kids := by
  unfold appendInto at h
  split at h
  · -- a new tree: `_write_from_root` ends with one `create_group` in the file
    unfold writeFromRoot at h
    simp only [bind, Except.bind] at h
    split at h
    · cases h
    · next filled _ =>
      have := createIn_frame f f' root.name filled h
      exact ⟨this.1, root.name, this.2⟩
  · simp only [bind, Except.bind] at h
    split at h
    · cases h
    · next res _ =>
      simp only [pure, Except.pure, Except.ok.injEq] at h
      subst h
      refine ⟨by cases f <;> rfl, res.1, fun other ho => ?_⟩
      cases f with
      | group a k => simp only [Obj.setKids, Obj.kids, alookup_areplace_other _ _ _ _ ho]
      | dataset a v => rfl

/-- the same through `save`: whatever is saved into an existing EMD file, all other paths of the file system, the
    header and all but one top-level tree of the file are unchanged -/
theorem C10_frame_save (fs fs' : FS) (path : String) (f : Obj) (root : Tree) (target : List String)
    (over : Bool) (opt : TreeOpt) (ep : Option String)
    (h : saveAppend fs path (.h5 f) root target over opt ep = .ok fs') :
    ∃ f', fs' = fsSet fs path (.h5 f') ∧ f'.attrs = f.attrs ∧
      ∃ touched, ∀ other, other ≠ touched → alookup other f'.kids = alookup other f.kids := by
  unfold saveAppend at h
  simp only at h
  split at h
  · cases h
  · simp only [bind, Except.bind] at h
    split at h
    · cases h
    · next f' hf' =>
      simp only [pure, Except.pure, Except.ok.injEq] at h
      exact ⟨f', h.symm, C10_frame f f' root target over opt ep hf'⟩

/-- appending a well-formed tree whose root name is not in the file adds exactly its encoding -/
theorem C10_new_tree (a : Attrs) (roots : List (String × Obj)) (t : Tree) (over : Bool)
    (h : t.rootedWF CT DT = true) (hfresh : alookup t.name roots = none)
    (hnot : (rootGroups (.group a roots)).contains t.name = false) :
    appendInto DT (.group a roots) t [] over .yes none = .ok (.group a (roots ++ [(t.name, encode t)])) := by
  simp only [Tree.rootedWF, Bool.and_eq_true, beq_iff_eq] at h
  obtain ⟨⟨hwf, _⟩, hgt⟩ := h
  have hv : validName t.name = true := infoWF_validName (Tree.wf_info hwf)
  have hw := writeNodeFull_ok (ct := CT) (dt := DT) t hwf
  cases t with
  | mk i k =>
    simp only [Tree.info_mk] at hgt
    simp only [writeNodeFull] at hw
    simp only [Tree.name_mk] at hv hfresh hnot
    unfold appendInto
    simp only [Tree.name_mk, hnot, Bool.not_false, Option.isNone_none, Bool.and_self, if_true]
    unfold writeFromRoot rootFilled
    simp only [Tree.info_mk, rootgroup_eq i hgt, writeTree, Tree.kids_mk, hw, bind, Except.bind, Tree.name_mk]
    rw [createIn_fresh _ _ _ _ hv hfresh]

theorem rootGroups_append (a : Attrs) (roots : List (String × Obj)) (n : String) (o : Obj)
    (h : o.gtype = some "root") :
    rootGroups (.group a (roots ++ [(n, o)])) = rootGroups (.group a roots) ++ [n] := by
  simp [rootGroups, Obj.kids, List.filter_append, h]

/-- after `C10_new_tree` the file has exactly one more root, the new one -/
theorem C10_roots_new (a : Attrs) (roots : List (String × Obj)) (t : Tree) (h : t.info.gtype = "root") :
    rootGroups (.group a (roots ++ [(t.name, encode t)])) = rootGroups (.group a roots) ++ [t.name] := by
  apply rootGroups_append
  cases t with
  | mk i k => simp only [Tree.info_mk] at h; simp [encode, h]

/-- after `C09_union` (append into an existing root) the set of roots is unchanged -/
theorem C10_roots_same (a : Attrs) (roots : List (String × Obj)) (F T' : Tree)
    (hold : alookup F.name roots = some (encode F)) (hg : T'.info.gtype = F.info.gtype) :
    rootGroups (.group a (areplace F.name (encode T') roots)) = rootGroups (.group a roots) := by
  apply rootGroups_areplace a roots F.name (encode T') (encode F) hold
  cases F; cases T'; simp_all [encode]

/-- a read without a path on a file holding several trees reports exactly their root names -/
theorem C10_read_list (f : Obj) (opt : TreeOpt) (r1 r2 : String) (rest : List String)
    (h : rootGroups f = r1 :: r2 :: rest) :
    readEMD CT DT f none opt = .ok (.rootnames (r1 :: r2 :: rest)) := by
  simp [readEMD, h, pure, Except.pure]

/-- the top-level groups written by saving a list of trees one after the other -/
def encodeRoots : List Tree → List (String × Obj)
  | [] => []
  | t :: ts => (t.name, encode t) :: encodeRoots ts

/-- distinct root names, all well-formed -/
def rootsWF : List String → List Tree → Bool
  | _, [] => true
  | taken, t :: ts => !taken.contains t.name && t.rootedWF CT DT && rootsWF (t.name :: taken) ts

theorem rootGroups_encodeRoots (a : Attrs) : ∀ (ts : List Tree) (taken : List String), rootsWF taken ts = true →
    rootGroups (.group a (encodeRoots ts)) = ts.map Tree.name
  | [], _, _ => rfl
  | t :: ts, taken, h => by
    simp only [rootsWF, Bool.and_eq_true] at h
    have hg : (encode t).gtype = some "root" := by
      have := h.1.2
      simp only [Tree.rootedWF, Bool.and_eq_true, beq_iff_eq] at this
      cases t with
      | mk i k => simp only [Tree.info_mk] at this; simp [encode, this.2]
    have ih := rootGroups_encodeRoots a ts _ h.2
    simp only [rootGroups, Obj.kids] at ih ⊢
    simp [encodeRoots, List.filter_cons, hg, ih]

theorem alookup_encodeRoots_none : ∀ (ts : List Tree) (n : String), n ∉ ts.map Tree.name →
    alookup n (encodeRoots ts) = none
  | [], _, _ => rfl
  | t :: ts, n, h => by
    simp only [List.map_cons, List.mem_cons, not_or] at h
    have : t.name ≠ n := fun e => h.1 e.symm
    simp only [encodeRoots, alookup, this, if_false]
    exact alookup_encodeRoots_none ts n h.2

theorem rootsWF_names_not_taken : ∀ (ts : List Tree) (taken : List String), rootsWF taken ts = true →
    ∀ n, n ∈ ts.map Tree.name → n ∉ taken
  | [], _, _, n, hn => by simp at hn
  | t :: ts, taken, h, n, hn => by
    simp only [rootsWF, Bool.and_eq_true, Bool.not_eq_true', List.contains_eq_mem, decide_eq_false_iff_not] at h
    simp only [List.map_cons, List.mem_cons] at hn
    cases hn with
    | inl e => rw [e]; exact h.1.1
    | inr e =>
      have := rootsWF_names_not_taken ts _ h.2 n e
      exact fun hm => this (List.mem_cons_of_mem _ hm)

/-- saving well-formed trees with distinct root names one after the other by whole-root appends into a file that
    already holds the encodings `done` gives the encodings of all of them, in order: exactly one top-level tree
    per root, each equal to the encoding of its source -/
theorem C10_append_all (a : Attrs) (over : Bool) : ∀ (ts done : List Tree) (taken : List String),
    rootsWF taken ts = true → (∀ n, n ∈ done.map Tree.name → n ∈ taken) → rootsWF [] done = true →
    ts.foldlM (fun f t => appendInto DT f t [] over .yes none) (.group a (encodeRoots done))
      = .ok (.group a (encodeRoots (done ++ ts)))
  | [], done, _, _, _, _ => by simp [List.foldlM, pure, Except.pure]
  | t :: ts, done, taken, h, hd, hdone => by
    simp only [rootsWF, Bool.and_eq_true, Bool.not_eq_true', List.contains_eq_mem, decide_eq_false_iff_not] at h
    obtain ⟨⟨hfresh, htw⟩, hrest⟩ := h
    have hnotin : t.name ∉ done.map Tree.name := fun hm => hfresh (hd _ hm)
    have hlook := alookup_encodeRoots_none done t.name hnotin
    have hrg : (rootGroups (.group a (encodeRoots done))).contains t.name = false := by
      rw [rootGroups_encodeRoots a done [] hdone]
      simpa using hnotin
    have hstep := C10_new_tree a (encodeRoots done) t over htw hlook hrg
    have henc : encodeRoots done ++ [(t.name, encode t)] = encodeRoots (done ++ [t]) := by
      clear hstep hrg hlook hnotin hdone hd
      induction done with
      | nil => rfl
      | cons x xs ih => simp [encodeRoots, ih]
    simp only [List.foldlM, hstep, bind, Except.bind, henc]
    have hdone' : rootsWF [] (done ++ [t]) = true := by
      clear hstep hrg hlook henc
      have key : ∀ (ds : List Tree) (tk : List String), rootsWF tk ds = true → t.name ∉ tk →
          t.name ∉ ds.map Tree.name → rootsWF tk (ds ++ [t]) = true := by
        intro ds
        induction ds with
        | nil => intro tk _ h1 _; simp [rootsWF, h1, htw]
        | cons x xs ih =>
          intro tk hx h1 h2
          simp only [rootsWF, Bool.and_eq_true] at hx
          simp only [List.map_cons, List.mem_cons, not_or] at h2
          simp only [List.cons_append, rootsWF, Bool.and_eq_true]
          refine ⟨hx.1, ih _ hx.2 ?_ h2.2⟩
          simp only [List.mem_cons, not_or]
          exact ⟨h2.1, h1⟩
      exact key done [] hdone (by simp) hnotin
    have := C10_append_all a over ts (done ++ [t]) (t.name :: taken) hrest (fun n hn => by
      simp only [List.map_append, List.mem_append, List.map_cons, List.map_nil, List.mem_singleton] at hn
      cases hn with
      | inl e => exact List.mem_cons_of_mem _ (hd n e)
      | inr e => simp [e]) hdone'
    simpa [List.append_assoc] using this

/-- every tree of such a file is individually readable and equal to its source -/
theorem C10_each_readable (a : Attrs) (ts : List Tree) (t : Tree) (h : rootsWF [] ts = true) (ht : t ∈ ts) :
    readEMDAt CT DT (.group a (encodeRoots ts)) t.name [] .below = .ok (.node t []) := by
  have key : ∀ (l : List Tree) (tk : List String), rootsWF tk l = true → t ∈ l →
      alookup t.name (encodeRoots l) = some (encode t) ∧ t.rootedWF CT DT = true := by
    intro l
    induction l with
    | nil => intro _ _ hm; simp at hm
    | cons x xs ih =>
      intro tk hx hm
      simp only [rootsWF, Bool.and_eq_true, Bool.not_eq_true', List.contains_eq_mem, decide_eq_false_iff_not] at hx
      simp only [List.mem_cons] at hm
      by_cases hxt : x.name = t.name
      · cases hm with
        | inl e => subst e; exact ⟨by simp [encodeRoots, alookup], hx.1.2⟩
        | inr e =>
          exfalso
          have := rootsWF_names_not_taken xs _ hx.2 t.name (List.mem_map_of_mem e)
          exact this (by simp [hxt])
      · cases hm with
        | inl e => exact absurd (e ▸ rfl) hxt
        | inr e =>
          have := ih _ hx.2 e
          exact ⟨by simp [encodeRoots, alookup, hxt, this.1], this.2⟩
  obtain ⟨hl, hw⟩ := key ts [] h ht
  exact C08_select (.group a (encodeRoots ts)) t [] .below (.node t []) hl hw (by simp [readSpec])

-- non-vacuity
example : rootsWF [] [exF, exTree] = true := by decide

end EmdProps
