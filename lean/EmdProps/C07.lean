/-
C07 — Partial save writes exactly the selected part of the tree, always with the root.

`selSpec` is the three-line specification of the selection.  `C07_select` shows, for ALL trees, targets
and tree options, that when the selection is itself a well-formed rooted tree (it always is unless a selected
node is named like an object of the *root's* body, i.e. `metadatabundle` — `C07_sel_wf`), the file written
is exactly header + `encode (selection)`: nothing outside the selection is written, every written node has the
body (content) of its source, and the root carries the source root's name and whole body (all its metadata).
Reading that file returns the selection (`C07_read_back`, by C01).
-/
import EmdProps.C01

set_option linter.unusedSimpArgs false

namespace EmdProps
open EmdModel

/-- the specification: the tree a partial save must write -/
def selSpec (t : Tree) (target : List String) (opt : TreeOpt) : Option Tree :=
  match target with
  | [] => some (match opt with
      | .no => .mk t.info []
      | _ => t)
  | _ => (t.at target).map (fun d => .mk t.info (match opt with
      | .no => [.mk d.info []]
      | .yes => [d]
      | .below => d.kids))

theorem rootgroup_eq (i : NodeInfo) (h : i.gtype = "root") : ({ i with gtype := "root" } : NodeInfo) = i := by
  cases i; simp_all

/-- what `_write_from_root` writes is the encoding of the selection -/
theorem C07_writeFromRoot (a : Attrs) (t sel : Tree) (target : List String) (opt : TreeOpt)
    (hsel : selSpec t target opt = some sel) (hw : sel.rootedWF CT DT = true) :
    writeFromRoot (.group a []) t target opt = .ok (.group a [(t.name, encode sel)]) := by
  cases t with
  | mk i kids =>
  have hname : ∀ ks, (Tree.mk i ks).name = i.name := fun _ => rfl
  cases target with
  | nil =>
    cases opt with
    | no =>
      simp only [selSpec, Tree.info_mk, Option.some.injEq] at hsel
      subst hsel
      simp only [Tree.rootedWF, Bool.and_eq_true, beq_iff_eq, Tree.info_mk] at hw
      have hv : validName i.name = true := infoWF_validName (Tree.wf_info hw.1.1)
      unfold writeFromRoot rootFilled
      simp only [Tree.info_mk, rootgroup_eq i hw.2, bind, Except.bind, pure, Except.pure, Tree.name_mk]
      rw [createIn_fresh _ _ _ _ hv (by simp [alookup])]
      simp [encode, encodeKids, nodeGroup]
    | yes =>
      simp only [selSpec, Option.some.injEq] at hsel
      subst hsel
      exact writeFromRoot_whole a _ hw
    | below =>
      simp only [selSpec, Option.some.injEq] at hsel
      subst hsel
      have := writeFromRoot_whole a _ hw
      unfold writeFromRoot rootFilled at this ⊢
      exact this
  | cons n p =>
    simp only [selSpec, Option.map_eq_some_iff] at hsel
    obtain ⟨d, hd, hsel⟩ := hsel
    subst hsel
    simp only [Tree.rootedWF, Bool.and_eq_true, beq_iff_eq, Tree.info_mk] at hw
    obtain ⟨⟨hwf, _⟩, hgt⟩ := hw
    have hv : validName i.name = true := infoWF_validName (Tree.wf_info hwf)
    simp only [Tree.wf, Bool.and_eq_true] at hwf
    obtain ⟨hi, hk⟩ := hwf
    unfold writeFromRoot rootFilled
    simp only [Tree.info_mk, rootgroup_eq i hgt, hd, bind, Except.bind, pure, Except.pure, Tree.name_mk]
    cases opt with
    | no =>
      have h1 := writeKids_ok (ct := CT) (dt := DT) [.mk d.info []] (nodeAttrs i) i.body (akeys i.body)
        (fun m hm => alookup_isSome_mem_akeys m i.body hm) hk
      simp only [kidsWF, Bool.and_eq_true, Bool.not_eq_true', List.contains_eq_mem, decide_eq_false_iff_not,
        Tree.name_mk, Tree.info_mk] at hk
      have hdv : validName d.info.name = true := by
        have := infoWF_validName (Tree.wf_info hk.1.2); simpa using this
      have hfresh : alookup d.info.name i.body = none := alookup_none_of_not_mem _ _ hk.1.1.1
      simp only [writeSingleNode, nodeGroup]
      rw [createIn_fresh _ _ _ _ hdv hfresh]
      simp only []
      rw [createIn_fresh _ _ _ _ hv (by simp [alookup])]
      simp [encode, encodeKids, Tree.name_mk, Tree.info_mk]
    | yes =>
      have hk' := hk
      simp only [kidsWF, Bool.and_eq_true, Bool.not_eq_true', List.contains_eq_mem, decide_eq_false_iff_not] at hk
      have hdv : validName d.name = true := infoWF_validName (Tree.wf_info hk.1.2)
      have hfresh : alookup d.name i.body = none := alookup_none_of_not_mem _ _ hk.1.1.1
      rw [writeNodeFull_ok (ct := CT) (dt := DT) d hk.1.2]
      simp only [nodeGroup]
      rw [createIn_fresh _ _ _ _ hdv hfresh]
      simp only []
      rw [createIn_fresh _ _ _ _ hv (by simp [alookup])]
      simp [encode, encodeKids]
    | below =>
      have h1 := writeKids_ok (ct := CT) (dt := DT) d.kids (nodeAttrs i) i.body (akeys i.body)
        (fun m hm => alookup_isSome_mem_akeys m i.body hm) hk
      simp only [writeTree, nodeGroup, h1]
      rw [createIn_fresh _ _ _ _ hv (by simp [alookup])]
      simp [encode]

/-- C07 through the public entry point: a partial save in write mode into a fresh path writes exactly
    header + selection -/
theorem C07_select (sess : Session) (uuid path : String) (fs : FS) (t sel : Tree) (target : List String)
    (opt : TreeOpt) (hfree : fsLookup fs path = none)
    (hsel : selSpec t target opt = some sel) (hw : sel.rootedWF CT DT = true) :
    save sess uuid fs path (.rooted t target) "w" opt none
      = .ok (fsSet fs path (.h5 (.group (headerAttrs sess uuid) [(t.name, encode sel)]))) := by
  simp only [save, classify_w, saveClass, hfree, Option.isSome_none, Bool.false_eq_true, if_false,
    Src.resolve, saveNewFile, C07_writeFromRoot _ t sel target opt hsel hw, bind, Except.bind, pure, Except.pure]

/-- the selection keeps the root's name (and, being `t.info`, its whole body: all root metadata) -/
theorem C07_root_kept (t sel : Tree) (target : List String) (opt : TreeOpt)
    (hsel : selSpec t target opt = some sel) : sel.info = t.info := by
  cases target with
  | nil => cases opt <;> simp [selSpec] at hsel <;> subst hsel <;> rfl
  | cons n p =>
    simp only [selSpec, Option.map_eq_some_iff] at hsel
    obtain ⟨d, _, h⟩ := hsel
    subst h; rfl

/-- reading the partially saved file back returns exactly the selection -/
theorem C07_read_back (sess : Session) (uuid : String) (t sel : Tree) (target : List String) (opt : TreeOpt)
    (hsel : selSpec t target opt = some sel) (hw : sel.rootedWF CT DT = true) :
    readEMDAt CT DT (.group (headerAttrs sess uuid) [(t.name, encode sel)]) t.name [] .below = .ok (.node sel []) := by
  have hn : t.name = sel.name := by
    have := C07_root_kept t sel target opt hsel
    simp [Tree.name, this]
  rw [hn]
  exact C01_read sess uuid sel hw

/-- saving an unrooted node wraps it in a root named after it -/
theorem C07_unrooted (sess : Session) (uuid path : String) (fs : FS) (n : NodeInfo) (mode : String) (opt : TreeOpt)
    (ep : Option String) :
    save sess uuid fs path (.unrooted n) mode opt ep =
    save sess uuid fs path (.rooted (.mk (rootInfoFor (n.name ++ "_root")) [.mk n []]) [n.name]) mode opt ep := by
  simp [save, Src.resolve]

theorem C07_unrooted_sel (n : NodeInfo) :
    selSpec (.mk (rootInfoFor (n.name ++ "_root")) [.mk n []]) [n.name] .yes
      = some (.mk (rootInfoFor (n.name ++ "_root")) [.mk n []]) ∧
    selSpec (.mk (rootInfoFor (n.name ++ "_root")) [.mk n []]) [n.name] .no
      = some (.mk (rootInfoFor (n.name ++ "_root")) [.mk n []]) ∧
    selSpec (.mk (rootInfoFor (n.name ++ "_root")) [.mk n []]) [n.name] .below
      = some (.mk (rootInfoFor (n.name ++ "_root")) []) := by
  simp [selSpec, Tree.at, Tree.kids, findKid, Tree.name, Tree.info]

theorem kidsWF_retake : ∀ (kids : List Tree) (t1 t2 : List String), kidsWF CT DT t1 kids = true →
    (∀ k ∈ kids, k.name ∉ t2) → kidsWF CT DT t2 kids = true
  | [], _, _, _, _ => by simp [kidsWF]
  | k :: ks, t1, t2, h, hn => by
    simp only [kidsWF, Bool.and_eq_true, Bool.not_eq_true', List.contains_eq_mem, decide_eq_false_iff_not] at h ⊢
    obtain ⟨⟨⟨hf, hd⟩, hw⟩, hr⟩ := h
    refine ⟨⟨⟨hn k (by simp), hd⟩, hw⟩, ?_⟩
    -- the remaining siblings avoid k.name (from `hr`) and t2 (from `hn`)
    have hr' : kidsWF CT DT [k.name] ks = true :=
      kidsWF_mono ks (k.name :: t1) [k.name] (fun n hn => by simp at hn; simp [hn]) hr
    have key : ∀ (l : List Tree) (a b : List String), kidsWF CT DT a l = true → (∀ x ∈ l, x.name ∉ b) →
        kidsWF CT DT (a ++ b) l = true := by
      intro l
      induction l with
      | nil => intros; simp [kidsWF]
      | cons x xs ih =>
        intro a b hx hb
        simp only [kidsWF, Bool.and_eq_true, Bool.not_eq_true', List.contains_eq_mem, decide_eq_false_iff_not] at hx ⊢
        obtain ⟨⟨⟨hxa, hxd⟩, hxw⟩, hxr⟩ := hx
        refine ⟨⟨⟨?_, hxd⟩, hxw⟩, ?_⟩
        · intro hm
          rcases List.mem_append.mp hm with h1 | h2
          · exact hxa h1
          · exact hb x (by simp) h2
        · have := ih (x.name :: a) b hxr (fun y hy => hb y (List.mem_cons_of_mem _ hy))
          simpa using this
    have := key ks [k.name] t2 hr' (fun x hx => hn x (List.mem_cons_of_mem _ hx))
    simpa using this

theorem wf_at : ∀ (p : List String) (t d : Tree), t.wf CT DT = true → t.at p = some d →
    d.wf CT DT = true ∧ (p ≠ [] → DT.contains d.info.gtype = true)
  | [], t, d, h, hd => by simp only [Tree.at] at hd; cases hd; exact ⟨h, fun h => absurd rfl h⟩
  | n :: q, .mk i kids, d, h, hd => by
    simp only [Tree.wf, Bool.and_eq_true] at h
    simp only [Tree.at, Tree.kids_mk] at hd
    cases hf : findKid n kids with
    | none => simp [hf] at hd
    | some c =>
      simp only [hf] at hd
      have hc := kidsWF_findKid n kids (akeys i.body) c h.2 hf
      have hcd : DT.contains c.info.gtype = true := hc.2.2
      have := wf_at q c d hc.1 hd
      refine ⟨this.1, fun _ => ?_⟩
      cases q with
      | nil => simp only [Tree.at] at hd; cases hd; exact hcd
      | cons a b => exact this.2 (by simp)

/-- the selection is a well-formed rooted tree as soon as the source tree is, and no node that ends up
    directly under the root is named like an object of the root's own body (i.e. `metadatabundle`) -/
theorem C07_sel_wf (t sel : Tree) (target : List String) (opt : TreeOpt) (h : t.rootedWF CT DT = true)
    (hsel : selSpec t target opt = some sel) (havoid : ∀ k ∈ sel.kids, k.name ∉ akeys t.info.body) :
    sel.rootedWF CT DT = true := by
  have hinfo := C07_root_kept t sel target opt hsel
  cases t with
  | mk i kids =>
  simp only [Tree.rootedWF, Bool.and_eq_true, beq_iff_eq, Tree.info_mk] at h
  obtain ⟨⟨hwf, hc⟩, hg⟩ := h
  have hwf' := hwf
  simp only [Tree.wf, Bool.and_eq_true] at hwf
  cases target with
  | nil =>
    cases opt <;> simp only [selSpec, Option.some.injEq] at hsel <;> subst hsel
    · simp [Tree.rootedWF, hwf', hc, hg]
    · simp [Tree.rootedWF, Tree.wf, kidsWF, hwf.1, hc, hg]
    · simp [Tree.rootedWF, hwf', hc, hg]
  | cons n p =>
    simp only [selSpec, Option.map_eq_some_iff] at hsel
    obtain ⟨d, hd, hs⟩ := hsel
    subst hs
    have hdw := wf_at (n :: p) _ d hwf' hd
    have hdt := hdw.2 (by simp)
    have hdt' : d.info.gtype ∈ DT := by simpa using hdt
    simp only [Tree.kids_mk, Tree.info_mk] at havoid
    simp only [Tree.rootedWF, Tree.wf, Bool.and_eq_true, beq_iff_eq, Tree.info_mk]
    refine ⟨⟨⟨hwf.1, ?_⟩, hc⟩, hg⟩
    cases opt with
    | no =>
      have hdi : infoWF CT DT d.info = true := Tree.wf_info hdw.1
      have hna := havoid (.mk d.info []) (by simp)
      simp only [Tree.name_mk] at hna
      simp [kidsWF, Tree.wf, hdi, hdt', hna]
    | yes =>
      have hna := havoid d (by simp)
      simp [kidsWF, hdw.1, hdt', hna]
    | below =>
      exact kidsWF_retake d.kids (akeys d.info.body) (akeys i.body) (Tree.wf_kids hdw.1) havoid

-- non-vacuity: selections of the C01 example tree are well-formed
example : (selSpec exTree ["a b", "数据"] .yes).map (·.rootedWF CT DT) = some true := by decide
example : (selSpec exTree ["a b"] .below).map (·.rootedWF CT DT) = some true := by decide
example : (selSpec exTree ["a b", "pla"] .no).map (·.rootedWF CT DT) = some true := by decide
example : (selSpec exTree [] .no).map (·.rootedWF CT DT) = some true := by decide

/-- the deprecated spelling `tree='noroot'` is `tree=None`, for every input, mode and file system -/
theorem C07_noroot (sess : Session) (uuid : String) (fs : FS) (path : String) (inp : Input) (mode : String) (ep : Option String) :
    saveArgs sess uuid fs path inp mode .noroot ep = saveArgs sess uuid fs path inp mode .below ep := rfl

/-- any other value of `tree` is refused, and nothing is written -/
theorem C07_invalid_tree_refused (sess : Session) (uuid : String) (fs : FS) (path : String) (inp : Input) (mode : String)
    (ep : Option String) : ∃ w, saveArgs sess uuid fs path inp mode .invalid ep = .error (.refused w) := by
  unfold saveArgs
  cases classifyMode (effectiveMode mode ep) with
  | none => exact ⟨_, rfl⟩
  | some mc => exact ⟨_, rfl⟩

end EmdProps
