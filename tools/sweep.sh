#!/bin/sh
# seed sweep of the claimed checks on the unchanged tree (for background runs: vp run --with-repo -- sh tools/sweep.sh "1 2 3" quick)
seeds="${1:-1 2 3}"; tier="${2:-quick}"
[ -n "$VP_RUN_REPO" ] && export EMD_REPO="$VP_RUN_REPO"
sh setup.sh > /dev/null 2>&1 || { echo SETUP-FAILED; exit 2; }
ids=$(/venv/bin/python -c "import json;print(' '.join(c['property_id'] for c in json.load(open('MANIFEST.json'))['checks']))")
for s in $seeds; do for p in $ids; do
  out=$(VERIF_SEED=$s ./check $p --tier $tier 2>&1); rc=$?
  echo "seed=$s $p rc=$rc $(echo "$out" | grep -c VIOLATION) $(echo "$out" | tail -1)"
  [ $rc -ne 0 ] && echo "$out" | grep VIOLATION | head -3
done; done
