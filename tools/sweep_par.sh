#!/bin/sh
# parallel sweep: sh tools/sweep_par.sh "<seeds>" <tier> <jobs>   (background: vp run --with-repo -- sh tools/sweep_par.sh "0" thorough 5)
seeds="${1:-0}"; tier="${2:-thorough}"; jobs="${3:-4}"
[ -n "$VP_RUN_REPO" ] && export EMD_REPO="$VP_RUN_REPO"
sh setup.sh > /dev/null 2>&1 || { echo SETUP-FAILED; exit 2; }
ids=$(/venv/bin/python -c "import json;print(' '.join(c['property_id'] for c in json.load(open('MANIFEST.json'))['checks']))")
for s in $seeds; do for p in $ids; do echo "$s $p"; done; done | xargs -P "$jobs" -L 1 sh -c '
  out=$(VERIF_SEED=$0 ./check $1 --tier '"$tier"' 2>&1); rc=$?
  echo "seed=$0 $1 rc=$rc $(echo "$out" | grep -c VIOLATION) $(echo "$out" | tail -1)"
  [ $rc -ne 0 ] && echo "$out" | grep VIOLATION | head -3
  true'
