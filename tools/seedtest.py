#!/usr/bin/env python3
"""
seedtest.py <dir with patch.diff, demo.py, notes.txt> <seed id> <property id> [other property ids to run too]
Confirms a seeded change (demo passes without, fails with; suite passes with), runs the named checks against it,
restores /repo, and records everything under /verif/seeded/<seed id>/.
"""
import json, os, shutil, subprocess, sys, time
REPO, VERIF = "/repo", "/verif"
src, sid, pid = sys.argv[1], sys.argv[2], sys.argv[3]
others = sys.argv[4:]
env = dict(os.environ, PYTHONPATH=f"{REPO}/src", TQDM_DISABLE="1")

def sh(cmd, **kw):
    return subprocess.run(cmd, shell=True, capture_output=True, text=True, **kw)

assert sh(f"git -C {REPO} status --porcelain src test").stdout.strip() == "", "repo not clean"
meta = {"breaks": pid, "source_dir": src, "at": time.strftime("%Y-%m-%d %H:%M:%S")}
demo = os.path.join(src, "demo.py")
r0 = sh(f"cd /tmp && /venv/bin/python {demo}", env=env, timeout=600)
meta["demo_without_change_rc"] = r0.returncode
ap = sh(f"git -C {REPO} apply {os.path.join(src, 'patch.diff')}")
if ap.returncode != 0:
    print("patch does not apply:", ap.stderr); sys.exit(1)
try:
    t = sh(f"cd {REPO} && /venv/bin/python -m pytest -q -p no:cacheprovider test 2>&1 | tail -3", timeout=900)
    meta["suite_with_change"] = t.stdout.strip().splitlines()[-1] if t.stdout.strip() else t.stderr[-200:]
    r1 = sh(f"cd /tmp && /venv/bin/python {demo}", env=env, timeout=600)
    meta["demo_with_change_rc"] = r1.returncode
    meta["demo_with_change_tail"] = (r1.stdout + r1.stderr)[-400:]
    meta["checks"] = {}
    for p in [pid] + others:
        for tier in (["quick"] if "--thorough" not in os.environ.get("SEEDTEST_FLAGS", "") else ["quick", "thorough"]):
            c = sh(f"cd {VERIF} && ./check {p} --tier {tier}", timeout=3000)
            lines = [l for l in c.stdout.splitlines() if l.startswith(("VIOLATION", "KNOWN-FINDING", p))]
            meta["checks"][f"{p}:{tier}"] = {"rc": c.returncode, "lines": [l[:300] for l in lines[:6]]}
            # keep the first replay for the record
            for l in lines:
                if l.startswith("VIOLATION"):
                    path = l.split("replay=")[1].split()[0]
                    if os.path.exists(path):
                        rep = json.load(open(path))
                        meta["checks"][f"{p}:{tier}"]["first_failure"] = json.dumps(rep.get("failure") or rep.get("broken"))[:600]
                    break
finally:
    sh(f"git -C {REPO} checkout -- .")
    shutil.rmtree(os.path.join(VERIF, "replays"), ignore_errors=True)
meta["needs_to_manifest"] = open(os.path.join(src, "notes.txt")).read()[:1500] if os.path.exists(os.path.join(src, "notes.txt")) else ""
confirmed = meta["demo_without_change_rc"] == 0 and meta["demo_with_change_rc"] != 0 and "53 passed" in meta["suite_with_change"]
meta["confirmed"] = confirmed
meta["caught_by"] = [k for k, v in meta["checks"].items() if v["rc"] == 1]
dst = os.path.join(VERIF, "seeded", sid)
if confirmed:
    os.makedirs(dst, exist_ok=True)
    for f in ("patch.diff", "demo.py", "notes.txt"):
        if os.path.exists(os.path.join(src, f)):
            shutil.copy(os.path.join(src, f), dst)
    json.dump(meta, open(os.path.join(dst, "meta.json"), "w"), indent=1)
print(json.dumps({k: meta[k] for k in ("confirmed", "demo_without_change_rc", "demo_with_change_rc", "suite_with_change", "caught_by")}, indent=1))
for k, v in meta["checks"].items():
    print(k, v["rc"], v["lines"][-1:] , v.get("first_failure", "")[:300])
