#!/venv/bin/python
"""Regression over the confirmed seeded changes: for each /verif/seeded/<id>/ apply patch.diff to /repo, run the quick check
of its property, revert.  Prints one line per seed; exit 1 if a seed is no longer caught.  (/repo must be clean.)
usage: tools/reseed.py [seed ids ...]"""
import json, os, subprocess, sys
V = os.path.dirname(os.path.dirname(os.path.abspath(__file__)))
def sh(cmd, **kw):
    return subprocess.run(cmd, shell=True, capture_output=True, text=True, **kw)
if sh("git -C /repo status --porcelain").stdout.strip():
    print("/repo is not clean"); sys.exit(2)
ids = sys.argv[1:] or sorted(os.listdir(os.path.join(V, "seeded")))
missed = []
for sid in ids:
    d = os.path.join(V, "seeded", sid)
    pid = sid.split("_")[0]
    if sh(f"git -C /repo apply {d}/patch.diff").returncode != 0:
        print(sid, "patch does not apply"); missed.append(sid); continue
    try:
        r = sh(f"./check {pid}", cwd=V)
    finally:
        sh("git -C /repo checkout -- .")
        sh(f"rm -rf {V}/replays")
    caught = r.returncode == 1 and "VIOLATION property=" + pid in r.stdout
    nofail = "no-failing-input-found" in r.stdout
    print(sid, "caught" + (" (no-failing-input-found)" if nofail else "") if caught else f"MISSED rc={r.returncode}", "|", r.stdout.strip().splitlines()[-1][:160])
    if not caught:
        missed.append(sid)
sh("git -C /repo checkout -- .")
print("missed:", missed)
sys.exit(1 if missed else 0)
