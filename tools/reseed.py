#!/venv/bin/python
"""Regression over the confirmed seeded changes: for each /verif/seeded/<id>/ apply patch.diff to /repo, run the quick check
of its property, revert.  Prints one line per seed; exit 1 if a seed is no longer caught.  (/repo must be clean.)
usage: tools/reseed.py [--seeds=0,1,2] [seed ids ...]   (--seeds: run each check with several VERIF_SEED values)"""
import json, os, subprocess, sys
V = os.path.dirname(os.path.dirname(os.path.abspath(__file__)))
REPO = os.environ.get("EMD_REPO", "/repo")      # a scratch clone may be used (with a copy of /verif) to run regressions in parallel
def sh(cmd, **kw):
    return subprocess.run(cmd, shell=True, capture_output=True, text=True, **kw)
if sh(f"git -C {REPO} status --porcelain").stdout.strip():
    print(REPO, "is not clean"); sys.exit(2)
args = [a for a in sys.argv[1:] if not a.startswith("--seeds=")]
seeds = next((a.split("=")[1].split(",") for a in sys.argv[1:] if a.startswith("--seeds=")), [None])
ids = args or sorted(os.listdir(os.path.join(V, "seeded")))
missed = []
for sid in ids:
    d = os.path.join(V, "seeded", sid)
    pid = sid.split("_")[0]
    if sh(f"git -C {REPO} apply {d}/patch.diff").returncode != 0:
        print(sid, "patch does not apply"); missed.append(sid); continue
    try:
        for sd in seeds:
            env = dict(os.environ, VERIF_SEED=sd) if sd is not None else None
            r = sh(f"./check {pid}", cwd=V, env=env)
            caught = r.returncode == 1 and "VIOLATION property=" + pid in r.stdout
            nofail = "no-failing-input-found" in r.stdout
            print(sid, "caught" + (" (no-failing-input-found)" if nofail else "") if caught else f"MISSED rc={r.returncode}", "|",
                  r.stdout.strip().splitlines()[-1][:160], flush=True)
            if not caught:
                missed.append(sid if sd is None else f"{sid}@seed{sd}")
    finally:
        sh(f"git -C {REPO} checkout -- .")
        sh(f"rm -rf {V}/replays")
sh(f"git -C {REPO} checkout -- .")
print("missed:", missed)
sys.exit(1 if missed else 0)
