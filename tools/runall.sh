#!/bin/sh
# run every claimed check on /repo (writes evidence/): sh tools/runall.sh [tier] [jobs] [seed]
tier="${1:-quick}"; jobs="${2:-5}"; seed="${3:-0}"
sh setup.sh > /dev/null 2>&1 || { echo SETUP-FAILED; exit 2; }
ids=$(/venv/bin/python -c "import json;print(' '.join(c['property_id'] for c in json.load(open('MANIFEST.json'))['checks']))")
for p in $ids; do echo "$p"; done | xargs -P "$jobs" -L 1 sh -c '
  out=$(VERIF_SEED='"$seed"' ./check $0 --tier '"$tier"' 2>&1); rc=$?
  echo "$0 rc=$rc $(echo "$out" | grep -c "^VIOLATION") $(echo "$out" | tail -1)"
  true'
