#!/usr/bin/env python3
"""
AST -> Lean translator for the fragments of emdfile whose logic is small,
closed and table-like.  Regenerated on every run of ./check; the Lean theorems
in EmdProps are then re-checked against what the source says *now*.

Only the `ast` module is used.  Every generated file carries the sha256 of the
source text it was generated from.  If a fragment cannot be recognised the
translator writes a `-- UNAVAILABLE` stub for it (so that the build of the
dependent theorem fails, which triggers the failing-input search of ./check)
and reports the fragment name on stdout as `UNAVAILABLE <fragment> <reason>`.
"""
import ast, hashlib, json, os, sys

REPO = os.environ.get("EMD_REPO", "/repo")
SRC = os.path.join(REPO, "src", "emdfile")
OUT = os.path.join(os.path.dirname(os.path.abspath(__file__)), "..", "lean", "EmdGen")


class Unsupported(Exception):
    pass


def read(rel):
    with open(os.path.join(SRC, rel), encoding="utf-8") as f:
        return f.read()


def find_func(tree, name):
    for n in ast.walk(tree):
        if isinstance(n, ast.FunctionDef) and n.name == name:
            return n
    raise Unsupported(f"function {name} not found")


def lean_str(s):
    out = []
    for ch in s:
        if ch == '"':
            out.append('\\"')
        elif ch == '\\':
            out.append('\\\\')
        elif ch == '\n':
            out.append('\\n')
        else:
            out.append(ch)
    return '"' + ''.join(out) + '"'


def lean_strlist(xs):
    return "[" + ", ".join(lean_str(x) for x in xs) + "]"


# --------------------------------------------------------------------------
# 1. _version_is_geq  ->  EmdGen.versionIsGeq : Int^6 -> Bool
# --------------------------------------------------------------------------

class VersionTranslator:
    """Statement language: if/elif/else, return <bexpr>, pass.
    Expression language: constants True/False/None, comparisons (chains too) of
    <arg>[<0|1|2>] or int literals, and/or/not, tuple/list displays of such
    terms compared lexicographically, tuple(arg) / list(arg) / arg compared as
    whole triples.  Falling off the end returns None, which is falsy."""

    def __init__(self, fn):
        self.fn = fn
        args = [a.arg for a in fn.args.args]
        if len(args) != 2:
            raise Unsupported("expected two positional parameters")
        self.cur, self.mini = args

    def term(self, e):
        if isinstance(e, ast.Subscript) and isinstance(e.value, ast.Name):
            idx = e.slice
            if isinstance(idx, ast.Constant) and idx.value in (0, 1, 2):
                if e.value.id == self.cur:
                    return f"c{idx.value}"
                if e.value.id == self.mini:
                    return f"m{idx.value}"
        if isinstance(e, ast.Constant) and isinstance(e.value, int) and not isinstance(e.value, bool):
            return f"({e.value} : Int)"
        raise Unsupported(f"term {ast.dump(e)}")

    def triple(self, e):
        """Return list of three term strings if e denotes a whole triple."""
        if isinstance(e, ast.Name):
            if e.id == self.cur:
                return ["c0", "c1", "c2"]
            if e.id == self.mini:
                return ["m0", "m1", "m2"]
        if isinstance(e, ast.Call) and isinstance(e.func, ast.Name) and e.func.id in ("tuple", "list") \
                and len(e.args) == 1 and not e.keywords:
            return self.triple(e.args[0])
        if isinstance(e, (ast.Tuple, ast.List)):
            return [self.term(x) for x in e.elts]
        return None

    def lex(self, op, a, b):
        # lexicographic comparison of equally long term lists, as Python does for tuples
        if len(a) != len(b):
            raise Unsupported("tuple comparison of different lengths")
        if not a:
            return {"Gt": "false", "Lt": "false", "GtE": "true", "LtE": "true", "Eq": "true", "NotEq": "false"}[op]
        if op == "Eq":
            return "(" + " && ".join(f"decide ({x} = {y})" for x, y in zip(a, b)) + ")"
        if op == "NotEq":
            return "(!" + self.lex("Eq", a, b) + ")"
        strict = {"Gt": ">", "GtE": ">", "Lt": "<", "LtE": "<"}[op]
        x, y = a[0], b[0]
        rest = self.lex(op, a[1:], b[1:])
        return f"(decide ({x} {strict} {y}) || (decide ({x} = {y}) && {rest}))"

    def cmp1(self, op, l, r):
        opname = type(op).__name__
        tl, tr = self.triple(l), self.triple(r)
        if tl is not None and tr is not None:
            return self.lex(opname, tl, tr)
        sym = {"Gt": ">", "GtE": "≥", "Lt": "<", "LtE": "≤", "Eq": "=", "NotEq": "≠"}.get(opname)
        if sym is None:
            raise Unsupported(f"operator {opname}")
        return f"decide ({self.term(l)} {sym} {self.term(r)})"

    def bexpr(self, e):
        if isinstance(e, ast.Constant):
            if e.value is True:
                return "true"
            if e.value is False or e.value is None:
                return "false"
            raise Unsupported(f"constant {e.value!r}")
        if isinstance(e, ast.Compare):
            parts = []
            left = e.left
            for op, right in zip(e.ops, e.comparators):
                parts.append(self.cmp1(op, left, right))
                left = right
            return "(" + " && ".join(parts) + ")"
        if isinstance(e, ast.BoolOp):
            sym = " && " if isinstance(e.op, ast.And) else " || "
            return "(" + sym.join(self.bexpr(v) for v in e.values) + ")"
        if isinstance(e, ast.UnaryOp) and isinstance(e.op, ast.Not):
            return "(!" + self.bexpr(e.operand) + ")"
        if isinstance(e, ast.IfExp):
            return f"(if {self.bexpr(e.test)} then {self.bexpr(e.body)} else {self.bexpr(e.orelse)})"
        raise Unsupported(f"expression {ast.dump(e)}")

    def block(self, stmts, cont, ind):
        if not stmts:
            return cont
        s, rest = stmts[0], stmts[1:]
        pad = "  " * ind
        if isinstance(s, ast.Expr) and isinstance(s.value, ast.Constant):
            return self.block(rest, cont, ind)          # docstring
        if isinstance(s, ast.Pass):
            return self.block(rest, cont, ind)
        if isinstance(s, ast.Return):
            return self.bexpr(s.value) if s.value is not None else "false"
        if isinstance(s, ast.If):
            k = self.block(rest, cont, ind)
            a = self.block(s.body, k, ind + 1)
            b = self.block(s.orelse, k, ind + 1)
            return f"(if {self.bexpr(s.test)} then\n{pad}  {a}\n{pad}else\n{pad}  {b})"
        raise Unsupported(f"statement {type(s).__name__}")

    def run(self):
        return self.block(self.fn.body, "false", 1)


def gen_version():
    src = read("utils.py")
    digest = hashlib.sha256(src.encode()).hexdigest()
    fn = find_func(ast.parse(src), "_version_is_geq")
    fn_src = ast.get_source_segment(src, fn)
    fdig = hashlib.sha256(fn_src.encode()).hexdigest()
    try:
        body = VersionTranslator(fn).run()
        status = "ok"
    except Unsupported as e:
        return None, f"{e}", fdig
    text = f"""-- GENERATED by tools/py2lean.py from src/emdfile/utils.py::_version_is_geq -- do not edit
-- function sha256: {fdig}
namespace EmdGen

def versionTranslated : Bool := true

/-- Translation of `_version_is_geq(current, minimum)`; a fall-through (`None`) is falsy. -/
def versionIsGeq (c0 c1 c2 m0 m1 m2 : Int) : Bool :=
  {body}

end EmdGen
"""
    return text, status, fdig


# --------------------------------------------------------------------------
# 2. literal tables
# --------------------------------------------------------------------------

def literal_strs(node):
    if isinstance(node, (ast.List, ast.Tuple)):
        out = []
        for e in node.elts:
            if isinstance(e, ast.Constant) and isinstance(e.value, str):
                out.append(e.value)
            else:
                raise Unsupported("non-literal element")
        return out
    raise Unsupported("not a list/tuple literal")


def assigned_literal(tree, name):
    for n in ast.walk(tree):
        if isinstance(n, ast.Assign) and len(n.targets) == 1 and isinstance(n.targets[0], ast.Name) \
                and n.targets[0].id == name:
            return n.value
    raise Unsupported(f"assignment to {name} not found")


def gen_tables():
    notes = []
    items = {}
    # --- write modes
    wsrc = read("write.py")
    wtree = ast.parse(wsrc)
    wfn = wtree   # the mode lists are looked up anywhere in write.py (write or a helper it delegates to)
    for lean_name, py_name in [("writeModes", "writemode"), ("overwriteModes", "overwritemode"),
                               ("appendModes", "appendmode"), ("appendOverModes", "appendovermode")]:
        try:
            items[lean_name] = literal_strs(assigned_literal(wfn, py_name))
        except Unsupported as e:
            notes.append((lean_name, str(e)))
    # --- group-type vocabulary
    usrc = read("classes/utils.py")
    utree = ast.parse(usrc)
    for lean_name, py_name in [("baseGroupTypes", "EMD_base_group_types"), ("dataGroupTypes", "EMD_data_group_types")]:
        try:
            items[lean_name] = literal_strs(assigned_literal(utree, py_name))
        except Unsupported as e:
            notes.append((lean_name, str(e)))
    # custom types: must be  tuple(["custom_"+s for s in EMD_data_group_types])
    try:
        v = assigned_literal(utree, "EMD_custom_group_types")
        ok = False
        if isinstance(v, ast.Call) and isinstance(v.func, ast.Name) and v.func.id == "tuple" and len(v.args) == 1:
            lc = v.args[0]
            if isinstance(lc, ast.ListComp) and len(lc.generators) == 1:
                g = lc.generators[0]
                if isinstance(g.iter, ast.Name) and g.iter.id == "EMD_data_group_types" and not g.ifs \
                        and isinstance(lc.elt, ast.BinOp) and isinstance(lc.elt.op, ast.Add) \
                        and isinstance(lc.elt.left, ast.Constant) and isinstance(lc.elt.left.value, str) \
                        and isinstance(lc.elt.right, ast.Name) and lc.elt.right.id == g.target.id:
                    items["customPrefix"] = lc.elt.left.value
                    ok = True
        if not ok:
            items["customGroupTypesLiteral"] = literal_strs(v)
    except Unsupported as e:
        notes.append(("customGroupTypes", str(e)))
    # EMD_group_types = base + data + custom
    try:
        v = assigned_literal(utree, "EMD_group_types")
        names = []
        def flat(e):
            if isinstance(e, ast.BinOp) and isinstance(e.op, ast.Add):
                flat(e.left); flat(e.right)
            elif isinstance(e, ast.Name):
                names.append(e.id)
            else:
                raise Unsupported("EMD_group_types is not a sum of names")
        flat(v)
        items["groupTypeParts"] = names
    except Unsupported as e:
        notes.append(("groupTypeParts", str(e)))
    # --- per-class _emd_group_type
    cls_types = []
    for rel in ["classes/node.py", "classes/root.py", "classes/array.py", "classes/pointlist.py",
                "classes/pointlistarray.py", "classes/custom.py", "classes/metadata.py"]:
        t = ast.parse(read(rel))
        for n in t.body:
            if isinstance(n, ast.ClassDef):
                for s in n.body:
                    if isinstance(s, ast.Assign) and len(s.targets) == 1 and isinstance(s.targets[0], ast.Name) \
                            and s.targets[0].id == "_emd_group_type" and isinstance(s.value, ast.Constant):
                        cls_types.append((n.name, s.value.value))
    items["classGroupTypes"] = cls_types
    # --- h5py.File open modes, per enclosing function
    opens = []
    for rel in ["read.py", "utils.py", "write.py", "read_EMD_v0p1.py"]:
        t = ast.parse(read(rel))
        class V(ast.NodeVisitor):
            def __init__(self):
                self.stack = []
            def visit_FunctionDef(self, n):
                self.stack.append(n.name); self.generic_visit(n); self.stack.pop()
            def visit_ClassDef(self, n):
                self.stack.append(n.name); self.generic_visit(n); self.stack.pop()
            def visit_Call(self, n):
                f = n.func
                if isinstance(f, ast.Attribute) and f.attr == "File" and isinstance(f.value, ast.Name) and f.value.id == "h5py":
                    mode = None
                    if len(n.args) >= 2 and isinstance(n.args[1], ast.Constant):
                        mode = n.args[1].value
                    for kw in n.keywords:
                        if kw.arg == "mode" and isinstance(kw.value, ast.Constant):
                            mode = kw.value.value
                    if mode is None:
                        mode = "?" if (len(n.args) >= 2 or any(kw.arg == "mode" for kw in n.keywords)) else "r"
                    opens.append((rel, ".".join(self.stack) or "<module>", str(mode)))
                self.generic_visit(n)
        V().visit(t)
    items["fileOpens"] = opens
    # --- merge options accepted by Node._graft
    try:
        ntree = ast.parse(read("classes/node.py"))
        g = find_func(ntree, "_graft")
        opts = None
        for n in ast.walk(g):
            if isinstance(n, ast.Assert) and isinstance(n.test, ast.Compare) and len(n.test.ops) == 1 \
                    and isinstance(n.test.ops[0], ast.In) and isinstance(n.test.left, ast.Name) \
                    and n.test.left.id == "merge_metadata":
                lst = n.test.comparators[0]
                opts = []
                for e in lst.elts:
                    if isinstance(e, ast.Constant):
                        opts.append(repr(e.value) if not isinstance(e.value, str) else e.value)
        if opts is None:
            raise Unsupported("merge option assertion not found")
        items["mergeOptions"] = opts
    except Unsupported as e:
        notes.append(("mergeOptions", str(e)))
    # --- maxdepth of the class search
    try:
        t = find_func(utree, "_walk_module_find_classes")
        names = [a.arg for a in t.args.args]
        defaults = t.args.defaults
        d = dict(zip(names[len(names) - len(defaults):], defaults))
        md = d.get("maxdepth")
        if isinstance(md, ast.Constant) and isinstance(md.value, int):
            items["walkMaxDepth"] = md.value
        else:
            raise Unsupported("maxdepth default is not an int literal")
    except Unsupported as e:
        notes.append(("walkMaxDepth", str(e)))
    # --- metadata writer tags and reader tags
    try:
        mtree = ast.parse(read("classes/metadata.py"))
        save = find_func(mtree, "_save_item")
        wtags = []
        for n in ast.walk(save):
            # X.attrs['type'] = <const or const.encode(..)>
            if isinstance(n, ast.Assign) and len(n.targets) == 1 and isinstance(n.targets[0], ast.Subscript):
                tg = n.targets[0]
                if isinstance(tg.value, ast.Attribute) and tg.value.attr == "attrs" and \
                        isinstance(tg.slice, ast.Constant) and tg.slice.value == "type":
                    v = n.value
                    if isinstance(v, ast.Call) and isinstance(v.func, ast.Attribute) and v.func.attr == "encode":
                        v = v.func.value
                    if isinstance(v, ast.Constant) and isinstance(v.value, str):
                        if v.value not in wtags:
                            wtags.append(v.value)
        rd = find_func(mtree, "_read_item")
        rtags = []
        for n in ast.walk(rd):
            if isinstance(n, ast.Compare) and isinstance(n.left, ast.Name) and n.left.id == "t" and \
                    len(n.ops) == 1 and isinstance(n.ops[0], ast.Eq) and isinstance(n.comparators[0], ast.Constant):
                rtags.append(n.comparators[0].value)
        items["mdWriterTags"] = wtags
        items["mdReaderTags"] = rtags
    except Unsupported as e:
        notes.append(("mdTags", str(e)))

    h = hashlib.sha256()
    for rel in ["write.py", "classes/utils.py", "classes/node.py", "classes/metadata.py", "read.py", "utils.py"]:
        h.update(read(rel).encode())
    L = ["-- GENERATED by tools/py2lean.py from /repo/src/emdfile -- do not edit",
         f"-- sources sha256: {h.hexdigest()}",
         "namespace EmdGen", ""]
    DEFAULTS = {'writeModes': ['w', 'write'], 'overwriteModes': ['o', 'overwrite'], 'appendModes': ['a', '+', 'append'], 'appendOverModes': ['oa', 'ao', 'o+', '+o', 'appendover'], 'baseGroupTypes': ['root', 'metadatabundle', 'metadata'], 'dataGroupTypes': ['node', 'array', 'pointlist', 'pointlistarray', 'custom'], 'mergeOptions': ['True', 'False', 'copy', 'overwrite', 'copyover'], 'mdWriterTags': ['dict', 'None', 'string', 'bool', 'number', 'array', 'tuple', 'list', 'tuple_of_tuples', 'tuple_of_arrays', 'list_of_arrays', 'tuple_of_strings', 'list_of_strings'], 'mdReaderTags': ['dict', 'None', 'string', 'number', 'bool', 'array', 'tuple', 'tuple_of_arrays', 'tuple_of_tuples', 'tuple_of_strings', 'list', 'list_of_arrays', 'list_of_strings']}
    missing = []
    def strlist_def(name, default=None):
        if name in items:
            L.append(f"def {name} : List String := {lean_strlist(items[name])}")
        else:
            # FALLBACK to the documented table, flagged in `unavailable` (the tie obligations of the properties that are
            # about this table then fail, the rest of the model still builds)
            missing.append(name)
            L.append(f"def {name} : List String := {lean_strlist(DEFAULTS[name])}  -- FALLBACK (not recognised in the source)")
    for nm in ["writeModes", "overwriteModes", "appendModes", "appendOverModes",
               "baseGroupTypes", "dataGroupTypes"]:
        strlist_def(nm)
    if "customPrefix" in items:
        L.append(f"def customGroupTypes : List String := dataGroupTypes.map (fun s => {lean_str(items['customPrefix'])} ++ s)")
    elif "customGroupTypesLiteral" in items:
        L.append(f"def customGroupTypes : List String := {lean_strlist(items['customGroupTypesLiteral'])}")
    else:
        missing.append("customGroupTypes")
        L.append('def customGroupTypes : List String := dataGroupTypes.map (fun s => "custom_" ++ s)  -- FALLBACK')
    if "groupTypeParts" in items:
        m = {"EMD_base_group_types": "baseGroupTypes", "EMD_data_group_types": "dataGroupTypes",
             "EMD_custom_group_types": "customGroupTypes"}
        try:
            L.append("def groupTypes : List String := " + " ++ ".join(m[n] for n in items["groupTypeParts"]))
        except KeyError:
            missing.append("groupTypes")
            L.append("def groupTypes : List String := baseGroupTypes ++ dataGroupTypes ++ customGroupTypes  -- FALLBACK")
    else:
        missing.append("groupTypes")
        L.append("def groupTypes : List String := baseGroupTypes ++ dataGroupTypes ++ customGroupTypes  -- FALLBACK")
    L.append("def classGroupTypes : List (String × String) := [" +
             ", ".join(f"({lean_str(a)}, {lean_str(b)})" for a, b in items["classGroupTypes"]) + "]")
    L.append("def fileOpens : List (String × String × String) := [" +
             ", ".join(f"({lean_str(a)}, {lean_str(b)}, {lean_str(c)})" for a, b, c in items["fileOpens"]) + "]")
    strlist_def("mergeOptions")
    if "walkMaxDepth" in items:
        L.append(f"def walkMaxDepth : Nat := {items['walkMaxDepth']}")
    else:
        missing.append("walkMaxDepth")
        L.append("def walkMaxDepth : Nat := 6  -- FALLBACK")
    strlist_def("mdWriterTags")
    strlist_def("mdReaderTags")
    L.append("/-- fragments the translator did not recognise in the current source (fallback tables are in use for them) -/")
    L.append(f"def unavailable : List String := {lean_strlist(missing)}")
    L += ["", "end EmdGen", ""]
    return "\n".join(L), notes, items


def write_if_changed(path, text):
    old = None
    if os.path.exists(path):
        with open(path, encoding="utf-8") as f:
            old = f.read()
    if old != text:
        tmp = path + ".tmp%d" % os.getpid()
        with open(tmp, "w", encoding="utf-8") as f:
            f.write(text)
        os.replace(tmp, path)
        return True
    return False


def main():
    os.makedirs(OUT, exist_ok=True)
    report = {"unavailable": [], "changed": []}
    text, status, fdig = gen_version()
    if text is None:
        # FALLBACK: the hand-written lexicographic comparison, flagged, so that only the obligations that are ABOUT this
        # fragment (C20_translator_tie) break - not every check that links the driver
        report["unavailable"].append(["versionIsGeq", status])
        text = f"""-- GENERATED by tools/py2lean.py -- do not edit
-- function sha256: {fdig}
-- UNAVAILABLE versionIsGeq: {status}  (fallback definition below; EmdGen.versionTranslated = false)
namespace EmdGen
def versionTranslated : Bool := false
def versionIsGeq (c0 c1 c2 m0 m1 m2 : Int) : Bool :=
  decide (c0 > m0) || (decide (c0 = m0) && (decide (c1 > m1) || (decide (c1 = m1) && decide (c2 ≥ m2))))
end EmdGen
"""
    if write_if_changed(os.path.join(OUT, "Version.lean"), text):
        report["changed"].append("Version.lean")
    report["version_fn_sha256"] = fdig
    try:
        text, notes, items = gen_tables()
        for n in notes:
            report["unavailable"].append(list(n))
        report["tables"] = {k: v for k, v in items.items()}
    except (Unsupported, SyntaxError, OSError) as e:
        report["unavailable"].append(["tables", str(e)])
        text = "-- GENERATED -- UNAVAILABLE tables\nnamespace EmdGen\nend EmdGen\n"
    if write_if_changed(os.path.join(OUT, "Tables.lean"), text):
        report["changed"].append("Tables.lean")
    print(json.dumps(report))


if __name__ == "__main__":
    main()
