#!/venv/bin/python
"""False-alarm regression: for each /verif/harmless/<id>/patch.diff (a behaviour-preserving refactoring of /repo confirmed
to pass the 53 tests) apply it to /repo, run EVERY quick check, revert.  A check that exits non-zero or prints VIOLATION is
an alarm on code where the properties hold.  usage: tools/harmless.py [ids...]   (/repo must be clean)"""
import json, os, subprocess, sys
V = os.path.dirname(os.path.dirname(os.path.abspath(__file__)))
REPO = os.environ.get("EMD_REPO", "/repo")      # a scratch clone may be used (with a copy of /verif) to run regressions in parallel
def sh(cmd, **kw):
    return subprocess.run(cmd, shell=True, capture_output=True, text=True, **kw)
if sh(f"git -C {REPO} status --porcelain").stdout.strip():
    print(REPO, "is not clean"); sys.exit(2)
ids = sys.argv[1:] or sorted(os.listdir(os.path.join(V, "harmless")))
alarms = []
for hid in ids:
    d = os.path.join(V, "harmless", hid)
    if sh(f"git -C {REPO} apply {d}/patch.diff").returncode != 0:
        print(hid, "patch does not apply"); alarms.append((hid, "apply")); continue
    try:
        t = sh("/venv/bin/python -m pytest -q -p no:cacheprovider test 2>&1 | tail -1", cwd=REPO).stdout.strip()
        r = sh("sh tools/runall.sh quick 6", cwd=V)
    finally:
        sh(f"git -C {REPO} checkout -- .")
        sh(f"rm -rf {V}/replays")
    bad = [l for l in r.stdout.splitlines() if " rc=" in l and " rc=0 0 " not in l]
    print(hid, "| suite:", t, "| alarms:", [b[:140] for b in bad])
    for b in bad:
        alarms.append((hid, b.split()[0]))
    res = {"suite_with_change": t, "alarms": bad, "all_checks": r.stdout.splitlines()}
    with open(os.path.join(d, "result.json"), "w") as f:
        json.dump(res, f, indent=1)
print("alarms:", alarms)
sys.exit(1 if alarms else 0)
