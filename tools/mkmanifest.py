#!/usr/bin/env python3
"""Writes /verif/MANIFEST.json from the table below (single place to edit)."""
import json, os
HERE = os.path.dirname(os.path.dirname(os.path.abspath(__file__)))

BASE_NOTE = ("Trusted: Lean 4.33 kernel (axioms propext, Classical.choice, Quot.sound only; audited each run, no sorry/"
             "native_decide/axiom); the Lean compiler for the executable driver; the hand-written model's fidelity is CHECKED "
             "by the correspondence run (differential, on generated cases only); tools/py2lean.py and harness/*.py; the "
             "h5py/numpy store contract H1-H7 (DESIGN 4.2) is modelled, not verified. ")

CLAIMED = {
    "C20": dict(
        text="Kernel-checked theorem C20_lex: for ALL integer triples the regenerated translation of _version_is_geq is true "
             "iff the triple is lexicographically >= the minimum; plus C20_written_geq for the (1,0,r) versions the package writes. "
             "The Lean definition is regenerated from the Python AST on every run, so the theorem is re-proved against the current source.",
        note="Python ints are unbounded so Int is exact; None (fall-through) is read as false. Also runs every ordering pattern x "
             "boundary values through the real function and the compiled model.",
        technique="Lean 4 theorem over AST-regenerated definition (translator tie) + exhaustive-pattern correspondence",
        design="7 C20"),
}

CLAIMED["C01"] = dict(
    text="Kernel-checked theorems over the tree-level model (writer/reader of utils.py, write.py, read.py transcribed function by "
         "function): C01_save/C01_read/C01_roundtrip — for ALL well-formed rooted trees (any depth, branching, class assignment, names) "
         "a whole-tree save into a fresh path succeeds, the file holds exactly one root group, and reading it back returns exactly the "
         "saved tree; C01_node_at/C01_file_path/C01_tags — the node at tree path p is the group /<root>/<p> carrying its group type and class.",
    note="Node bodies (datasets/metadata written by each class) are opaque at this level (their round-trip is C02-C04). Proved under "
         "Tree.rootedWF, which excludes a child named like an object of its parent's body (the real writer raises there: "
         "C01_counterexample_collision, recorded as known finding). emdpath string parsing is modelled and exercised by the correspondence, "
         "theorems are stated on parsed paths. Not modelled: HDF5 link-name length limits, names with NUL.",
    technique="Lean 4 structural-induction proof over hand-written model + differential correspondence (raw h5py walk and read-back)",
    design="7 C01")

CLAIMED["C07"] = dict(
    text="Kernel-checked: C07_select/C07_writeFromRoot — for ALL trees, every node as target, each tree option, the file written by a "
         "partial save into a fresh path is exactly header + encode(selSpec), where selSpec is the 3-line specification (root with its "
         "whole body = all root metadata; node alone / node with branch re-rooted under the root / its children under the root); "
         "C07_sel_wf — the selection is well-formed whenever the source tree is and no selected top node is named like an object of "
         "the root's body; C07_read_back — reading the file returns exactly the selection; C07_unrooted — an unrooted node is wrapped "
         "in <name>_root.",
    note="Bodies opaque (content = body equality). Correspondence compares the raw file with the spec computed from the source objects "
         "and with the model for every target/option incl. unrooted nodes.",
    technique="Lean 4 proof of refinement to a selection spec + differential correspondence",
    design="7 C07")
CLAIMED["C08"] = dict(
    text="Kernel-checked: C08_select — in ANY file whose root group is the encoding of a well-formed tree (one or several trees per "
         "file), reading any node path with each tree option returns exactly readSpec (node alone / node+branch / branch under the "
         "root, attached to a root with the file root's name and body); C08_missing/_missing_root/_descend_fails — a path that does not "
         "resolve is refused; C08_open_modes — on the table regenerated from the source every h5py.File call outside write.py uses 'r'. "
         "In the model read has no store output (structural).",
    note="Byte-level immutability beyond 'opened read-only' is h5py/HDF5 (H7); the correspondence hashes the file bytes before and "
         "after every read, successful or not. emdpath string parsing (leading '/', '//', trailing '/') is modelled and compared, "
         "theorems are on parsed paths.",
    technique="Lean 4 proof of refinement to a read spec + regenerated open-mode table (decide) + differential correspondence with byte hashes",
    design="7 C08")

CLAIMED["C09"] = dict(
    text="Kernel-checked refinement (mutual induction on the runtime tree, no size bound): appendOne_spec/appendKids_spec/C09_union/"
         "C09_save — for EVERY file holding the encoding of a well-formed tree F and EVERY well-formed runtime tree R with the same "
         "root name, a whole-root append / append-over rewrites exactly that root group into the encoding of a well-formed tree T' "
         "with info(T' at p) = combine mode (info(F at p)) (info(R at p)) at every path (C09_existing_kept/_new_added/_replaced/"
         "_nothing_else); C09_root_md(+_fresh) — root metadata per entry name; C09_other_roots — other trees and header untouched. "
         "Targeted appends through the real dispatch and path matching, by a zipper lemma (updateAt_encode): C09_target_new_branch, "
         "C09_target_new_single, C09_target_below, C09_target_yes_append, C09_target_no_append, C09_target_over_branch / C09_target_over_single "
         "(append-over of an inner node = appendOne at its parent), C09_target_new_below, C09_emdpath_root_new_single, C09_emdpath_self (emdpath naming the node itself = no emdpath), C09_emdpath_parent (naming its parent: the same), C09_emdpath_from_root (the Root saved under emdpath root/a/b = append of the runtime node a/b), C09_emdpath_downstream (emdpath naming a descendant of the saved node = append of that descendant), C09_emdpath_parent_new (node the file lacks, emdpath = its parent, tree=True/False = no emdpath), C09_emdpath_parent_new_below (the same with tree=None: the node is not written, its children are merged into the PARENT by the union rule), C09_emdpath_namesake (emdpath naming a node that merely has a child called like the saved node: appended in place at the node's own treepath = no emdpath), C09_emdpath_unrelated_refused (emdpath naming an unrelated node, e.g. a sibling with a similar name: refused, nothing written), C09_foreign_branch, C09_foreign_single, C09_foreign_below, C09_foreign_root (+ _alone_refused) — exactly the selection is added exactly "
         "there — with C09_target_frame (every path not through the target keeps its content). Sequences: C09_closed (every "
         "theorem applies again after any append) and C09_twice.",
    note="Every leaf of the dispatch for a root in the file without emdpath is proved (node in file x tree option x mode; node one "
         "beyond the file x tree option), and the emdpath leaves for a root in the file are reduced to them by equivalence "
         "theorems (emdpath = the node / its parent / a descendant / from the Root / a namesake's parent), the parent emdpath of a new node "
         "with tree=None by its own union statement: every leaf of appendCore for a root in the file has a theorem. "
         "compatKids is the explicit 'common name space' domain: no runtime child named like an object of the body it lands in, "
         "old children not named like objects of the replacing body (the former hypothesis 'scratch name _tmp_<name> free' is gone: "
         "running the real code at that excluded point showed a refusal, repaired in /repo by fix d955578). Bodies opaque.",
    technique="Lean 4 refinement proof to a path-wise union spec (whole-root and targeted appends, zipper lemma) + differential correspondence over (file tree, runtime tree) pairs",
    design="7 C09")

CLAIMED["C10"] = dict(
    text="Kernel-checked: C10_frame/C10_frame_save — EVERY save into an existing file (the whole dispatch of write.py: whole-root "
         "append, append-over, every targeted append with every tree option and emdpath) adds or rewrites exactly one top-level "
         "group; every other tree and the header (incl. UUID) are literally unchanged; C10_new_tree/C10_append_all/C10_roots_* — "
         "trees with distinct root names saved one after the other give exactly one top-level tree per root, each the encoding of its "
         "source; C10_each_readable — each is readable by its root name and equals its source; C10_read_list — a read without a path "
         "on a file with >= 2 roots reports exactly the root names; C10_save_list — through save(path, [...]) itself: a list of "
         "Roots, unrooted nodes, arrays and dicts saved to a fresh path gives the header plus exactly one top-level tree per root "
         "(root_savedlist of the unrooted items first, then the given Roots whole, in order), each the encoding of its source; "
         "C10_save_list_rooted — the same entry point for a list that ALSO holds any number of rooted nodes of one other tree: "
         "after the plain roots comes a copy of that tree's root (name, metadata) holding exactly the listed nodes alone, in list order.",
    note="List items that are nodes of other trees: each step is proved through the public entry point (C10_rooted_item: the node "
         "alone becomes a new last child of the root group of that name; mdBody_self: the copy's metadata are unchanged by the "
         "merge; C10_rooted_items_fold: all rooted items of one root, saved one after the other, leave the copy with exactly those "
         "nodes alone, in order; C10_save_list_rooted composes the three phases for one foreign root). Lists holding rooted items of SEVERAL "
         "different trees, or rooted nodes deeper than direct children, are not proved as one statement: they are modelled "
         "(EmdModel.SaveList) and checked by the correspondence and a direct layout oracle on every generated list. The array_i / dictionary_i naming inside root_savedlist is part of listRoots (model), compared with the code.",
    technique="Lean 4 frame/invariant proofs over the save dispatch + differential correspondence on interleaved list saves and appends",
    design="7 C10")
CLAIMED["C11"] = dict(
    text="Kernel-checked for EVERY file-system state, source and tree option: C11_write_refuses (write mode on an existing path is "
         "refused whatever it holds; a failing save returns no file system, so nothing is touched; C11_write_refuses_every_input / "
         "C11_unknown_every_input: the same for arrays, dicts, Metadata, lists / tuples and unsavable objects), C11_overwrite + "
         "C11_overwrite_no_residue (overwrite = delete then write: the result does not depend on the old content), C11_append_absent "
         "(append / append-over to a missing path = write), C11_unknown (unknown mode refused), C11_tables (the mode tables "
         "REGENERATED from write.py contain exactly the documented spellings, pairwise classified as documented).",
    note="Inputs of every kind (node, array, dict, Metadata, list/tuple) go through the same dispatch (EmdModel.SaveList.saveInput) and "
         "are exercised by the correspondence with old files that are EMD, foreign HDF5 and junk bytes, hashing the bytes before/after. "
         "Byte-level 'file unchanged' is os/h5py (H7) and is checked by hash on the implementation only.",
    technique="Lean 4 theorems over the mode dispatch + regenerated mode tables (decide) + differential correspondence with byte hashes",
    design="7 C11")

CLAIMED["C05"] = dict(
    text="validFile (EmdModel/Valid.lean) is a decidable transcription of the layout the statement lists. Kernel-checked: "
         "validGroup_encode — the encoding of ANY well-formed tree with valid node bodies is a valid EMD group (tags from the "
         "vocabulary, class, tagged typed metadata bundle, Array data/units/dims, nothing untagged, no scratch group); "
         "C05_new_file(+_save) — every save creating a file (whole tree or any partial selection, any session author/program) "
         "writes a valid file; C05_append_new_tree and C05_union — appending a further tree and the whole-root append / append-over "
         "of C09 (incl. the merged root metadata bundle, mdBody_ok) keep the file valid, so validity is an invariant of any sequence "
         "of such saves; C05_detector — on a valid file the package's detector says EMD, the version query (1,0,0), and the version "
         "helper accepts it.",
    note="(1) C05_replace_root / C05_target_new_branch / C05_target_new_single / C05_target_new_below / C05_target_below / C05_target_over_single / C05_target_over_branch / C05_foreign_root cover rewriting a root group into ANY valid tree and seven targeted leaves, each for a parent below the root (a new branch, a new node alone, what is below a new node; the union merge below a common node; append-over of a common node alone / with its branch; a foreign Root under an emdpath, whose children are grafted and which is never written as a nested root group); for "
         "the other targeted leaves validity is checked by the correspondence (independent h5py-only validator on the real file vs. "
         "Lean validFile on the model file after every save of every history); (2) the per-class body validity (infoOK) is a "
         "hypothesis at tree level and is discharged for the codecs: C05_array_body_ok, C05_metadata_entry_ok, C05_array_node_ok; "
         "dim-vector lengths (2 or extent) are C02_stored_length; (3) node-valued attributes of Custom nodes: the validator requires "
         "every group of a body other than the bundle to carry one of the five custom_<type> tags and a class (C05_attr_groups_tagged); "
         "Custom.to_h5 is modelled as customBody (Node.to_h5's group, then one re-tagged group per node-valued attribute) with "
         "C05_custom_body_ok; Custom nodes with attributes of every built-in class, subclasses and nested Custom nodes are written "
         "by the real code, the body compared with customBody and the raw walk of the real file validated by both validators.",
    technique="Lean 4 invariant proof over a decidable validator + differential correspondence against an independent h5py validator",
    design="7 C05")

CLAIMED["C12"] = dict(
    text="Heap model with STORED _root/_treepath caches updated exactly where node.py updates them (so staleness is expressible). "
         "Invariant by induction over operations: Inv (ids occur once in the whole forest, non-Root names distinct, every node below a Root "
         "records that Root and its real treepath, other top-level objects are single unrooted nodes). C12_step: add / force-add / "
         "graft (from a node or a Root, every option) / cut / object creation / metadata assignment each keep Inv; C12_history: so "
         "does EVERY finite sequence satisfying the quantifier's side conditions (legalSeq: fresh names, no graft onto an own "
         "descendant); C12_nodes_conserved: no node lost or duplicated (the (id,name) multiset is kept exactly); C12_reports_root, "
         "C12_lookup_own_path (the walk and the absolute lookup of a node's recorded path return that node), C12_one_place, "
         "C12_relabel / C12_shape (moved branch arrives intact, whole branch refreshed), C12_refused_* (forbidden operations "
         "change nothing).",
    note="The check evaluates legalSeq with the Lean definition on every tested history and records the share inside the theorem's "
         "hypothesis (200/200 at seed 0). Grafts of a node onto its own descendant are excluded (the property's own exclusion); "
         "Roots may share names (repeated cuts), only ordinary node names must be distinct.",
    technique="Lean 4 invariant-by-induction proof over all operation histories of a heap model + differential correspondence with full snapshots after every operation",
    design="7 C12")
CLAIMED["C13"] = dict(
    text="mergeDict is the loop at the end of Node._graft on the receiving root's metadata dict. Kernel-checked for ALL receiver / "
         "donor dicts with distinct donor keys: C13_no (unchanged), C13_yes (own entries + donor entries it lacked, the SAME "
         "objects), C13_overwrite (donor's version on conflicts, same objects), C13_copy (fresh objects — ids never used before — "
         "for the entries it lacked, receiver's objects kept on conflicts), C13_copyover (fresh objects for every donor entry); "
         "C13_copies_content — a copy is named by its key and has the CONTENT of the donor's object, and every object that "
         "existed before (the donor root's included) is untouched; C13_receiver_gets_merged — at heap level the receiving root's "
         "dict after the metadata step of graft / cut / force-add is what the loop computed; "
         "C13_table — the option literals accepted by the source (regenerated from node.py) are the documented five.",
    note="Entries keyed by the Metadata object's own name (the only state the public setter produces) is a hypothesis of "
         "C13_yes/_overwrite. Object identity (shared vs. independent) and content are also compared by the correspondence after "
         "every graft / cut.",
    technique="Lean 4 induction over the merge loop + regenerated option table + differential correspondence incl. object identity",
    design="7 C13")

CLAIMED["C14"] = dict(
    text="Model of array.py (constructor, _unpack_dim, setters, stacks) with the arithmetic as a PARAMETER, so the theorems hold for "
         "IEEE doubles, int64 and exact numbers alike. Kernel-checked: C14_unpack_length — every accepted dim argument (None, "
         "number, pair, full vector) yields exactly as many entries as the axis (the repaired np.arange defect is structurally "
         "impossible); C14_lengths — after construction exactly one dim vector / unit / name per (non-label) axis, each vector of the "
         "axis length, with units and names exactly those computed from the caller's arguments (C14_pad_kept, C14_units_kept, "
         "C14_names_kept, C14_omitted_pixels); C14_setters — every later set_dim / set_dim_units / set_dim_name keeps this; "
         "C14_ramp_entry / C14_ramp_int / C14_none_int — entry i of an expanded pair is a+(b-a)*i (exactly the arithmetic ramp for "
         "Python ints; 0..N-1 for an omitted entry); C14_stack — depth / rank / shape of stacks; C14_label_index — with distinct labels the i-th label addresses slice i; "
         "C14_labels_truncated — a label list longer than the depth is cut to the depth (surplus labels play no part); C14_slice_calibrations — for every well-formed "
         "stack and every label that occurs, ar[label] (get_slice, modelled) succeeds and returns the addressed slice as an Array over "
         "the remaining shape with exactly the stack's units, dim vectors, dim units and dim names.",
    note="Not modelled: how far an IEEE ramp is from the rational ramp (the property's 'arithmetic ramp' is checked with a "
         "4e-16 relative tolerance by the oracle); dims given as float32/float16 arrays at bit level. The correspondence compares "
         "dim values BIT-EXACTLY between numpy and the Lean Float driver after construction and after every setter. Slice-by-label "
         "(ar[label] is slice i with the same calibrations) is checked by the oracle on the real objects.",
    technique="Lean 4 proofs parametric in the arithmetic + bit-exact differential correspondence (Lean Float vs numpy)",
    design="7 C14")
CLAIMED["C02"] = dict(
    text="Kernel-checked, for EVERY arithmetic: C02_roundtrip — for every Array value the constructor can return (C02_ctor_meets_"
         "hypotheses) whose dim vectors are numpy arrays, reading what to_h5 wrote succeeds and returns an Array with the same data "
         "token, data shape, units, stack flag, labels in order, dim units and dim names, and per axis the saved dim vector verbatim "
         "(uncompressed axis) or elementwise numpy-equal (compressed axis): the writer compresses exactly when the READER'S own "
         "expansion of the first two entries reproduces the vector (C02_axis_compressed), so rounding of the ramp arithmetic cannot "
         "break the round trip; nearly-linear vectors are simply stored whole (C02_axis_full). Composed through the dim<n> lookups "
         "(injectivity of the generated names), stack detection and label recovery of _get_constructor_args and the constructor "
         "(mkArray_ok). Also C02_stored_length, C02_data_units, C02_labels, C02_body_length, C02_readback_calibrated.",
    note="dtype, shape and element bytes of `data` are h5py's contract (H2), sampled by the data token on every case. The float "
         "instance of the arithmetic (Lean Float, bit-identical to numpy for the ramp) is exercised by the correspondence, the "
         "theorem holds for any ONE arithmetic; dim vectors held in a numpy dtype narrower than 64 bits go through numpy's mixed-width "
         "arithmetic, which the codec does not model: every eighth case has such vectors and is decided on the real code by the "
         "round-trip predicate alone. Excluded by hypothesis: a non-stack Array whose last dim name is '_labels_' (known finding C15-K3).",
    technique="Lean 4 proofs parametric in the arithmetic (full save/read composition) + bit-exact differential correspondence at file and read-back level",
    design="7 C02")

CLAIMED["C03"] = dict(
    text="Model of metadata.py: _save_item (the guard chain in its order) and _read_item (the tag dispatch). Kernel-checked by mutual "
         "structural induction over values and item lists, so dict nesting depth is unbounded: C03_item / C03_items — for EVERY "
         "value of the documented kinds the writer succeeds and the reader returns its canonical form (numeric sequences as the "
         "entries of the array numpy stored, numpy scalars as their Python value, everything else verbatim: bool stays bool, int "
         "int, float float incl. nan/inf by bit pattern, complex, str, None, arrays by dtype/shape/bytes token, tuples tuples, "
         "lists lists); C03_metadata — a whole Metadata group incl. its tags and class; C03_tags — writer tags = reader branches "
         "(tables regenerated from the source); C03_counterexample_None_string shows why '_None' is outside the domain.",
    note="What numpy/h5py make of a Python sequence handed to create_dataset (contract H6) is supplied per value by the "
         "abstraction function (the token of what was actually stored, or 'refused'); the model decides emdfile's part only. "
         "Any number of Metadata per node / any node position: composition with C01 and C09_root_md (bundle = name-keyed map).",
    technique="Lean 4 mutual structural induction over a value grammar + regenerated tag tables + differential correspondence at file and read-back level",
    design="7 C03")

CLAIMED["C04"] = dict(
    text="Kernel-checked: C04_pointlist(+_fields) — for EVERY PointList (>= 1 fields, any names / dtypes, any length incl. 0) "
         "written into a group that may also hold child nodes and a metadata bundle, the reader (which takes exactly the datasets "
         "of the group as fields) returns the same fields with the same dtype strings and column tokens and the same length; "
         "C04_pla / C04_pla_cell — for EVERY PointListArray (any 2D shape incl. zero extents, ragged / empty / all-empty cells) the "
         "reader returns the same dtype, shape and, cell by cell, the same points; C04_counterexample_no_fields shows the forced "
         ">= 1 field hypothesis.",
    note="Columns and cells are tokens (dtype, length, element bytes): what numpy makes of a structured column, np.dtype(str(dt)) "
         "== dt for scalar field dtypes, and what a vlen read returns are contract H6 and are what the correspondence samples "
         "(per-field / per-cell tokens before, in the file, and after; cells compared by value in native byte order because "
         "numpy's append changes the byte order of big-endian cells without changing a point). Excluded: a field named "
         "'metadatabundle' (known finding, C15).",
    technique="Lean 4 proofs over a token-level codec model + differential correspondence on per-field / per-cell tokens",
    design="7 C04")

CLAIMED["C17"] = dict(
    text="Model of read_EMD_v0p1.py and of the fallback in read(). Kernel-checked for EVERY file: C17_refuse_junk / _missing / "
         "_no_groups — non-HDF5 bytes, and any HDF5 file that is neither EMD 1.0 nor holds a group tagged emd_group_type=1, make "
         "read raise; C17_detector — the EMD 1.0 detector is exactly header type 'file' + version 1.0 + >= 1 root (C17_missing_attribute: a missing "
         "header attribute is not 'as expected'); C17_import_axis — "
         "a full-length 1-based dim dataset becomes the axis' dim vector verbatim (every arithmetic); C17_import_calibrated — every "
         "imported Array satisfies C14; C17_import_faithful — the import of a data group with full-length dim datasets succeeds and "
         "yields its data token and per axis exactly the stored vector, name and units; C17_single — one data group gives that "
         "Array under the group's name; C17_many — several groups with distinct names give a root holding all of them by name.",
    note="Forced hypothesis: distinct data-group basenames (C17_counterexample_same_name, known finding C17-K1). The shape h5py "
         "reports for `data` is contract H2. Also compared by the correspondence (arrays by name with data token, bit-exact dims, "
         "names, units) on files with 1-4 data groups at depth 0-3, foreign and junk files.",
    technique="Lean 4 proofs over a model of the legacy reader + differential correspondence on generated legacy / foreign / junk files",
    design="7 C17")
CLAIMED["C19"] = dict(
    text="In the model save is a function from VALUES and a file system to a file system or an error: the caller's objects are not "
         "among its outputs, for successful and failing saves alike (structural frame). What write.py does to runtime objects "
         "besides reading them is the temporary rooting of unrooted nodes; saveEffect is its net effect after the repair and "
         "C19_frame proves it invisible (every node keeps its root, place, children and metadata objects), C19_still_unrooted / "
         "C19_can_be_added — an unrooted node stays unrooted and can still be added to a tree; C19_rooted_untouched / C19_others_untouched "
         "— a node that is in a tree (whatever its root is called) and objects that were not passed are not touched at all; C19_repeat — the tree content written "
         "into a fresh file does not depend on the header, so two saves of the same input differ in the UUID only.",
    note="The frame over REAL objects is what the correspondence checks: full snapshot of all caller objects (shape, names, roots, "
         "metadata identity and content, data tokens, list length and item identity) before / after a save of every input kind, "
         "mode and tree option, including saves forced to fail half-way, plus re-addability and a repeated save. The model side of "
         "that comparison is the trivial prediction 'after = before'. Metadata .name re-synchronisation is invisible when key = "
         "name (the only state the public setter produces).",
    technique="Lean 4 frame proof on the heap model + before/after snapshot comparison on the real objects (successful and failing saves)",
    design="7 C19")

CLAIMED["C06"] = dict(
    text="Registry model of classes/utils.py::_get_class (built-ins, then every sys.modules entry whose _emd_hook is True, hooked "
         "sub-modules walked to depth < maxdepth; maxdepth regenerated from the source). Kernel-checked for namespaces of any size "
         "and nesting: C06_absent — a name no searched module binds is NOT found, the lookup fails instead of substituting another "
         "class; C06_builtin — built-ins are found unless re-bound; C06_unhooked / C06_sub_unhooked / C06_too_deep — modules that do "
         "not opt in, un-hooked sub-modules and sub-modules at the depth limit are not searched (5 deep in, 6 deep out); "
         "C06_found_last / C06_exposed / C06_found_nested — an exposed class is found under its name at every placement the rule "
         "reaches (the last binding wins: why names must be distinct); C06_custom_not_child / C06_custom_is_body — custom_* groups are never tree children; "
         "C06_custom_attrs_returned — of the body Custom.to_h5 writes (customBody) the reader hook's dictionary has exactly the attribute "
         "names as keys, for every attribute class and name.",
    note="C06_found_nested covers EVERY placement: the walk is exactly the sequence of its bindings (walkMembers_eq / classDict_eq), "
         "so with distinct class names every class the documented rule reaches (C06_reaches_class / C06_reaches_submodule: top "
         "level of a module with _emd_hook is True, hooked sub-modules within the depth limit) is what the lookup returns; five "
         "deep in, six deep out. Also compared by the correspondence on synthetic modules (types.ModuleType in sys.modules, "
         "subclasses created with type(), hooks True / absent / False / 1, nesting 0-7, the SAME module object under two parents) "
         "incl. a real save / read of instances, Custom attribute nodes (also underscore-named), and the class removed before "
         "reading. Python's import machinery itself is not modelled.",
    technique="Lean 4 proofs over a registry model + regenerated constants + differential correspondence with synthetic modules and real round-trips",
    design="7 C06")

CLAIMED["C18"] = dict(
    text="Append mode, kernel-checked: at node granularity a failing whole-root append has written only a pruned runtime tree R'; "
         "C18_pruned_wf / C18_pruned_compatOne/Kids show every pruned tree inherits well-formedness and the common-name-space "
         "condition, so C09's refinement applies to EVERY failure point: C18_append_every_point — whatever prefix of the work was "
         "done, every node the file held is still at its path with exactly the content it had, the root group is again the encoding "
         "of a well-formed tree (no scratch group), other trees and the header are untouched (C09_other_roots); C18_new_node_fresh — "
         "a node being written for the first time goes under a name that was free. Mutation granularity: the primitive h5py "
         "mutations have a semantics on the store model (EmdModel/Mutations.lean); C18_mutation_step / C18_every_interruption — "
         "after ANY prefix of a sequence of additive mutations (creations; changes or removals only of objects that were not in "
         "the file before the save) every object the file held is still at its path with the same attributes and value. The check "
         "records the mutations the real code performs (every generated append / append-over, EVERY mutation made to fail in turn, "
         "natural failures, incl. the writer's cleanup), replays each trace in the model (model file = real file, every mutation "
         "executable, in plain append mode every mutation additive) and inspects the real file (paths, individual reads, content, "
         "other trees, scratch groups).",
    note="(1) That the real trace is additive is checked per run on the recorded traces (hundreds per quick run), not proved for "
         "all inputs — the all-inputs statement is the node-granular theorem; (2) append-over is "
         "NOT failure-atomic for the nodes it replaces — genuine defect, not a small repair, recorded as known finding C18-K1 "
         "(C18_appendover_counterexample); any damage outside that class (append mode, file-only paths the runtime tree does not "
         "reach, other trees) is reported as a violation; (3) process death / power loss inside libhdf5 is not modelled, only "
         "failures surfacing as Python exceptions. One defect found by the enumeration was repaired (half-written root metadata "
         "entry made every later read raise).",
    technique="Lean 4 proofs over pruned runtime trees (node-granular failure points) and over sequences of primitive store mutations (every interruption point) + recorded-trace replay and exhaustive h5py fault enumeration on the real code",
    design="7 C18")

CLAIMED["C15"] = dict(
    text="C15_array_reads_back — whatever the Array constructor accepts is read back as it was (C02_roundtrip on the constructor's range). The claim 'for ANY input' is false of the code that exists, so the theorem is stated as ..._partial on explicit domains and "
         "every exclusion is exhibited by a counterexample decided in the model AND replayed on the implementation each run. "
         "Kernel-checked: C15_rejects_unsupported / _in_dict / _in_sequence / _odd_lists — values of kinds the writer does not know "
         "(numpy bools, bytes, sets and other objects, what h5py refuses, lists of lists / tuples / dicts, ragged sequences) are "
         "rejected AT SAVE TIME wherever they sit in documented containers; C15_metadata_partial — a documented value is never "
         "rejected and reads back as its canonical form; C15_tree_partial — a well-formed tree round-trips exactly; "
         "C15_counterexample_* — the sentinel string, mixed tuples, '_labels_' as a dim name, names outside valid link names, "
         "field-less point data.",
    note="PARTIAL by nature: the accept set of numpy / h5py is not modelled (contract H6: what h5py refuses is supplied to the "
         "model as an unsupported kind). The check runs a catalogue of ~270 edge inputs (undocumented metadata kinds, names / keys "
         "with '/', '.', '', NUL, reserved words, collisions, zero-length and 0-d data, sub-array and field-less point data, very "
         "long names) through the real save / read with the direct predicate, and the metadata edges through the Lean metadata "
         "model as well. Seven classes of genuine defects are recorded as known findings C15-K1..K7 (each identified by its input "
         "class and witness); one (0-d data) was repaired. Any other input for which save succeeds and read fails or differs is a "
         "violation.",
    technique="Lean 4 rejection / round-trip theorems with model counterexamples + catalogue-driven differential check with known-finding matching",
    design="7 C15")

CLAIMED["C16"] = dict(
    text="C16_array_generations — the Array read back is again in the domain of C02_roundtrip: generation 2 equals generation 1 field by field (dims verbatim or numpy-equal). Kernel-checked: C16_tree — reading the file of ANY well-formed tree returns exactly that tree (C01), so saving what was "
         "read writes the same file content: the fixed point is reached after one generation; C16_selection — every read selection "
         "is again a well-formed tree; value level (the reader's output forms are distinct constructors of the model, so the "
         "writer's behaviour on them is really exercised): C16_canon_idem — the read-back form is idempotent; C16_same_object — "
         "saving what was read writes the SAME HDF5 object as the first save, for every documented value at any nesting depth "
         "(mutual induction), hence C16_resave: generations 2, 3, ... are identical to generation 1.",
    note="That a tuple / list of numpy scalars re-coerces to the array it came from is contract H6 (the model's saveItem on seqNp). "
         "Array calibrations through generations (dim vectors re-expanded from arrays, np.str_ units) and legacy imports are "
         "covered by the correspondence: three generations of save / read on real files for every read selection and for "
         "imported EMD 0.1 files, content compared kind-sensitively; second-generation metadata objects compared with the first in "
         "both the implementation and the Lean model. Two defects found here earlier were repaired (numpy bools, legacy units).",
    technique="Lean 4 fixed-point proofs (tree level and value level, mutual induction) + three-generation differential runs",
    design="7 C16")

NOT_YET = {}

def main():
    props = [json.loads(l) for l in open(os.path.join(HERE, "properties.jsonl"))]
    checks, na = [], []
    for p in props:
        pid = p["id"]
        if pid in CLAIMED:
            c = CLAIMED[pid]
            checks.append({
                "property_id": pid,
                "quick_cmd": f"./check {pid} --tier quick",
                "thorough_cmd": f"./check {pid} --tier thorough",
                "evidence_file": f"evidence/{pid}.json",
                "replay_cmd_template": f"./check {pid} --replay {{path}}",
                "engine": "lean4-model+correspondence",
                "level_claimed": {"category": "proof", "text": c["text"], "design_ref": "DESIGN.md section " + c["design"]},
                "level_note": BASE_NOTE + c["note"],
                "technique": c["technique"],
            })
        else:
            na.append({"property_id": pid, "reason": NOT_YET.get(pid, "check not built yet in this round; planned per DESIGN.md section 12 (nothing is claimed for it until its theorem and correspondence exist)")})
    m = {
        "version": 1,
        "setup_cmd": "sh setup.sh",
        "hooks": {"guard": "EMDFILE_VERIF", "enable": "no hooks are needed: fault injection and observation are done by monkeypatching h5py from the harness process", "baseline_off_cmd": "cd /repo && /venv/bin/python -m pytest -q -p no:cacheprovider test", "source_commits": [], "add_only": True},
        "engines": [{"name": "lean4-model+correspondence", "path": "lean/ (model, theorems, driver) + harness/ (correspondence) + tools/py2lean.py (translator)",
                     "serves_properties": [c["property_id"] for c in checks],
                     "kind_free_text": "machine-checked proof in Lean 4 over an executable model; model tied to /repo by AST translation and differential correspondence"}],
        "checks": checks,
        "not_applicable": na,
        "notes": "Entry point ./check <id> [--tier quick|thorough] [--replay file]; seeds via VERIF_SEED. See DESIGN.md.",
    }
    with open(os.path.join(HERE, "MANIFEST.json"), "w") as f:
        json.dump(m, f, indent=1)
    print("claimed", [c["property_id"] for c in checks])

if __name__ == "__main__":
    main()
