#!/bin/sh
# MANIFEST.setup_cmd: offline build of the framework (regenerate EmdGen from /repo, build model, proofs, driver)
set -e
here="$(cd "$(dirname "$0")" && pwd)"
cd "$here"
/venv/bin/python tools/py2lean.py
cd lean
lake build
