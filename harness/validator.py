"""
An independent validator of the EMD 1.0 layout using plain h5py only (never emdfile's reader).
It is the implementation-side observation of C05 (the Lean `validFile` is the model-side one).
"""
import uuid
import h5py
import numpy as np

BASE = ("root", "metadatabundle", "metadata")
DATA = ("node", "array", "pointlist", "pointlistarray", "custom")
CUSTOM = tuple("custom_" + s for s in DATA)
VOCAB = BASE + DATA + CUSTOM


def _s(v):
    if isinstance(v, bytes):
        return v.decode("utf-8", "replace")
    if isinstance(v, (str, np.str_)):
        return str(v)
    return None


def validate(path, program, user, legit_names=()):
    """returns None if valid, else a short reason"""
    try:
        f = h5py.File(path, "r")
    except OSError:
        return "not an HDF5 file"
    with f:
        a = f.attrs
        if _s(a.get("emd_group_type")) != "file":
            return "header: emd_group_type"
        if a.get("version_major") != 1 or a.get("version_minor") != 0:
            return "header: version"
        if "version_release" in a and int(a["version_release"]) < 0:
            return "header: release"
        try:
            uuid.UUID(_s(a.get("UUID")))
        except Exception:
            return "header: UUID"
        if _s(a.get("authoring_program")) != program:
            return f"header: authoring_program {a.get('authoring_program')!r} != {program!r}"
        if _s(a.get("authoring_user")) != user:
            return f"header: authoring_user {a.get('authoring_user')!r} != {user!r}"
        if len(f.keys()) == 0:
            return "no trees"
        for k in f.keys():
            o = f[k]
            if not isinstance(o, h5py.Group) or _s(o.attrs.get("emd_group_type")) != "root":
                return f"top-level object {k!r} is not a tagged root"
            r = _node(o, f"/{k}", legit_names)
            if r:
                return r
    return None


def _node(g, where, legit):
    t = _s(g.attrs.get("emd_group_type"))
    if t not in VOCAB:
        return f"{where}: group type {t!r}"
    if _s(g.attrs.get("python_class")) is None:
        return f"{where}: no python_class"
    if t in ("array", "custom_array"):
        r = _array(g, where)
        if r:
            return r
    for k in g.keys():
        o = g[k]
        if isinstance(o, h5py.Dataset):
            continue
        kt = _s(o.attrs.get("emd_group_type"))
        if k.startswith("_tmp_") and k not in legit:
            return f"{where}/{k}: scratch group left behind"
        if kt is None:
            return f"{where}/{k}: untagged group"
        if kt == "metadatabundle":
            if k != "metadatabundle":
                return f"{where}/{k}: bundle under a wrong name"
            r = _bundle(o, f"{where}/{k}")
        elif kt in DATA or kt in CUSTOM:
            r = _node(o, f"{where}/{k}", legit)
        else:
            r = f"{where}/{k}: unexpected group type {kt!r} inside a node"
        if r:
            return r
    return None


def _array(g, where):
    if "data" not in g or not isinstance(g["data"], h5py.Dataset):
        return f"{where}: no data dataset"
    d = g["data"]
    if "units" not in d.attrs:
        return f"{where}: data without units"
    rank = len(d.shape)
    dims = sorted(k for k in g.keys() if k.startswith("dim") and k[3:].isdigit() and isinstance(g[k], h5py.Dataset))
    if dims != sorted(f"dim{n}" for n in range(rank)):
        return f"{where}: calibration datasets {dims} for rank {rank}"
    stack = rank > 0 and _s(g[f"dim{rank-1}"].attrs.get("name")) == "_labels_"
    for n in range(rank):
        ds = g[f"dim{n}"]
        if "name" not in ds.attrs:
            return f"{where}/dim{n}: no name"
        if stack and n == rank - 1:
            if ds.shape != (d.shape[0],):
                return f"{where}/dim{n}: {ds.shape} labels for depth {d.shape[0]}"
            continue
        if "units" not in ds.attrs:
            return f"{where}/dim{n}: no units"
        extent = d.shape[n + 1] if stack else d.shape[n]
        if len(ds.shape) != 1 or ds.shape[0] not in (2, extent):
            return f"{where}/dim{n}: length {ds.shape} for extent {extent}"
    return None


def _bundle(b, where):
    for k in b.keys():
        m = b[k]
        if not isinstance(m, h5py.Group) or _s(m.attrs.get("emd_group_type")) != "metadata":
            return f"{where}/{k}: not a tagged Metadata group"
        if _s(m.attrs.get("python_class")) is None:
            return f"{where}/{k}: no python_class"
        r = _items(m, f"{where}/{k}")
        if r:
            return r
    return None


def _items(g, where):
    for k in g.keys():
        o = g[k]
        t = _s(o.attrs.get("type"))
        if t is None:
            return f"{where}/{k}: item without type"
        if isinstance(o, h5py.Group):
            if t == "dict":
                r = _items(o, f"{where}/{k}")
                if r:
                    return r
            elif "length" not in o.attrs:
                return f"{where}/{k}: container without length"
    return None
