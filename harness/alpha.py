"""
alpha: the abstraction function.  The only place where Python / HDF5 objects become model values.

  raw_obj(h5py object)  -> protocol JSON of EmdModel.Obj   (raw h5py walk, never through emdfile's reader)
  node_body(node)       -> the body of a runtime node: what its class's to_h5 writes into its group
  tree_json(node)       -> protocol JSON of EmdModel.Tree
  readout_json(x)       -> protocol JSON of EmdModel.ReadOut for what emdfile.read returned
  canon_obs(o)          -> order-insensitive canonical form (siblings sorted by name)
"""
import hashlib, uuid as _uuid
import numpy as np
import h5py

_mem = None


def memfile():
    """one in-memory HDF5 file used as scratch for single-node encodings"""
    global _mem
    if _mem is None:
        _mem = h5py.File(f"emdverif-mem-{id(object())}", "w", driver="core", backing_store=False)
    return _mem


_mem_counter = [0]


def scratch_group():
    _mem_counter[0] += 1
    f = memfile()
    if _mem_counter[0] % 400 == 0:
        for k in list(f.keys()):
            del f[k]
    return f.create_group(f"s{_mem_counter[0]}")


def _digest(b):
    return hashlib.sha1(b).hexdigest()[:12]


def array_token(a):
    """token of a numpy value: dtype, shape, digest of the C-contiguous bytes"""
    a = np.asarray(a)
    if a.dtype.kind == "O":
        h = hashlib.sha1()
        for x in a.ravel():
            xa = np.asarray(x)
            h.update(str((xa.dtype.descr if xa.dtype.names else xa.dtype.str, xa.shape)).encode())
            h.update(np.ascontiguousarray(xa).tobytes() if xa.dtype.kind != "O" else repr(x).encode())
        return f"O|{list(a.shape)}|{h.hexdigest()[:12]}"
    dt = str(sorted((n, a.dtype.fields[n][0].str) for n in a.dtype.names)) if a.dtype.names else a.dtype.str
    return f"{dt}|{list(a.shape)}|{_digest(np.ascontiguousarray(a).tobytes())}"


def dataset_token(ds):
    vl = h5py.check_vlen_dtype(ds.dtype)
    if vl is not None and vl is not str and vl is not bytes:
        # ragged dataset (PointListArray): per-cell tokens
        h = hashlib.sha1()
        if ds.size:
            data = ds[...]
            for x in data.ravel():
                h.update(array_token(x).encode())
        vdt = str(sorted((n, vl.fields[n][0].str) for n in vl.names)) if vl.names else vl.str
        return f"vlen{vdt}|{list(ds.shape)}|{h.hexdigest()[:12]}"
    if ds.shape is None:
        return "empty"
    return array_token(ds[...])


class UuidMap:
    """UUID strings are replaced by u0, u1, ... in order of first appearance"""
    def __init__(self):
        self.m = {}

    def get(self, s):
        try:
            _uuid.UUID(s)
        except Exception:
            return "not-a-uuid:" + str(s)[:40]
        if s not in self.m:
            self.m[s] = f"u{len(self.m)}"
        return self.m[s]


def attr_val(k, v, umap=None):
    if isinstance(v, bytes):
        v = v.decode("utf-8", "replace")
    if isinstance(v, (str, np.str_)):
        s = str(v)
        if k == "UUID" and umap is not None:
            return umap.get(s)
        return s
    if isinstance(v, (bool, np.bool_)):
        return "bool:" + str(bool(v))
    if isinstance(v, (int, np.integer)):
        return int(v)
    return "val:" + array_token(v)


def raw_attrs(o, umap=None):
    return {k: attr_val(k, o.attrs[k], umap) for k in o.attrs.keys()}


def raw_obj(o, umap=None):
    if isinstance(o, h5py.Dataset):
        return {"d": raw_attrs(o, umap), "v": dataset_token(o)}
    kids = []
    for k in o.keys():
        link = o.get(k, getlink=True)
        kids.append([k, raw_obj(o[k], umap)])
    return {"g": raw_attrs(o, umap), "k": kids}


def raw_file(path, umap=None):
    if not h5py.is_hdf5(path):
        return {"junk": _digest(open(path, "rb").read())}
    with h5py.File(path, "r") as f:
        return {"h5": raw_obj(f, umap)}


def node_info(node):
    """NodeInfo JSON (without kids) of a runtime node: encode the node alone with its own to_h5.  For Custom nodes the
    expected encoding is stated independently of `Custom.to_h5`: what `Node.to_h5` writes, then one group per node-valued
    attribute (the attribute encoded alone by its own class under the attribute name, re-tagged `custom_<group type>`)."""
    from harness import vcustom
    import emdfile
    if vcustom.is_vcustom(node):
        g = scratch_group()
        try:
            grp = emdfile.Node.to_h5(node, g)
        except Exception as e:
            return {"n": str(node.name), "c": type(node).__name__, "t": "custom", "b": [], "unencodable": type(e).__name__}
        ro = raw_obj(grp)
        body = list(ro["k"])
        for k, v in vcustom.attr_nodes(node):
            a = node_info(v)
            body.append([k, {"g": {"emd_group_type": "custom_" + a["t"], "python_class": a["c"]}, "k": a["b"]}])
        return {"n": str(node.name), "c": str(ro["g"].get("python_class", "?")), "t": str(ro["g"].get("emd_group_type", "?")),
                "b": body}
    g = scratch_group()
    try:
        grp = node.to_h5(g)
    except Exception as e:
        return {"n": str(node.name), "c": type(node).__name__, "t": getattr(type(node), "_emd_group_type", "?"),
                "b": [], "unencodable": type(e).__name__}
    ro = raw_obj(grp)
    return {"n": str(node.name), "c": str(ro["g"].get("python_class", "?")), "t": str(ro["g"].get("emd_group_type", "?")),
            "b": ro["k"]}


def tree_json(node):
    j = node_info(node)
    j["k"] = [tree_json(c) for c in node._branch._dict.values()]
    return j


def metadata_obj(md):
    g = scratch_group()
    md.to_h5(g)
    return raw_obj(g[md.name])


def readout_json(x):
    import emdfile
    if isinstance(x, list):
        return {"kind": "rootnames", "names": [str(s) for s in x]}
    if isinstance(x, emdfile.Metadata):
        return {"kind": "metadata", "name": str(x.name), "obj": metadata_obj(x)}
    root = x.root
    path = [p for p in (x._treepath or "").split("/") if p != ""]
    return {"kind": "node", "root": tree_json(root), "path": path}


def canon_obs(o):
    """sort every sibling list ('k' of objects/trees, 'b' bodies) by name; drop debugging fields"""
    if isinstance(o, dict):
        out = {}
        for k, v in o.items():
            if k == "why":
                continue
            if k in ("k", "b") and isinstance(v, list):
                if all(isinstance(e, list) and len(e) == 2 and isinstance(e[0], str) for e in v):
                    out[k] = sorted(([e[0], canon_obs(e[1])] for e in v), key=lambda e: e[0])
                else:
                    out[k] = sorted((canon_obs(e) for e in v), key=lambda e: e.get("n", "") if isinstance(e, dict) else str(e))
            elif k in ("names", "rootgroups") and isinstance(v, list):
                out[k] = sorted(v)
            else:
                out[k] = canon_obs(v)
        return out
    if isinstance(o, list):
        return [canon_obs(e) for e in o]
    return o


def exc_kind(e):
    return {"err": "refused" if isinstance(e, AssertionError) else "error"}
