"""
Orchestration of one check:  run.py <property id> [--tier quick|thorough] [--replay file]

Protocol (DESIGN.md section 3):
  regenerate EmdGen -> lake build + audit -> correspondence (implementation vs. compiled Lean model,
  same JSON lines) with the property's direct predicate (oracle) evaluated on the implementation for
  every case.  A broken obligation or a disagreement triggers the failing-input search; a failing input
  that is not a listed known finding is reported as the replay of a VIOLATION; if none is found the
  VIOLATION line ends with no-failing-input-found.
"""
import os
os.environ.setdefault("TQDM_DISABLE", "1")
import argparse, importlib, json, os, sys, time, traceback

sys.path.insert(0, os.path.dirname(os.path.dirname(os.path.abspath(__file__))))
if os.environ.get("EMD_REPO"):
    # check a copy of the repository instead of /repo (used by background sweeps); default: /repo via the editable install
    sys.path.insert(0, os.path.join(os.environ["EMD_REPO"], "src"))
from harness import common


def load_module(pid):
    return importlib.import_module(f"harness.props.{pid.lower()}")


def run_case(mod, drv, case):
    """returns (impl_obs, model_obs or None)"""
    if hasattr(mod, "run_both"):
        return mod.run_both(drv, case)
    iobs = mod.impl(case)
    mobs = None
    if drv is not None:
        mobs = mod.model(drv, case)
    return iobs, mobs


def shrink_case(mod, drv, case, pred, budget=150):
    """greedy shrinking while pred(case) stays true"""
    if not hasattr(mod, "shrink"):
        return case
    cur = case
    improved = True
    while improved and budget > 0:
        improved = False
        for cand in mod.shrink(cur):
            budget -= 1
            if budget <= 0:
                break
            try:
                if pred(cand):
                    cur = cand; improved = True; break
            except Exception:
                continue
    return cur


def main():
    ap = argparse.ArgumentParser()
    ap.add_argument("pid")
    ap.add_argument("--tier", default=os.environ.get("VERIF_TIER", "quick"))
    ap.add_argument("--replay", default=None)
    args = ap.parse_args()
    pid = args.pid.upper()
    tier = args.tier if args.tier in ("quick", "thorough") else "quick"
    try:
        seed = int(os.environ.get("VERIF_SEED", "0"))
    except ValueError:
        seed = 0
    mod = load_module(pid)
    run = common.Run(pid, tier, seed)

    # ---- 1. proofs
    try:
        st = common.build_and_audit(pid, getattr(mod, "EXTRA_MODULES", ()))
    except Exception as e:
        print(f"infrastructure failure during build: {e}", file=sys.stderr)
        traceback.print_exc()
        sys.exit(2)
    for frag, why in st.translator.get("unavailable", []):
        run.notes.append(f"translator tie unavailable for {frag}: {why}")
    drv = common.Driver() if st.driver_ok else None
    if drv is None:
        run.notes.append("driver not built: correspondence unavailable, oracle-only search")

    # ---- replay mode: run a single recorded case
    if args.replay:
        with open(args.replay) as f:
            rep = json.load(f)
        case = rep.get("case")
        if case is None:
            print("replay file names a broken obligation, no input to replay:", rep.get("broken"))
            sys.exit(0)
        iobs, mobs = run_case(mod, drv, case)
        fail = mod.oracle(case, iobs)
        print(json.dumps({"impl": iobs, "model": mobs, "oracle_failure": fail}, indent=1, sort_keys=True))
        sys.exit(1 if fail else 0)

    known = common.load_known(pid)
    disagreements = []
    failures = []

    def oracle_fail(case, iobs):
        """returns failure (or None) after removing known findings"""
        fail = mod.oracle(case, iobs)
        if not fail:
            return None
        for k in known:
            if hasattr(mod, "known_match") and mod.known_match(case, fail, k):
                run.known(f"{k['id']} {k['what']}")
                run.count("cases_in_known_finding_region")
                return None
        return fail

    def process(case, sample=False, stream="main"):
        try:
            iobs, mobs = run_case(mod, drv, case)
        except Exception as e:
            # an exception that comes OUT OF THE PACKAGE at a point where the harness expects none (every expected failure
            # point is wrapped by the property's own module, and on the unchanged tree none escapes) is behaviour of the code
            # under test, not an infrastructure failure: report it as a violation with this input as the replay
            frames = [fr for fr in traceback.extract_tb(e.__traceback__)
                      if os.path.realpath(fr.filename).startswith(os.path.realpath(common.REPO) + os.sep)]
            if frames:
                run.case(case, nontrivial=True, sample=False)
                fail = {"package_raised_where_no_failure_is_expected": f"{type(e).__name__}: {e}"[:300],
                        "at": f"{os.path.relpath(frames[-1].filename, common.REPO)}:{frames[-1].lineno}"}
                failures.append((case, fail, None, None))
                return fail
            traceback.print_exc()
            print(f"infrastructure failure in harness on case {json.dumps(case)[:500]}: {e}", file=sys.stderr)
            sys.exit(2)
        run.case(case, nontrivial=mod.nontrivial(case) if hasattr(mod, "nontrivial") else True, sample=sample)
        if hasattr(mod, "classify"):
            for key in mod.classify(case, iobs):
                run.count(key)
        fail = oracle_fail(case, iobs)
        if fail:
            failures.append((case, fail, iobs, mobs))
        if mobs is not None and common.canon(common.comparable(mobs)) != common.canon(common.comparable(iobs)):
            disagreements.append((case, iobs, mobs))
        return fail

    # ---- 2. correspondence + oracle on the case stream (corpus first)
    t_budget = getattr(mod, "TIME_BUDGET", {"quick": 240, "thorough": 1500})[tier]
    t_start = time.time()
    n = 0
    seen = []
    cov = common.SourceCoverage(pid)       # which lines of the anchored source files the correspondence exercises
    cov.start()
    for case in mod.cases(tier, seed):
        process(case, sample=(n % 97 == 0 or n < 2))
        seen.append(case)
        n += 1
        if len(failures) >= 3 or len(disagreements) >= 5:
            break
        if time.time() - t_start > t_budget:
            run.notes.append(f"time budget {t_budget}s reached after {n} cases")
            break

    cov.stop(run)

    # ---- 2b. are the hypotheses of the property's theorems met by the inputs that were just tested?
    if hasattr(mod, "post") and not st.broken:
        try:
            mod.post(run, seen)
        except Exception as e:
            run.notes.append(f"hypothesis evaluation failed to run: {e}")

    # ---- 3. known findings: replay each recorded witness
    for k in known:
        w = k.get("witness")
        if w is None:
            continue
        iobs = run_case(mod, None, w)[0]
        fail = mod.oracle(w, iobs)
        if fail and mod.known_match(w, fail, k):
            run.known(f"{k['id']} {k['what']}")
        elif fail:
            failures.append((w, {"known_finding_changed": k["id"], "now": fail}, iobs, None))
        else:
            run.notes.append(f"known finding {k['id']} no longer reproduces (resolved?)")

    # ---- 4. failing-input search when something no longer checks
    if (st.broken or disagreements) and not failures:
        # shrink the first disagreement, test its shrinks with the oracle, then an enlarged fresh stream
        run.notes.append("failing-input search started: " + "; ".join(st.broken + [f"{len(disagreements)} disagreement(s)"]))
        if disagreements and drv is not None:
            c0 = disagreements[0][0]
            def still(c):
                i, m = run_case(mod, drv, c)
                f = oracle_fail(c, i)
                if f:
                    failures.append((c, f, i, m))
                return common.canon(common.comparable(i)) != common.canon(common.comparable(m))
            small = shrink_case(mod, drv, c0, still)
            i, m = run_case(mod, drv, small)
            disagreements[0] = (small, i, m)
        if not failures and hasattr(mod, "search_cases"):
            t1 = time.time()
            for case in mod.search_cases(tier, seed):
                iobs = run_case(mod, None, case)[0]
                run.evaluations += 1
                f = oracle_fail(case, iobs)
                if f:
                    failures.append((case, f, iobs, None)); break
                if time.time() - t1 > t_budget:
                    break

    # ---- 5. verdict
    for (case, fail, iobs, mobs) in failures[:3]:
        small = case
        if hasattr(mod, "shrink") and "package_raised_where_no_failure_is_expected" not in fail:
            small = shrink_case(mod, drv, case, lambda c: bool(oracle_fail(c, run_case(mod, None, c)[0])))
            iobs = run_case(mod, None, small)[0]
            fail = mod.oracle(small, iobs) or fail
        run.violation({"case": small, "failure": fail, "impl_obs": iobs, "model_obs": mobs,
                       "broken": st.broken, "how_to_replay": f"./check {pid} --replay <this file>"})
    if not failures and (st.broken or disagreements):
        rep = {"case": None, "broken": st.broken,
               "correspondence_disagreements": [
                   {"case": c, "impl_obs": i, "model_obs": m} for (c, i, m) in disagreements[:3]],
               "build_log_tail": st.build_log_tail[-2500:],
               "note": "property no longer shown to hold: the named theorem(s)/correspondence no longer check; "
                       "the oracle found no input on which the implementation violates the property"}
        run.violation(rep, no_input=True)
    if drv is not None:
        run.extra["driver_lines"] = drv.lines
        drv.close()
    run.extra["correspondence_disagreements"] = len(disagreements)
    rc = run.finish(st, mod.RULE, getattr(mod, "ASSUMPTIONS", None), exhaustive=getattr(mod, "EXHAUSTIVE", {}).get(tier, False))
    print(f"{pid} {tier} seed={seed}: {run.evaluations} cases, {len(run.nontrivial)} distinct non-trivial, "
          f"obligations {st.discharged}/{st.obligations}, disagreements {len(disagreements)}, "
          f"violations {len(run.violations)}, {time.time()-run.t0:.1f}s")
    sys.exit(rc)


if __name__ == "__main__":
    main()
