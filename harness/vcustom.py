"""
A Custom-derived class that every tree-based check can put into its trees: `VCustom` lives in a hooked module (so that the
reader finds it), takes its node-valued attributes as a dict, and rebuilds itself from the attribute groups of the file.
`expected_info` states what `Custom.to_h5` must write WITHOUT calling it: the group `Node.to_h5` writes (tags, metadata
bundle) followed by one group per node-valued attribute — that attribute encoded alone by its own class, under the attribute
name, re-tagged `custom_<its group type>`.
"""
import os
import sys
import types
import emdfile

MODNAME = "emdverif_vcustom"


def _module():
    if MODNAME in sys.modules and hasattr(sys.modules[MODNAME], "VCustom"):
        return sys.modules[MODNAME]
    mod = types.ModuleType(MODNAME)
    mod._emd_hook = True

    class VCustom(emdfile.Custom):
        def __init__(self, name="vcustom", attrs=None):
            emdfile.Custom.__init__(self, name=name)
            for k, v in (attrs or {}).items():
                setattr(self, k, v)

        @classmethod
        def _get_constructor_args(cls, group):
            d = cls._get_emd_attr_data(cls, group)
            return {"name": os.path.basename(group.name), "attrs": d}

        def _populate_instance(self, group):
            pass

    VCustom.__module__ = MODNAME
    mod.VCustom = VCustom
    sys.modules[MODNAME] = mod
    return mod


def cls():
    return _module().VCustom


def attr_nodes(node):
    """the node-valued attributes in attribute order (what `Custom.to_h5` must write)"""
    return [(k, v) for k, v in vars(node).items() if isinstance(v, emdfile.Node) and not isinstance(v, emdfile.Root)]


def is_vcustom(node):
    return isinstance(node, emdfile.Custom) and type(node).__name__ == "VCustom"
