"""C19 — saving does not disturb the caller's objects and is repeatable."""
import os
import numpy as np
import emdfile
from harness import common, forest, alpha, gen
from harness.props import c11

PID = "C19"
RULE = ("seeded forests of roots / rooted nodes / unrooted nodes (Node and Array classes, root and node Metadata) and loose "
        "arrays / dicts / Metadata; one save call with an input of every kind (single node rooted or not, root, array, dict, "
        "Metadata, list or tuple mixing them), every mode and tree option, into a fresh or an existing path, sometimes made to FAIL "
        "(unsupported metadata value deep in the tree or on a single unrooted node, write mode on an existing file, append onto a non-EMD HDF5 file, an emdpath that does not exist, name collision); observations: full snapshot of "
        "all caller objects (tree shape, names, roots, metadata identity and content, data tokens, list length and item identity) "
        "before and after, re-addability of every unrooted node, and a second save of the same input to a second fresh path "
        "(file walks compared with the UUID blanked); PointLists of 0 / 1 / n points and of one 0-dimensional record, value, shape "
        "and IDENTITY of every data array before and after, Roots called `<child>_root`; a save after the case's first call must "
        "equal a first save of freshly built objects; non-trivial = list input or failing save; distinct by recipe hash")


class Objs:
    """the caller's objects"""
    def __init__(self, rec):
        self.w = forest.World()
        self.data = {}
        for st in rec["forest"]:
            do = st["do"]
            if do == "root":
                self.w.reg(emdfile.Root(name=st["name"]))
            elif do == "node":
                self.w.reg(emdfile.Node(name=st["name"]))
            elif do == "array":
                a = gen.build_arr(st["rec"])
                o = emdfile.Array(data=a, name=st["name"])
                self.w.reg(o)
            elif do == "pointlist":
                # lengths 0, 1, n — and a single record held as a 0-dimensional structured array
                dt = np.dtype([("x", float), ("y", int)])
                a = np.zeros((), dtype=dt) if st["len"] == "scalar" else np.zeros(st["len"], dtype=dt)
                self.w.reg(emdfile.PointList(data=a, name=st["name"]))
            elif do == "md":
                val = {"c": st["content"]}
                if st.get("bad"):
                    val["bad"] = {1, 2}          # a set: unsupported, makes the save raise when reached
                self.w.nodes[st["node"]].metadata = emdfile.Metadata(name=st["name"], data=val)
            elif do == "add":
                self.w.nodes[st["parent"]].add_to_tree(self.w.nodes[st["child"]])
        self.loose = []
        for it in rec["loose"]:
            if it["k"] == "array":
                self.loose.append(gen.build_arr(it["rec"]))
            elif it["k"] == "dict":
                self.loose.append({k: gen.build_md_value(v) for k, v in it["items"]})
            else:
                self.loose.append(gen.build_metadata(it["rec"]))

    def snapshot(self):
        s = forest.canon_heap(self.w.snapshot())
        extra = {}
        self.data_ids = getattr(self, "data_ids", {})
        for i, o in enumerate(self.w.nodes):
            if isinstance(o, (emdfile.Array, emdfile.PointList)):
                # value, shape, and IDENTITY of the array object the caller handed in (first seen = reference)
                ref = self.data_ids.setdefault(i, id(o.data))
                extra[str(i)] = [alpha.array_token(o.data), [int(x) for x in np.shape(o.data)], ref == id(o.data)]
        loose = []
        for x in self.loose:
            if isinstance(x, np.ndarray):
                loose.append(alpha.array_token(x))
            elif isinstance(x, dict):
                from harness import mdvals
                loose.append(mdvals.canon_items([[k, mdvals.pv(v)] for k, v in x.items()]))
            else:
                from harness import mdvals
                loose.append([x.name, mdvals.canon_items([[k, mdvals.pv(v)] for k, v in x._params.items()])])
        # treepath of a node that is not in any tree is private bookkeeping without observable meaning
        for c in s["comps"]:
            if not c.get("isroot") and c["root"] is None:
                c["tp"] = None
        return {"forest": s, "data": extra, "loose": loose}

    def build_input(self, inp):
        if inp["k"] == "node":
            return self.w.nodes[inp["id"]]
        if inp["k"] == "loose":
            return self.loose[inp["i"]]
        items = []
        for it in inp["items"]:
            items.append(self.w.nodes[it["id"]] if it["k"] == "node" else self.loose[it["i"]])
        return items if inp["k"] == "list" else tuple(items)


def gen_case(r):
    steps = []
    names = set()
    nid = 0
    roots, rooted, unrooted = [], [], []
    for _ in range(r.choice([1, 2, 2, 3])):
        steps.append({"do": "root", "name": f"R{nid}"}); roots.append(nid); rooted.append(nid); nid += 1
    parent_of = {}
    for _ in range(r.choice([2, 4, 7])):
        kind = r.choice(["node", "node", "array", "pointlist"])
        nm = f"n{nid}"
        st = {"do": kind, "name": nm}
        if kind == "array":
            st["rec"] = gen.gen_arr(r, maxrank=2) | {"shape": [r.randrange(1, 4)]}
        elif kind == "pointlist":
            st["len"] = r.choice([0, 1, 3, "scalar", "scalar"])
        steps.append(st)
        me = nid; nid += 1
        if r.random() < 0.7:
            p = r.choice(rooted)
            steps.append({"do": "add", "parent": p, "child": me}); rooted.append(me); parent_of[me] = p
            if p in roots and r.random() < 0.15:
                # a Root that happens to be called like the temporary root the writer would make for this child
                # (`<name>_root`): e.g. the tree read back from a file that an unrooted node was saved into
                for s0 in steps:
                    if s0["do"] == "root" and s0["name"] == f"R{p}":
                        s0["name"] = nm + "_root"
        else:
            unrooted.append(me)
    # directed: two UNROOTED nodes that share a name (e.g. two Arrays left at a default name), later passed in one list: the
    # writer's temporary `root_savedlist` cannot hold both under that name; whatever it does about it, the caller's nodes
    # keep their names
    dup = len(unrooted) >= 2 and r.random() < 0.3
    if dup:
        a, b = unrooted[0], unrooted[1]
        for s0 in steps:
            if s0.get("name") == f"n{b}" and s0["do"] in ("node", "array", "pointlist"):
                s0["name"] = f"n{a}"
    bad = r.random() < 0.2
    for _ in range(r.choice([0, 1, 2, 3])):
        x = r.choice(rooted + unrooted)
        steps.append({"do": "md", "node": x, "name": r.choice(["m", "cal", "p"]), "content": r.randrange(5)})
    if bad:
        x = r.choice(rooted + unrooted)
        steps.append({"do": "md", "node": x, "name": "zbad", "content": 0, "bad": True})
    loose = []
    for _ in range(r.choice([0, 1, 2])):
        k = r.choice(["array", "dict", "metadata"])
        if k == "array":
            loose.append({"k": "array", "rec": gen.gen_arr(r, maxrank=2) | {"shape": [2, r.randrange(1, 3)]}})
        elif k == "dict":
            loose.append({"k": "dict", "items": [[f"k{j}", gen.gen_md_value(r, 1, 2)] for j in range(r.randrange(0, 3))]})
        else:
            loose.append({"k": "metadata", "rec": gen.gen_metadata(r, set())})
    c = r.random()
    if c < 0.45 or (not loose and c < 0.6):
        inp = {"k": "node", "id": r.choice(rooted + unrooted)}
    elif c < 0.6 and loose:
        inp = {"k": "loose", "i": r.randrange(len(loose))}
    else:
        items = []
        # roots, rooted direct children of a root, unrooted nodes, loose arrays / dicts
        for x in r.sample(roots, k=r.randrange(0, len(roots) + 1)):
            items.append({"k": "node", "id": x})
        for x in rooted:
            if x not in roots and parent_of.get(x) in roots and r.random() < 0.3:
                items.append({"k": "node", "id": x})
        for x in unrooted:
            if r.random() < 0.6:
                items.append({"k": "node", "id": x})
        for i, l in enumerate(loose):
            if l["k"] != "metadata" and r.random() < 0.7:
                items.append({"k": "loose", "i": i})
        r.shuffle(items)
        inp = {"k": r.choice(["list", "list", "tuple"]), "items": items}
    if dup:
        items = [{"k": "node", "id": x} for x in unrooted] + [{"k": "loose", "i": i} for i, l in enumerate(loose)
                                                               if l["k"] != "metadata" and r.random() < 0.5]
        r.shuffle(items)
        inp = {"k": r.choice(["list", "tuple"]), "items": items}
    case = {"forest": steps, "loose": loose, "input": inp, "mode": r.choice(["w", "w", "o", "a", "ao"]),
            "tree": r.choice([True, True, False, None]), "existing": r.random() < 0.3}
    # directed: a SINGLE unrooted node whose save fails late (after the writer has given it its temporary root): an
    # unsupported value in its own metadata, an append onto an HDF5 file that is not an EMD file, an emdpath that is not there
    if unrooted and r.random() < 0.2:
        x = r.choice(unrooted)
        case["input"] = {"k": "node", "id": x}
        how = r.choice(["bad_md", "non_emd_file", "no_such_emdpath"])
        if how == "bad_md":
            case["forest"] = steps + [{"do": "md", "node": x, "name": "zbad2", "content": 0, "bad": True}]
        elif how == "non_emd_file":
            case["existing"] = "non_emd"
            case["mode"] = r.choice(["a", "ao"])
        else:
            case["existing"] = True
            case["mode"] = r.choice(["a", "ao"])
            case["emdpath"] = r.choice(["old/nothing here", "nosuchroot/x", "old/a/b"])
    return case


def cases(tier, seed):
    n = 250 if tier == "quick" else 5000
    for i in range(n):
        yield gen_case(common.case_rng(seed, PID, i))


def run_both(drv, case):
    d = common.fresh_path(suffix="_d")
    os.makedirs(d, exist_ok=True)
    obs = {}
    try:
        o = Objs(case)
        if case["existing"] == "non_emd":
            import h5py
            with h5py.File(os.path.join(d, "A.h5"), "w") as f:
                f.create_group("stuff").create_dataset("x", data=np.arange(3))
        elif case["existing"]:
            with common.quiet():
                emdfile.save(os.path.join(d, "A.h5"), emdfile.Root(name="old"))
        x = o.build_input(case["input"])
        is_seq = isinstance(x, (list, tuple))
        before_items = [id(i) for i in x] if is_seq else None
        obs["before"] = o.snapshot()
        try:
            with common.quiet():
                emdfile.save(os.path.join(d, "A.h5"), x, mode=case["mode"], tree=case["tree"], emdpath=case.get("emdpath"))
            obs["save"] = {"ok": True}
        except Exception as e:
            obs["save"] = alpha.exc_kind(e)
        obs["after"] = o.snapshot()
        obs["list_intact"] = (before_items == [id(i) for i in x]) if is_seq else True
        # repeatability: the same input to two fresh paths
        walks = []
        for nm in ("B.h5", "C.h5"):
            try:
                with common.quiet():
                    emdfile.save(os.path.join(d, nm), x, mode="w", tree=case["tree"])
                walks.append(c11.blank_uuid(alpha.canon_obs(alpha.raw_file(os.path.join(d, nm)))))
            except Exception as e:
                walks.append(alpha.exc_kind(e))
        obs["repeat_equal"] = walks[0] == walks[1]
        # ... and equal to what a FIRST save of the same input writes: freshly built objects that no earlier (possibly
        # failing) save has touched, in a process state that this case's earlier calls may have changed
        try:
            o2 = Objs(case)
            x2 = o2.build_input(case["input"])
            with common.quiet():
                emdfile.save(os.path.join(d, "D.h5"), x2, mode="w", tree=case["tree"])
            ref = c11.blank_uuid(alpha.canon_obs(alpha.raw_file(os.path.join(d, "D.h5"))))
        except Exception as e:
            ref = alpha.exc_kind(e)
        obs["repeat_equal_to_first_save"] = (walks[0] == ref) or (isinstance(ref, dict) and "err" in ref and isinstance(walks[0], dict) and "err" in walks[0])
        obs["after_repeat"] = o.snapshot()
        # every unrooted node that was passed can still be added to a tree
        readd = True
        passed = [x] if not is_seq else list(x)
        for it in passed:
            if isinstance(it, emdfile.Node) and not isinstance(it, emdfile.Root):
                was_unrooted = any(c["id"] == o.w.ids[id(it)] and not c.get("isroot") and c["root"] is None
                                   for c in obs["before"]["forest"]["comps"])
                if was_unrooted:
                    try:
                        emdfile.Root(name="t").add_to_tree(it)
                    except Exception:
                        readd = False
        obs["unrooted_can_be_added"] = readd
    finally:
        import shutil
        shutil.rmtree(d, ignore_errors=True)
    # the model: `save` takes values, not references; the caller's heap is not an output of it (structural frame),
    # so the model's prediction is "after = before", and it is a function, so "repeat_equal"
    mo = dict(obs, after=obs["before"], after_repeat=obs["before"], list_intact=True, repeat_equal=True, repeat_equal_to_first_save=True,
              unrooted_can_be_added=True)
    return obs, mo


def oracle(case, obs):
    if obs["after"] != obs["before"]:
        return {"caller_objects_changed_by_save": diff(obs["before"], obs["after"]), "save": obs["save"]}
    if obs["after_repeat"] != obs["before"]:
        return {"caller_objects_changed_by_repeated_save": diff(obs["before"], obs["after_repeat"])}
    if not obs["list_intact"]:
        return {"list_argument_changed": True}
    if not obs["repeat_equal"]:
        return {"two_saves_of_the_same_input_differ": True}
    if not obs.get("repeat_equal_to_first_save", True):
        return {"a_save_after_this_case_s_first_call_differs_from_a_first_save_of_the_same_input": True, "first_call": obs["save"]}
    if not obs["unrooted_can_be_added"]:
        return {"unrooted_node_can_no_longer_be_added_to_a_tree": True}
    return None


def diff(a, b):
    out = []
    for k in a:
        if a[k] != b[k]:
            out.append(k)
            if k == "forest":
                for ca, cb in zip(a[k]["comps"], b[k]["comps"]):
                    if ca != cb:
                        out.append({"before": ca, "after": cb})
                        break
    return out


def known_match(case, fail, finding):
    return False


def nontrivial(case):
    return case["input"]["k"] in ("list", "tuple") or any(s.get("bad") for s in case["forest"])


def classify(case, obs):
    return [f"input_{case['input']['k']}", "save_" + ("ok" if obs["save"] == {"ok": True} else obs["save"].get("err", "?")), f"mode_{case['mode']}"]


def search_cases(tier, seed):
    yield from cases("thorough", seed + 776531401)
