"""C04 — PointList and PointListArray round-trip: fields, dtypes, ragged contents."""
import numpy as np
import h5py
import emdfile
from harness import common, gen, alpha

PID = "C04"
RULE = ("seeded PointLists over structured dtypes with 1-5 scalar fields of bool / int / uint / float16-64 / complex / bytes / "
        "big-endian types, field names incl. spaces / non-ASCII / look-alikes of internal names, lengths 0, 1, n; and "
        "PointListArrays of every 2D shape incl. zero extents, ragged / empty / all-empty cells, structured dtypes; written with "
        "to_h5, raw-walked, read with from_h5; per-field (per-cell) tokens of dtype, length and element bytes compared with the "
        "Lean codec and with the direct predicate; extents around block sizes (63-66, 129, 257 rows or columns, points in the last "
        "cells; PointLists of 64 / 65 / 257 points); every object also goes through save(path, obj) — the object itself is the "
        "argument — and read; non-trivial = >= 2 fields or a ragged array; distinct by recipe hash")
FDT = ["?", "i1", "u1", "i2", "u2", "i4", "u4", "i8", "u8", "f2", "f4", "f8", "c8", "c16", "S1", "S4", ">i4", ">f8"]
FNAMES = ["x", "y", "qx", "qy", "intensity", "h", "k", "l", "with space", "é", "数据", "data", "dim0", "a.b", "0", "dtype", "name"]


def cases(tier, seed):
    n = 300 if tier == "quick" else 5000
    for i in range(n):
        r = common.case_rng(seed, PID, i)
        nf = r.choice([1, 1, 2, 3, 5])
        names = r.sample(FNAMES, nf)
        fields = [[nm, r.choice(FDT)] for nm in names]
        if r.random() < 0.5:
            yield {"kind": "pl", "fields": fields, "len": r.choice([0, 1, 2, 7, 20, 20, 64, 65, 257]), "seed": r.randrange(10**6)}
        else:
            shape = [r.choice([0, 1, 2, 3, 4]), r.choice([0, 1, 2, 3])]
            mode = r.choice(["ragged", "ragged", "all_empty", "uniform"])
            if r.random() < 0.08:
                # extents around the block sizes an implementation may read or write in (64, 128, 256): mostly empty cells,
                # points in the LAST rows / columns
                big = r.choice([63, 64, 65, 66, 129, 257])
                shape = [big, r.choice([1, 2])] if r.random() < 0.7 else [r.choice([1, 2]), big]
                mode = "late"
            lens = []
            ncell = shape[0] * shape[1]
            for c in range(ncell):
                if mode == "late":
                    lens.append(r.choice([1, 2]) if c >= ncell - 4 or r.random() < 0.03 else 0)
                else:
                    lens.append(0 if mode == "all_empty" else (3 if mode == "uniform" else r.choice([0, 0, 1, 2, 5])))
            fl = [f for f in fields if not f[1].startswith("S")] or [["x", "f8"]]
            yield {"kind": "pla", "fields": fl, "shape": shape, "lens": lens, "seed": r.randrange(10**6)}


def pl_obs(pl):
    d = pl.data
    return {"fields": sorted([[str(f), str(np.dtype(d.dtype.fields[f][0]).name if False else d.dtype.fields[f][0]), alpha.array_token(d[f])]
                              for f in d.dtype.names]),
            "length": int(len(pl))}


def cell_token(a):
    """token of the points of a cell by VALUE: field values in native byte order (numpy's append / the vlen write may
    change the byte order of a cell's array without changing any point)"""
    a = np.asarray(a)
    if a.dtype.names:
        nat = np.dtype([(n, a.dtype.fields[n][0].newbyteorder("=")) for n in a.dtype.names])
        a = a.astype(nat)
    else:
        a = a.astype(a.dtype.newbyteorder("="))
    return alpha.array_token(a)


def dtype_tok(dt):
    dt = np.dtype(dt)
    return str(sorted((n, dt.fields[n][0].str) for n in dt.names)) if dt.names else dt.str


def run_both(drv, case):
    io = {"body": None, "back": None}
    g = alpha.scratch_group()
    if case["kind"] == "pl":
        data = gen.build_structured(case["fields"], case["len"], case["seed"])
        pl = emdfile.PointList(data=data, name="pts")
        req = {"op": "points", "length": case["len"],
               "pointlist": [[f, str(data.dtype.fields[f][0]), alpha.array_token(data[f])] for f in data.dtype.names]}
        try:
            with common.quiet():
                grp = pl.to_h5(g)
            io["body"] = alpha.raw_obj(grp)["k"]
            with common.quiet():
                back = emdfile.PointList.from_h5(grp)
            io["back"] = pl_obs(back)
        except Exception as e:
            io["back" if io["body"] is not None else "body"] = alpha.exc_kind(e)
        src = pl_obs(pl)
    else:
        dt = np.dtype([(f, t) for f, t in case["fields"]])
        pla = emdfile.PointListArray(dtype=dt, shape=tuple(case["shape"]), name="pla")
        k = 0
        cells = []
        for i in range(case["shape"][0]):
            for j in range(case["shape"][1]):
                ln = case["lens"][k]
                if ln:
                    pla[i, j].add(gen.build_structured(case["fields"], ln, case["seed"] + k))
                cells.append(cell_token(pla[i, j].data))
                k += 1
        req = {"op": "points", "dtype": dtype_tok(dt), "rows": case["shape"][0], "cols": case["shape"][1], "cells": cells}
        src = {"dtype": dtype_tok(dt), "rows": case["shape"][0], "cols": case["shape"][1], "cells": cells}
        try:
            with common.quiet():
                grp = pla.to_h5(g)
            ds = grp["data"]
            vl = h5py.check_vlen_dtype(ds.dtype)
            raw_cells = [cell_token(ds[i, j]) for i in range(ds.shape[0]) for j in range(ds.shape[1])]
            io["body"] = [["data", {"d": alpha.raw_attrs(ds), "v": {"cells": {"dtype": dtype_tok(vl), "rows": int(ds.shape[0]),
                                                                            "cols": int(ds.shape[1]), "cs": raw_cells}}}]]
            with common.quiet():
                back = emdfile.PointListArray.from_h5(grp)
            io["back"] = {"dtype": dtype_tok(back.dtype), "rows": int(back.shape[0]), "cols": int(back.shape[1]),
                          "cells": [cell_token(back[i, j].data) for i in range(back.shape[0]) for j in range(back.shape[1])]}
        except Exception as e:
            io["back" if io["body"] is not None else "body"] = alpha.exc_kind(e)
    io["src"] = src
    # the same object through the public entry points: `save(path, obj)` (the object itself is the argument) and `read`
    import os
    obj = pl if case["kind"] == "pl" else pla
    if obj._root is None:
        p = common.fresh_path()
        try:
            with common.quiet():
                emdfile.save(p, obj, mode="w")
            if not os.path.exists(p):
                io["via_save"] = {"err": "no file was written"}
            else:
                with common.quiet():
                    b2 = emdfile.read(p, emdpath=f"{obj.name}_root/{obj.name}", tree=False)
                if case["kind"] == "pl":
                    io["via_save"] = pl_obs(b2)
                else:
                    io["via_save"] = {"dtype": dtype_tok(b2.dtype), "rows": int(b2.shape[0]), "cols": int(b2.shape[1]),
                                      "cells": [cell_token(b2[i, j].data) for i in range(b2.shape[0]) for j in range(b2.shape[1])]}
        except Exception as e:
            io["via_save"] = alpha.exc_kind(e)
        finally:
            obj._root = None
            if os.path.exists(p):
                os.remove(p)
    mo = None
    if drv is not None:
        mo = drv.ask(req)
        if isinstance(mo.get("back"), dict) and "fields" in mo["back"]:
            mo["back"]["fields"] = sorted(mo["back"]["fields"])
        mo["src"] = src
        if "via_save" in io:
            mo["via_save"] = mo.get("back")      # the model's save / read of a single node is its codec (C01 / C07)
    for o in (io, mo):
        if o is not None and isinstance(o.get("body"), list):
            o["body"] = sorted(o["body"], key=lambda e: e[0])
    return alpha.canon_obs(io), (alpha.canon_obs(mo) if mo is not None else None)


def oracle(case, obs):
    if isinstance(obs["body"], dict) and "err" in obs["body"]:
        return {"save_failed": obs["body"]}
    if isinstance(obs["back"], dict) and "err" in obs["back"]:
        return {"read_failed": obs["back"]}
    if obs["back"] != obs["src"]:
        return {"saved": obs["src"], "read": obs["back"]}
    if "via_save" in obs and obs["via_save"] != obs["src"]:
        return {"through_save_and_read": True, "saved": obs["src"], "read": obs["via_save"]}
    return None


def known_match(case, fail, finding):
    return False


def nontrivial(case):
    return len(case["fields"]) >= 2 or (case["kind"] == "pla" and len(set(case["lens"])) > 1)


def classify(case, obs):
    if case["kind"] == "pl":
        return ["pl", f"len_{min(case['len'], 2)}"] + [f"dt_{t}" for _, t in case["fields"]]
    return ["pla", f"shape_{case['shape'][0] > 0}_{case['shape'][1] > 0}", "ragged" if len(set(case["lens"])) > 1 else "uniform"]


def search_cases(tier, seed):
    yield from cases("thorough", seed + 217645177)
