"""C13 — cut and graft treat root metadata exactly as the chosen option documents."""
from harness import common, forest
from harness.props import c12

PID = "C13"
RULE = ("seeded sequences of tree operations rich in root Metadata (names overlapping between roots: disjoint, conflicting, "
        "identical, empty on either side) and grafts with all five options / cuts with all three, at any point of the sequence; "
        "after every graft / cut the receiving root's metadata are compared with the documented table (keys, content, and object "
        "identity: shared vs. independent copy) computed from the snapshot before the operation, and the whole heap with the Lean "
        "model; every third sequence starts with a directed scenario (two roots with overlapping entry names incl. '', node-level "
        "Metadata of such a name, a graft under an interior node with any option); non-trivial = an operation with a conflicting entry name; distinct by recipe hash")


def cases(tier, seed):
    n = 200 if tier == "quick" else 4000
    for i in range(n):
        r = common.case_rng(seed, PID, i)
        yield {"steps": c12.gen_steps(r, r.choice([8, 14, 24]), md_prob=0.3, scenario=(i % 3 == 0))}


run_both = c12.run_both


def find(heap, nid):
    def walk(n):
        if n["id"] == nid:
            return n
        for c in n["k"]:
            x = walk(c)
            if x:
                return x
        return None
    for c in heap["comps"]:
        x = walk(c)
        if x:
            return x
    return None


def oracle(case, obs):
    f = c12.oracle(case, obs)
    if f and "forbidden" not in str(f):
        pass   # structural problems are C12's business; C13 looks at metadata only
    prev = None
    for idx, (st, o) in enumerate(zip(case["steps"], obs)):
        if st["do"] in ("graft", "cut", "force") and prev is not None and isinstance(o["r"], (dict,)) or (st["do"] == "force" and o["r"] == "ok" and prev is not None):
            if st["do"] == "graft":
                scion, opt = find(prev, st["scion"]), st["opt"]
                recv_root_id = find(prev, st["recv"])["root"]
            elif st["do"] == "force":
                scion, opt = find(prev, st["child"]), False
                recv_root_id = find(prev, st["parent"])["root"]
                if scion is None or scion["root"] is None:
                    prev = o["heap"]; continue      # plain add
            else:
                scion, opt = find(prev, st["node"]), st["opt"]
                recv_root_id = o["r"]["node"]
            donor_id = scion["root"]
            donor_before = find(prev, donor_id)
            recv_before = find(prev, recv_root_id) or {"md": {}}
            recv_after = find(o["heap"], recv_root_id)
            donor_after = find(o["heap"], donor_id)
            own = recv_before["md"]
            don = donor_before["md"]
            want_keys = set(own)
            if opt is not False:
                want_keys |= set(don)
            if set(recv_after["md"]) != want_keys:
                return {"step": idx, "op": st, "receiver_keys": sorted(recv_after["md"]), "expected": sorted(want_keys)}
            for k in want_keys:
                got = recv_after["md"][k]
                from_donor = (k in don) and (k not in own or opt in ("overwrite", "copyover")) and opt is not False
                src = don[k] if from_donor else own[k]
                if got[2] != src[2]:
                    return {"step": idx, "op": st, "key": k, "content": got[2], "expected_content_of": "donor" if from_donor else "receiver"}
                if from_donor and donor_id != recv_root_id:
                    shared = f"{donor_id}:{k}" in got[0].split("@")[1].split(";")
                    if opt in ("copy", "copyover") and shared:
                        return {"step": idx, "op": st, "key": k, "copy_option_shares_object_with_donor": True}
                    if opt in (True, "overwrite") and not shared:
                        return {"step": idx, "op": st, "key": k, "add_option_does_not_share_object": True}
            if donor_id != recv_root_id and donor_after is not None:
                if {k: v[1:] for k, v in donor_after["md"].items()} != {k: v[1:] for k, v in donor_before["md"].items()}:
                    return {"step": idx, "op": st, "donor_metadata_changed": True}
        prev = o["heap"]
    return None


def known_match(case, fail, finding):
    return False


def nontrivial(case):
    return sum(1 for s in case["steps"] if s["do"] == "md") >= 2 and any(s["do"] in ("graft", "cut") for s in case["steps"])


classify = c12.classify
shrink = c12.shrink


def search_cases(tier, seed):
    yield from cases("thorough", seed + 86028121)
