"""C01 — tree round-trip: every node comes back at its path with its class."""
from harness import common, gen, hist, alpha

PID = "C01"
RULE = ("seeded random rooted trees (depth<=5, branching 0..8, classes Node/Array/PointList/PointListArray, names incl. "
        "spaces/non-ASCII/look-alikes of internal names, 0-3 Metadata per node); each saved to a fresh file, raw-walked with "
        "h5py, read back by default read and by read(emdpath=root, tree=None); non-trivial = tree with >= 2 nodes; distinct by "
        "canonical recipe hash. Thorough adds all tree shapes with <= 4 nodes x class assignments (exhaustive block).")
GT = {"Node": "node", "Array": "array", "PointList": "pointlist", "PointListArray": "pointlistarray", "Root": "root"}


def mk_case(tree):
    rn = tree["name"]
    return {"trees": {"T": tree}, "steps": [
        {"do": "save", "path": "A", "src": "T", "target": [], "mode": "w", "tree": True, "emdpath": None},
        {"do": "walk", "path": "A"},
        {"do": "read", "path": "A", "emdpath": None, "tree": True},
        {"do": "read", "path": "A", "emdpath": rn, "tree": None},
        {"do": "info", "path": "A"},
    ]}


def small_shapes(nmax):
    """all ordered tree shapes with <= nmax non-root nodes, as nested lists"""
    from functools import lru_cache
    @lru_cache(None)
    def forests(n):
        if n == 0:
            return [()]
        out = []
        for k in range(1, n + 1):
            for first in forests(k - 1):
                for rest in forests(n - k):
                    out.append((first,) + rest)
        return out
    res = []
    for n in range(0, nmax + 1):
        res += forests(n)
    return res


def cases(tier, seed):
    import os, json, glob
    for f in sorted(glob.glob(os.path.join(common.VERIF, "corpus", PID, "*.json"))):
        yield json.load(open(f))["case"]
    n = 120 if tier == "quick" else 2500
    for i in range(n):
        r = common.case_rng(seed, PID, i)
        t = gen.gen_tree(r, rootname=gen.gen_name(r, set(), odd=0.3), maxdepth=r.choice([1, 2, 3, 5]))
        yield mk_case(t)
    if tier == "thorough":
        r = common.case_rng(seed, PID, 0, "small")
        for shape in small_shapes(4):
            for rep in range(3):
                def build(sh, used):
                    out = []
                    for sub in sh:
                        cls = r.choice(gen.CLASSES)
                        rec = {"name": gen.gen_name(r, used, odd=0.1), "cls": cls, "pay": gen.gen_payload(r, cls), "md": [], "kids": []}
                        rec["kids"] = build(sub, set(gen.reserved_names(rec)))
                        out.append(rec)
                    return out
                yield mk_case({"name": "root", "cls": "Root", "pay": {}, "md": [], "kids": build(shape, {"metadatabundle"})})


def run_both(drv, case):
    iobs, msteps = hist.run_impl(case)
    mobs = hist.run_model(drv, msteps, len(iobs)) if drv is not None else None
    return hist.canon_list(iobs), (hist.canon_list(mobs) if mobs is not None else None)


def file_nodes(obj, prefix=()):
    """(path, emd_group_type, python_class) for every tagged data-node group below a root group"""
    out = []
    for k, o in obj.get("k", []):
        if "g" in o and o["g"].get("emd_group_type") in ("node", "array", "pointlist", "pointlistarray", "custom"):
            out.append((prefix + (k,), o["g"].get("emd_group_type"), o["g"].get("python_class")))
            out += file_nodes(o, prefix + (k,))
    return out


def recipe_nodes(rec, prefix=()):
    out = []
    for k in rec.get("kids", []):
        out.append((prefix + (k["name"],), GT[k["cls"]], k["cls"]))
        out += recipe_nodes(k, prefix + (k["name"],))
    return out


def readtree_nodes(t, prefix=()):
    out = []
    for k in t.get("k", []):
        out.append((prefix + (k["n"],), k["t"], k["c"]))
        out += readtree_nodes(k, prefix + (k["n"],))
    return out


def oracle(case, obs):
    tree = case["trees"]["T"]
    want = sorted(recipe_nodes(tree))
    if obs[0] != {"ok": True}:
        return {"save_failed": obs[0]}
    if len(obs) < 5:
        return {"truncated": len(obs)}
    walk = obs[1].get("h5")
    if walk is None:
        return {"no_file": obs[1]}
    roots = [(k, o) for k, o in walk["k"] if "g" in o and o["g"].get("emd_group_type") == "root"]
    if [k for k, _ in roots] != [tree["name"]]:
        return {"roots_in_file": [k for k, _ in roots], "expected": tree["name"]}
    got = sorted(file_nodes(roots[0][1]))
    if got != want:
        return {"file_nodes": got, "expected": want}
    r2 = obs[3]
    if r2.get("kind") != "node" or r2.get("path") != [] or r2["root"]["n"] != tree["name"]:
        return {"read_root": {k: v for k, v in r2.items() if k != "root"}}
    got2 = sorted(readtree_nodes(r2["root"]))
    if got2 != want:
        return {"read_nodes": got2, "expected": want}
    r1 = obs[2]
    if r1.get("kind") == "node":
        if sorted(readtree_nodes(r1["root"])) != want or r1["root"]["n"] != tree["name"]:
            return {"default_read_nodes": sorted(readtree_nodes(r1["root"])), "expected": want}
    elif r1.get("kind") == "metadata":
        if want or len(tree.get("md", [])) != 1:
            return {"default_read": "metadata returned for a tree with nodes or != 1 metadata"}
    else:
        return {"default_read": r1}
    if obs[4].get("is_emd") is not True or (obs[4].get("version") or [None])[:2] != [1, 0]:
        return {"info": obs[4]}
    return None


def has_body_collision(rec):
    res = gen.reserved_names(rec) if rec["cls"] != "Root" else {"metadatabundle"}
    for k in rec.get("kids", []):
        if k["name"] in res or has_body_collision(k):
            return True
    return False


def known_match(case, fail, finding):
    if finding["id"] == "C01-K1":
        # save raises because a child is named like a dataset its parent's class writes into its own group
        return "save_failed" in fail and "err" in fail["save_failed"] and has_body_collision(case["trees"]["T"])
    return False


def nontrivial(case):
    return gen.tree_size(case["trees"]["T"]) >= 2


def classify(case, obs):
    t = case["trees"]["T"]
    return [f"size_{min(gen.tree_size(t), 20)//4*4}+", f"depth_{gen.tree_depth(t)}"]


def shrink(case):
    for t in gen.shrink_tree(case["trees"]["T"]):
        yield mk_case(t)


def search_cases(tier, seed):
    for i in range(1500):
        r = common.case_rng(seed, PID, i, "search")
        yield mk_case(gen.gen_tree(r, maxdepth=r.choice([2, 3, 4, 6])))
