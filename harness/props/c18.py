"""C18 — a save that fails does not damage what the file already held."""
import os, shutil, json
import h5py
import emdfile
from harness import common, gen, hist, alpha, faults
from harness.props import c09

PID = "C18"
RULE = ("seeded (file tree, runtime tree) pairs as in C09 plus a second untargeted tree in the file; for each pair one append or "
        "append-over (whole root or targeted) is first run to count its h5py mutations (create group / dataset / attribute, move, "
        "link, delete), then re-run on a fresh copy of the file once for EVERY mutation index k with that mutation made to raise; "
        "and three naturally failing whole-root appends per pair (a root metadata entry with an unsupported value behind entries the file already has; the same deep in the tree; a new child named like a dataset of its parent's body); after each failing save: is every pre-existing node still at its path, individually readable and equal to before, are "
        "other trees untouched, are scratch groups left; trees hold Custom nodes with node-valued attributes; natural failures incl. a "
        "new child named like an object of its parent's body in plain append and in append-over; non-trivial = >= 10 failure points; distinct by recipe hash")
TIME_BUDGET = {"quick": 400, "thorough": 2400}


def cases(tier, seed):
    n = 14 if tier == "quick" else 300
    for i in range(n):
        r = common.case_rng(seed, PID, i)
        F, R = c09.gen_pair(r, classes=gen.CLASSES_C)      # incl. Custom nodes with node-valued attributes
        other = gen.gen_tree(r, rootname="R1", maxdepth=2, md=0.5)
        X = gen.gen_tree(r, rootname="X0", maxdepth=1)
        ap = c09.gen_append(r, F, R, X)
        while ap["src"] == "X":
            ap = c09.gen_append(r, F, R, X)
        if i % 4 == 1:
            # directed: a Custom node with node-valued attributes AND a child, present in file and runtime tree, replaced by an
            # append-over of the whole root (its attribute groups are body, its children are links to carry over)
            def vc(tag):
                attrs = [[k, {"name": k, "cls": c, "pay": gen.gen_payload(r, c), "md": [], "kids": []}]
                         for k, c in (("first", "Array"), ("_second", r.choice(["Node", "PointList"])))]
                return {"name": "vc", "cls": "Custom", "pay": {"attrs": attrs}, "md": [], "kids": [
                    {"name": "kept_" + tag, "cls": "Node", "pay": {}, "md": [], "kids": []}]}
            for t, tag in ((F, "f"), (R, "r")):
                t["kids"] = [k for k in t["kids"] if k["name"] != "vc"] + [vc(tag)]
            ap = {"src": "R", "target": [], "mode": r.choice(["ao", "appendover"]), "tree": True, "emdpath": None}
        # naturally failing saves are tried for every pair (see `attempt`); the root of the file tree mostly carries metadata,
        # so that an append meets entries it has to skip before it reaches the one that fails
        if not F["md"] and r.random() < 0.7:
            um = set()
            F["md"] = [gen.gen_metadata(r, um) for _ in range(r.choice([1, 2]))]
        natural = ["bad_root_metadata", "bad_root_metadata_no_bundle", "bad_node_metadata", "collision_with_body", "collision_with_body_over", "renamed_node_over"]
        yield {"trees": {"F": F, "R": R, "O": other}, "append": ap, "natural": natural, "maxk": 60 if tier == "quick" else 200}


OVER_NATURALS = ("renamed_node_over", "collision_with_body_over")      # natural failures tried in append-over mode


def node_table(path):
    """{(root, path...): alone-content} for every node of every tree of the file, by raw walk"""
    out = {}
    w = alpha.raw_file(path)
    if "h5" not in w:
        return None, w
    def walk(name, o, prefix):
        t = hist.obj_to_tree(name, o)
        def rec(t, p):
            out[p] = alpha.canon_obs(hist.alone(t))
            for k in t["k"]:
                rec(k, p + (k["n"],))
        rec(t, prefix)
    for k, o in w["h5"]["k"]:
        if "g" in o and o["g"].get("emd_group_type") == "root":
            walk(k, o, (k,))
    return out, w


def sort_links(o):
    """link order is not observable (H5): h5py lists links by name, the model in creation order"""
    if "k" in o:
        return {"g": o["g"], "k": sorted([[k, sort_links(v)] for k, v in o["k"]], key=lambda kv: kv[0])}
    return o


def still_holds(b, a):
    """does the node (alone-content `a` after) still hold everything it held before (`b`)?  New metadata entries and new
    body objects may have been added by the part of the save that ran; nothing it held may be missing or different"""
    if (b["c"], b["t"], b["n"]) != (a["c"], a["t"], a["n"]):
        return False
    ab = dict((k, v) for k, v in a["b"])
    for k, v in b["b"]:
        if k not in ab:
            return False
        if k == "metadatabundle" and "g" in v and "g" in ab[k]:
            if v["g"] != ab[k]["g"]:
                return False
            am = dict((x, y) for x, y in ab[k]["k"])
            for x, y in v["k"]:
                if am.get(x) != y:
                    return False
        elif ab[k] != v:
            return False
    return True


def scratch_groups(w, legit):
    found = []
    def rec(o, p):
        for k, c in o.get("k", []):
            if "g" in c:
                if k == "metadatabundle":
                    continue            # names inside a bundle are Metadata names, never scratch groups of the writer
                if k.startswith("_tmp_") and k not in legit:
                    found.append("/".join(p + [k]))
                rec(c, p + [k])
    rec(w["h5"], [])
    return found


def half_written_entries(w, before):
    """Metadata entries called `zz_bad` (the entry every natural metadata failure tries to write and cannot) that sit in the
    bundle of a node the file held BEFORE the save: the failing save must not leave a partial entry behind on such a node (what a
    read of the node returns would differ from what it held)"""
    found = []
    def rec(o, p):
        for k, c in o.get("k", []):
            if "g" in c:
                if k == "metadatabundle":
                    if tuple(p) in before and any(n == "zz_bad" for n, _ in c.get("k", [])):
                        found.append(list(p))
                    continue
                rec(c, p + [k])
    rec(w["h5"], [])
    return found


def run_both(drv, case):
    d = common.fresh_path(suffix="_d")
    os.makedirs(d, exist_ok=True)
    base = os.path.join(d, "base.h5")
    verdicts = []
    try:
        rootF, _ = gen.build_tree(case["trees"]["F"])
        rootO, _ = gen.build_tree(case["trees"]["O"])
        with common.quiet():
            emdfile.save(base, [rootF, rootO])
        before, _ = node_table(base)
        legit = set()
        for t in case["trees"].values():
            for p in gen.tree_paths(t):
                if p and p[-1].startswith("_tmp_"):
                    legit.add(p[-1])
        ap = case["append"]

        fpaths = set(gen.tree_paths(case["trees"]["F"]))

        override = {"before": None, "f0": None}

        def attempt(k, natural=None):
            rootR, idx = gen.build_tree(case["trees"]["R"])
            a = ap
            if natural is not None:
                a = {"target": [], "mode": "a", "tree": True, "emdpath": None}      # whole-root plain append
            if natural in ("bad_root_metadata", "bad_root_metadata_no_bundle"):
                # the runtime root holds what the file's root holds (entries the append skips), then one it cannot store
                rootF2, _ = gen.build_tree(case["trees"]["F"])
                for key in list(rootF2._metadata.keys()):
                    if key not in rootR._metadata:
                        rootR.metadata = rootF2._metadata[key]
                rootR.metadata = emdfile.Metadata(name="zz_bad", data={"fine": 1, "x": {1, 2}})
            if natural == "bad_node_metadata":
                # an unsupported value deep in the runtime tree
                paths = [p for p in idx if p]
                tgt = idx[sorted(paths)[-1]] if paths else rootR
                tgt.metadata = emdfile.Metadata(name="zz_bad", data={"x": {1, 2}})
            if natural == "renamed_node_over":
                # append-over of a tree in which a node was RENAMED after it was placed (its name no longer matches its
                # place in the tree) to the name of a sibling the file holds: the writer refuses; nothing may be lost
                a = {"target": [], "mode": "ao", "tree": True, "emdpath": None}
                done = False
                for p in sorted(idx):
                    if not p or p not in fpaths:
                        continue
                    sibs = [q[-1] for q in fpaths if len(q) == len(p) and q[:-1] == p[:-1] and q != p]
                    if sibs:
                        idx[p].name = sibs[0]
                        done = True
                        break
                if not done:
                    return None, None, None
            if natural in ("collision_with_body", "collision_with_body_over"):
                # a new child whose name is that of a dataset / group the node's own body holds in the file (plain append) —
                # or, in append-over, that the node's body WILL hold once the runtime node has replaced the file's
                over = natural.endswith("_over")
                if over:
                    a = {"target": [], "mode": "ao", "tree": True, "emdpath": None}
                done = False
                for p in sorted(idx):
                    if not p or p not in fpaths:
                        continue
                    body = [b for b, _ in (alpha.node_info(idx[p])["b"] if over else before[("R0",) + p]["b"]) if b != "metadatabundle"]
                    used = set(idx[p]._branch._dict.keys())
                    body = [b for b in body if b not in used]
                    if body:
                        idx[p].tree(emdfile.Node(name="zz_new"))
                        idx[p].tree(emdfile.Node(name=body[0]))
                        done = True
                        break
                if not done:
                    return None, None, None
            work = os.path.join(d, "work.h5")
            shutil.copyfile(base, work)
            override["before"] = None
            if natural == "bad_root_metadata_no_bundle":
                # ... the file's root has NO metadata bundle yet (the save has to create it), everything else as above
                with h5py.File(work, "a") as f:
                    if "metadatabundle" in f["R0"]:
                        del f["R0"]["metadatabundle"]
                override["before"], _ = node_table(work)
                override["f0"] = alpha.raw_file(work)["h5"]
            inj = faults.Injector(fail_at=k, trace=True)
            exc = None
            try:
                with common.quiet(), faults.inject(inj):
                    emdfile.save(work, idx[tuple(a["target"])], mode=a["mode"], tree=a["tree"], emdpath=a["emdpath"])
            except Exception as e:
                exc = e
            return work, inj, exc

        f0 = alpha.raw_file(base)["h5"]
        impl_mut, model_mut = [], []

        def mutation_level(work, inj, plain_append):
            """replay the mutations the code PERFORMED in the Lean store model: is the model's file the real file, was every
            mutation executable there, and (plain append) was every one of them additive w.r.t. the file before the save?"""
            if work is None or inj is None:
                return None
            real = alpha.raw_file(work)
            impl_mut.append({"final": common.digest(sort_links(real.get("h5", {"g": {}, "k": []}))), "all_executable": True})
            if drv is None:
                return None
            if any(m["m"] == "untraceable" for m in inj.trace):
                model_mut.append({"final": "untraceable mutation: " + str([m for m in inj.trace if m["m"] == "untraceable"][0]), "all_executable": False})
                return None
            r = drv.ask({"op": "mutations", "h5": (override["f0"] if override["before"] is not None else f0), "muts": inj.trace})
            if "final" not in r:
                model_mut.append({"final": "driver: " + json.dumps(r)[:200], "all_executable": False})
                return None
            model_mut.append({"final": common.digest(sort_links(r["final"])), "all_executable": all(e for _, e in r["flags"])})
            bad = [m for m, (a, _) in zip(inj.trace, r["flags"]) if not a]
            return bad[0] if (bad and plain_append) else None

        work, inj0, exc0 = attempt(None)
        total = inj0.count
        over = ap["mode"] in ("ao", "oa", "o+", "+o", "appendover")
        na0 = mutation_level(work, inj0, not over)
        rpaths = set(("R0",) + p for p in gen.tree_paths(case["trees"]["R"]))
        points = [(None, nat) for nat in (case["natural"] or [])]
        points += [(k, None) for k in range(min(total, case["maxk"]))]
        for k, nat in points:
            work, inj, exc = attempt(k, nat)
            na = mutation_level(work, inj, ((not over) or nat is not None) and nat not in OVER_NATURALS)
            if exc is None:
                continue
            after, w = node_table(work)
            v = {"k": k if nat is None else nat, "what": (inj.log[k] if k is not None and k < len(inj.log) else nat),
                 "over": (over and nat is None) or nat in OVER_NATURALS, "natural": nat}
            if after is None:
                v["file_unreadable"] = True
                verdicts.append(v); continue
            bref = override["before"] if override["before"] is not None else before
            lost = [p for p in bref if p not in after]
            changed = [p for p in bref if p in after and not still_holds(bref[p], after[p])]
            v["lost"] = [list(p) for p in lost]
            v["changed"] = [list(p) for p in changed]
            v["scratch"] = scratch_groups(w, legit)
            v["half_written"] = half_written_entries(w, bref)
            # individually readable
            unreadable = []
            for p in bref:
                if p in after and len(p) > 1:
                    try:
                        with common.quiet():
                            emdfile.read(work, emdpath="/".join(p), tree=False)
                    except Exception:
                        unreadable.append(list(p))
            v["unreadable"] = unreadable
            v["replaced_paths"] = [list(p) for p in before if p in rpaths]
            if na is not None:
                v["non_additive"] = na
            verdicts.append(v)
        # one more history: an unrooted node that an earlier TUPLE save of this process has written is saved again, in a LIST, in
        # plain append mode, now carrying a Metadata value that cannot be stored.  The node is in the file already, so a plain
        # append has nothing to write for it (and must not touch it); whatever happens, what the file held stays as it was
        try:
            import numpy as np
            work2 = os.path.join(d, "work2.h5")
            shutil.copyfile(base, work2)
            u = emdfile.Array(data=np.arange(4.0), name="zz_u")
            with common.quiet():
                emdfile.save(work2, (u, {"k": 1}), mode="a")
            before2, _ = node_table(work2)
            u.metadata = emdfile.Metadata(name="zz_bad", data={"fine": 1, "x": {1, 2}})
            exc2 = None
            try:
                with common.quiet():
                    emdfile.save(work2, [u, {"k": 2}], mode="a")
            except Exception as e:
                exc2 = e
            after2, w2 = node_table(work2)
            v = {"k": "list_after_tuple", "what": "list_after_tuple", "over": False, "natural": "list_after_tuple"}
            if after2 is None:
                v["file_unreadable"] = True
            else:
                v["lost"] = [list(p) for p in before2 if p not in after2]
                v["changed"] = [list(p) for p in before2 if p in after2 and not still_holds(before2[p], after2[p])]
                v["scratch"] = scratch_groups(w2, legit)
                unreadable = []
                for p in before2:
                    if p in after2 and len(p) > 1:
                        try:
                            with common.quiet():
                                emdfile.read(work2, emdpath="/".join(p), tree=False)
                        except Exception:
                            unreadable.append(list(p))
                v["unreadable"] = unreadable
                v["replaced_paths"] = []
            if exc2 is not None or damage(v):
                verdicts.append(v)
        except Exception as e:
            verdicts.append({"k": "list_after_tuple", "what": "harness: " + type(e).__name__, "over": False, "natural": "list_after_tuple",
                             "lost": [], "changed": [], "scratch": [], "unreadable": [], "replaced_paths": []})
        obs = {"total_mutations": total, "verdicts": verdicts, "unfailed_save": "ok" if exc0 is None else alpha.exc_kind(exc0)["err"]}
        if na0 is not None:
            obs["non_additive_in_unfailed_append"] = na0
    finally:
        shutil.rmtree(d, ignore_errors=True)
    # model side.  Tree level: the property's prediction for append mode is "no verdict reports damage" (for append-over the
    # proved part is about nodes the runtime tree does not replace, see EmdProps/C18.lean).  Mutation level: for every attempt
    # (unfailed, every failure point, every natural failure) the mutations the code performed are replayed in the Lean store
    # model; the model's final file must be the real final file and every mutation must be executable there.
    if drv is None:
        return dict(obs, mutation_level=impl_mut), None
    return dict(obs, mutation_level=impl_mut), dict(obs, mutation_level=model_mut)


def damage(v):
    """(kind, paths) of damage to pre-existing content in one verdict"""
    if v.get("file_unreadable"):
        return [("file_unreadable", [])]
    out = []
    for key in ("lost", "changed", "unreadable"):
        if v[key]:
            out.append((key, v[key]))
    if v["scratch"]:
        out.append(("scratch", v["scratch"]))
    if v.get("half_written"):
        out.append(("half_written_metadata_entry", v["half_written"]))
    return out


def oracle(case, obs):
    """the first failing verdict that no listed finding explains, else the first failing verdict, else None"""
    fails = []
    if "non_additive_in_unfailed_append" in obs:
        return {"non_additive_mutation_in_a_plain_append": obs["non_additive_in_unfailed_append"]}
    for v in obs["verdicts"]:
        if "non_additive" in v:
            return {"non_additive_mutation_in_a_plain_append": v["non_additive"], "failure_point": v["k"]}
        dm = damage(v)
        if dm:
            fails.append({"failure_point": v["k"], "mutation": v["what"], "append_over": v["over"], "natural": v.get("natural"),
                          "damage": [[k, p] for k, p in dm], "replaced_paths": v.get("replaced_paths", [])})
    if not fails:
        return None
    known = common.load_known(PID)
    for f in fails:
        if not any(known_match(case, f, k) for k in known):
            return f
    return fails[0]


def link_clash_paths(case):
    """nodes present in file and runtime tree whose replacement fails INSIDE `_overwrite_single_node` on the clean tree: a child
    the file node has is called like an object of the body the runtime node writes (the old children are linked into the new
    group by name) — the hypothesis `compatKids` of the C09 theorems, and part of C18-K1"""
    out = []
    def walk(f, rt, path):
        fk = {k["name"]: k for k in f["kids"]}
        for k in rt["kids"]:
            if k["name"] in fk:
                fnode = fk[k["name"]]
                body = gen.reserved_names(k) - {"metadatabundle"}
                if body & {x["name"] for x in fnode["kids"]}:
                    out.append(("R0",) + tuple(path) + (k["name"],))
                walk(fnode, k, path + [k["name"]])
    walk(case["trees"]["F"], case["trees"]["R"], [])
    return out


def explained_by_link_clash(case, fail):
    clash = link_clash_paths(case)
    if not clash:
        return False
    def below(p):
        p = tuple(p)
        return any(p[:len(c)] == c for c in clash)
    for kind, paths in fail["damage"]:
        if kind in ("lost", "unreadable") and not all(below(p) for p in paths):
            return False
        if kind == "file_unreadable":
            return False
        if kind == "scratch":
            want = {"/".join(c[:-1] + ("_tmp_" + c[-1],)) for c in clash}
            if not all(sp in want for sp in paths):
                return False
    return True


def known_match(case, fail, finding):
    if finding["id"] == "C18-K1":
        # append-over is not failure-atomic for the nodes it replaces: `_overwrite_single_node` parks the old group under
        # _tmp_<name>, writes the new one and re-links the children. A failure in between leaves the node (and with it the
        # path to everything below it) missing or half-written and the scratch group behind; replaced root metadata entries
        # are deleted before they are rewritten. Covered: damage at / below a node present in BOTH trees, to the root's own
        # metadata, and scratch groups. NOT covered: any damage in append mode, to other trees, or to paths the runtime tree
        # does not reach.
        if not fail.get("append_over"):
            return False
        if fail.get("natural") in ("renamed_node_over", "collision_with_body", "collision_with_body_over") and \
                any(kind in ("lost", "unreadable", "scratch", "file_unreadable") for kind, _ in fail["damage"]) and \
                not explained_by_link_clash(case, fail):
            # a renamed node is refused BEFORE the old group is parked, and a NEW child named like an object of its parent's
            # body is refused when its group is created (no node is parked at that moment): nothing can be lost and no scratch group can exist
            # (nodes replaced earlier in the same save have their new content: that part is this finding)
            return False
        replaced = [tuple(p) for p in fail.get("replaced_paths", [])]
        def covered(p):
            p = tuple(p)
            if len(p) == 1:
                return p in replaced
            return any(p[:n] in replaced for n in range(2, len(p) + 1))
        for kind, paths in fail["damage"]:
            if kind == "file_unreadable":
                return False
            if kind == "scratch":
                continue
            if not all(covered(p) for p in paths):
                return False
        return True
    return False


def nontrivial(case):
    return True


def classify(case, obs):
    out = [f"points_{min(obs['total_mutations'], 100)//10*10}+", "mode_" + ("ao" if case["append"]["mode"] in ("ao", "oa", "o+", "+o", "appendover") else "a")]
    for v in obs["verdicts"]:
        out.append("damage" if damage(v) else "intact")
    return out


def search_cases(tier, seed):
    yield from cases("thorough", seed + 573259391)
