"""C11 — write never clobbers, overwrite leaves no residue, append to nothing is write."""
from harness import common, gen, hist, alpha

PID = "C11"
RULE = ("every case = (old content at path A: absent / EMD file / junk bytes / non-EMD HDF5, new input of each kind: node, "
        "array, dict, Metadata, list) x every spelling of every mode plus unknown spellings x tree option; the same input is also "
        "written with 'w' to a fresh path B; observations: outcome, sha256 of A before/after, raw walks of A and B; "
        "in half of the overwrites of an HDF5 file the OLD file is still held open read-only elsewhere in the process; "
        "non-trivial = old content present; distinct by recipe hash")
MODES = ["w", "write", "o", "overwrite", "a", "+", "append", "ao", "oa", "o+", "+o", "appendover"]
BAD = ["", "r", "x", "W", "wa", "append-over", "ow", "A",
       # fragments, joins and near-misses of the documented spellings (membership in the LIST of spellings, not in their text)
       "over", "app", "rite", "end", "ppend", "writ", " ", ", ", "w, write", "a, +", "o+o", "ao ", " w", "w\n", "Write", "APPEND", "a+", "++"]


def gen_input(r, trees, k=None):
    k = k or r.choice(["node", "node", "array", "dict", "metadata", "list"])
    if k == "node":
        t = r.choice(list(trees))
        return {"src": t, "target": list(r.choice(gen.tree_paths(trees[t])))}
    if k == "array":
        return {"input": {"kind": "array", "rec": gen.gen_arr(r, maxrank=2) | {"shape": [r.randrange(1, 4)]}}}
    if k == "dict":
        return {"input": {"kind": "dict", "items": [[gen.gen_name(r, set()), gen.gen_md_value(r, 1, 2)] for _ in range(r.randrange(0, 3))]}}
    if k == "metadata":
        return {"input": {"kind": "metadata", "rec": gen.gen_metadata(r, set())}}
    # lists / tuples: roots, rooted direct children, arrays, dicts - including lists holding only rooted nodes and []
    from harness.props import c10
    c = r.random()
    if c < 0.1:
        return {"input": {"kind": r.choice(["list", "tuple"]), "items": []}}
    if c < 0.35:
        items = []
        for tid in r.sample(list(trees), k=r.choice([1, 1, 2])):
            kids = [k["name"] for k in trees[tid]["kids"]]
            r.shuffle(kids)
            for kn in kids[:r.choice([1, 2])]:
                items.append({"node": [tid, [kn]]})
        return {"input": {"kind": r.choice(["list", "tuple"]), "items": items}}
    return {"input": c10.gen_list(r, trees, [])}


def cases(tier, seed):
    n = 160 if tier == "quick" else 2500
    # a grid over (old content) x (mode class) x (input kind) comes first, random cases after
    r0 = common.case_rng(seed, PID, 0, "grid")
    grid = [(o, mc, k) for o in ["absent", "emd", "junk", "foreign", "emd"] for mc in ["w", "o", "a", "ao", "bad"]
            for k in ["node", "array", "dict", "metadata", "list", "list"]]
    r0.shuffle(grid)
    spell = {"w": ["w", "write"], "o": ["o", "overwrite"], "a": ["a", "+", "append"],
             "ao": ["ao", "oa", "o+", "+o", "appendover"], "bad": BAD}
    seen_junk = {}
    for i in range(n):
        r = common.case_rng(seed, PID, i)
        forced = grid[i] if i < len(grid) else None
        trees = {"T0": gen.gen_tree(r, rootname="R0", maxdepth=2, avoid_prefix=["R", "root"]),
                 "T1": gen.gen_tree(r, rootname="R1", maxdepth=2, avoid_prefix=["R", "root"]),
                 "OLD": gen.gen_tree(r, rootname=r.choice(["R0", "Rold", "root"]), maxdepth=2, avoid_prefix=["R", "root"])}
        old = forced[0] if forced else r.choice(["absent", "emd", "emd", "junk", "foreign"])
        steps = []
        if old == "emd":
            steps.append({"do": "save", "path": "A", "src": "OLD", "target": [], "mode": "w", "tree": True, "emdpath": None})
        elif old == "junk":
            junks = ["", "hello", "\x89HDF\r\n\x1a\nnot really", "x" * 3000]
            if forced:
                # directed: within the grid every mode class meets every kind of junk, the ZERO-LENGTH file included
                seen_junk[forced[1]] = seen_junk.get(forced[1], -1) + 1
                steps.append({"do": "put", "path": "A", "junk": junks[seen_junk[forced[1]] % 4]})
            else:
                steps.append({"do": "put", "path": "A", "junk": r.choice(junks)})
        elif old == "foreign":
            steps.append({"do": "puth5", "path": "A", "spec": r.choice(["empty", "attrs_only", "wrong_version", "no_roots", "group"])})
        mode = r.choice(spell[forced[1]]) if forced else (r.choice(MODES) if r.random() < 0.85 else r.choice(BAD))
        opt = r.choice([True, True, False, None])
        inp = gen_input(r, {k: trees[k] for k in ("T0", "T1")}, forced[2] if forced else None)
        steps.append({"do": "hash", "path": "A"})
        steps.append({"do": "walk", "path": "A"})
        sv = dict({"do": "save", "path": "A", "mode": mode, "tree": opt, "emdpath": None}, **inp)
        if cls(mode) == "o" and old in ("emd", "foreign") and r.random() < 0.5:
            sv["hold_open"] = True      # the old file is still open (read-only) elsewhere in the process while it is replaced
        if r.random() < 0.15:
            sv["mode_as"] = r.choice(["np.str_", "str_subclass"])      # the mode string as a numpy string / a str subclass
        steps.append(sv)
        steps.append({"do": "hash", "path": "A"})
        steps.append({"do": "walk", "path": "A"})
        steps.append(dict({"do": "save", "path": "B", "mode": "w", "tree": opt, "emdpath": None}, **inp))
        steps.append({"do": "walk", "path": "B"})
        yield {"trees": trees, "steps": steps, "old": old, "mode": mode, "continue_after_failure": True}


def run_both(drv, case):
    iobs, msteps = hist.run_impl(case)
    hist.LAST["msteps"] = msteps
    mobs = hist.run_model(drv, msteps, len(iobs)) if drv is not None else None
    io, mo = hist.canon_list(iobs), (hist.canon_list(mobs) if mobs is not None else None)
    # the byte hash after a save is only meaningful when the save was refused (a successful append may rewrite
    # bytes without changing content): blank it on both sides otherwise
    k = [i for i, s in enumerate(case["steps"]) if s["do"] == "hash"][0]
    # ... and a failing append may have opened (and so touched) the file: what it must preserve is C18's subject
    keep = cls(case["mode"]) in ("w", None)
    for lst in (io, mo):
        if lst is not None and len(lst) > k + 3 and "hash" in lst[k + 3] and (lst[k + 2] == {"ok": True} or not keep):
            lst[k + 3] = {"hash": "-"}
        # the content after a FAILING append / append-over is C18's subject (partial effects), not compared here
        if lst is not None and len(lst) > k + 4 and not keep and lst[k + 2] != {"ok": True}:
            lst[k + 4] = {"after_failed_append": "-"}
        # the same for the reference save into the fresh path B when that save is refused half-way (the model's failing save
        # returns no file system at all; what the real one leaves behind is again C18's subject)
        if lst is not None and len(lst) > k + 6 and lst[k + 5] != {"ok": True}:
            lst[k + 6] = {"after_failed_write": "-"}
    return io, mo


def blank_uuid(o):
    if isinstance(o, dict):
        return {k: ("<uuid>" if k == "UUID" else blank_uuid(v)) for k, v in o.items()}
    if isinstance(o, list):
        return [blank_uuid(x) for x in o]
    return o


def cls(mode):
    return {"w": "w", "write": "w", "o": "o", "overwrite": "o", "a": "a", "+": "a", "append": "a"}.get(
        mode, "ao" if mode in ("ao", "oa", "o+", "+o", "appendover") else None)


def oracle(case, obs):
    steps = case["steps"]
    k = [i for i, s in enumerate(steps) if s["do"] == "hash"][0]       # index of first hash
    if k > 0 and obs[0] != {"ok": True}:
        return {"setup_failed": obs[0]}
    if len(obs) <= k + 2:
        return {"truncated": len(obs)}
    h0, w0, sv = obs[k], obs[k + 1], obs[k + 2]
    c = cls(case["mode"])
    existed = "absent" not in h0
    if len(obs) < k + 7:
        return {"truncated": len(obs)}
    h1 = obs[k + 3]
    if c is None:
        if "err" not in sv:
            return {"unknown_mode_not_rejected": sv}
        if h1 != h0:
            return {"unknown_mode_touched_the_path": True}
        return None
    if c == "w" and existed:
        if "err" not in sv:
            return {"write_mode_clobbered": sv}
        if h1 != h0:
            return {"write_mode_changed_existing_file": True}
        return None
    if "err" in sv:
        # other failures must be legitimate: appending to a non-EMD / non-HDF5 file
        if c in ("a", "ao") and case["old"] in ("junk", "foreign"):
            return None
        if c in ("a", "ao") and case["old"] == "emd":
            return None   # appends into an existing tree may legitimately be refused (e.g. node path not in file)
        # overwrite / append-to-nothing must behave exactly like the same save into a fresh path: when THAT save is refused
        # too (an input the writer cannot store, e.g. a rooted list item that has a sibling called `_tmp_<its name>`), and
        # the mode has done what the property says (what a FAILING save leaves behind is not compared here: the walk of a
        # file after a failed save is masked, see C18)
        svB = obs[k + 5]
        if "err" in svB and (c == "o" or not existed):
            return None
        return {"save_failed": sv, "mode": case["mode"], "old": case["old"], "fresh_write": svB}
    wA, svB, wB = obs[k + 4], obs[k + 5], obs[k + 6]
    if svB != {"ok": True}:
        return {"fresh_write_failed": svB}
    if c == "o" or not existed:
        if blank_uuid(wA) != blank_uuid(wB):
            return {"differs_from_fresh_write": True, "mode": case["mode"], "A": blank_uuid(wA), "B": blank_uuid(wB)}
    return None


def known_match(case, fail, finding):
    return False


def nontrivial(case):
    return case["old"] != "absent"


def classify(case, obs):
    return [f"old_{case['old']}", f"mode_{cls(case['mode'])}"]


def search_cases(tier, seed):
    yield from cases("thorough", seed + 15485863)
