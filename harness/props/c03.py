"""C03 — Metadata round-trip: every supported value kind, at any nesting depth."""
import emdfile
from harness import common, gen, alpha, mdvals

PID = "C03"
RULE = ("seeded Metadata dictionaries over the documented kinds (numbers incl. nan / inf / -0.0 / int64 edges, bools, unicode "
        "strings, None, arrays of every dtype and shape incl. 0-d and empty, empty / numeric / nested / array / string tuples, "
        "empty / numeric / array / string lists, dicts nested to depth 4 (thorough 7)); written with Metadata.to_h5, raw-walked, "
        "read with Metadata.from_h5; compared with the Lean writer / reader (same file objects, same read-back canonical form) and "
        "with the direct predicate 'read-back equals what was saved, kind-sensitively'; non-trivial = a container or dict value; "
        "30 % of the cases make one container OBJECT reachable by two paths (aliasing); every tenth case attaches several Metadata to a "
        "root or an inner node and writes them in TWO saves (the second an append or append-over carrying entries the file has and "
        "entries it lacks, in any order) and reads them back; distinct by recipe hash")


def gen_append_case(r):
    """several Metadata on a ROOT, written in two saves: the second (append / append-over) carries some entries the file has
    and some it lacks, in any order — all must survive, each with the content the mode prescribes"""
    names = r.sample(["m", "cal", "notes", "é", "with space", "a", "b2", "zz"], r.choice([2, 3, 4, 5]))
    def content(tag):
        return [[f"k{j}", gen.gen_md_value(r, 1, 2)] for j in range(r.choice([0, 1, 2]))] + [["tag", {"t": "str", "v": tag}]]
    first = [[nm, content("first")] for nm in names[:r.randrange(0, len(names))]]
    second_names = list(names)
    r.shuffle(second_names)
    second = [[nm, content("second")] for nm in second_names[:r.randrange(1, len(names) + 1)]]
    return {"kind": "append", "first": first, "second": second, "mode": r.choice(["a", "+", "append", "ao", "appendover"]),
            "under": r.choice(["root", "root", "node"])}


def run_append(case):
    import os
    def build(entries):
        root = emdfile.Root(name="r")
        holder = root
        if case["under"] == "node":
            holder = emdfile.Node(name="n")
            root.tree(holder)
        for nm, items in entries:
            holder.metadata = emdfile.Metadata(name=nm, data={k: gen.build_md_value(v) for k, v in items})
        return root
    def canon(entries):
        return {nm: mdvals.canon_items([[k, mdvals.pv(gen.build_md_value(v))] for k, v in items]) for nm, items in entries}
    p = common.fresh_path()
    io = {"saves": [], "back": None}
    try:
        for entries, mode in ((case["first"], "w"), (case["second"], case["mode"])):
            try:
                with common.quiet():
                    emdfile.save(p, build(entries), mode=mode)
                io["saves"].append({"ok": True})
            except Exception as e:
                io["saves"].append(alpha.exc_kind(e))
        try:
            with common.quiet():
                back = emdfile.read(p, emdpath="r" if case["under"] == "root" else "r/n", tree=False)
            if case["under"] == "node" and back.name != "n":
                back = back.tree("n")
            io["back"] = {str(nm): mdvals.canon_items([[k, mdvals.pv(v)] for k, v in m._params.items()]) for nm, m in back.metadata.items()}
        except Exception as e:
            io["back"] = alpha.exc_kind(e)
    finally:
        if os.path.exists(p):
            os.remove(p)
    over = case["mode"] in ("ao", "appendover")
    if case["under"] == "root":
        # root Metadata follow the union rule per entry name
        want = canon(case["first"])
        for nm, v in canon(case["second"]).items():
            if over or nm not in want:
                want[nm] = v
    else:
        # an inner node that the file holds is left as it is by an append and replaced as a whole by an append-over
        want = canon(case["second"]) if over else canon(case["first"])
    io["want"] = want
    return alpha.canon_obs(io)


def cases(tier, seed):
    n = 300 if tier == "quick" else 6000
    for i in range(n):
        r = common.case_rng(seed, PID, i)
        if i % 10 == 7:
            yield gen_append_case(r)
            continue
        used = set()
        items = [[gen.gen_name(r, used, odd=0.25), gen.gen_md_value(r, 0, r.choice([1, 2, 4]) if tier == "quick" else r.choice([2, 4, 7]))]
                 for _ in range(r.choice([1, 2, 4, 7]))]
        case = {"name": gen.gen_name(r, set(), odd=0.2), "items": items}
        # ALIASING: one container object reachable by two paths (under a second key, and / or inside another dict, possibly
        # deeper): values are compared by content, so sharing an object must not matter
        conts = []
        def collect(v, depth):
            if v["t"] in ("dict", "list", "tuple", "arr"):
                conts.append((v, depth))
            if v["t"] == "dict":
                for _, x in v["items"]:
                    collect(x, depth + 1)
        for _, v in items:
            collect(v, 0)
        if conts and r.random() < 0.3:
            case["share"] = True
            import copy
            for _ in range(r.choice([1, 1, 2])):
                v, _d = r.choice(conts)
                dicts = [c for c, _ in conts if c["t"] == "dict" and c is not v]
                where = r.random()
                if dicts and where < 0.6:
                    tgt = r.choice(dicts)
                    keys = {k for k, _ in tgt["items"]}
                    tgt["items"].append([gen.gen_name(r, keys, odd=0.1), copy.deepcopy(v)])
                else:
                    keys = {k for k, _ in items}
                    items.append([gen.gen_name(r, keys, odd=0.1), copy.deepcopy(v)])
        yield case


def run_both(drv, case):
    if case.get("kind") == "append":
        io = run_append(case)
        return io, (dict(io) if drv is not None else None)        # stated by the oracle; the append rule itself is modelled in C09
    share = {} if case.get("share") else None
    data = {k: gen.build_md_value(v, share) for k, v in case["items"]}
    md = emdfile.Metadata(name=case["name"], data=data)
    items_json = [[k, mdvals.pv(v)] for k, v in data.items()]
    io = {"obj": None, "back": None, "canon": mdvals.canon_items(items_json)}
    g = alpha.scratch_group()
    try:
        with common.quiet():
            md.to_h5(g)
        io["obj"] = mdvals.md_raw(g[md.name])
        try:
            with common.quiet():
                back = emdfile.Metadata.from_h5(g[md.name])
            io["back"] = mdvals.canon_items([[k, mdvals.pv(v)] for k, v in back._params.items()])
            io["name_back"] = back.name
        except Exception as e:
            io["back"] = alpha.exc_kind(e)
    except Exception as e:
        io["obj"] = alpha.exc_kind(e)
    mo = None
    if drv is not None:
        mo = drv.ask({"op": "md", "items": mdvals.model_view(items_json)})
        if isinstance(mo.get("back"), list):
            mo["back"] = mdvals.canon_items(mo["back"])
        if isinstance(mo.get("canon"), list):
            mo["canon"] = mdvals.canon_items(mo["canon"])
        mo["name_back"] = io.get("name_back")
        if "name_back" not in io:
            mo.pop("name_back")
    return alpha.canon_obs(io), (alpha.canon_obs(mo) if mo is not None else None)


def oracle(case, obs):
    if case.get("kind") == "append":
        if any(sv != {"ok": True} for sv in obs["saves"]):
            return {"save_failed_for_documented_kinds": obs["saves"]}
        if isinstance(obs["back"], dict) and "err" in obs["back"] and len(obs["back"]) == 1:
            return {"read_failed": obs["back"]}
        if obs["back"] != obs["want"]:
            missing = sorted(set(obs["want"]) - set(obs["back"]))
            extra = sorted(set(obs["back"]) - set(obs["want"]))
            diff = sorted(k for k in obs["want"] if k in obs["back"] and obs["want"][k] != obs["back"][k])
            return {"metadata_of_the_node_after_two_saves": {"missing": missing, "unexpected": extra, "different": diff}, "mode": case["mode"]}
        return None
    if isinstance(obs["obj"], dict) and "err" in obs["obj"]:
        return {"save_failed_for_documented_kinds": obs["obj"]}
    if isinstance(obs["back"], dict) and "err" in obs["back"]:
        return {"read_failed": obs["back"]}
    if obs["back"] != obs["canon"]:
        a = {k: v for k, v in obs["canon"]}
        b = {k: v for k, v in obs["back"]}
        if set(a) != set(b):
            return {"keys_saved": sorted(a), "keys_read": sorted(b)}
        for k in a:
            if a[k] != b[k]:
                return {"key": k, "saved": a[k], "read": b[k]}
    if obs.get("name_back") != case["name"]:
        return {"name_saved": case["name"], "name_read": obs.get("name_back")}
    return None


def known_match(case, fail, finding):
    return False


def nontrivial(case):
    if case.get("kind") == "append":
        return True
    return any(v["t"] in ("dict", "tuple", "list") for _, v in case["items"])


def classify(case, obs):
    if case.get("kind") == "append":
        return ["two_saves_" + ("over" if case["mode"] in ("ao", "appendover") else "append") + "_" + case["under"]]
    out = []
    def walk(v):
        out.append("kind_" + v["t"])
        for x in v.get("xs", []):
            pass
        for _, x in v.get("items", []) if v["t"] == "dict" else []:
            walk(x)
    for _, v in case["items"]:
        walk(v)
    return out


def search_cases(tier, seed):
    yield from cases("thorough", seed + 141650939)
