"""C10 — several trees in one file stay separate and individually readable."""
from harness import common, gen, hist, alpha

PID = "C10"
RULE = ("2-4 trees with distinct root names plus unrooted nodes / arrays / dicts; histories of 1-4 saves into one file in random "
        "order: list or tuple saves (mixed lists incl. rooted direct children), whole-root appends, append-overs, targeted appends; "
        "raw walk after every save, then read without path and read of every root; oracle: one top-level tree per root name, "
        "untargeted trees and the header/UUID unchanged by every save, documented layout of mixed lists; "
        "same-named children planted in different trees (and preferred by the list generator), a node path of one tree spelling "
        "'<root of another tree>/<a child of it>' with a directed three-save stream; "
        "non-trivial = file ends with >= 2 roots; distinct by recipe hash")


def gen_list(r, trees, unrooted_ids, allow_rooted=True):
    items = []
    tids = list(trees)
    r.shuffle(tids)
    def rooted_from(chosen):
        """direct children of the chosen trees; by preference children that have the SAME NAME in different trees (a node's
        path is relative to its own root)"""
        out = []
        per = {tid: [k["name"] for k in trees[tid]["kids"]] for tid in chosen}
        common = sorted(set.intersection(*[set(v) for v in per.values()])) if len(per) > 1 else []
        for tid in chosen:
            kids = list(per[tid])
            r.shuffle(kids)
            if common and r.random() < 0.7:
                c = common[0]
                kids = [c] + [k for k in kids if k != c]
            for kn in kids[:r.choice([1, 2])]:
                out.append({"node": [tid, [kn]]})
        return out
    if allow_rooted and r.random() < 0.3:
        # a list of rooted nodes ONLY (no Root, nothing unrooted, no array, no dict)
        items = rooted_from(r.sample(list(trees), k=min(len(trees), r.choice([1, 2, 2]))))
        if items:
            return {"kind": r.choice(["list", "tuple"]), "items": items}
    for tid in tids[:r.randrange(0, len(tids) + 1)]:
        items.append({"root": tid})
    if allow_rooted and r.random() < 0.5:
        # rooted direct children, from one or two trees
        items += rooted_from(r.sample(list(trees), k=min(len(trees), r.choice([1, 1, 2]))))
    for uid in unrooted_ids:
        if r.random() < 0.5:
            items.append({"unrooted": uid})
    for _ in range(r.choice([0, 0, 1, 2])):
        items.append({"array": gen.gen_arr(r, maxrank=2) | {"shape": [r.randrange(1, 3), 2]}})
    for _ in range(r.choice([0, 0, 1, 2])):
        items.append({"dict": [[gen.gen_name(r, set()), gen.gen_md_value(r, 1, 2)] for _ in range(r.randrange(0, 3))]})
    r.shuffle(items)
    if not items:
        items.append({"root": tids[0]})
    return {"kind": r.choice(["list", "list", "tuple"]), "items": items}


def cases(tier, seed):
    n = 120 if tier == "quick" else 2000
    for i in range(n):
        r = common.case_rng(seed, PID, i)
        nt = r.choice([2, 2, 3, 4])
        trees = {f"T{k}": gen.gen_tree(r, rootname=f"R{k}", maxdepth=r.choice([1, 2, 3]), md=0.5, avoid_prefix=["root_savedlist", "array_", "dictionary_"])
                 for k in range(nt)}
        # a node may be called like the root of ANOTHER tree of the file (names are only unique among siblings)
        for k in range(nt):
            t = trees[f"T{k}"]
            if t["kids"] and r.random() < 0.35:
                other = f"R{r.choice([j for j in range(nt) if j != k])}"
                tgt = r.choice(t["kids"])
                if other not in [x["name"] for x in t["kids"]]:
                    tgt["name"] = other
        # direct children with the SAME name in two trees
        if nt >= 2 and r.random() < 0.35:
            a, b = r.sample(range(nt), 2)
            ta, tb = trees[f"T{a}"], trees[f"T{b}"]
            if ta["kids"] and tb["kids"]:
                nm = r.choice(ta["kids"])["name"]
                tgt = r.choice(tb["kids"])
                if nm not in [x["name"] for x in tb["kids"]]:
                    tgt["name"] = nm
        # a node path of one tree that spells "<root of another tree>/<a child of that root>": T_a holds <R_b>/<c> and tree
        # R_b holds <c>; the runtime node has a child the file will not have at first
        coincide = None
        if r.random() < 0.3:
            a, b = r.sample(range(nt), 2)
            ta, tb = trees[f"T{a}"], trees[f"T{b}"]
            if ta["kids"] and tb["kids"]:
                holder = next((x for x in ta["kids"] if x["name"] == f"R{b}"), None)
                if holder is None and f"R{b}" not in [x["name"] for x in ta["kids"]]:
                    holder = r.choice(ta["kids"])
                    if f"R{b}" not in gen.reserved_names(holder):
                        holder["name"] = f"R{b}"
                    else:
                        holder = None
                if holder is not None and holder["name"] == f"R{b}":
                    cname = r.choice(tb["kids"])["name"]
                    if cname not in gen.reserved_names(holder):
                        kid = next((x for x in holder["kids"] if x["name"] == cname), None)
                        if kid is None:
                            kid = {"name": cname, "cls": "Node", "pay": gen.gen_payload(r, "Node"), "md": [], "kids": []}
                            holder["kids"].append(kid)
                        if not kid["kids"]:
                            kid["kids"].append({"name": "onlyhere", "cls": "Node", "pay": gen.gen_payload(r, "Node"), "md": [], "kids": []})
                        coincide = (f"T{a}", f"T{b}", [f"R{b}", cname])
        unrooted = {}
        for k in range(r.choice([0, 1, 2])):
            cls = r.choice(gen.CLASSES)
            unrooted[f"U{k}"] = {"name": f"u{k}" + r.choice(["", " x", "é"]), "cls": cls, "pay": gen.gen_payload(r, cls),
                                 "md": [gen.gen_metadata(r, set())] if r.random() < 0.4 else [], "kids": []}
        steps = []
        first = True
        directed = None
        if i % 8 == 5:
            # directed: a file exists, then a list save in OVERWRITE mode — every kind of list, rooted-only ones included
            directed = r.choice(["o", "overwrite"])
            steps.append({"do": "save", "path": "A", "src": r.choice(list(trees)), "target": [], "mode": "w", "tree": True, "emdpath": None})
            steps.append({"do": "walk", "path": "A"})
            steps.append({"do": "save", "path": "A", "mode": directed, "tree": True, "emdpath": None, "input": gen_list(r, trees, list(unrooted))})
            steps.append({"do": "walk", "path": "A"})
            first = False
        if i % 8 == 2 and directed is None:
            # directed: the SAME unrooted node is saved twice in one process, first inside a tuple, then inside a list, each time
            # with a dict of its own: the second file holds what the second call was given (an unrooted node is handed back
            # unrooted whatever sequence type it travelled in)
            if not unrooted:
                unrooted["U0"] = {"name": "u0", "cls": "Node", "pay": {}, "md": [], "kids": []}
            uid = sorted(unrooted)[0]
            directed = "tuple_then_list"
            for kind, val in (("tuple", 1), (r.choice(["list", "tuple"]), 2)):
                steps.append({"do": "save", "path": "A", "mode": "w" if first else r.choice(["o", "overwrite"]), "tree": True, "emdpath": None,
                              "input": {"kind": kind, "items": [{"unrooted": uid}, {"dict": [["which", {"t": "int", "v": val}]]}]}})
                steps.append({"do": "walk", "path": "A"})
                first = False
        if coincide is not None and directed is None:
            # directed: the other tree is in the file; the node alone is appended at its own path, then its branch
            ta_id, tb_id, pth = coincide
            directed = "coincide"
            steps.append({"do": "save", "path": "A", "src": tb_id, "target": [], "mode": "w", "tree": True, "emdpath": None})
            steps.append({"do": "walk", "path": "A"})
            steps.append({"do": "save", "path": "A", "src": ta_id, "target": pth, "mode": "a", "tree": False, "emdpath": None})
            steps.append({"do": "walk", "path": "A"})
            steps.append({"do": "save", "path": "A", "src": ta_id, "target": pth, "mode": r.choice(["a", "ao"]),
                          "tree": r.choice([True, True, None]), "emdpath": None})
            steps.append({"do": "walk", "path": "A"})
            first = False
        if i % 8 == 7 and directed is None:
            # directed (state that leaks between calls): a node of a tree the file does NOT hold is grafted under an emdpath into
            # a tree it holds — no new top-level tree appears — then the file is listed, and then that other tree is appended
            # whole: it must become a further top-level tree, and the listing in between names exactly the trees in the file
            fps = [p_ for p_ in gen.tree_paths(trees["T1"]) if p_]
            if fps:
                directed = "foreign_node_then_its_root"
                steps.append({"do": "save", "path": "A", "src": "T0", "target": [], "mode": "w", "tree": True, "emdpath": None})
                steps.append({"do": "walk", "path": "A"})
                ep = "/".join(["R0"] + list(r.choice(gen.tree_paths(trees["T0"]))))
                steps.append({"do": "save", "path": "A", "src": "T1", "target": list(r.choice(fps)), "mode": r.choice(["a", "ao"]),
                              "tree": r.choice([True, True, False]), "emdpath": ep})
                steps.append({"do": "walk", "path": "A"})
                steps.append({"do": "read", "path": "A", "emdpath": None, "tree": True})
                steps.append({"do": "save", "path": "A", "src": "T1", "target": [], "mode": "a", "tree": True, "emdpath": None})
                steps.append({"do": "walk", "path": "A"})
                first = False
        for _ in range(r.choice([1, 2, 3, 4]) if directed is None else r.choice([0, 1])):
            kind = r.random()
            mode = "w" if first else r.choice(["a", "ao", "append", "appendover"])
            if first and r.random() < 0.3:
                mode = r.choice(["a", "o", "ao"])
            if not first and r.random() < 0.12:
                mode = r.choice(["o", "overwrite"])        # a later save may also REPLACE the file: nothing of the old one stays
            if kind < 0.45:
                st = {"do": "save", "path": "A", "mode": mode, "tree": True, "emdpath": None,
                      "input": gen_list(r, trees, list(unrooted))}
            elif kind < 0.8:
                tid = r.choice(list(trees))
                st = {"do": "save", "path": "A", "src": tid, "target": [], "mode": mode, "tree": True, "emdpath": None}
            else:
                tid = r.choice(list(trees))
                st = {"do": "save", "path": "A", "src": tid, "target": list(r.choice(gen.tree_paths(trees[tid]))), "mode": mode,
                      "tree": r.choice([True, False, None]), "emdpath": None}
            steps.append(st)
            steps.append({"do": "walk", "path": "A"})
            first = False
        steps.append({"do": "read", "path": "A", "emdpath": None, "tree": True})
        for k in range(nt):
            steps.append({"do": "read", "path": "A", "emdpath": f"R{k}", "tree": None})
        steps.append({"do": "read", "path": "A", "emdpath": "root_savedlist", "tree": None})
        steps.append({"do": "info", "path": "A"})
        yield {"trees": trees, "unrooted": unrooted, "steps": steps, "pathlib": r.random() < 0.3}


def run_both(drv, case):
    iobs, msteps = hist.run_impl(case)
    hist.LAST["msteps"] = msteps
    mobs = hist.run_model(drv, msteps, len(iobs)) if drv is not None else None
    return hist.canon_list(iobs), (hist.canon_list(mobs) if mobs is not None else None)


def targeted_roots(st, ms):
    """root names a save may legitimately touch"""
    if "input" in st:
        names = set()
        for it, j in zip(st["input"]["items"], ms["input"]["items"]):
            if "root" in j:
                names.add(j["root"]["n"])
            elif "rooted" in j:
                names.add(j["rooted"]["root"]["n"])
            else:
                names.add("root_savedlist")
        return names
    if st.get("emdpath"):
        # a save under an emdpath writes into the tree the emdpath names (first component), whatever tree the node comes from
        return {[c for c in st["emdpath"].split("/") if c][0]}
    return {ms["src"]["root"]["n"]} if "root" in ms["src"] else {ms["src"]["unrooted"]["n"] + "_root"}


def oracle(case, obs):
    steps, ms = case["steps"], hist.LAST["msteps"]
    prev = None
    last = None
    for idx, (st, o) in enumerate(zip(steps, obs)):
        if st["do"] == "save":
            last = (st, ms[idx], o)
        elif st["do"] == "walk":
            if "h5" not in o:
                if last and last[2] == {"ok": True}:
                    return {"step": idx, "no_file_after_successful_save": o}
                continue
            cur = {k: v for k, v in o["h5"]["k"]}
            hdr = o["h5"]["g"]
            untagged = [k for k, v in o["h5"]["k"] if not ("g" in v and v["g"].get("emd_group_type") == "root")]
            if untagged:
                return {"step": idx, "top_level_non_root": untagged}
            if prev is not None and last is not None and cls_mode(last[0]["mode"]) == "o" and last[2] == {"ok": True}:
                # overwrite mode REPLACES the file: the old trees and the old header are gone by definition (C11); what the
                # new file must hold is exactly what this one save wrote
                st0, ms0, o0 = last
                touched = targeted_roots(st0, ms0)
                stale = sorted(set(cur) - touched)
                if stale:
                    return {"step": idx, "overwrite_mode_kept_old_trees": stale}
                if hdr.get("UUID") == prev[1].get("UUID"):
                    return {"step": idx, "overwrite_mode_kept_the_old_header": True}
            elif prev is not None and last is not None:
                st0, ms0, o0 = last
                touched = targeted_roots(st0, ms0)
                for name, tree in prev[0].items():
                    if name not in cur:
                        return {"step": idx, "root_lost": name}
                    if name not in touched and alpha.canon_obs(tree) != alpha.canon_obs(cur[name]):
                        return {"step": idx, "untargeted_tree_changed": name}
                if hdr != prev[1] and not (cls_mode(st0["mode"]) == "o"):
                    return {"step": idx, "header_changed": [prev[1], hdr]}
                new = set(cur) - set(prev[0])
                if o0 == {"ok": True} and not new <= touched:
                    return {"step": idx, "unexpected_new_roots": sorted(new - touched)}
            if last is not None and last[2] == {"ok": True} and "input" in last[0]:
                f = check_list_layout(last[0], last[1], cur)
                if f:
                    return dict(f, step=idx)
            prev = (cur, hdr)
        elif st["do"] == "read" and prev is not None:
            names = sorted(prev[0])
            if st["emdpath"] is None:
                if len(names) >= 2:
                    if o.get("kind") != "rootnames" or sorted(o["names"]) != names:
                        return {"step": idx, "read_without_path": o, "expected": names}
            elif st["emdpath"] in prev[0]:
                if o.get("kind") != "node":
                    return {"step": idx, "root_not_readable": st["emdpath"], "got": o}
                want = hist.obj_to_tree(st["emdpath"], prev[0][st["emdpath"]])
                want = dict(want, c="Root", t="root")
                if alpha.canon_obs(o["root"]) != alpha.canon_obs(want):
                    return {"step": idx, "read_differs_from_file": st["emdpath"]}
            else:
                if "err" not in o:
                    return {"step": idx, "absent_root_read": o}
    return None


def cls_mode(m):
    return {"w": "w", "write": "w", "o": "o", "overwrite": "o"}.get(m, "a")


def check_list_layout(st, ms, cur):
    """documented layout of a mixed list: roots whole, rooted nodes alone under a copy of their root (with the root's
    metadata), everything unrooted under root_savedlist"""
    items = ms["input"]["items"]
    na = nd = 0
    sl = cur.get("root_savedlist")
    for j in items:
        if "unrooted" in j or "array" in j or "dict" in j:
            if sl is None:
                return {"missing_root_savedlist": True}
    if sl is not None:
        slt = hist.obj_to_tree("root_savedlist", sl)
        kids = {k["n"]: k for k in slt["k"]}
        mds = {}
        for k, o in slt["b"]:
            if k == "metadatabundle":
                mds = dict(o["k"])
        # order of arrays / dicts is their order among the non-node items
        for j in items:
            if "array" in j:
                nm = f"array_{na}"; na += 1
                if cur_mode_is_first_write(st) and (nm not in kids or alpha.canon_obs(kids[nm]["b"]) != alpha.canon_obs(j["array"])):
                    return {"array_item_not_stored_as": nm}
            elif "dict" in j:
                nm = f"dictionary_{nd}"; nd += 1
                if cur_mode_is_first_write(st) and (nm not in mds or alpha.canon_obs(mds[nm]) != alpha.canon_obs(j["dict"])):
                    return {"dict_item_not_stored_as": nm}
            elif "unrooted" in j:
                u = j["unrooted"]
                if cur_mode_is_first_write(st) and (u["n"] not in kids or alpha.canon_obs(hist.alone(kids[u["n"]])) != alpha.canon_obs(dict(u, k=[]))):
                    return {"unrooted_item_not_under_root_savedlist": u["n"]}
    for j in items:
        if "root" in j and cur_mode_is_first_write(st):
            name = j["root"]["n"]
            if name not in cur or alpha.canon_obs(hist.obj_to_tree(name, cur[name])) != alpha.canon_obs(j["root"]):
                # a root also named by rooted items is written whole first, then its items are overwritten alone: same content
                return {"root_item_not_stored_whole": name}
        if "rooted" in j:
            rt = j["rooted"]["root"]
            name = rt["n"]
            if name not in cur:
                return {"rooted_item_root_missing": name}
            got = hist.obj_to_tree(name, cur[name])
            node = hist.tree_at(rt, j["rooted"]["target"])
            g = hist.tree_at(got, j["rooted"]["target"])
            if g is None or alpha.canon_obs(hist.alone(g)) != alpha.canon_obs(hist.alone(node)):
                return {"rooted_item_not_stored": j["rooted"]["target"]}
            if alpha.canon_obs(got["b"]) != alpha.canon_obs(rt["b"]):
                return {"rooted_item_root_metadata_differs": name}
    return None


def cur_mode_is_first_write(st):
    # exact content checks only when the list save created the file (write / overwrite): later list saves in append
    # mode skip names that already exist, which is documented behaviour outside this property
    return st["mode"] in ("w", "o")


def known_match(case, fail, finding):
    return False


def nontrivial(case):
    return len(case["trees"]) >= 2


def classify(case, obs):
    out = []
    for s, o in zip(case["steps"], obs):
        if s["do"] == "save":
            out.append(("list" if "input" in s else "node") + "_" + ("ok" if o == {"ok": True} else o.get("err", "?")))
    return out


def search_cases(tier, seed):
    yield from cases("thorough", seed + 32452843)
